package main

import (
	"fmt"
	"math/rand/v2"
	"strings"

	"github.com/miekg/dns"
	"github.com/semihalev/sdns/zzverif/authsim"
	zm "github.com/semihalev/sdns/zzverif/zonemodel"
)

// ZoneMode is the signing pattern of one level.
type ZoneMode string

const (
	modeNSEC     ZoneMode = "nsec"
	modeNSEC3    ZoneMode = "nsec3"
	modeOptOut   ZoneMode = "optout"
	modeUnsigned ZoneMode = "unsigned" // unsigned zone, insecure delegation
	modeIsland   ZoneMode = "island"   // signed zone, parent publishes no DS
	modeWrongDS  ZoneMode = "wrongds"  // signed zone, parent's DS matches no key (bogus)
)

// LevelSpec is the serialisable description of one zone of a hierarchy.
type LevelSpec struct {
	Role      string   `json:"role"` // root tld zone other sub
	Apex      string   `json:"apex"`
	Mode      ZoneMode `json:"mode"`
	Algorithm uint8    `json:"alg"`
	SplitKeys bool     `json:"split_keys"`
	CloneKey  bool     `json:"clone_key"`
	Salt      string   `json:"salt,omitempty"`
	Iter      uint16   `json:"iter,omitempty"`
	Servers   []string `json:"servers"`
	// DSLayout, when set, is the DS RRset the parent publishes for this zone,
	// in wire order: "ok" (SHA-256 of the KSK), "ok384", "ok1", "digest:<n>"
	// (digest type nobody implements), "alg:<n>" (key algorithm nobody
	// implements). Empty = what Mode implies.
	DSLayout []string `json:"ds_layout,omitempty"`
}

// HierSpec is the serialisable description of one generated hierarchy.
type HierSpec struct {
	Index    int         `json:"index"`
	Levels   []LevelSpec `json:"levels"`
	NoAnchor bool        `json:"no_anchor,omitempty"`
	QMin     int         `json:"qname_min_level"`
	// Directed names a hand-built scenario (directed.go); "" = generated.
	Directed string `json:"directed,omitempty"`
}

// Pattern is the signing pattern (evidence key component).
func (h *HierSpec) Pattern() string {
	var p []string
	for _, l := range h.Levels {
		m := l.Role[:1] + ":" + string(l.Mode)
		if len(l.DSLayout) > 0 {
			if layoutUsable(l.DSLayout) {
				m += "+mixds"
			} else {
				m += "+unusableds"
			}
		}
		p = append(p, m)
	}
	s := strings.Join(p, "/")
	if h.NoAnchor {
		s += "/noanchor"
	}
	return s
}

func (h *HierSpec) level(role string) *LevelSpec {
	for i := range h.Levels {
		if h.Levels[i].Role == role {
			return &h.Levels[i]
		}
	}
	return nil
}

func pickMode(rng *rand.Rand, allowBroken bool) ZoneMode {
	x := rng.IntN(100)
	switch {
	case x < 32:
		return modeNSEC
	case x < 60:
		return modeNSEC3
	case x < 74:
		return modeOptOut
	case x < 86:
		return modeUnsigned
	case x < 93:
		return modeIsland
	default:
		if allowBroken {
			return modeWrongDS
		}
		return modeNSEC
	}
}

func pickAlg(rng *rand.Rand) uint8 {
	switch x := rng.IntN(100); {
	case x < 58:
		return dns.ECDSAP256SHA256
	case x < 72:
		return dns.RSASHA256
	case x < 86:
		return dns.ECDSAP384SHA384
	default:
		return dns.ED25519
	}
}

var labelPool = []string{"alpha", "Bravo", "c-3", "delta", "e", "fox-trot", "golf", "hotel9", "india", "JULIET"}

// genHier draws one hierarchy. Everything that shapes behaviour comes from rng.
func genHier(rng *rand.Rand, index int) *HierSpec {
	h := &HierSpec{Index: index}
	h.QMin = []int{0, 3, 3, 5}[rng.IntN(4)]
	tldLabel := strings.ToLower(labelPool[rng.IntN(len(labelPool))]) + fmt.Sprint(index%7)
	zoneLabel := strings.ToLower(labelPool[rng.IntN(len(labelPool))])
	tld := tldLabel + "."
	zone := zoneLabel + "." + tld
	other := "other." + tld
	sub := "sub." + zone

	mk := func(role, apex string, mode ZoneMode) LevelSpec {
		l := LevelSpec{Role: role, Apex: apex, Mode: mode, Algorithm: pickAlg(rng)}
		l.SplitKeys = rng.IntN(3) == 0
		l.CloneKey = rng.IntN(4) == 0
		if mode == modeNSEC3 || mode == modeOptOut {
			l.Salt = []string{"", "aabb", "00", "deadbeef01"}[rng.IntN(4)]
			l.Iter = uint16([]int{0, 0, 1, 5, 12}[rng.IntN(5)])
		}
		return l
	}
	// The root is always NSEC-signed, like the real one: sdns cannot validate
	// an NXDOMAIN from an NSEC3-signed root (FINDINGS.md, observation B), which
	// would only turn controls into SERVFAIL.
	_ = rng.IntN(3) // keep the stream position stable
	root := mk("root", ".", modeNSEC)
	root.Servers = []string{"root-a"}
	tl := mk("tld", tld, pickMode(rng, false))
	tl.Servers = []string{"tld-a"}
	if rng.IntN(2) == 0 {
		tl.Servers = append(tl.Servers, "tld-b")
	}
	zl := mk("zone", zone, pickMode(rng, true))
	zl.Servers = []string{"zone-a"}
	switch rng.IntN(4) {
	case 0:
		zl.Servers = append(zl.Servers, "zone-b")
	case 1:
		zl.Servers = []string{"tld-a"} // parent and child on one server
		if len(tl.Servers) == 2 {
			zl.Servers = append(zl.Servers, "zone-a")
		}
	}
	om := modeNSEC
	switch rng.IntN(5) {
	case 0:
		om = modeNSEC3
	case 1:
		om = modeUnsigned
	}
	ol := mk("other", other, om)
	ol.Servers = []string{"other-a"}
	if rng.IntN(3) == 0 {
		ol.Servers = []string{"tld-a"}
	}
	h.Levels = []LevelSpec{root, tl, zl, ol}
	if rng.IntN(2) == 0 {
		sl := mk("sub", sub, pickMode(rng, false))
		sl.Servers = []string{"sub-a"}
		if rng.IntN(3) == 0 {
			sl.Servers = []string{zl.Servers[0]}
		}
		h.Levels = append(h.Levels, sl)
	}
	h.NoAnchor = rng.IntN(15) == 0
	return h
}

// world is a built hierarchy.
type world struct {
	spec  *HierSpec
	u     *authsim.Universe
	zones map[string]*zm.Zone // by role
	obs   dsObserver
}

func (w *world) apex(role string) string {
	if z := w.zones[role]; z != nil {
		return z.Apex()
	}
	return ""
}

func buildWorld(h *HierSpec) *world {
	w := &world{spec: h, u: authsim.New(), zones: map[string]*zm.Zone{}}
	srv := func(name string) *authsim.Server {
		if s := w.u.Server(name); s != nil {
			return s
		}
		return w.u.AddServer(name)
	}
	for _, l := range h.Levels {
		var ss []*authsim.Server
		for _, n := range l.Servers {
			ss = append(ss, srv(n))
		}
		spec := zm.Spec{Apex: l.Apex, Signed: l.Mode != modeUnsigned, Algorithm: l.Algorithm, SplitKeys: l.SplitKeys, CloneKeyTag: l.CloneKey}
		if l.Mode == modeNSEC3 || l.Mode == modeOptOut {
			spec.NSEC3 = &zm.NSEC3Params{Salt: l.Salt, Iterations: l.Iter, OptOut: l.Mode == modeOptOut}
		}
		if l.Role == "root" && h.NoAnchor {
			// the root is signed, but the resolver is given no trust anchor
			spec.Signed = true
		}
		w.zones[l.Role] = w.u.AddZone(spec, ss...)
	}
	deleg := func(parent, child string) {
		p, c := w.zones[parent], w.zones[child]
		if p == nil || c == nil {
			return
		}
		o := authsim.DelegOpts{}
		switch h.level(child).Mode {
		case modeIsland, modeUnsigned:
			o.DS = authsim.DSNone
		case modeWrongDS:
			o.DS = authsim.DSWrong
		}
		w.u.Delegate(p, c, o)
		if lay := h.level(child).DSLayout; len(lay) > 0 {
			p.SetDS(c.Apex(), layoutDS(c, lay), 0)
		}
	}
	deleg("root", "tld")
	deleg("tld", "zone")
	deleg("tld", "other")
	deleg("zone", "sub")

	fill := func(role string) {
		z := w.zones[role]
		if z == nil {
			return
		}
		a := z.Apex()
		z.AddMarked("www."+a, dns.TypeA, 300)
		z.AddMarked("www."+a, dns.TypeTXT, 300)
		z.AddMarked("mx."+a, dns.TypeMX, 600)
		z.AddMarked("*.wild."+a, dns.TypeA, 120)
		z.AddMarked("real.wild."+a, dns.TypeA, 120)
		z.AddMarked("a.b.c."+a, dns.TypeTXT, 300)
		z.AddMarked("zz-last."+a, dns.TypeA, 300)
		if o := w.zones["other"]; o != nil && role != "other" {
			z.AddCNAME("alias."+a, "www."+o.Apex(), 300)
			z.AddDNAME("dn."+a, o.Apex(), 300)
		}
		z.AddCNAME("loc."+a, "www."+a, 300)
		if h.Directed != "" {
			for _, n := range []string{"rec1", "out1", "out2"} {
				z.AddMarked(n+"."+a, dns.TypeA, 300)
			}
			z.AddMarked("rec2."+a, dns.TypeTXT, 300)
			z.AddMarked("out3."+a, dns.TypeTXT, 300)
		}
	}
	fill("zone")
	fill("other")
	fill("sub")
	if directedFamily(h.Directed) == "chase" {
		addChaseRecords(w)
	}
	if t := w.zones["tld"]; t != nil {
		t.AddMarked("host."+t.Apex(), dns.TypeA, 300)
	}
	return w
}

// QuerySpec is one client question with its flags.
type QuerySpec struct {
	Kind  string `json:"kind"`
	Name  string `json:"name"`
	Type  uint16 `json:"type"`
	EDNS  bool   `json:"edns"`
	DO    bool   `json:"do"`
	AD    bool   `json:"ad"`
	CD    bool   `json:"cd"`
	Proto string `json:"proto,omitempty"`
	// Entry: "" = decoded entry (Server.ServeMsg, what DoH/DoQ use); "wire" /
	// "wire-udp" = wire-born entry (Server.ServeRaw with a strict job, what the
	// owned TCP / UDP engines use).
	Entry string `json:"entry,omitempty"`
}

func (q QuerySpec) msg(id uint16) *dns.Msg {
	m := new(dns.Msg)
	m.SetQuestion(q.Name, q.Type)
	m.Id = id
	m.AuthenticatedData = q.AD
	m.CheckingDisabled = q.CD
	if q.EDNS {
		m.SetEdns0(1232, q.DO)
	}
	return m
}

func (q QuerySpec) String() string {
	f := ""
	if q.EDNS {
		f += "E"
	}
	if q.DO {
		f += "D"
	}
	if q.AD {
		f += "A"
	}
	if q.CD {
		f += "C"
	}
	if q.Entry != "" {
		f += "|" + q.Entry
	}
	return fmt.Sprintf("%s %s [%s] (%s)", q.Name, dns.TypeToString[q.Type], f, q.Kind)
}

// queryKinds lists the question shapes for a world; "salt" keeps absent /
// wildcard-expanded names distinct between cases so negative caches of one
// case never answer the next.
func (w *world) queryKinds(salt string) []QuerySpec {
	var out []QuerySpec
	add := func(kind, name string, t uint16) {
		out = append(out, QuerySpec{Kind: kind, Name: name, Type: t, EDNS: true, DO: true})
	}
	for _, role := range []string{"zone", "sub"} {
		z := w.zones[role]
		if z == nil {
			continue
		}
		a, p := z.Apex(), role+"-"
		add(p+"pos", "www."+a, dns.TypeA)
		add(p+"nodata", "www."+a, dns.TypeAAAA)
		add(p+"wild", "w"+salt+".wild."+a, dns.TypeA)
		add(p+"wildnodata", "w"+salt+".wild."+a, dns.TypeMX)
		add(p+"realwild", "real.wild."+a, dns.TypeA)
		add(p+"ent", "b.c."+a, dns.TypeA)
		add(p+"nx", "nx"+salt+"."+a, dns.TypeA)
		add(p+"nxdeep", "x.y.nx"+salt+"."+a, dns.TypeTXT)
		add(p+"cname-in", "loc."+a, dns.TypeA)
		if w.zones["other"] != nil {
			add(p+"cname-x", "alias."+a, dns.TypeA)
			add(p+"dname", "www.dn."+a, dns.TypeA)
			add(p+"dname-nx", "nx"+salt+".dn."+a, dns.TypeA)
		}
		add(p+"ds", a, dns.TypeDS)
		add(p+"dnskey", a, dns.TypeDNSKEY)
		add(p+"mx", "mx."+a, dns.TypeMX)
	}
	if directedFamily(w.spec.Directed) == "chase" {
		z, o := w.zones["zone"], w.zones["other"]
		if z != nil && o != nil {
			add("zone-cname-hop3", "hop3."+z.Apex(), dns.TypeA)
			add("other-cname-back", "back."+o.Apex(), dns.TypeA)
			if w.zones["sub"] != nil {
				add("zone-cname-hop2", "hop2."+z.Apex(), dns.TypeA)
			}
		}
	}
	if t := w.zones["tld"]; t != nil {
		add("tld-nx", "nx"+salt+"."+t.Apex(), dns.TypeA)
		add("tld-pos", "host."+t.Apex(), dns.TypeA)
	}
	add("root-nx", "nx"+salt+".", dns.TypeA)
	return out
}

func randFlags(rng *rand.Rand, q QuerySpec) QuerySpec {
	q.EDNS = rng.IntN(5) != 0
	q.DO = q.EDNS && rng.IntN(3) != 0
	q.AD = rng.IntN(3) == 0
	q.CD = rng.IntN(6) == 0
	return q
}
