package main

import (
	"encoding/base32"
	"strings"

	"github.com/miekg/dns"
	zm "github.com/semihalev/sdns/zzverif/zonemodel"
)

// Denials of a CHILD zone's names whose proof records live in the PARENT.
//
// A negative reply for a name of the signed zone C (= c.z) carries C's genuine
// signed SOA, but the NSEC / NSEC3 records next to it are owned in the parent
// zone P (= c.parent): fabricated and unsigned, or fabricated and signed with
// P's own key. They are chosen so that they canonically cover (NXDOMAIN) or
// wildcard-match (NODATA) the name when looked at WITHOUT asking who owns and
// who signed them. C's signer never published them, so the reply is "missing
// its denial proof": SERVFAIL is the only legal outcome for a validating
// client, whatever else the reply contains.
//
// The position that matters most is a server that is authoritative for P and
// C at once (parent and child on one server, which the generator draws and
// the directed worlds shared-* fix): the resolver reached that server as one
// of P's, no referral to C is ever crossed, and the zone whose servers
// answered (P) differs from the zone whose key signed the reply (C). Records
// owned in P are then "in the zone that was asked" without being in the zone
// that was validated.
//
//	denial-parent-nsec[-psigned]    honest negative reply, proof replaced / mixed
//	denial-parent-nsec3[-psigned]   (genuine records that neither match nor cover
//	                                the name are kept: "mixed")
//	forge-neg-parent-nsec / -nsec3  an EXISTING name denied (A -> NXDOMAIN,
//	                                other types -> NODATA) the same way

var b32hex = base32.HexEncoding.WithPadding(base32.NoPadding)

// highLabel sorts after every label the worlds use ("zone", "sub", "other",
// the generated labels), so <apex> .. zzzz.<apex> spans the whole zone.
const highLabel = "zzzz"

func fabNSEC(owner, next string, types ...uint16) *dns.NSEC {
	return &dns.NSEC{Hdr: dns.RR_Header{Name: owner, Rrtype: dns.TypeNSEC, Class: dns.ClassINET, Ttl: 300}, NextDomain: next, TypeBitMap: types}
}

// nodataBitmap is a type bitmap that lacks qtype and CNAME.
func nodataBitmap(qtype uint16) []uint16 {
	if qtype == dns.TypeTXT {
		return []uint16{dns.TypeA, dns.TypeRRSIG, dns.TypeNSEC}
	}
	return []uint16{dns.TypeTXT, dns.TypeRRSIG, dns.TypeNSEC}
}

// parentNSECProof fabricates NSEC records owned in parent apex p that cover
// qname and the wildcard at p (nx), or cover qname and match that wildcard
// with a bitmap lacking qtype (NODATA through a wildcard, RFC 4035 §3.1.3.4).
func parentNSECProof(p string, qtype uint16, nx bool) []dns.RR {
	apexTypes := []uint16{dns.TypeNS, dns.TypeSOA, dns.TypeRRSIG, dns.TypeNSEC, dns.TypeDNSKEY}
	high := zm.Join(highLabel, p)
	if nx {
		return []dns.RR{fabNSEC(p, high, apexTypes...)}
	}
	wild := zm.Join("*", p)
	return []dns.RR{
		fabNSEC(p, wild, apexTypes...),
		fabNSEC(wild, high, nodataBitmap(qtype)...),
	}
}

type n3params struct {
	iter uint16
	salt string
}

func (np n3params) hash(name string) []byte {
	h, err := b32hex.DecodeString(strings.ToUpper(dns.HashName(zm.Canon(name), dns.SHA1, np.iter, np.salt)))
	if err != nil || len(h) != 20 {
		return nil
	}
	return h
}

func step(h []byte, d int) []byte {
	out := append([]byte(nil), h...)
	for i := len(out) - 1; i >= 0; i-- {
		if d > 0 {
			out[i]++
			if out[i] != 0 {
				break
			}
		} else {
			out[i]--
			if out[i] != 0xff {
				break
			}
		}
	}
	return out
}

func (np n3params) rec(p string, owner, next []byte, types ...uint16) *dns.NSEC3 {
	return &dns.NSEC3{
		Hdr:        dns.RR_Header{Name: zm.Join(strings.ToLower(b32hex.EncodeToString(owner)), p), Rrtype: dns.TypeNSEC3, Class: dns.ClassINET, Ttl: 300},
		Hash:       dns.SHA1,
		Iterations: np.iter,
		SaltLength: uint8(len(np.salt) / 2),
		Salt:       np.salt,
		HashLength: 20,
		NextDomain: b32hex.EncodeToString(next),
		TypeBitMap: types,
	}
}

// parentNSEC3Proof fabricates NSEC3 records owned directly below parent apex
// p (hash labels made with the parent's parameters): closest encloser = the
// child apex c (matching record), next-closer and wildcard covered (nx); or a
// record matching qname itself with a bitmap lacking qtype (NODATA).
func parentNSEC3Proof(parent *zm.Zone, c, qname string, qtype uint16, nx bool) []dns.RR {
	np := n3params{}
	if parent.UsesNSEC3() {
		np = n3params{iter: parent.Spec().NSEC3.Iterations, salt: parent.Spec().NSEC3.Salt}
	}
	p := parent.Apex()
	qname = zm.Canon(qname)
	if !nx {
		h := np.hash(qname)
		if h == nil {
			return nil
		}
		return []dns.RR{np.rec(p, h, step(h, 1), nodataBitmap(qtype)[:2]...)}
	}
	if !zm.IsProperSub(c, qname) {
		return nil
	}
	// next closer: one label longer than c along qname
	anc := zm.Ancestors(qname, c) // qname … c
	if len(anc) < 2 {
		return nil
	}
	nc := anc[len(anc)-2]
	hc, hn, hw := np.hash(c), np.hash(nc), np.hash(zm.Join("*", c))
	if hc == nil || hn == nil || hw == nil {
		return nil
	}
	return []dns.RR{
		np.rec(p, hc, step(hc, 1), dns.TypeA, dns.TypeRRSIG),
		np.rec(p, step(hn, -1), step(hn, 1), dns.TypeA, dns.TypeRRSIG),
		np.rec(p, step(hw, -1), step(hw, 1), dns.TypeA, dns.TypeRRSIG),
	}
}

// withParentSigs appends, after every record, an RRSIG made with the parent's
// own key (signer name = parent apex).
func withParentSigs(parent *zm.Zone, recs []dns.RR) []dns.RR {
	var out []dns.RR
	for _, rr := range recs {
		out = append(out, rr)
		if sig, err := parent.SignRRset([]dns.RR{rr}, nil); err == nil {
			sig.Hdr.Name = rr.Header().Name
			sig.Hdr.Rrtype = dns.TypeRRSIG
			sig.Hdr.Class = dns.ClassINET
			sig.TypeCovered = rr.Header().Rrtype
			out = append(out, sig)
		}
	}
	return out
}

func forgedParentProof(c *caseCtx, family string, psigned bool, qname string, qtype uint16, nx bool) []dns.RR {
	var recs []dns.RR
	if family == "nsec3" {
		recs = parentNSEC3Proof(c.parent, c.z.Apex(), qname, qtype, nx)
	} else {
		recs = parentNSECProof(c.parent.Apex(), qtype, nx)
	}
	if len(recs) == 0 {
		return nil
	}
	if psigned {
		return withParentSigs(c.parent, recs)
	}
	return recs
}

// keepGenuine filters the authority section of an honest negative reply: the
// SOA and everything that is not denial material stays; of the genuine NSEC
// records those stay that neither match nor cover qname (without the record
// about qname itself no NSEC proof is complete); genuine NSEC3 records go.
// It reports how many genuine denial records stayed.
func keepGenuine(ns []dns.RR, qname string) (out []dns.RR, kept int) {
	qname = zm.Canon(qname)
	keepOwner := map[string]bool{}
	for _, rr := range ns {
		if n, ok := rr.(*dns.NSEC); ok {
			owner, next := zm.Canon(n.Hdr.Name), zm.Canon(n.NextDomain)
			about := zm.Compare(owner, qname) == 0
			switch {
			case zm.Compare(owner, next) < 0:
				about = about || (zm.Compare(owner, qname) < 0 && zm.Compare(qname, next) < 0)
			default: // last record of the chain (or a single-name zone)
				about = about || zm.Compare(owner, qname) < 0 || zm.Compare(qname, next) < 0
			}
			if !about {
				keepOwner[owner] = true
				kept++
			}
		}
	}
	for _, rr := range ns {
		switch v := rr.(type) {
		case *dns.NSEC3:
			continue
		case *dns.NSEC:
			if !keepOwner[zm.Canon(v.Hdr.Name)] {
				continue
			}
		case *dns.RRSIG:
			if v.TypeCovered == dns.TypeNSEC3 || (v.TypeCovered == dns.TypeNSEC && !keepOwner[zm.Canon(v.Hdr.Name)]) {
				continue
			}
		}
		out = append(out, rr)
	}
	return out, kept
}

func parentDenialNeeds(psigned bool) func(c *caseCtx, q QuerySpec) bool {
	return func(c *caseCtx, q QuerySpec) bool {
		if !signedZone(c, q) || c.parent == nil || !zm.IsSub(c.z.Apex(), q.Name) {
			return false
		}
		return !psigned || c.parent.Signed()
	}
}

func parentDenialKind(name, family string, psigned bool) *tamperKind {
	return &tamperKind{Name: name, ZoneRoles: []string{roleNegative}, Breaks: true, Needs: parentDenialNeeds(psigned),
		Apply: func(c *caseCtx, q, m *dns.Msg, role string, atParent bool) bool {
			if len(q.Question) != 1 || len(m.Answer) != 0 {
				return false
			}
			qn, qt := q.Question[0].Name, q.Question[0].Qtype
			nx := m.Rcode == dns.RcodeNameError
			forged := forgedParentProof(c, family, psigned, qn, qt, nx)
			if len(forged) == 0 {
				return false
			}
			kept, n := keepGenuine(m.Ns, qn)
			m.Ns = append(kept, forged...)
			if n > 0 {
				c.pdMixed.Add(1)
			} else {
				c.pdReplaced.Add(1)
			}
			return true
		}}
}

func parentForgeKind(name, family string) *tamperKind {
	return &tamperKind{Name: name, ZoneRoles: []string{roleAnswer}, Breaks: true, Alters: true, Needs: parentDenialNeeds(false),
		Apply: func(c *caseCtx, q, m *dns.Msg, role string, atParent bool) bool {
			if len(q.Question) != 1 {
				return false
			}
			qn, qt := q.Question[0].Name, q.Question[0].Qtype
			nx := qt == dns.TypeA
			forged := forgedParentProof(c, family, false, qn, qt, nx)
			if len(forged) == 0 {
				return false
			}
			rcode := dns.RcodeSuccess
			if nx {
				rcode = dns.RcodeNameError
			}
			f := negativeShell(q, rcode)
			f.Ns = append(soaWithSig(c.z), forged...)
			replaceMsg(m, f)
			c.pdReplaced.Add(1)
			return true
		}}
}

var parentDenialKinds = []*tamperKind{
	parentDenialKind("denial-parent-nsec", "nsec", false),
	parentDenialKind("denial-parent-nsec-psigned", "nsec", true),
	parentDenialKind("denial-parent-nsec3", "nsec3", false),
	parentDenialKind("denial-parent-nsec3-psigned", "nsec3", true),
	parentForgeKind("forge-neg-parent-nsec", "nsec"),
	parentForgeKind("forge-neg-parent-nsec3", "nsec3"),
}

func isParentDenialKind(name string) bool {
	return strings.HasPrefix(name, "denial-parent-") || strings.HasPrefix(name, "forge-neg-parent-")
}

func init() { kinds = append(kinds, parentDenialKinds...) }
