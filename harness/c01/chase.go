package main

import (
	"fmt"
	"os"
	"strings"
	"time"

	"github.com/miekg/dns"
	"github.com/semihalev/sdns/zzverif/authsim"
	zm "github.com/semihalev/sdns/zzverif/zonemodel"
)

// Alias chains whose hops differ in security, asked again through the other
// entry of the server while every hop is still in the answer cache.
//
// The first resolution of "alias A" goes down the decoded path: the resolver
// drops the out-of-zone tail, the cache files the bare alias under (alias, A)
// with the alias zone's verdict, chases the target through the internal
// sub-pipeline and files (target, A) with the target zone's verdict. Every
// later client is answered by a COMPOSITION of those entries: by the decoded
// chase (searchAdditionalAnswer) for a DoH/DoQ/ServeMsg client, by the byte
// composer (serveChaseHit / composeWireChase) for a wire-born UDP/TCP client.
// "AD only when every RRset in the reply was validated … including replies
// later served from caches" has to hold for each composition, whatever the
// order of the hops' verdicts and whatever the order of the two entries.

// chainMix names the security profile of an alias chain, hop by hop
// (consecutive equal verdicts folded): "secure", "secure>insecure",
// "insecure>secure", "secure>insecure>secure" …
func chainMix(e expectation) string {
	var parts []string
	for _, st := range e.res.Steps {
		s := st.Status.String()
		if len(parts) == 0 || parts[len(parts)-1] != s {
			parts = append(parts, s)
		}
	}
	return strings.Join(parts, ">")
}

func aliasHops(e expectation) int { return len(e.res.Steps) }

// crossesZones: the chain's hops are answered by more than one zone.
func crossesZones(e expectation) bool {
	first := ""
	for i, st := range e.res.Steps {
		if len(st.Path) == 0 {
			continue
		}
		z := st.Path[len(st.Path)-1]
		if i == 0 {
			first = z
		} else if z != first {
			return true
		}
	}
	return false
}

// chainNames lists the owner names of the chain's hops.
func chainNames(q QuerySpec, e expectation) map[string]bool {
	names := map[string]bool{zm.Canon(q.Name): true}
	for _, st := range e.res.Steps {
		if st.Truth.Target != "" {
			names[zm.Canon(st.Truth.Target)] = true
		}
	}
	return names
}

// entryPermutations lists the later clients of one question: flag
// combinations × entry. wireFirst puts the wire-born clients first.
func entryPermutations(q QuerySpec, wireFirst bool) []QuerySpec {
	mk := func(entry string, edns, do, ad, cd bool) QuerySpec {
		x := q
		x.Entry, x.EDNS, x.DO, x.AD, x.CD = entry, edns, do, ad, cd
		return x
	}
	wire := []QuerySpec{
		mk("wire", true, true, false, false),
		mk("wire", true, true, true, false),
		mk("wire", false, false, true, false), // AD-only validating client
		mk("wire", true, false, true, false),
		mk("wire", true, true, false, true), // CD=1
		mk("wire", false, false, false, false),
		mk("wire", true, false, false, false),
		mk("wire-udp", true, true, false, false),
	}
	dec := []QuerySpec{
		mk("", true, true, false, false),
		mk("", false, false, true, false),
		mk("", true, true, true, true),
		mk("", false, false, false, false),
	}
	if wireFirst {
		return append(wire, dec...)
	}
	return append(dec, wire...)
}

// askJudge asks one question of an untampered history, judges the reply and
// records which serving path produced it.
func (run *runner) askJudge(w *world, st *authsim.RStack, index int, q QuerySpec, e expectation, phase string) (*dns.Msg, judgement) {
	r := run.r
	from := w.u.Log.Len()
	reply := run.ask(st, q)
	lw := run.lastWire
	path := ""
	if lw.chase {
		path = "wire-alias-chase"
	}
	j := judge(reply, judgeCtx{q: q, e: e, phase: "control", path: path})
	r.Eval(1)
	run.report(j, CaseSpec{Hier: index, Case: -1, Query: &q, Phase: phase}, w, reply, from)
	upstream := 0
	names := chainNames(q, e)
	for _, p := range w.u.Log.Since(from) {
		if names[p.QNameL] {
			upstream++
		}
	}
	run.noteServed(q, e, reply, upstream == 0)
	if debug {
		cls, _ := classify(reply, e)
		fmt.Fprintf(os.Stderr, "H%d %s %-52s -> %s ad=%v chase=%v flat=%v mix=%s %s\n", index, phase, q, cls, reply != nil && reply.AuthenticatedData, lw.chase, lw.flat, chainMix(e), j.Sig)
	}
	return reply, j
}

// noteServed keeps the evidence of alias compositions served from the caches.
func (run *runner) noteServed(q QuerySpec, e expectation, reply *dns.Msg, noUpstream bool) {
	r := run.r
	if reply == nil || aliasHops(e) < 2 || e.mustFail {
		return
	}
	if cls, _ := classify(reply, e); cls != clsTruth {
		return
	}
	mix := chainMix(e)
	eligible := (q.DO || q.AD) && !q.CD
	flags := "plain"
	switch {
	case q.CD:
		flags = "cd"
	case q.DO && q.AD:
		flags = "do+ad"
	case q.DO:
		flags = "do"
	case q.AD:
		flags = "ad-only"
	}
	switch {
	case run.lastWire.chase:
		r.Count("wire_alias_chase/served", 1)
		r.Count("wire_alias_chase/served/"+mix, 1)
		r.Count("wire_alias_chase/served_flags/"+flags, 1)
		r.DistinctIn("wire_alias_chase", fmt.Sprintf("%s|%d hops|%s", mix, aliasHops(e), flags))
		if eligible {
			if reply.AuthenticatedData {
				r.Count("wire_alias_chase/ad_kept/"+mix, 1)
			} else {
				r.Count("wire_alias_chase/ad_withheld/"+mix, 1)
			}
		}
	case q.Entry == "" && noUpstream:
		// decoded client, nothing asked upstream: the decoded chase (or a
		// complete stored entry) composed the reply from the caches
		r.Count("decoded_alias_from_cache/served", 1)
		r.Count("decoded_alias_from_cache/served/"+mix, 1)
		if eligible {
			if reply.AuthenticatedData {
				r.Count("decoded_alias_from_cache/ad_kept/"+mix, 1)
			} else {
				r.Count("decoded_alias_from_cache/ad_withheld/"+mix, 1)
			}
		}
	}
}

// chaseQuestions lists the alias questions of a world (existing targets).
func chaseQuestions(w *world) []QuerySpec {
	var out []QuerySpec
	for _, q := range w.queryKinds("h") {
		shape := strings.SplitN(q.Kind, "-", 2)[1]
		if strings.HasPrefix(shape, "cname-") || shape == "dname" {
			out = append(out, q)
		}
	}
	return out
}

// chaseHistory runs, on pipelines of their own, the three histories of every
// alias question of a directed chase world:
//
//	decoded-first  first client decoded, then wire-born clients, then decoded
//	wire-first     first client wire-born, then decoded clients, then wire-born
//	cd-first       first client CD=1 (fills only the CD partition), then both
func (run *runner) chaseHistory(w *world, index int) {
	r := run.r
	qs := chaseQuestions(w)
	for _, order := range []string{"decoded-first", "wire-first", "cd-first"} {
		st := run.newStack(w)
		if st == nil {
			return
		}
		for _, q := range qs {
			e := w.expect(q)
			first := q
			switch order {
			case "wire-first":
				first.Entry = "wire"
			case "cd-first":
				first.CD = true
			}
			reply, j := run.askJudge(w, st, index, first, e, "chase-"+order)
			r.Count("chase_history/first_replies", 1)
			if order != "cd-first" {
				if cls, _ := classify(reply, e); cls != clsTruth || j.Sig != "" {
					// the chain did not resolve (e.g. an availability limit of
					// the tree on this topology): nothing composed to look at
					r.Count("chase_history/first_reply_not_truth/"+strings.SplitN(q.Kind, "-", 2)[1], 1)
					continue
				}
			}
			for _, fq := range entryPermutations(q, order != "wire-first") {
				run.askJudge(w, st, index, fq, e, "chase-"+order+"-later")
				r.Count("chase_history/later_replies", 1)
			}
		}
		st.Close()
	}
}

// stepZone is the zone that answers hop i of the chain.
func stepZone(e expectation, i int) string {
	if i < 0 || i >= len(e.res.Steps) || len(e.res.Steps[i].Path) == 0 {
		return ""
	}
	p := e.res.Steps[i].Path
	return p[len(p)-1]
}

// judgeOutageReply judges the reply to an alias question asked while every
// server of a LATER hop's zone fails (an availability fault: nothing on the
// path is forged, so the statement's "SERVFAIL with an EDE" clause is not in
// play). Legal: SERVFAIL, bare or carrying the authentic prefix of the chain
// (BIND-style); or NOERROR with that prefix and no target (class PARTIAL,
// FINDINGS.md observation D). What is judged: the records present are exactly
// what the signers published, and AD is set only if every hop present is
// secure in the model and the client may see AD.
func judgeOutageReply(reply *dns.Msg, q QuerySpec, e expectation) judgement {
	var j judgement
	if reply == nil {
		j.Class = clsNoReply
		return j
	}
	eligible := (q.DO || q.AD) && !q.CD
	var got []dns.RR
	for _, rr := range reply.Answer {
		if t := rr.Header().Rrtype; t == dns.TypeRRSIG || t == dns.TypeNSEC || t == dns.TypeNSEC3 {
			continue
		}
		got = append(got, rr)
	}
	prefixAD := func() {
		hops := 0
		for _, rr := range got {
			if rr.Header().Rrtype == dns.TypeCNAME {
				hops++
			}
		}
		prefixSecure := !e.mustFail
		for i := 0; i < hops && i < len(e.res.Steps); i++ {
			if e.res.Steps[i].Status != zm.Secure {
				prefixSecure = false
			}
		}
		if reply.AuthenticatedData && (!eligible || !prefixSecure) {
			j.Sig = "ad/set-on-partial-alias-chain/alias-hop-outage"
			j.What = fmt.Sprintf("AD=1 on the alias-only reply to %s although the client is not eligible or a hop in it is not secure", q)
		}
	}
	if reply.Rcode == dns.RcodeServerFailure {
		j.Class = clsServfail
		switch {
		case findEvil(reply) != "":
			j.Class = clsOther
			j.Sig = "data/forged-record-served/alias-hop-outage"
			j.What = fmt.Sprintf("%s: forged record in a SERVFAIL reply: %s", q, findEvil(reply))
		case len(got) == 0:
			if reply.AuthenticatedData {
				j.Sig = "ad/set-on-SERVFAIL/alias-hop-outage"
				j.What = fmt.Sprintf("AD=1 on a SERVFAIL reply: %s", q)
			}
		case partialChain(got, e.res.Answer) || zm.AnswerMatches(got, e.res.Answer) == "":
			j.Class = "SERVFAIL+PREFIX"
			prefixAD()
		case e.secure:
			j.Class = clsOther
			j.Sig = "data/servfail-with-unpublished-records/alias-hop-outage"
			j.What = fmt.Sprintf("%s (a later hop's zone is down): SERVFAIL whose answer records are not a prefix of the published chain", q)
		}
		return j
	}
	j.Class, j.Why = classify(reply, e)
	switch j.Class {
	case clsTruth:
		// the whole chain although the hop's zone is down (it was reachable
		// some other way): the ordinary rules apply
		return judge(reply, judgeCtx{q: q, e: e, phase: "control"})
	case clsPartial:
		prefixAD()
	case clsOther:
		if !e.secure && !e.mustFail && findEvil(reply) == "" {
			// nothing is forged here and the path is not under an unbroken
			// signed chain: the statement promises nothing about the data
			j.Class = "INSECURE"
			if reply.AuthenticatedData {
				j.Sig = "ad/set-on-insecure-path/alias-hop-outage"
				j.What = fmt.Sprintf("AD=1 although the model says the path is %s: %s", e.res.Status, q)
			}
			return j
		}
		j.Sig = "data/" + otherShape(reply, e) + "/alias-hop-outage"
		j.What = fmt.Sprintf("%s (a later hop's zone is down): %s", q, j.Why)
	}
	return j
}

// hopOutage is the fault sequence "a later hop of the chain is unreachable
// when the alias is first asked, and comes back": every server of the zone
// that answers hop failStep replies SERVFAIL while the first client asks; the
// alias zone's own (validated) hop is cached on its own, WITHOUT the verdict of
// the hop that could not be fetched. After the servers are back (and the
// cached failure has run out on the virtual clock) later clients of both
// entries are answered by compositions of that alias entry with target
// entries filed later — whose verdicts the alias entry has never seen.
func (run *runner) hopOutage(w *world, index int, q QuerySpec, failStep int, wireFirst bool) {
	r := run.r
	e := w.expect(q)
	failZone := stepZone(e, failStep)
	if failZone == "" || failZone == stepZone(e, 0) || e.mustFail {
		return
	}
	for i := 0; i < failStep; i++ {
		if stepZone(e, i) == failZone {
			return // the zone also answers an earlier hop: the alias itself would fail
		}
	}
	st := run.newStack(w)
	if st == nil {
		return
	}
	defer st.Close()
	clear := func() {
		for _, s := range w.u.Servers() {
			s.ClearScript(true)
		}
	}
	clear()
	defer clear()
	infra := func(name string) bool { return strings.HasPrefix(name, "ns1.") || strings.HasPrefix(name, "ns2.") }
	for _, s := range w.u.ServersOf(failZone) {
		s.AddRule(authsim.Rule{
			Match:  func(p *authsim.Packet) bool { return p.Zone == failZone && !infra(p.QNameL) },
			Action: authsim.Action{Label: "hop-outage", Rcode: dns.RcodeServerFailure, HasRcode: true},
		})
	}
	mix := chainMix(e)
	r.Count("alias_hop_outage/histories", 1)

	// ---- first client, during the outage --------------------------------------
	from := w.u.Log.Len()
	reply := run.ask(st, q)
	j := judgeOutageReply(reply, q, e)
	r.Eval(1)
	r.Count("alias_hop_outage/first_reply/"+j.Class, 1)
	run.report(j, CaseSpec{Hier: index, Case: -1, Query: &q, Phase: "alias-hop-outage", Kind: "hop-outage", Role: fmt.Sprintf("step-%d", failStep)}, w, reply, from)
	if debug {
		fmt.Fprintf(os.Stderr, "H%d hop-outage(%s step %d) %-44s -> %s ad=%v mix=%s %s\n", index, failZone, failStep, q, j.Class, reply != nil && reply.AuthenticatedData, mix, j.Sig)
	}
	if j.Class == clsPartial {
		r.Count("alias_hop_outage/alias_cached_without_target/"+mix, 1)
	}

	// ---- the zone is back ------------------------------------------------------
	clear()
	if !quiet(st, 5*time.Second) {
		r.Count("alias_hop_outage/not_quiescent", 1)
		return
	}
	// cached failures of the outage may be served for a while (RFC 9520)
	st.Advance(45 * time.Second)
	first := q
	if wireFirst {
		first.Entry = "wire"
	}
	later := append([]QuerySpec{first, first}, entryPermutations(q, wireFirst)...)
	for _, fq := range later {
		reply, _ := run.askJudge(w, st, index, fq, e, "alias-hop-outage-later")
		r.Count("alias_hop_outage/later_replies", 1)
		if reply == nil {
			continue
		}
		if cls, _ := classify(reply, e); cls == clsTruth && run.lastWire.chase {
			r.Count("alias_hop_outage/wire_chase_composed_after_recovery", 1)
			r.Count("alias_hop_outage/wire_chase_composed_after_recovery/"+mix, 1)
		}
	}
}

// quiet waits until no lookup, resolution or probe holds a limiter slot and
// the prefetch queue is empty, on three consecutive polls (the harness asks
// one question at a time, so nothing of its own is in flight). The detached
// IPv6 name-server enrichment jobs are not waited for: each sleeps two
// seconds holding a slot of its own before it does anything.
func quiet(st *authsim.RStack, timeout time.Duration) bool {
	deadline := time.Now().Add(timeout)
	stable := 0
	for {
		a, b, c, _ := st.Handler.VerifSlots()
		idle := a+b+c == 0
		if idle {
			if ch := st.Cache(); ch != nil && ch.VerifStackPrefetchBacklog() != 0 {
				idle = false
			}
		}
		if idle {
			stable++
			if stable >= 3 {
				return true
			}
		} else {
			stable = 0
		}
		if time.Now().After(deadline) {
			return false
		}
		time.Sleep(time.Millisecond)
	}
}

// hopOutages runs hopOutage for every alias question of the world whose chain
// crosses a zone boundary: last hop down, and (longer chains) a middle hop.
func (run *runner) hopOutages(w *world, index int) {
	n := 0
	for _, q := range chaseQuestions(w) {
		e := w.expect(q)
		if aliasHops(e) < 2 || !crossesZones(e) {
			continue
		}
		last := aliasHops(e) - 1
		run.hopOutage(w, index, q, last, n%2 == 0)
		if last >= 2 {
			run.hopOutage(w, index, q, 1, n%2 == 1)
		}
		n++
	}
}

// addChaseRecords publishes the extra alias chains of a directed chase world:
//
//	hop2.<zone>   CNAME alias.<sub>     (-> www.<other>)      three entries
//	hop3.<zone>   CNAME back.<other>    (-> www.<zone>)       first and last hop in one zone
//	back.<other>  CNAME www.<zone>                            the reverse direction
func addChaseRecords(w *world) {
	z, o, s := w.zones["zone"], w.zones["other"], w.zones["sub"]
	if z == nil || o == nil {
		return
	}
	o.AddCNAME("back."+o.Apex(), "www."+z.Apex(), 300)
	z.AddCNAME("hop3."+z.Apex(), "back."+o.Apex(), 300)
	if s != nil {
		z.AddCNAME("hop2."+z.Apex(), "alias."+s.Apex(), 300)
	}
}
