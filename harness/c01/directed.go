package main

import (
	"fmt"
	"os"
	"strings"
	"sync/atomic"
	"time"

	"github.com/miekg/dns"
	"github.com/semihalev/sdns/middleware/resolver"
	"github.com/semihalev/sdns/zzverif/authsim"
	zm "github.com/semihalev/sdns/zzverif/zonemodel"
)

// Directed worlds: hand-built hierarchies that every run (any seed, any tier)
// contains, so that the paths below are exercised deterministically instead of
// "when the generator happens to draw them". They run through exactly the same
// control / execute / judge machinery as generated worlds (hierarchy index =
// directedBase + k, so --replay works unchanged).
//
//	window-*      responses whose ONLY defect is the RRSIG validity window, at
//	              every response role, against NSEC and NSEC3 zones
//	mixedds-*     the parent's DS RRset mixes usable and unusable records in a
//	              given wire order; the child's signatures are stripped
//	unusableds-*  the DS RRset has no usable record: legitimately insecure
//	anchor-loss-* the live trust set is emptied in the middle of a history
//	regress-*     positions of the repaired defects db9694b / febc9c7
//	island-cut-*  signed zone below an insecure cut whose ancestor's server
//	              answers for it directly (FINDINGS.md #3), made deterministic
const directedBase = 1000000

type directedDef struct {
	name string
	spec func() *HierSpec
}

func lvl(role, apex string, mode ZoneMode, alg uint8, servers ...string) LevelSpec {
	l := LevelSpec{Role: role, Apex: apex, Mode: mode, Algorithm: alg, Servers: servers}
	if mode == modeNSEC3 || mode == modeOptOut {
		l.Salt, l.Iter = "c01d", 1
	}
	return l
}

// Every directed world has its own TLD label: no other process on the box
// resolves names under it, so upstream traffic "inside the namespace" is this
// world's own.
func directedTLD(k int) string { return fmt.Sprintf("dw%d.", k) }

var directedDefs = buildDirectedDefs()

func buildDirectedDefs() []directedDef {
	var defs []directedDef
	add := func(name string, f func(k int) *HierSpec) {
		k := len(defs)
		defs = append(defs, directedDef{name: name, spec: func() *HierSpec {
			h := f(k)
			h.Index = directedBase + k
			h.Directed = name
			return h
		}})
	}
	basic := func(k int, tldMode, zoneMode ZoneMode, alg uint8, qmin int) *HierSpec {
		t := directedTLD(k)
		return &HierSpec{QMin: qmin, Levels: []LevelSpec{
			lvl("root", ".", modeNSEC, dns.ECDSAP256SHA256, "root-a"),
			lvl("tld", t, tldMode, dns.ECDSAP256SHA256, "tld-a", "tld-b"),
			lvl("zone", "zone."+t, zoneMode, alg, "zone-a", "zone-b"),
			lvl("other", "other."+t, modeNSEC, dns.ECDSAP256SHA256, "other-a"),
		}}
	}
	add("window-0", func(k int) *HierSpec { return basic(k, modeNSEC, modeNSEC, dns.ECDSAP256SHA256, 0) })
	add("window-1", func(k int) *HierSpec {
		h := basic(k, modeNSEC3, modeNSEC3, dns.RSASHA256, 3)
		h.Levels[2].SplitKeys = true
		return h
	})
	// parent and child on ONE server: no referral is ever seen, every DS comes
	// from an explicit DS query (response role "ds")
	add("window-2", func(k int) *HierSpec {
		h := basic(k, modeNSEC, modeNSEC, dns.ECDSAP384SHA384, 0)
		h.Levels[1].Servers, h.Levels[2].Servers = []string{"tld-a"}, []string{"tld-a"}
		return h
	})
	add("window-3", func(k int) *HierSpec {
		h := basic(k, modeNSEC3, modeNSEC3, dns.ED25519, 3)
		h.Levels[1].Servers, h.Levels[2].Servers = []string{"tld-a", "tld-b"}, []string{"tld-a", "tld-b"}
		return h
	})
	layouts := [][]string{
		{"digest:3", "ok"},
		{"ok", "digest:3"},
		{"alg:16", "ok"},
		{"digest:200", "alg:12", "ok384"},
		{"ok", "alg:200", "digest:7"},
		{"alg:1", "ok1", "digest:255"},
	}
	for i, lay := range layouts {
		i, lay := i, lay
		add(fmt.Sprintf("mixedds-%d", i), func(k int) *HierSpec {
			zmode := []ZoneMode{modeNSEC, modeNSEC3}[i%2]
			h := basic(k, []ZoneMode{modeNSEC, modeNSEC3, modeOptOut}[i%3], zmode, []uint8{dns.ECDSAP256SHA256, dns.ED25519, dns.RSASHA256}[i%3], []int{0, 3}[i%2])
			h.Levels[2].DSLayout = lay
			h.Levels[2].Servers = [][]string{{"zone-a", "zone-b"}, {"zone-a"}, {"tld-a", "zone-a"}}[i%3]
			if i%3 == 2 {
				h.Levels[1].Servers = []string{"tld-a"}
			}
			t := directedTLD(k)
			h.Levels = append(h.Levels, lvl("sub", "sub.zone."+t, modeNSEC, dns.ECDSAP256SHA256, "sub-a"))
			return h
		})
	}
	for i, lay := range [][]string{{"digest:3"}, {"alg:253", "digest:200"}} {
		i, lay := i, lay
		add(fmt.Sprintf("unusableds-%d", i), func(k int) *HierSpec {
			h := basic(k, []ZoneMode{modeNSEC, modeNSEC3}[i], modeIsland, dns.ECDSAP256SHA256, []int{0, 3}[i])
			h.Levels[2].DSLayout = lay
			return h
		})
	}
	add("anchor-loss-0", func(k int) *HierSpec { return basic(k, modeNSEC, modeNSEC3, dns.ECDSAP256SHA256, 0) })
	add("anchor-loss-1", func(k int) *HierSpec {
		h := basic(k, modeNSEC3, modeNSEC, dns.ED25519, 3)
		h.Levels[3].Mode = modeUnsigned
		t := directedTLD(k)
		h.Levels = append(h.Levels, lvl("sub", "sub.zone."+t, modeNSEC3, dns.ECDSAP256SHA256, "zone-a"))
		return h
	})
	// island-cut: T signed; I.T signed, NO DS in T (proven insecure cut);
	// S.I.T signed, DS published in I.T. A server of T also hosts S.I.T and
	// answers for it directly, so the resolver meets RRSIGs whose signer it has
	// no DS for and fetches that DS through the insecure zone I.T.
	island := func(k int, tldMode ZoneMode, qmin int, tldServers, zoneServers, subServers []string) *HierSpec {
		t := directedTLD(k)
		return &HierSpec{QMin: qmin, Levels: []LevelSpec{
			lvl("root", ".", modeNSEC, dns.ECDSAP256SHA256, "root-a"),
			lvl("tld", t, tldMode, dns.ECDSAP256SHA256, tldServers...),
			lvl("zone", "zone."+t, modeIsland, dns.ECDSAP256SHA256, zoneServers...),
			lvl("other", "other."+t, modeNSEC, dns.ECDSAP256SHA256, "other-a"),
			lvl("sub", "sub.zone."+t, modeNSEC, dns.ECDSAP256SHA256, subServers...),
		}}
	}
	// (a) the only T server hosts T and S.I.T but not I.T: it answers S.I.T
	//     names directly and refers the DS query to I.T.
	add("island-cut-0", func(k int) *HierSpec {
		return island(k, modeNSEC, 0, []string{"tld-a"}, []string{"zone-a"}, []string{"tld-a"})
	})
	// (b) the topology of the original finding (tld-a hosts all three, tld-b
	//     only T), with the race decided by script: tld-b never answers S.I.T
	//     data questions, tld-a never answers the DS question for S.I.T.
	add("island-cut-1", func(k int) *HierSpec {
		return island(k, modeNSEC3, 0, []string{"tld-a", "tld-b"}, []string{"tld-a", "zone-a"}, []string{"tld-a"})
	})
	add("island-cut-2", func(k int) *HierSpec {
		h := island(k, modeNSEC3, 0, []string{"tld-a"}, []string{"zone-a", "zone-b"}, []string{"tld-a"})
		h.Levels[4].Mode = modeNSEC3
		h.Levels[4].Algorithm = dns.ED25519
		return h
	})
	// regress-*: the positions of the repaired defects db9694b (parent-side
	// delegation NSEC replayed as NXDOMAIN proof for a name below the cut) and
	// febc9c7 (foreign records padded onto a validated negative response).
	add("regress-0", func(k int) *HierSpec { return basic(k, modeNSEC, modeNSEC, dns.ECDSAP256SHA256, 0) })
	add("regress-1", func(k int) *HierSpec {
		h := basic(k, modeNSEC, modeUnsigned, dns.ECDSAP256SHA256, 3)
		h.Levels[2].Servers = []string{"zone-a"}
		return h
	})
	// chase-*: alias chains whose hops differ in security (chase.go). zone /
	// other / sub modes are chosen so that every direction occurs:
	//   chase-0  secure alias -> unsigned target; secure sub
	//   chase-1  unsigned alias zone -> secure target (the reverse)
	//   chase-2  secure alias -> signed-but-DS-less target (RRSIGs present,
	//            nothing anchors them); unsigned sub below the secure zone
	//   chase-3  opt-out parent: secure alias zone -> insecure target under an
	//            opt-out span; opt-out sub
	//   chase-4  everything secure (the composition must KEEP AD)
	chase := func(k int, tldMode, zoneMode, otherMode, subMode ZoneMode, alg uint8, qmin int) *HierSpec {
		t := directedTLD(k)
		h := &HierSpec{QMin: qmin, Levels: []LevelSpec{
			lvl("root", ".", modeNSEC, dns.ECDSAP256SHA256, "root-a"),
			lvl("tld", t, tldMode, dns.ECDSAP256SHA256, "tld-a"),
			lvl("zone", "zone."+t, zoneMode, alg, "zone-a"),
			lvl("other", "other."+t, otherMode, dns.ECDSAP256SHA256, "other-a"),
		}}
		if subMode != "" {
			h.Levels = append(h.Levels, lvl("sub", "sub.zone."+t, subMode, dns.ECDSAP256SHA256, "sub-a"))
		}
		return h
	}
	add("chase-0", func(k int) *HierSpec {
		return chase(k, modeNSEC, modeNSEC, modeUnsigned, modeNSEC3, dns.ECDSAP256SHA256, 0)
	})
	add("chase-1", func(k int) *HierSpec {
		return chase(k, modeNSEC3, modeUnsigned, modeNSEC, "", dns.ECDSAP256SHA256, 3)
	})
	add("chase-2", func(k int) *HierSpec {
		return chase(k, modeNSEC, modeNSEC3, modeIsland, modeUnsigned, dns.ED25519, 0)
	})
	add("chase-3", func(k int) *HierSpec {
		return chase(k, modeOptOut, modeNSEC, modeUnsigned, modeOptOut, dns.ECDSAP256SHA256, 3)
	})
	add("chase-4", func(k int) *HierSpec {
		return chase(k, modeNSEC, modeNSEC, modeNSEC3, modeNSEC, dns.ECDSAP256SHA256, 0)
	})
	// shared-*: parent and child zone on ONE server (no referral is crossed:
	// the zone whose servers answer differs from the zone that signs), for the
	// parent-owned denial forgeries of denial.go.
	//   shared-0  T (NSEC) and Z.T (NSEC) on tld-a
	//   shared-1  T (NSEC3) and Z.T (NSEC3) on tld-a + tld-b
	//   shared-2  Z.T (NSEC) and S.Z.T (NSEC) on zone-a: the pair one level down
	//   shared-3  T (NSEC), Z.T (NSEC3), S.Z.T (NSEC) all on tld-a
	shared := func(k int, tldMode, zoneMode, subMode ZoneMode, qmin int, tldSrv, zoneSrv, subSrv []string) *HierSpec {
		t := directedTLD(k)
		h := &HierSpec{QMin: qmin, Levels: []LevelSpec{
			lvl("root", ".", modeNSEC, dns.ECDSAP256SHA256, "root-a"),
			lvl("tld", t, tldMode, dns.ECDSAP256SHA256, tldSrv...),
			lvl("zone", "zone."+t, zoneMode, dns.ECDSAP256SHA256, zoneSrv...),
			lvl("other", "other."+t, modeNSEC, dns.ECDSAP256SHA256, "other-a"),
		}}
		if subMode != "" {
			h.Levels = append(h.Levels, lvl("sub", "sub.zone."+t, subMode, dns.ECDSAP256SHA256, subSrv...))
		}
		return h
	}
	add("shared-0", func(k int) *HierSpec {
		return shared(k, modeNSEC, modeNSEC, "", 0, []string{"tld-a"}, []string{"tld-a"}, nil)
	})
	add("shared-1", func(k int) *HierSpec {
		return shared(k, modeNSEC3, modeNSEC3, "", 3, []string{"tld-a", "tld-b"}, []string{"tld-a", "tld-b"}, nil)
	})
	add("shared-2", func(k int) *HierSpec {
		return shared(k, modeNSEC, modeNSEC, modeNSEC, 0, []string{"tld-a"}, []string{"zone-a"}, []string{"zone-a"})
	})
	add("shared-3", func(k int) *HierSpec {
		return shared(k, modeNSEC, modeNSEC3, modeNSEC, 3, []string{"tld-a"}, []string{"tld-a"}, []string{"tld-a"})
	})
	// forgemix-*: combined forgeries of one response, enumerated by shape
	// (forgemix.go): an NSEC and an NSEC3 family, each with a signed sub-zone so
	// that a grandparent other than the root exists.
	add("forgemix-0", func(k int) *HierSpec {
		h := basic(k, modeNSEC, modeNSEC, dns.ECDSAP256SHA256, 0)
		h.Levels = append(h.Levels, lvl("sub", "sub.zone."+directedTLD(k), modeNSEC, dns.ECDSAP256SHA256, "sub-a"))
		return h
	})
	add("forgemix-1", func(k int) *HierSpec {
		h := basic(k, modeNSEC3, modeNSEC3, dns.ED25519, 3)
		h.Levels[2].SplitKeys = true
		h.Levels[2].Servers = []string{"zone-a"}
		h.Levels = append(h.Levels, lvl("sub", "sub.zone."+directedTLD(k), modeNSEC3, dns.ECDSAP256SHA256, "zone-a"))
		return h
	})
	return defs
}

func nDirected() int { return len(directedDefs) }

func directedSpec(k int) *HierSpec {
	if k < 0 || k >= len(directedDefs) {
		return nil
	}
	return directedDefs[k].spec()
}

func directedFamily(name string) string {
	if i := strings.LastIndexByte(name, '-'); i > 0 {
		if _, err := fmt.Sscanf(name[i+1:], "%d", new(int)); err == nil {
			return name[:i]
		}
	}
	return name
}

// installDirectedScripts installs the (non-forging) behaviour a directed
// world needs in its control phase.
func installDirectedScripts(w *world) {
	if w.spec.Directed != "island-cut-1" {
		return
	}
	sub := w.apex("sub")
	if b := w.u.Server("tld-b"); b != nil {
		b.AddRule(authsim.Rule{Match: func(p *authsim.Packet) bool {
			return zm.IsSub(sub, p.QNameL) && p.QType != dns.TypeDS && p.QType != dns.TypeNS
		}, Action: authsim.Drop()})
	}
	if a := w.u.Server("tld-a"); a != nil {
		a.AddRule(authsim.Rule{Match: func(p *authsim.Packet) bool {
			return p.QNameL == sub && p.QType == dns.TypeDS
		}, Action: authsim.Drop()})
	}
}

// dsObserver counts, per world, the DS RRsets honest servers put on the wire.
type dsObserver struct {
	mixedUnusableFirst, mixedUsableFirst, unusableOnly atomic.Int64
}

// installObserver appends (lowest priority) a rule to every server that looks
// at the honest response and returns it unchanged.
func (w *world) installObserver() {
	for _, s := range w.u.Servers() {
		s.AddRule(authsim.Rule{Action: authsim.Tamper("observe", func(q, honest *dns.Msg) *dns.Msg {
			for _, sec := range [][]dns.RR{honest.Answer, honest.Ns} {
				mixed, uf, only := dsShape(sec)
				switch {
				case mixed && uf:
					w.obs.mixedUnusableFirst.Add(1)
				case mixed:
					w.obs.mixedUsableFirst.Add(1)
				case only:
					w.obs.unusableOnly.Add(1)
				}
			}
			return honest
		})})
	}
}

func (run *runner) flushObserver(w *world) {
	r := run.r
	if n := w.obs.mixedUnusableFirst.Swap(0); n > 0 {
		r.Count("ds_rrset_delivered/mixed_unusable_first", int(n))
	}
	if n := w.obs.mixedUsableFirst.Swap(0); n > 0 {
		r.Count("ds_rrset_delivered/mixed_usable_first", int(n))
	}
	if n := w.obs.unusableOnly.Swap(0); n > 0 {
		r.Count("ds_rrset_delivered/unusable_only", int(n))
	}
}

// directedControl records what a directed world's control replies showed.
func (run *runner) directedControl(w *world, q QuerySpec, e expectation, reply *dns.Msg, ok bool, from int, cold bool) {
	r := run.r
	fam := directedFamily(w.spec.Directed)
	role := strings.SplitN(q.Kind, "-", 2)[0]
	switch fam {
	case "mixedds":
		if ok && e.secure && reply != nil && reply.AuthenticatedData && (role == "zone" || role == "sub") {
			r.Count("mixedds_control_truth_ad", 1)
		}
	case "unusableds":
		if ok && !e.secure && !e.mustFail && reply != nil && !reply.AuthenticatedData && role == "zone" {
			r.Count("unusable_only_ds_truth_no_ad", 1)
		}
	case "island-cut":
		if role != "sub" || reply == nil || !cold {
			return
		}
		r.Count("island_cut/replies_judged", 1)
		if reply.Rcode == dns.RcodeServerFailure {
			r.Count("island_cut/replies_servfail", 1)
		}
		subApex, zoneApex := w.apex("sub"), w.apex("zone")
		// direct: a server answered the question from the deep zone before the
		// resolver had consulted the intermediate (insecure) zone at all, i.e.
		// while it was still descending from the ancestor with the ancestor's DS.
		direct, viaInsecure, seenZone := false, false, false
		for _, p := range w.u.Log.Since(from) {
			if !strings.HasPrefix(p.Outcome, "answered") {
				continue
			}
			if p.Zone == zoneApex {
				seenZone = true
			}
			if !seenZone && p.Zone == subApex && p.QNameL == zm.Canon(q.Name) && p.QType == q.Type {
				direct = true
			}
			if p.QType == dns.TypeDS && p.QNameL == subApex && p.Zone == zoneApex {
				viaInsecure = true
			}
		}
		if debug && (q.Kind == "sub-pos" || q.Kind == "sub-mx") {
			for _, l := range upstreamSummary(w, from) {
				fmt.Fprintln(os.Stderr, "    ", l)
			}
		}
		if direct {
			r.Count("island_cut/direct_answer_by_ancestor_server", 1)
		}
		if viaInsecure {
			r.Count("island_cut/ds_fetched_via_insecure_parent", 1)
		}
	}
}

// directedPlans lists the tamper cases of a directed world.
func directedPlans(w *world, controlOK map[string]bool) []plan {
	qs := w.queryKinds("d")
	byKind := map[string]QuerySpec{}
	for _, q := range qs {
		byKind[q.Kind] = q
	}
	var out []plan
	add := func(kindName, qKind, role string, atParent bool) {
		k := kindByName(kindName)
		q, ok := byKind[qKind]
		if k == nil || !ok || !controlOK[qKind] {
			return
		}
		zoneRole := strings.SplitN(qKind, "-", 2)[0]
		for _, c := range candidates(w, k, []QuerySpec{q}, controlOK) {
			if c.zoneRole == zoneRole && c.role == role && c.atParent == atParent {
				out = append(out, plan{kind: k, cd: c, allServers: true, q: q})
				return
			}
		}
	}
	addVariant := func(kindName, qKind, role string, atParent bool, variant int) {
		n := len(out)
		add(kindName, qKind, role, atParent)
		if len(out) > n {
			out[n].variant, out[n].fixedVariant = variant, true
		}
	}
	switch directedFamily(w.spec.Directed) {
	case "forgemix":
		forgemixPlans(w, addVariant)
	case "window":
		for _, k := range []string{"window-expired", "window-notyet"} {
			add(k, "zone-pos", roleAnswer, false)
			add(k, "zone-wild", roleAnswer, false)
			add(k, "zone-nx", roleNegative, false)
			add(k, "zone-nodata", roleNegative, false)
			add(k, "zone-mx", roleDNSKEY, false)
			add(k, "zone-realwild", roleDS, true)
			add(k, "zone-ds", roleDS, true)
		}
	case "mixedds":
		add("strip-rrsig", "zone-pos", roleAnswer, false)
		add("strip-rrsig", "zone-nx", roleNegative, false)
		add("strip-rrsig", "zone-mx", roleDNSKEY, false)
		add("unsigned-child", "zone-realwild", roleAnswer, false)
		add("unsigned-child", "zone-nodata", roleNegative, false)
		add("unsigned-child", "sub-pos", roleAnswer, false)
		add("strip-rrsig", "sub-nx", roleNegative, false)
	case "unusableds":
		add("strip-rrsig", "zone-pos", roleAnswer, false)
	case "shared":
		roles := []string{"zone"}
		if w.zones["sub"] != nil {
			roles = []string{"sub", "zone"}
			if w.spec.Directed == "shared-2" {
				roles = []string{"sub"}
			}
		}
		for _, zr := range roles {
			for _, k := range []string{"denial-parent-nsec", "denial-parent-nsec-psigned", "denial-parent-nsec3", "denial-parent-nsec3-psigned"} {
				add(k, zr+"-nx", roleNegative, false)
				add(k, zr+"-nodata", roleNegative, false)
			}
			add("denial-parent-nsec", zr+"-nxdeep", roleNegative, false)
			add("denial-parent-nsec", zr+"-wildnodata", roleNegative, false)
			add("denial-parent-nsec3", zr+"-nxdeep", roleNegative, false)
			add("denial-parent-nsec3", zr+"-ent", roleNegative, false)
			for _, k := range []string{"forge-neg-parent-nsec", "forge-neg-parent-nsec3"} {
				add(k, zr+"-pos", roleAnswer, false)
				add(k, zr+"-mx", roleAnswer, false)
			}
		}
	case "regress":
		add("forge-nx-parent-nsec", "zone-pos", roleAnswer, false)
		add("forge-nx-parent-nsec", "zone-mx", roleAnswer, false)
		add("forge-nx-parent-nsec", "zone-realwild", roleAnswer, false)
		add("inject-authority", "zone-nx", roleNegative, false)
		add("inject-additional", "zone-nodata", roleNegative, false)
		add("inject-additional", "zone-nxdeep", roleNegative, false)
		add("inject-authority", "zone-wildnodata", roleNegative, false)
	}
	return out
}

// ---------------------------------------------------------------------------
// anchor loss

type outageQ struct {
	shape string // positive | negative | wildcard | alias | cached | dnskey
	where string // warm | cold | tld
	fresh bool   // the question's data cannot be in (or derived from) any cache
	q     QuerySpec
}

// anchorLoss: resolve names of a signed zone with the trust anchors in place,
// empty the live trust set exactly as AutoTA's fail-closed path does, ask
// positive / negative / wildcard / fresh names of that (warm) zone and of a
// cold zone, put the anchors back, check recovery.
//
// Reading of "when no trust anchor is available the answer is SERVFAIL rather
// than unvalidated data": it constrains what is fetched or validated WHILE no
// anchor is available. A reply served entirely from the caches (answer cache,
// RFC 8198 synthesis from validated NSEC/NSEC3) was validated when an anchor
// was available and is not flagged; it is recognised by the question never
// having been sent to an authority while it was produced (a question whose
// answer cannot be in or derived from any cache is flagged regardless).
func (run *runner) anchorLoss(w *world, index, onlyCase int) {
	// The history needs a complete warm-up and a quiescent point; on an
	// overloaded box an upstream timeout can spoil either. Nothing is judged
	// from a spoiled attempt; try again on a fresh pipeline (at most twice).
	for attempt := 0; attempt < 3; attempt++ {
		if run.anchorLossOnce(w, index, onlyCase) {
			return
		}
		run.r.Count("anchor_loss/attempts_repeated", 1)
	}
}

func (run *runner) anchorLossOnce(w *world, index, onlyCase int) (done bool) {
	r := run.r
	before := resolver.VerifC01RefreshRuns()
	st := run.newStack(w)
	if st == nil {
		return true
	}
	defer st.Close()
	res := st.Handler.VerifResolver()
	zone, other, tld := w.apex("zone"), w.apex("other"), w.apex("tld")
	mkq := func(kind, name string, t uint16) QuerySpec {
		return QuerySpec{Kind: kind, Name: name, Type: t, EDNS: true, DO: true}
	}

	// ---- phase 1: warm-up with anchors ------------------------------------
	warm := []QuerySpec{
		mkq("zone-pos", "www."+zone, dns.TypeA),
		mkq("zone-nx", "nxwarm."+zone, dns.TypeA),
		mkq("zone-wild", "wwarm.wild."+zone, dns.TypeA),
		mkq("zone-nodata", "www."+zone, dns.TypeAAAA),
		mkq("zone-cname-in", "loc."+zone, dns.TypeA),
		mkq("tld-pos", "host."+tld, dns.TypeA),
	}
	if s := w.apex("sub"); s != "" {
		warm = append(warm, mkq("sub-pos", "www."+s, dns.TypeA))
	}
	warmOK := 0
	for _, q := range warm {
		e := w.expect(q)
		from := w.u.Log.Len()
		reply := run.ask(st, q)
		j := judge(reply, judgeCtx{q: q, e: e, phase: "control"})
		r.Eval(1)
		run.report(j, CaseSpec{Hier: index, Case: -1, Query: &q, Phase: "anchor-warmup"}, w, reply, from)
		if cls, _ := classify(reply, e); cls == clsTruth && j.Sig == "" {
			warmOK++
			r.Count("anchor_loss/warmup_truth", 1)
			if reply.AuthenticatedData {
				r.Count("anchor_loss/warmup_truth_ad", 1)
			}
		}
	}
	if warmOK < len(warm)-1 {
		r.Count("anchor_loss/warmup_incomplete", 1)
		return false
	}

	// ---- quiescent point: the start-up AutoTA run has ended ------------------
	seen := false
	for i := 0; i < 6000; i++ {
		if resolver.VerifC01RefreshRuns() > before {
			seen = true
			break
		}
		time.Sleep(5 * time.Millisecond)
	}
	if !seen {
		// nothing is judged on this: the per-reply guards below still hold
		r.Count("anchor_loss/startup_refresh_not_seen", 1)
	}
	if !st.Quiesce(5 * time.Second) {
		r.Count("anchor_loss/not_quiescent", 1)
		return false
	}
	if res.VerifC01TrustAnchorCount() == 0 {
		r.Count("anchor_loss/no_anchor_before_outage", 1)
		return false
	}
	saved := res.VerifC01ClearTrustAnchors()
	restored := false
	defer func() {
		if !restored {
			res.VerifC01RestoreTrustAnchors(saved)
		}
	}()
	r.Count("anchor_loss/outages", 1)

	// ---- phase 2: outage -------------------------------------------------------
	oq := func(shape, where string, fresh bool, q QuerySpec) outageQ {
		return outageQ{shape: shape, where: where, fresh: fresh, q: q}
	}
	list := []outageQ{
		oq("cached", "warm", false, mkq("zone-pos", "www."+zone, dns.TypeA)),
		oq("positive", "warm", true, mkq("zone-mx", "mx."+zone, dns.TypeMX)),
		oq("positive", "warm", true, mkq("zone-txt", "www."+zone, dns.TypeTXT)),
		oq("positive", "warm", true, mkq("zone-realwild", "real.wild."+zone, dns.TypeA)),
		oq("negative", "warm", false, mkq("zone-nx", "nxout."+zone, dns.TypeA)),
		oq("negative", "warm", false, mkq("zone-nxdeep", "x.y.nxout."+zone, dns.TypeTXT)),
		oq("negative", "warm", false, mkq("zone-nodata", "mx."+zone, dns.TypeA)),
		oq("wildcard", "warm", false, mkq("zone-wild", "wout.wild."+zone, dns.TypeA)),
		oq("wildcard", "warm", false, mkq("zone-wild2", "deep.w2out.wild."+zone, dns.TypeA)),
		oq("alias", "warm", true, mkq("zone-cname-x", "alias."+zone, dns.TypeA)),
		oq("dnskey", "warm", false, mkq("zone-dnskey", zone, dns.TypeDNSKEY)),
		oq("positive", "tld", false, mkq("tld-soa", tld, dns.TypeSOA)),
		oq("negative", "tld", false, mkq("tld-nx", "nxout."+tld, dns.TypeA)),
		oq("positive", "cold", true, mkq("other-pos", "www."+other, dns.TypeA)),
		oq("positive", "cold", true, mkq("other-mx", "mx."+other, dns.TypeMX)),
		oq("negative", "cold", true, mkq("other-nx", "nxout."+other, dns.TypeA)),
		oq("wildcard", "cold", true, mkq("other-wild", "wout.wild."+other, dns.TypeA)),
	}
	if s := w.apex("sub"); s != "" {
		list = append(list,
			oq("positive", "warm", true, mkq("sub-mx", "mx."+s, dns.TypeMX)),
			oq("negative", "warm", false, mkq("sub-nx", "nxout."+s, dns.TypeA)))
	}
	// flag variants of the same history: AD-only client, plain client, CD=1
	adOnly := oq("positive", "warm", true, mkq("zone-out1", "out1."+zone, dns.TypeA))
	adOnly.q.DO, adOnly.q.AD = false, true
	plain := oq("positive", "warm", true, mkq("zone-out2", "out2."+zone, dns.TypeA))
	plain.q.EDNS, plain.q.DO = false, false
	cdq := oq("positive", "warm", true, mkq("zone-out3", "out3."+zone, dns.TypeTXT))
	cdq.q.CD = true
	plainCold := oq("positive", "cold", true, mkq("other-out1", "out1."+other, dns.TypeA))
	plainCold.q.EDNS, plainCold.q.DO = false, false
	list = append(list, adOnly, plain, cdq, plainCold)
	// "fetched during the outage" = the question itself (name and type) was
	// sent to an authority after the client asked it. Only that: a datagram of
	// the PREVIOUS question (the loser of the resolver's two-server race) may be
	// handled by its server late, under load, and must not be attributed to this
	// one; every outage question is a distinct (name, type), and the one
	// question repeated from the warm-up was asked seconds earlier, before the
	// quiescent point.
	sentUpstream := func(from int, q QuerySpec) int {
		c := 0
		for _, p := range w.u.Log.Since(from) {
			if p.QNameL == zm.Canon(q.Name) && p.QType == q.Type && zm.IsSub(tld, p.QNameL) {
				c++
			}
		}
		return c
	}
	for ci, o := range list {
		if onlyCase >= 0 && ci != onlyCase {
			continue
		}
		if res.VerifC01TrustAnchorCount() != 0 {
			// a late refresh republished the anchors: clear again, judge nothing
			r.Count("anchor_loss/outage_disturbed", 1)
			saved = res.VerifC01ClearTrustAnchors()
		}
		q := o.q
		from := w.u.Log.Len()
		reply := run.ask(st, q)
		upstream := sentUpstream(from, q)
		if res.VerifC01TrustAnchorCount() != 0 {
			r.Count("anchor_loss/outage_disturbed", 1)
			continue
		}
		r.Eval(1)
		r.Count("anchor_loss/outage_replies_judged", 1)
		r.Count("anchor_loss/outage_replies/"+o.shape+"@"+o.where, 1)
		cs := CaseSpec{Hier: index, Case: ci, Query: &q, Phase: "anchor-outage", Kind: "anchor-loss", Role: o.shape + "@" + o.where}
		var j judgement
		switch {
		case reply == nil:
			r.Count("anchor_loss/outage_no_reply", 1)
		case q.CD:
			r.Count("anchor_loss/outage_cd_replies", 1)
			if reply.AuthenticatedData {
				j.Sig = "ad/set-toward-cd-client/anchor-outage"
				j.What = fmt.Sprintf("AD=1 in the reply to a CD=1 query while no trust anchor is available: %s", q)
			}
		case reply.Rcode == dns.RcodeServerFailure && len(reply.Answer) == 0:
			r.Count("anchor_loss/outage_servfail", 1)
			if upstream > 0 {
				r.Count("anchor_loss/outage_servfail_after_upstream_traffic", 1)
			}
			if q.EDNS && !hasEDE(reply) {
				j.Sig = "servfail/without-ede/anchor-outage"
				j.What = fmt.Sprintf("SERVFAIL without an Extended DNS Error toward an EDNS client while no trust anchor is available: %s", q)
			}
		case upstream > 0 || o.fresh:
			j.Sig = "anchor/unvalidated-data-without-trust-anchor/" + o.shape + "@" + o.where
			j.What = fmt.Sprintf("%s: the live trust set is empty, the reply is %s with %d answer records and AD=%v, and the question was sent to the authorities %d time(s) during the outage (only SERVFAIL is legal)",
				q, dns.RcodeToString[reply.Rcode], len(reply.Answer), reply.AuthenticatedData, upstream)
		default:
			// entirely cache-served: validated while an anchor was available
			r.Count("anchor_loss/outage_cache_served", 1)
			r.Count("anchor_loss/outage_cache_served/"+o.shape, 1)
			if reply.AuthenticatedData {
				r.Count("anchor_loss/outage_cache_served_ad", 1)
			}
		}
		if debug {
			rc, ad, na := "-", false, 0
			if reply != nil {
				rc, ad, na = dns.RcodeToString[reply.Rcode], reply.AuthenticatedData, len(reply.Answer)
			}
			fmt.Fprintf(os.Stderr, "H%d outage %-12s %-5s %-44s -> %s ad=%v answers=%d upstream=%d %s\n", index, o.shape, o.where, q, rc, ad, na, upstream, j.Sig)
		}
		run.report(j, cs, w, reply, from)
	}

	r.Sample(map[string]any{"directed": w.spec.Directed, "pattern": w.spec.Pattern(), "history": "warm-up with anchors -> live trust set emptied (AutoTA fail-closed assignment) -> outage questions -> anchors restored -> recovery",
		"outage_questions": len(list), "warm_zone": zone, "cold_zone": other})
	// ---- phase 3: anchors back, recovery ----------------------------------------
	res.VerifC01RestoreTrustAnchors(saved)
	restored = true
	if onlyCase >= 0 {
		return true
	}
	st.Quiesce(2 * time.Second)
	// cached failures of the outage may be served for a while (RFC 9520):
	// step the virtual clock past them, then ask names not asked before.
	st.Advance(45 * time.Second)
	rec := []QuerySpec{
		mkq("zone-pos", "rec1."+zone, dns.TypeA),
		mkq("zone-txt", "rec2."+zone, dns.TypeTXT),
		mkq("zone-nx", "nxrec."+zone, dns.TypeA),
		mkq("zone-wild", "wrec.wild."+zone, dns.TypeA),
		mkq("other-pos", "rec1."+other, dns.TypeA),
		mkq("other-nx", "nxrec."+other, dns.TypeA),
	}
	for _, q := range rec {
		e := w.expect(q)
		from := w.u.Log.Len()
		reply := run.ask(st, q)
		j := judge(reply, judgeCtx{q: q, e: e, phase: "control"})
		r.Eval(1)
		run.report(j, CaseSpec{Hier: index, Case: -1, Query: &q, Phase: "anchor-recovery"}, w, reply, from)
		cls, _ := classify(reply, e)
		r.Count("anchor_loss/recovery_replies/"+cls, 1)
		if cls == clsTruth {
			r.Count("anchor_loss/recovery_truth", 1)
			if reply.AuthenticatedData {
				r.Count("anchor_loss/recovery_truth_ad", 1)
			}
		}
		if debug {
			fmt.Fprintf(os.Stderr, "H%d recovery %-44s -> %s ad=%v\n", index, q, cls, reply != nil && reply.AuthenticatedData)
		}
	}
	return true
}

// islandCut asks names of the signed zone below the insecure cut on a COLD
// resolver each (fresh pipeline per question): only then does the question
// start at the ancestor's servers, one of which answers for the deep zone
// directly, so that the resolver holds the ancestor's DS while it meets the
// deep zone's RRSIGs. (In the ordinary control phase the intermediate zone's
// delegation is already cached and the descent takes the insecure path.)
func (run *runner) islandCut(w *world, index int) {
	r := run.r
	w.installObserver()
	want := map[string]bool{"sub-pos": true, "sub-mx": true, "sub-nx": true, "sub-wild": true, "sub-nodata": true, "sub-cname-in": true, "sub-dnskey": true, "sub-realwild": true}
	for _, q := range w.queryKinds("i") {
		if !want[q.Kind] {
			continue
		}
		st := run.newStack(w)
		if st == nil {
			return
		}
		e := w.expect(q)
		from := w.u.Log.Len()
		reply := run.ask(st, q)
		j := judge(reply, judgeCtx{q: q, e: e, phase: "control"})
		r.Eval(1)
		r.Count("island_cut/cold_questions", 1)
		run.report(j, CaseSpec{Hier: index, Case: -1, Query: &q, Phase: "control-cold"}, w, reply, from)
		run.directedControl(w, q, e, reply, j.Sig == "", from, true)
		if debug {
			cls, _ := classify(reply, e)
			fmt.Fprintf(os.Stderr, "H%d cold %-44s -> %s ad=%v %s\n", index, q, cls, reply != nil && reply.AuthenticatedData, j.Sig)
		}
		// a second client asks the same on the warm pipeline
		fq := q
		fq.AD = true
		from = w.u.Log.Len()
		fr := run.ask(st, fq)
		fj := judge(fr, judgeCtx{q: fq, e: e, phase: "control"})
		r.Eval(1)
		run.report(fj, CaseSpec{Hier: index, Case: -1, Query: &fq, Phase: "control-cold-followup"}, w, fr, from)
		st.Close()
	}
}
