package main

import (
	"encoding/base64"
	"encoding/hex"
	"net"
	"sort"
	"strings"
	"sync"
	"sync/atomic"
	"time"

	"github.com/miekg/dns"
	zm "github.com/semihalev/sdns/zzverif/zonemodel"
)

// Response roles (the "position" of a tamper is (zone role, response role)).
const (
	roleReferral = "referral"
	roleDS       = "ds"
	roleDNSKEY   = "dnskey"
	roleAnswer   = "answer"
	roleNegative = "negative"
)

func roleOf(q, honest *dns.Msg) string {
	if honest == nil || len(q.Question) != 1 {
		return ""
	}
	qt := q.Question[0].Qtype
	if !honest.Authoritative {
		for _, rr := range honest.Ns {
			if rr.Header().Rrtype == dns.TypeNS {
				return roleReferral
			}
		}
		return ""
	}
	switch {
	case qt == dns.TypeDS:
		return roleDS
	case qt == dns.TypeDNSKEY && len(honest.Answer) > 0:
		return roleDNSKEY
	case len(honest.Answer) > 0:
		return roleAnswer
	default:
		return roleNegative
	}
}

var evilIP = net.IPv4(10, 66, 6, 6).To4()
var evilGlue = net.IPv4(192, 0, 2, 254).To4()

// isEvil recognises data only a tamper can have produced.
func isEvil(rr dns.RR) bool {
	switch v := rr.(type) {
	case *dns.A:
		return v.A.To4() != nil && v.A.To4()[0] == 10 && v.A.To4()[1] == 66
	case *dns.AAAA:
		return len(v.AAAA) == 16 && v.AAAA[0] == 0xfd && v.AAAA[1] == 0x66
	case *dns.TXT:
		return len(v.Txt) > 0 && strings.HasPrefix(v.Txt[0], "evil")
	case *dns.MX:
		return strings.HasPrefix(v.Mx, "evil.")
	case *dns.CNAME:
		return strings.HasPrefix(v.Target, "evil.") || strings.Contains(strings.ToLower(v.Target), ".evil.")
	case *dns.DNAME:
		return strings.HasPrefix(v.Target, "evil.")
	case *dns.NS:
		return strings.Contains(v.Ns, "evil.")
	}
	return false
}

// evilize rewrites rr's rdata into recognisably forged data.
func evilize(rr dns.RR) {
	switch v := rr.(type) {
	case *dns.A:
		v.A = append(net.IP(nil), evilIP...)
	case *dns.AAAA:
		v.AAAA = net.ParseIP("fd66::666")
	case *dns.TXT:
		v.Txt = []string{"evil"}
	case *dns.MX:
		v.Mx = "evil.invalid."
	case *dns.CNAME:
		v.Target = "evil." + v.Target
	case *dns.DNAME:
		v.Target = "evil." + v.Target
	case *dns.DNSKEY:
		v.PublicKey = flipB64(v.PublicKey)
	case *dns.DS:
		v.Digest = flipHex(v.Digest)
	case *dns.SOA:
		v.Serial += 7
	case *dns.NSEC:
		v.NextDomain = "evil." + v.NextDomain
	case *dns.NSEC3:
		v.NextDomain = flipB32(v.NextDomain)
	}
}

func flipB64(s string) string {
	b, err := base64.StdEncoding.DecodeString(s)
	if err != nil || len(b) == 0 {
		return s
	}
	b[len(b)/2] ^= 0x10
	return base64.StdEncoding.EncodeToString(b)
}

func flipHex(s string) string {
	b, err := hex.DecodeString(s)
	if err != nil || len(b) == 0 {
		return s
	}
	b[len(b)/2] ^= 0x10
	return strings.ToUpper(hex.EncodeToString(b))
}

func flipB32(s string) string {
	if s == "" {
		return s
	}
	c := s[len(s)-1]
	r := byte('0')
	if c == '0' {
		r = '1'
	}
	return s[:len(s)-1] + string(r)
}

func isSec(t uint16) bool {
	return t == dns.TypeRRSIG || t == dns.TypeNSEC || t == dns.TypeNSEC3
}

// firstDataSet returns the indices in rrs of the first non-DNSSEC RRset.
func firstDataSet(rrs []dns.RR) []int {
	var idx []int
	var owner string
	var typ uint16
	for i, rr := range rrs {
		h := rr.Header()
		if isSec(h.Rrtype) || h.Rrtype == dns.TypeOPT {
			continue
		}
		if idx == nil {
			owner, typ = strings.ToLower(h.Name), h.Rrtype
			idx = append(idx, i)
		} else if strings.ToLower(h.Name) == owner && h.Rrtype == typ {
			idx = append(idx, i)
		}
	}
	return idx
}

// lastDataSet is firstDataSet for the final RRset (the answer to the qtype
// after an alias chain).
func lastDataSet(rrs []dns.RR) []int {
	var idx []int
	var owner string
	var typ uint16
	for i := len(rrs) - 1; i >= 0; i-- {
		h := rrs[i].Header()
		if isSec(h.Rrtype) || h.Rrtype == dns.TypeOPT {
			continue
		}
		if idx == nil {
			owner, typ = strings.ToLower(h.Name), h.Rrtype
			idx = append(idx, i)
		} else if strings.ToLower(h.Name) == owner && h.Rrtype == typ {
			idx = append([]int{i}, idx...)
		}
	}
	return idx
}

func filterRRs(rrs []dns.RR, keep func(dns.RR) bool) []dns.RR {
	out := rrs[:0:0]
	for _, rr := range rrs {
		if keep(rr) {
			out = append(out, rr)
		}
	}
	return out
}

func eachSig(m *dns.Msg, f func(*dns.RRSIG)) int {
	n := 0
	for _, sec := range [][]dns.RR{m.Answer, m.Ns} {
		for _, rr := range sec {
			if s, ok := rr.(*dns.RRSIG); ok {
				f(s)
				n++
			}
		}
	}
	return n
}

// rrsets groups a section into RRsets (RRSIGs dropped), preserving order.
func rrsets(rrs []dns.RR) [][]dns.RR {
	var out [][]dns.RR
	for _, rr := range rrs {
		h := rr.Header()
		if h.Rrtype == dns.TypeRRSIG || h.Rrtype == dns.TypeOPT {
			continue
		}
		placed := false
		for i := range out {
			h0 := out[i][0].Header()
			if h0.Rrtype == h.Rrtype && strings.EqualFold(h0.Name, h.Name) {
				out[i] = append(out[i], rr)
				placed = true
				break
			}
		}
		if !placed {
			out = append(out, []dns.RR{rr})
		}
	}
	return out
}

// resign replaces every RRSIG of a section by fresh signatures made with
// signer's key and opts (sets that must stay unsigned — delegation NS, glue —
// are left alone by passing skip).
func resign(sec []dns.RR, signer *zm.Zone, opts *zm.SigOpts, skip func([]dns.RR) bool) []dns.RR {
	var out []dns.RR
	for _, set := range rrsets(sec) {
		out = append(out, set...)
		if skip != nil && skip(set) {
			continue
		}
		if sig, err := signer.SignRRset(set, opts); err == nil {
			out = append(out, sig)
		}
	}
	return out
}

// caseCtx is what a tamper closure knows.
type caseCtx struct {
	w        *world
	zoneRole string   // the zone whose data is attacked ("zone", "sub", "tld")
	z        *zm.Zone // that zone
	parent   *zm.Zone // its parent
	other    *zm.Zone // a sibling
	attacker *zm.Zone // throw-away zone with the same apex/algorithm as z (attacker's key)
	qname    string
	qtype    uint16 // the client's question type (0 = not recorded)
	// variant selects the shape of a kind that has several (forgemix.go)
	variant int
	notesMu sync.Mutex
	notes   map[string]bool // what the forged responses of this case contained
	applied atomic.Int64
	byRole  [5]atomic.Int64
	// window[role]: responses sent whose only defect is the RRSIG window
	window [5]atomic.Int64
	// parent-owned denial forgeries (denial.go): genuine proof records kept
	// next to the forged ones / none kept; and, by rcode, how many of them
	// were sent by a server that is authoritative for the parent zone too
	pdMixed, pdReplaced    atomic.Int64
	pdSharedNX, pdSharedND atomic.Int64
	pdOtherNX, pdOtherND   atomic.Int64
}

// note records a fact about a forged response that was handed to the server
// for sending; execute turns the notes of an observed case into counters.
func (c *caseCtx) note(s string) {
	c.notesMu.Lock()
	if c.notes == nil {
		c.notes = map[string]bool{}
	}
	c.notes[s] = true
	c.notesMu.Unlock()
}

func (c *caseCtx) takeNotes() []string {
	c.notesMu.Lock()
	defer c.notesMu.Unlock()
	var out []string
	for k := range c.notes {
		out = append(out, k)
	}
	sort.Strings(out)
	return out
}

func roleIdx(r string) int {
	switch r {
	case roleReferral:
		return 0
	case roleDS:
		return 1
	case roleDNSKEY:
		return 2
	case roleAnswer:
		return 3
	}
	return 4
}

// tamperKind describes one family of forgeries.
type tamperKind struct {
	Name string
	// Roles at the attacked zone's own servers / at its parent's servers.
	ZoneRoles   []string
	ParentRoles []string
	// Breaks: no server of the scripted zone(s) can deliver a verifiable
	// response any more, so an authenticated TRUTH is impossible.
	Breaks bool
	// Alters: the forged response carries different data than the signer
	// published (acceptance shows as OTHER).
	Alters bool
	// ParentTogether: a parent-side case scripts ALL ParentRoles at once
	// (referral and DS answer), so no parent server can hand out a verifiable
	// DS any more; the position is recorded as role "ds".
	ParentTogether bool
	// ZoneTogether: a zone-side case scripts ALL ZoneRoles at once (the
	// position is recorded as "multi").
	ZoneTogether bool
	// AnswerShapes, when set, lists the question shapes whose answer-role
	// response the kind applies to (default: every positive shape).
	AnswerShapes map[string]bool
	// NVariants > 0: the kind has that many shapes; caseCtx.variant selects one
	// and VariantName spells it as comma-separated dimension=value pairs.
	NVariants   int
	VariantName func(v int) string
	// Needs gates applicability.
	Needs func(c *caseCtx, q QuerySpec) bool
	// Apply mutates m (a private copy of the honest response) and reports
	// whether it changed anything. atParent tells which side it runs on.
	Apply func(c *caseCtx, q *dns.Msg, m *dns.Msg, role string, atParent bool) bool
}

func signedZone(c *caseCtx, _ QuerySpec) bool { return c.z != nil && c.z.Signed() }

func alterAnswer(m *dns.Msg) bool {
	idx := lastDataSet(m.Answer)
	for _, i := range idx {
		evilize(m.Answer[i])
	}
	return len(idx) > 0
}

func stripSigs(m *dns.Msg) int {
	n := 0
	keep := func(rr dns.RR) bool {
		if rr.Header().Rrtype == dns.TypeRRSIG {
			n++
			return false
		}
		return true
	}
	m.Answer = filterRRs(m.Answer, keep)
	m.Ns = filterRRs(m.Ns, keep)
	return n
}

func negativeShell(q *dns.Msg, rcode int) *dns.Msg {
	m := new(dns.Msg)
	m.SetReply(q)
	m.Authoritative = true
	m.Rcode = rcode
	if opt := q.IsEdns0(); opt != nil {
		m.SetEdns0(1232, opt.Do())
	}
	return m
}

func soaWithSig(z *zm.Zone) []dns.RR {
	set := z.RRset(z.Apex(), dns.TypeSOA)
	out := append([]dns.RR(nil), set.RRs...)
	return append(out, z.Sigs(z.Apex(), dns.TypeSOA)...)
}

func replaceMsg(dst, src *dns.Msg) {
	id, question := dst.Id, dst.Question
	*dst = *src
	dst.Id, dst.Question = id, question
}

var kinds = []*tamperKind{
	{Name: "rdata-flip", ZoneRoles: []string{roleAnswer, roleNegative, roleDNSKEY}, ParentRoles: []string{roleDS, roleReferral}, Breaks: true, Alters: true, Needs: signedZone,
		Apply: func(c *caseCtx, q, m *dns.Msg, role string, atParent bool) bool {
			switch role {
			case roleAnswer, roleDNSKEY:
				idx := firstDataSet(m.Answer)
				if len(idx) == 0 {
					return false
				}
				evilize(m.Answer[idx[0]])
				return true
			case roleDS:
				if len(m.Answer) == 0 {
					return false
				}
				evilize(m.Answer[0])
				return true
			case roleReferral:
				for _, rr := range m.Ns {
					if rr.Header().Rrtype == dns.TypeDS {
						evilize(rr)
						return true
					}
				}
				return false
			default:
				done := false
				for _, rr := range m.Ns {
					if t := rr.Header().Rrtype; t == dns.TypeNSEC || t == dns.TypeNSEC3 {
						evilize(rr)
						done = true
					}
				}
				return done
			}
		}},
	{Name: "rrsig-flip", ZoneRoles: []string{roleAnswer, roleNegative, roleDNSKEY}, ParentRoles: []string{roleDS, roleReferral}, Breaks: true, Needs: signedZone,
		Apply: func(c *caseCtx, q, m *dns.Msg, role string, atParent bool) bool {
			return eachSig(m, func(s *dns.RRSIG) { s.Signature = flipB64(s.Signature) }) > 0
		}},
	{Name: "signer-sibling", ZoneRoles: []string{roleAnswer, roleNegative}, Breaks: true, Alters: true, Needs: func(c *caseCtx, q QuerySpec) bool { return signedZone(c, q) && c.other != nil },
		Apply: func(c *caseCtx, q, m *dns.Msg, role string, atParent bool) bool {
			if role == roleAnswer {
				alterAnswer(m)
			}
			return eachSig(m, func(s *dns.RRSIG) { s.SignerName = c.other.Apex() }) > 0
		}},
	{Name: "signer-descendant", ZoneRoles: []string{roleAnswer, roleNegative}, Breaks: true, Alters: true, Needs: signedZone,
		Apply: func(c *caseCtx, q, m *dns.Msg, role string, atParent bool) bool {
			if role == roleAnswer {
				alterAnswer(m)
			}
			return eachSig(m, func(s *dns.RRSIG) { s.SignerName = "deeper." + c.z.Apex() }) > 0
		}},
	{Name: "signer-ancestor", ZoneRoles: []string{roleAnswer, roleNegative}, Breaks: true, Alters: true, Needs: func(c *caseCtx, q QuerySpec) bool { return signedZone(c, q) && c.parent != nil },
		Apply: func(c *caseCtx, q, m *dns.Msg, role string, atParent bool) bool {
			if role == roleAnswer {
				alterAnswer(m)
			}
			return eachSig(m, func(s *dns.RRSIG) { s.SignerName = c.parent.Apex() }) > 0
		}},
	{Name: "labels-wrong", ZoneRoles: []string{roleAnswer, roleNegative}, Breaks: true, Alters: true, Needs: signedZone,
		Apply: func(c *caseCtx, q, m *dns.Msg, role string, atParent bool) bool {
			if role == roleAnswer {
				alterAnswer(m)
			}
			return eachSig(m, func(s *dns.RRSIG) {
				if s.Labels > 1 {
					s.Labels--
				} else {
					s.Labels++
				}
			}) > 0
		}},
	{Name: "expired-resign", ZoneRoles: []string{roleAnswer, roleNegative, roleDNSKEY}, Breaks: true, Alters: true, Needs: signedZone,
		Apply: func(c *caseCtx, q, m *dns.Msg, role string, atParent bool) bool {
			now := time.Now()
			o := &zm.SigOpts{Inception: uint32(now.Add(-30 * 24 * time.Hour).Unix()), Expiration: uint32(now.Add(-24 * time.Hour).Unix())}
			if role == roleAnswer {
				alterAnswer(m)
			}
			m.Answer = resign(m.Answer, c.z, o, nil)
			m.Ns = resign(m.Ns, c.z, o, nil)
			return true
		}},
	{Name: "notyet-resign", ZoneRoles: []string{roleAnswer, roleNegative}, Breaks: true, Alters: true, Needs: signedZone,
		Apply: func(c *caseCtx, q, m *dns.Msg, role string, atParent bool) bool {
			now := time.Now()
			o := &zm.SigOpts{Inception: uint32(now.Add(24 * time.Hour).Unix()), Expiration: uint32(now.Add(30 * 24 * time.Hour).Unix())}
			if role == roleAnswer {
				alterAnswer(m)
			}
			m.Answer = resign(m.Answer, c.z, o, nil)
			m.Ns = resign(m.Ns, c.z, o, nil)
			return true
		}},
	{Name: "strip-rrsig", ZoneRoles: []string{roleAnswer, roleNegative, roleDNSKEY}, ParentRoles: []string{roleDS}, Breaks: true, Alters: true, Needs: signedZone,
		Apply: func(c *caseCtx, q, m *dns.Msg, role string, atParent bool) bool {
			if role == roleAnswer {
				alterAnswer(m)
			}
			return stripSigs(m) > 0
		}},
	{Name: "ds-drop", ParentRoles: []string{roleReferral}, Breaks: true, Needs: func(c *caseCtx, q QuerySpec) bool { return signedZone(c, q) && c.parent != nil && c.parent.Signed() },
		Apply: func(c *caseCtx, q, m *dns.Msg, role string, atParent bool) bool {
			n := len(m.Ns)
			m.Ns = filterRRs(m.Ns, func(rr dns.RR) bool {
				t := rr.Header().Rrtype
				return t != dns.TypeDS && t != dns.TypeNSEC && t != dns.TypeNSEC3 && t != dns.TypeRRSIG
			})
			return len(m.Ns) != n
		}},
	{Name: "ds-swap", ParentRoles: []string{roleReferral, roleDS}, Breaks: true, Alters: true, Needs: func(c *caseCtx, q QuerySpec) bool {
		return signedZone(c, q) && delegSecure(c.parent, c.z.Apex())
	},
		Apply: func(c *caseCtx, q, m *dns.Msg, role string, atParent bool) bool {
			evil := c.attacker.DS(3600)
			if len(evil) == 0 {
				return false
			}
			e := evil[0].(*dns.DS)
			done := false
			for _, sec := range [][]dns.RR{m.Answer, m.Ns} {
				for _, rr := range sec {
					if d, ok := rr.(*dns.DS); ok {
						d.KeyTag, d.Algorithm, d.DigestType, d.Digest = e.KeyTag, e.Algorithm, e.DigestType, e.Digest
						done = true
					}
				}
			}
			return done
		}},
	// downgrade: the parent side hides the DS (referral without DS/denial,
	// DS query answered by an unsigned NODATA), the child side serves forged
	// unsigned data and an unsigned DNSKEY set.
	{Name: "downgrade", ZoneRoles: []string{roleAnswer, roleNegative, roleDNSKEY}, ParentRoles: []string{roleReferral, roleDS}, Breaks: true, Alters: true,
		Needs: func(c *caseCtx, q QuerySpec) bool {
			return signedZone(c, q) && delegSecure(c.parent, c.z.Apex())
		},
		Apply: func(c *caseCtx, q, m *dns.Msg, role string, atParent bool) bool {
			if atParent {
				switch role {
				case roleReferral:
					m.Ns = filterRRs(m.Ns, func(rr dns.RR) bool { return rr.Header().Rrtype == dns.TypeNS })
				case roleDS:
					m.Answer = nil
					m.Ns = filterRRs(m.Ns, func(rr dns.RR) bool { return rr.Header().Rrtype == dns.TypeSOA })
					if len(m.Ns) == 0 {
						m.Ns = append(m.Ns, c.parent.RRset(c.parent.Apex(), dns.TypeSOA).RRs...)
					}
				}
				return true
			}
			if role == roleAnswer {
				alterAnswer(m)
			}
			stripSigs(m)
			m.Ns = filterRRs(m.Ns, func(rr dns.RR) bool { return !isSec(rr.Header().Rrtype) })
			return true
		}},
	{Name: "nsec-drop", ZoneRoles: []string{roleNegative, roleAnswer}, Breaks: true, Needs: signedZone,
		Apply: func(c *caseCtx, q, m *dns.Msg, role string, atParent bool) bool {
			n := len(m.Ns)
			m.Ns = filterRRs(m.Ns, func(rr dns.RR) bool {
				switch v := rr.(type) {
				case *dns.NSEC, *dns.NSEC3:
					return false
				case *dns.RRSIG:
					return v.TypeCovered != dns.TypeNSEC && v.TypeCovered != dns.TypeNSEC3
				}
				return true
			})
			return len(m.Ns) != n
		}},
	{Name: "nsec-foreign", ZoneRoles: []string{roleNegative, roleAnswer}, Breaks: true, Needs: func(c *caseCtx, q QuerySpec) bool { return signedZone(c, q) && c.other != nil && c.other.Signed() },
		Apply: func(c *caseCtx, q, m *dns.Msg, role string, atParent bool) bool {
			n := len(m.Ns)
			m.Ns = filterRRs(m.Ns, func(rr dns.RR) bool {
				switch v := rr.(type) {
				case *dns.NSEC, *dns.NSEC3:
					return false
				case *dns.RRSIG:
					return v.TypeCovered != dns.TypeNSEC && v.TypeCovered != dns.TypeNSEC3
				}
				return true
			})
			if len(m.Ns) == n {
				return false
			}
			m.Ns = append(m.Ns, c.other.Proof(c.other.Truth("nx-foreign."+c.other.Apex(), dns.TypeA))...)
			return true
		}},
	{Name: "inject-answer", ZoneRoles: []string{roleAnswer}, Needs: func(c *caseCtx, q QuerySpec) bool { return c.other != nil },
		Apply: func(c *caseCtx, q, m *dns.Msg, role string, atParent bool) bool {
			m.Answer = append(m.Answer, &dns.A{Hdr: dns.RR_Header{Name: "www." + c.other.Apex(), Rrtype: dns.TypeA, Class: dns.ClassINET, Ttl: 3600}, A: evilIP})
			return true
		}},
	{Name: "inject-authority", ZoneRoles: []string{roleAnswer, roleNegative}, ParentRoles: []string{roleReferral}, Needs: func(c *caseCtx, q QuerySpec) bool { return c.other != nil },
		Apply: func(c *caseCtx, q, m *dns.Msg, role string, atParent bool) bool {
			m.Ns = append(m.Ns, &dns.NS{Hdr: dns.RR_Header{Name: c.other.Apex(), Rrtype: dns.TypeNS, Class: dns.ClassINET, Ttl: 3600}, Ns: "ns.evil." + c.other.Apex()})
			m.Extra = append([]dns.RR{&dns.A{Hdr: dns.RR_Header{Name: "ns.evil." + c.other.Apex(), Rrtype: dns.TypeA, Class: dns.ClassINET, Ttl: 3600}, A: evilGlue}}, m.Extra...)
			return true
		}},
	{Name: "inject-additional", ZoneRoles: []string{roleAnswer, roleNegative}, ParentRoles: []string{roleReferral}, Needs: func(c *caseCtx, q QuerySpec) bool { return c.other != nil },
		Apply: func(c *caseCtx, q, m *dns.Msg, role string, atParent bool) bool {
			m.Extra = append([]dns.RR{
				&dns.A{Hdr: dns.RR_Header{Name: "www." + c.other.Apex(), Rrtype: dns.TypeA, Class: dns.ClassINET, Ttl: 3600}, A: evilIP},
				&dns.A{Hdr: dns.RR_Header{Name: "ns1." + c.other.Apex(), Rrtype: dns.TypeA, Class: dns.ClassINET, Ttl: 3600}, A: evilGlue},
			}, m.Extra...)
			return true
		}},
	{Name: "garbage-rrsig-first", ZoneRoles: []string{roleAnswer, roleNegative, roleDNSKEY}, Needs: func(c *caseCtx, q QuerySpec) bool { return signedZone(c, q) && c.parent != nil },
		Apply: func(c *caseCtx, q, m *dns.Msg, role string, atParent bool) bool {
			ins := func(sec []dns.RR) ([]dns.RR, bool) {
				var out []dns.RR
				done := false
				for _, rr := range sec {
					if s, ok := rr.(*dns.RRSIG); ok {
						g := dns.Copy(s).(*dns.RRSIG)
						g.SignerName = c.parent.Apex()
						g.KeyTag ^= 0x5a5a
						g.Signature = flipB64(g.Signature)
						out = append(out, g)
						done = true
					}
					out = append(out, rr)
				}
				return out, done
			}
			var a, b bool
			m.Answer, a = ins(m.Answer)
			m.Ns, b = ins(m.Ns)
			return a || b
		}},
	// forge-nx-parent-nsec: deny an EXISTING name of a delegated child by
	// replaying the parent's genuine delegation NSEC (known finding).
	{Name: "forge-nx-parent-nsec", ZoneRoles: []string{roleAnswer}, Breaks: true, Alters: true,
		Needs: func(c *caseCtx, q QuerySpec) bool {
			return c.parent != nil && c.parent.Signed() && !c.parent.UsesNSEC3() && c.z != nil && zm.IsProperSub(c.z.Apex(), q.Name)
		},
		Apply: func(c *caseCtx, q, m *dns.Msg, role string, atParent bool) bool {
			rec, match := c.parent.NSECFor(c.z.Apex())
			if rec == nil || !match {
				return false
			}
			f := negativeShell(q, dns.RcodeNameError)
			f.Ns = append(soaWithSig(c.parent), c.parent.WithSigs([]dns.RR{rec})...)
			replaceMsg(m, f)
			return true
		}},
	{Name: "forge-nx-parent-nsec3", ZoneRoles: []string{roleAnswer}, Breaks: true, Alters: true,
		Needs: func(c *caseCtx, q QuerySpec) bool {
			return c.parent != nil && c.parent.UsesNSEC3() && c.z != nil && zm.IsProperSub(c.z.Apex(), q.Name)
		},
		Apply: func(c *caseCtx, q, m *dns.Msg, role string, atParent bool) bool {
			var recs []dns.RR
			seen := map[string]bool{}
			for _, n := range []string{c.z.Apex(), q.Question[0].Name, "*." + c.z.Apex()} {
				if r, _ := c.parent.NSEC3For(n); r != nil && !seen[r.Hdr.Name] {
					seen[r.Hdr.Name] = true
					recs = append(recs, r)
				}
			}
			f := negativeShell(q, dns.RcodeNameError)
			f.Ns = append(soaWithSig(c.parent), c.parent.WithSigs(recs)...)
			replaceMsg(m, f)
			return true
		}},
	{Name: "forge-nx-noproof", ZoneRoles: []string{roleAnswer}, Breaks: true, Alters: true, Needs: signedZone,
		Apply: func(c *caseCtx, q, m *dns.Msg, role string, atParent bool) bool {
			f := negativeShell(q, dns.RcodeNameError)
			f.Ns = soaWithSig(c.z)
			replaceMsg(m, f)
			return true
		}},
	{Name: "forge-nodata-replay", ZoneRoles: []string{roleAnswer}, Breaks: true, Alters: true, Needs: signedZone,
		Apply: func(c *caseCtx, q, m *dns.Msg, role string, atParent bool) bool {
			f := negativeShell(q, dns.RcodeSuccess)
			f.Ns = append(soaWithSig(c.z), c.z.Proof(c.z.Truth("mx."+c.z.Apex(), dns.TypeA))...)
			replaceMsg(m, f)
			return true
		}},
	// wildcard-substitute: answer an existing name with the (validly signed)
	// wildcard RRset and a proof for some other name.
	{Name: "wildcard-substitute", ZoneRoles: []string{roleAnswer}, Breaks: true, Alters: true,
		Needs: func(c *caseCtx, q QuerySpec) bool {
			return signedZone(c, q) && strings.HasPrefix(q.Name, "real.wild.") && q.Type == dns.TypeA
		},
		Apply: func(c *caseCtx, q, m *dns.Msg, role string, atParent bool) bool {
			pq := q.Copy()
			pq.Question[0].Name = "substitute.wild." + c.z.Apex()
			h := c.z.Respond(pq)
			if len(h.Answer) == 0 {
				return false
			}
			for _, rr := range h.Answer {
				rr.Header().Name = q.Question[0].Name
			}
			m.Answer, m.Ns = h.Answer, h.Ns
			return true
		}},
	{Name: "foreign-signed", ZoneRoles: []string{roleAnswer}, Breaks: true, Alters: true, Needs: func(c *caseCtx, q QuerySpec) bool { return signedZone(c, q) && c.other != nil && c.other.Signed() },
		Apply: func(c *caseCtx, q, m *dns.Msg, role string, atParent bool) bool {
			alterAnswer(m)
			m.Answer = resign(m.Answer, c.other, nil, nil)
			return true
		}},
	{Name: "clone-tag-signed", ZoneRoles: []string{roleAnswer}, Breaks: true, Alters: true, Needs: signedZone,
		Apply: func(c *caseCtx, q, m *dns.Msg, role string, atParent bool) bool {
			alterAnswer(m)
			tag := c.z.ZSK().DNSKEY.KeyTag()
			m.Answer = resign(m.Answer, c.attacker, &zm.SigOpts{KeyTag: &tag}, nil)
			return true
		}},
	{Name: "dnskey-add-evil", ZoneRoles: []string{roleAnswer, roleDNSKEY}, Breaks: true, Alters: true, Needs: signedZone,
		Apply: func(c *caseCtx, q, m *dns.Msg, role string, atParent bool) bool {
			if role == roleDNSKEY {
				k := dns.Copy(c.attacker.ZSK().DNSKEY)
				k.Header().Name = m.Answer[0].Header().Name
				k.Header().Ttl = m.Answer[0].Header().Ttl
				m.Answer = append([]dns.RR{k}, m.Answer...)
				return true
			}
			alterAnswer(m)
			m.Answer = resign(m.Answer, c.attacker, nil, nil)
			return true
		}},
	// window-expired / window-notyet: the response is the honest one, byte
	// for byte, except that every RRSIG made by the scripted zone is re-made
	// with a validity window that lies entirely in the past / in the future
	// (same key, same labels, same original TTL). The ONLY defect is the window.
	{Name: "window-expired", ZoneRoles: []string{roleAnswer, roleNegative, roleDNSKEY}, ParentRoles: []string{roleDS, roleReferral}, ParentTogether: true, Breaks: true, Needs: windowNeeds,
		Apply: func(c *caseCtx, q, m *dns.Msg, role string, atParent bool) bool {
			now := time.Now()
			return applyWindow(c, m, role, atParent, "expired", uint32(now.Add(-30*24*time.Hour).Unix()), uint32(now.Add(-26*time.Hour).Unix()))
		}},
	{Name: "window-notyet", ZoneRoles: []string{roleAnswer, roleNegative, roleDNSKEY}, ParentRoles: []string{roleDS, roleReferral}, ParentTogether: true, Breaks: true, Needs: windowNeeds,
		Apply: func(c *caseCtx, q, m *dns.Msg, role string, atParent bool) bool {
			now := time.Now()
			return applyWindow(c, m, role, atParent, "notyet", uint32(now.Add(26*time.Hour).Unix()), uint32(now.Add(30*24*time.Hour).Unix()))
		}},
	// unsigned-child: every response of the zone's own servers (data, denial,
	// DNSKEY) arrives without signatures and with forged data, while the
	// parent keeps publishing its (signed) DS RRset untouched. With a usable
	// DS at the parent this is bogus whatever else the DS RRset contains.
	{Name: "unsigned-child", ZoneRoles: []string{roleAnswer, roleNegative, roleDNSKEY}, ZoneTogether: true, Breaks: true, Alters: true,
		Needs: func(c *caseCtx, q QuerySpec) bool { return signedZone(c, q) && delegSecure(c.parent, c.z.Apex()) },
		Apply: func(c *caseCtx, q, m *dns.Msg, role string, atParent bool) bool {
			if role == roleAnswer {
				alterAnswer(m)
			}
			stripSigs(m)
			m.Ns = filterRRs(m.Ns, func(rr dns.RR) bool { return !isSec(rr.Header().Rrtype) })
			return true
		}},
}

func kindByName(n string) *tamperKind {
	for _, k := range kinds {
		if k.Name == n {
			return k
		}
	}
	return nil
}

func contains(l []string, s string) bool {
	for _, x := range l {
		if x == s {
			return true
		}
	}
	return false
}

func windowNeeds(c *caseCtx, q QuerySpec) bool { return signedZone(c, q) }

// applyWindow re-makes the RRSIGs of one response with the window inc..exp.
// Zone side: every RRSIG whose signer is the attacked zone. Parent side: the
// RRSIGs over the DS RRset of the attacked zone (signer = parent).
func applyWindow(c *caseCtx, m *dns.Msg, role string, atParent bool, which string, inc, exp uint32) bool {
	signer := c.z
	only := uint16(0)
	if atParent {
		signer, only = c.parent, dns.TypeDS
	}
	if signer == nil || !signer.Signed() {
		return false
	}
	n := rewindow(m, signer, only, inc, exp)
	if n > 0 {
		c.window[roleIdx(role)].Add(1)
	}
	return n > 0
}

// rewindow replaces, in the answer and authority sections, every RRSIG made by
// zone z (covering type `only`, 0 = any) by a signature over the same RRset
// with the same key, labels and original TTL but the validity window inc..exp.
// It returns the number of signatures replaced; a signature it cannot re-make
// (no private key, RRset not in the message) is left alone.
func rewindow(m *dns.Msg, z *zm.Zone, only uint16, inc, exp uint32) int {
	n := 0
	for _, sec := range []*[]dns.RR{&m.Answer, &m.Ns} {
		for i, rr := range *sec {
			sig, ok := rr.(*dns.RRSIG)
			if !ok || !strings.EqualFold(sig.SignerName, z.Apex()) || (only != 0 && sig.TypeCovered != only) {
				continue
			}
			var key *zm.Key
			for _, k := range z.Keys() {
				if k.Priv != nil && k.DNSKEY.KeyTag() == sig.KeyTag && k.DNSKEY.Algorithm == sig.Algorithm {
					key = k
				}
			}
			if key == nil {
				continue
			}
			var set []dns.RR
			for _, x := range *sec {
				if x.Header().Rrtype == sig.TypeCovered && strings.EqualFold(x.Header().Name, sig.Hdr.Name) {
					set = append(set, dns.Copy(x))
				}
			}
			if len(set) == 0 {
				continue
			}
			owner := sig.Hdr.Name
			if int(sig.Labels) < dns.CountLabel(owner) {
				// wildcard expansion: the signature is over "*.<closest encloser>"
				idx := dns.Split(owner)
				wild := "*." + owner[idx[len(idx)-int(sig.Labels)]:]
				for _, x := range set {
					x.Header().Name = wild
				}
			}
			ottl := sig.OrigTtl
			for _, x := range set {
				x.Header().Ttl = ottl
			}
			ns, err := z.SignRRset(set, &zm.SigOpts{Key: key, Inception: inc, Expiration: exp, OrigTTL: &ottl})
			if err != nil || ns.Labels != sig.Labels {
				continue
			}
			ns.Hdr = sig.Hdr
			(*sec)[i] = ns
			n++
		}
	}
	return n
}
