package main

import (
	"encoding/base64"
	"fmt"
	"strings"
	"time"

	"github.com/miekg/dns"
	zm "github.com/semihalev/sdns/zzverif/zonemodel"
)

// Combined forgeries of ONE upstream response in which two individually
// harmless-looking ingredients cooperate.
//
// (A) several RRSIGs over one RRset that disagree with each other. RFC 6840
//     §5.11 lets a validator accept an RRset when ANY of its signatures
//     verifies, so a forger may list junk signatures ("decoys") next to a
//     genuine one at no cost. Whatever the validator derives from a signature
//     — above all "this RRset is a wildcard expansion and needs a next-closer
//     denial" (Labels, RFC 4035 §5.3.4) — must come from the signature that
//     authenticated the RRset, not from whichever signature is listed first /
//     last / happens to share the key tag.
//
//	decoy-rrsig      the honest response, every genuine RRSIG accompanied by
//	                 junk RRSIGs of a generated shape (validation must not be
//	                 steered into accepting anything else: TRUTH or SERVFAIL)
//	wildcard-decoy   the zone's genuine wildcard RRset + RRSIG replayed at a
//	                 name that EXISTS (or a genuine expansion whose next-closer
//	                 denial was removed), without / with the denial of some
//	                 other name, and with decoys of every shape around the
//	                 genuine wildcard signature: only SERVFAIL is legal
//
// (B) records that may legitimately travel unsigned because another record
//     vouches for them: the CNAME synthesised from a DNAME (RFC 6672 §5.3.1).
//     The voucher has to be a DNAME of the zone being validated, itself
//     validated. A forged CNAME next to a DNAME that is owned by an ancestor of
//     the signer zone (out of zone, so never validated), by the zone apex
//     without a signature, placed in the answer or the authority section,
//     unsigned / junk-signed (naming the zone or the ancestor as signer), is
//     "padded with foreign records" + "unsigned": only SERVFAIL is legal. (A
//     DNAME carrying a GENUINE signature of the ancestor that owns it is not a
//     forgery an attacker can make — an ancestor's key may redirect the
//     subtree — and is not generated.)
//
//	synth-vouch           an existing name answered by a forged CNAME plus a
//	                      DNAME that reproduces it by substitution
//	dname-cname-mismatch  a genuine signed DNAME whose accompanying CNAME does
//	                      NOT follow from the substitution
//
// Every shape is a "variant" of its kind: generated cases draw one from a
// seeded stream, the directed worlds forgemix-* enumerate them at every seed.

// ---- RRSIG decoys ------------------------------------------------------------

type decoyShape struct {
	none   bool
	labels string // exact | same | fewer: the decoy's Labels field
	pos    string // first | last | both: where it is listed relative to the genuine RRSIG
	tag    string // same | other: key tag of the genuine signature or a different one
}

const nDecoyShapes = 19 // 0 = no decoy

func decoyShapeOf(v int) decoyShape {
	v %= nDecoyShapes
	if v == 0 {
		return decoyShape{none: true}
	}
	v--
	return decoyShape{
		labels: []string{"exact", "same", "fewer"}[v%3],
		pos:    []string{"first", "last", "both"}[(v/3)%3],
		tag:    []string{"same", "other"}[(v/9)%2],
	}
}

func (d decoyShape) String() string {
	if d.none {
		return "decoy=none"
	}
	return "decoy-labels=" + d.labels + ",decoy-pos=" + d.pos + ",decoy-tag=" + d.tag
}

// addDecoys lists junk RRSIGs next to every RRSIG made by zone apex in the
// answer and authority sections. A decoy copies the genuine signature's owner,
// type covered, algorithm, signer and window; its signature bytes are junk and
// its Labels / key tag follow the shape. It returns the number of decoys added.
func addDecoys(m *dns.Msg, apex string, d decoyShape) int {
	if d.none {
		return 0
	}
	n := 0
	mk := func(s *dns.RRSIG) *dns.RRSIG {
		g := dns.Copy(s).(*dns.RRSIG)
		g.Signature = flipB64(s.Signature)
		full := uint8(dns.CountLabel(s.Hdr.Name))
		if strings.HasPrefix(s.Hdr.Name, "*.") && full > 0 {
			full--
		}
		switch d.labels {
		case "exact":
			g.Labels = full
		case "fewer":
			if s.Labels > 1 {
				g.Labels = s.Labels - 1
			}
		}
		if d.tag == "other" {
			g.KeyTag ^= 0x5a5a
		}
		n++
		return g
	}
	for _, sec := range []*[]dns.RR{&m.Answer, &m.Ns} {
		var out []dns.RR
		for _, rr := range *sec {
			s, ok := rr.(*dns.RRSIG)
			if !ok || !strings.EqualFold(s.SignerName, apex) {
				out = append(out, rr)
				continue
			}
			if d.pos == "first" || d.pos == "both" {
				out = append(out, mk(s))
			}
			out = append(out, rr)
			if d.pos == "last" || d.pos == "both" {
				g := mk(s)
				if d.pos == "both" {
					// two decoys must not be byte-identical
					g.Signature = flipB64At(s.Signature, 3)
				}
				out = append(out, g)
			}
		}
		*sec = out
	}
	return n
}

// flipB64At flips one bit of the k-th octet of a base64 string.
func flipB64At(s string, k int) string {
	b, err := base64.StdEncoding.DecodeString(s)
	if err != nil || len(b) == 0 {
		return s
	}
	b[k%len(b)] ^= 0x04
	return base64.StdEncoding.EncodeToString(b)
}

// sameQuestion: the upstream question is the client's own (qname
// minimisation and DS / DNSKEY fetches ask other names and types).
func sameQuestion(c *caseCtx, q *dns.Msg) bool {
	return len(q.Question) == 1 && strings.EqualFold(q.Question[0].Name, c.qname) && (c.qtype == 0 || q.Question[0].Qtype == c.qtype)
}

var decoyKind = &tamperKind{Name: "decoy-rrsig", ZoneRoles: []string{roleAnswer, roleNegative}, Needs: signedZone,
	NVariants:   nDecoyShapes - 1,
	VariantName: func(v int) string { return decoyShapeOf(v + 1).String() },
	Apply: func(c *caseCtx, q, m *dns.Msg, role string, atParent bool) bool {
		return addDecoys(m, c.z.Apex(), decoyShapeOf(c.variant+1)) > 0
	}}

// ---- wildcard replay / proof-less expansion with decoys ----------------------

type wildShape struct {
	auth  string // none | other-name-proof: what the authority section carries
	decoy decoyShape
}

const nWildShapes = 2 * nDecoyShapes

func wildShapeOf(v int) wildShape {
	v %= nWildShapes
	return wildShape{auth: []string{"none", "other-name-proof"}[v/nDecoyShapes], decoy: decoyShapeOf(v % nDecoyShapes)}
}

func (s wildShape) String() string { return "auth=" + s.auth + "," + s.decoy.String() }

func isDenialRR(rr dns.RR) bool {
	switch v := rr.(type) {
	case *dns.NSEC, *dns.NSEC3:
		return true
	case *dns.RRSIG:
		return v.TypeCovered == dns.TypeNSEC || v.TypeCovered == dns.TypeNSEC3
	}
	return false
}

var wildcardDecoyKind = &tamperKind{Name: "wildcard-decoy", ZoneRoles: []string{roleAnswer}, Breaks: true, Alters: true,
	AnswerShapes: map[string]bool{"wild": true, "realwild": true},
	NVariants:    nWildShapes,
	VariantName:  func(v int) string { return wildShapeOf(v).String() },
	Needs: func(c *caseCtx, q QuerySpec) bool {
		return signedZone(c, q) && q.Type == dns.TypeA && strings.Contains(zm.Canon(q.Name), ".wild.")
	},
	Apply: func(c *caseCtx, q, m *dns.Msg, role string, atParent bool) bool {
		if !sameQuestion(c, q) || len(m.Answer) == 0 {
			return false
		}
		sh := wildShapeOf(c.variant)
		qn := q.Question[0].Name
		if strings.HasPrefix(zm.Canon(qn), "real.wild.") {
			// the name exists: replay the wildcard's RRset and its genuine RRSIG
			pq := q.Copy()
			pq.Question[0].Name = "substitute.wild." + c.z.Apex()
			h := c.z.Respond(pq)
			if len(h.Answer) == 0 {
				return false
			}
			for _, rr := range h.Answer {
				rr.Header().Name = qn
			}
			m.Answer = h.Answer
			m.Ns = nil
			if sh.auth == "other-name-proof" {
				m.Ns = h.Ns
			}
			c.note("wildcard_replayed_at_existing_name")
		} else {
			// a genuine expansion that lost its next-closer denial
			n := len(m.Ns)
			m.Ns = filterRRs(m.Ns, func(rr dns.RR) bool { return !isDenialRR(rr) })
			if len(m.Ns) == n {
				return false
			}
			c.note("wildcard_expansion_without_denial")
		}
		if addDecoys(m, c.z.Apex(), sh.decoy) > 0 {
			c.note("wildcard_signature_with_decoys")
		}
		return true
	}}

// ---- forged CNAME vouched for by a DNAME ---------------------------------------

type vouchShape struct {
	owner  string // parent | grandparent | apex: who owns the DNAME
	place  string // authority | answer
	sig    string // none | junk-cname | junk-both
	target string // evil | sibling
}

const nVouchShapes = 3 * 2 * 3 * 2

func vouchShapeOf(v int) vouchShape {
	v %= nVouchShapes
	return vouchShape{
		owner:  []string{"parent", "grandparent", "apex"}[v%3],
		place:  []string{"authority", "answer"}[(v/3)%2],
		sig:    []string{"junk-cname", "none", "junk-both"}[(v/6)%3],
		target: []string{"evil", "sibling"}[(v/18)%2],
	}
}

func vouchIndex(owner, place, sig int, sibling bool) int {
	v := owner + 3*place + 6*sig
	if sibling {
		v += 18
	}
	return v
}

func (s vouchShape) String() string {
	return "dname-owner=" + s.owner + ",dname-in=" + s.place + ",sig=" + s.sig + ",target=" + s.target
}

// vouchOwnerZone returns the zone that owns the forged DNAME for shape owner.
func vouchOwnerZone(c *caseCtx, owner string) *zm.Zone {
	switch owner {
	case "apex":
		return c.z
	case "parent":
		return c.parent
	case "grandparent":
		if c.parent == nil {
			return nil
		}
		if g := c.w.zones[parentRole(parentRole(c.zoneRole))]; g != nil && g.Apex() != "." {
			return g
		}
	}
	return nil
}

func junkSigFor(c *caseCtx, template *dns.RRSIG, owner string, covered uint16, signer string) *dns.RRSIG {
	g := &dns.RRSIG{}
	if template != nil {
		g = dns.Copy(template).(*dns.RRSIG)
		g.Signature = flipB64(template.Signature)
	} else {
		if k := c.z.ZSK(); k != nil {
			g.Algorithm, g.KeyTag = k.DNSKEY.Algorithm, k.DNSKEY.KeyTag()
		}
		now := time.Now()
		g.Inception, g.Expiration = uint32(now.Add(-6*time.Hour).Unix()), uint32(now.Add(6*time.Hour).Unix())
		g.Signature = "AAAAAAAAAAAAAAAAAAAAAAAAAAAAAAAAAAAAAAAAAAAAAAAAAAAAAAAAAAAAAAAAAAAAAAAAAAAAAAAAAAAAAA=="
	}
	g.Hdr = dns.RR_Header{Name: owner, Rrtype: dns.TypeRRSIG, Class: dns.ClassINET, Ttl: 300}
	g.TypeCovered = covered
	g.OrigTtl = 300
	g.Labels = uint8(dns.CountLabel(owner))
	g.SignerName = signer
	return g
}

var synthVouchKind = &tamperKind{Name: "synth-vouch", ZoneRoles: []string{roleAnswer}, Breaks: true, Alters: true,
	AnswerShapes: map[string]bool{"pos": true, "mx": true, "realwild": true},
	NVariants:    nVouchShapes,
	VariantName:  func(v int) string { return vouchShapeOf(v).String() },
	Needs: func(c *caseCtx, q QuerySpec) bool {
		return signedZone(c, q) && c.parent != nil && zm.IsProperSub(c.z.Apex(), q.Name)
	},
	Apply: func(c *caseCtx, q, m *dns.Msg, role string, atParent bool) bool {
		if !sameQuestion(c, q) || len(m.Answer) == 0 {
			return false
		}
		sh := vouchShapeOf(c.variant)
		oz := vouchOwnerZone(c, sh.owner)
		if oz == nil {
			sh.owner = "parent"
			oz = c.parent
		}
		qn := q.Question[0].Name
		downer := oz.Apex()
		if !zm.IsProperSub(downer, qn) {
			return false
		}
		dtarget := "evil.invalid."
		if sh.target == "sibling" && c.other != nil {
			dtarget = c.other.Apex()
		}
		ctarget, ok := zm.ReplaceSuffix(qn, downer, dtarget)
		if !ok {
			return false
		}
		var template *dns.RRSIG
		for _, rr := range m.Answer {
			if s, ok := rr.(*dns.RRSIG); ok && strings.EqualFold(s.SignerName, c.z.Apex()) {
				template = s
				break
			}
		}
		cname := &dns.CNAME{Hdr: dns.RR_Header{Name: qn, Rrtype: dns.TypeCNAME, Class: dns.ClassINET, Ttl: 300}, Target: ctarget}
		dname := &dns.DNAME{Hdr: dns.RR_Header{Name: downer, Rrtype: dns.TypeDNAME, Class: dns.ClassINET, Ttl: 300}, Target: dtarget}
		answer := []dns.RR{cname}
		if sh.sig != "none" {
			answer = append(answer, junkSigFor(c, template, qn, dns.TypeCNAME, c.z.Apex()))
		}
		dset := []dns.RR{dname}
		if sh.sig == "junk-both" {
			// the DNAME's junk signature names the zone that owns it as signer
			dset = append(dset, junkSigFor(c, template, downer, dns.TypeDNAME, oz.Apex()))
		}
		if sh.place == "answer" {
			m.Answer = append(dset, answer...)
			m.Ns = nil
		} else {
			m.Answer = answer
			m.Ns = dset
		}
		m.Rcode = dns.RcodeSuccess
		c.note("forged_cname_with_vouching_dname/owner=" + sh.owner + "/in=" + sh.place)
		return true
	}}

var dnameMismatchKind = &tamperKind{Name: "dname-cname-mismatch", ZoneRoles: []string{roleAnswer}, Alters: true,
	AnswerShapes: map[string]bool{"dname": true},
	Needs:        signedZone,
	Apply: func(c *caseCtx, q, m *dns.Msg, role string, atParent bool) bool {
		if !sameQuestion(c, q) {
			return false
		}
		hasDNAME, done := false, false
		for _, rr := range m.Answer {
			if _, ok := rr.(*dns.DNAME); ok {
				hasDNAME = true
			}
		}
		if !hasDNAME {
			return false
		}
		for _, rr := range m.Answer {
			if cn, ok := rr.(*dns.CNAME); ok && !isEvil(cn) {
				cn.Target = "evil." + cn.Target
				done = true
			}
		}
		if done {
			c.note("genuine_dname_with_mismatching_cname")
		}
		return done
	}}

var forgemixKinds = []*tamperKind{decoyKind, wildcardDecoyKind, synthVouchKind, dnameMismatchKind}

func init() { kinds = append(kinds, forgemixKinds...) }

func isForgemixKind(name string) bool {
	for _, k := range forgemixKinds {
		if k.Name == name {
			return true
		}
	}
	return false
}

// ---- directed worlds forgemix-* --------------------------------------------------

// forgemixPlans enumerates the variants of the combined forgeries on a
// directed world: every decoy shape around a replayed / proof-less wildcard
// signature, every (DNAME owner, section, signature decoration) of the vouched
// CNAME, with the remaining dimensions alternating.
func forgemixPlans(w *world, add func(kindName, qKind, role string, atParent bool, variant int)) {
	roles := []string{"zone"}
	if w.zones["sub"] != nil {
		roles = append(roles, "sub")
	}
	for ri, zr := range roles {
		// (B) vouched CNAME
		i := 0
		for owner := 0; owner < 3; owner++ {
			if owner == 1 && zr != "sub" {
				continue // no grandparent other than the root
			}
			for place := 0; place < 2; place++ {
				for sig := 0; sig < 3; sig++ {
					i++
					sibling := (i+ri)%2 == 0
					qk := zr + "-pos"
					if i%5 == 0 {
						qk = zr + "-mx"
					}
					add("synth-vouch", qk, roleAnswer, false, vouchIndex(owner, place, sig, sibling))
				}
			}
		}
		add("dname-cname-mismatch", zr+"-dname", roleAnswer, false, 0)
		// (A) wildcard signature with decoys
		for v := 0; v < nWildShapes; v++ {
			if ri == 1 && v%4 != w.spec.Index%4 {
				continue // the second zone of a world runs every fourth shape
			}
			add("wildcard-decoy", zr+"-realwild", roleAnswer, false, v)
			if v < nDecoyShapes {
				add("wildcard-decoy", zr+"-wild", roleAnswer, false, v)
			}
		}
		for v := 0; v < nDecoyShapes-1; v++ {
			if ri == 1 && v%3 != w.spec.Index%3 {
				continue
			}
			switch (v + ri) % 4 {
			case 0:
				add("decoy-rrsig", zr+"-pos", roleAnswer, false, v)
			case 1:
				add("decoy-rrsig", zr+"-wild", roleAnswer, false, v)
			case 2:
				add("decoy-rrsig", zr+"-nx", roleNegative, false, v)
			default:
				add("decoy-rrsig", zr+"-nodata", roleNegative, false, v)
			}
		}
	}
}

// countVariant records, for a case whose forged response was delivered, each
// dimension of the variant it carried.
func (run *runner) countVariant(kind *tamperKind, variant int) {
	if kind.NVariants == 0 || kind.VariantName == nil {
		return
	}
	name := kind.VariantName(variant)
	run.r.DistinctIn("kind_variant", kind.Name+"|"+name)
	for _, dim := range strings.Split(name, ",") {
		run.r.Count(fmt.Sprintf("variant_delivered/%s/%s", kind.Name, dim), 1)
	}
}

// requireForgemix lists the coverage a run must have reached for the combined
// forgeries (the directed worlds deliver about three times these on their own).
func requireForgemix(req func(counter string, min int64)) {
	req("directed_cases_observed/forgemix", 120)
	req("directed_reply_servfail/forgemix", 80)
	for _, d := range []string{"decoy-labels=exact", "decoy-labels=same", "decoy-labels=fewer", "decoy-pos=first", "decoy-pos=last", "decoy-pos=both", "decoy-tag=same", "decoy-tag=other"} {
		req("variant_delivered/wildcard-decoy/"+d, 8)
		req("variant_delivered/decoy-rrsig/"+d, 4)
	}
	req("variant_delivered/wildcard-decoy/decoy=none", 3)
	req("variant_delivered/wildcard-decoy/auth=none", 20)
	req("variant_delivered/wildcard-decoy/auth=other-name-proof", 10)
	for _, d := range []string{"dname-owner=parent", "dname-owner=grandparent", "dname-owner=apex", "dname-in=authority", "dname-in=answer",
		"sig=none", "sig=junk-cname", "sig=junk-both", "target=evil", "target=sibling"} {
		req("variant_delivered/synth-vouch/"+d, 4)
	}
	req("forgemix/wildcard_replayed_at_existing_name", 30)
	req("forgemix/wildcard_expansion_without_denial", 15)
	req("forgemix/wildcard_signature_with_decoys", 40)
	req("forgemix/forged_cname_with_vouching_dname/owner=parent/in=authority", 4)
	req("forgemix/forged_cname_with_vouching_dname/owner=grandparent/in=authority", 2)
	req("forgemix/forged_cname_with_vouching_dname/owner=apex/in=answer", 2)
	req("forgemix/genuine_dname_with_mismatching_cname", 2)
	req("forgemix_reply_servfail/wildcard-decoy", 40)
	req("forgemix_reply_servfail/synth-vouch", 20)
	req("forgemix_reply_truth_or_servfail/decoy-rrsig", 10)
}
