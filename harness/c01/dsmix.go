package main

import (
	"crypto/sha256"
	"encoding/hex"
	"fmt"
	"math/rand/v2"
	"strconv"
	"strings"

	"github.com/miekg/dns"
	zm "github.com/semihalev/sdns/zzverif/zonemodel"
)

// DS RRsets that mix usable and unusable records.
//
// "Usable" in the oracle: a digest type and a key algorithm every current
// validator implements (digest 1/2/4; algorithm 5, 7, 8, 10, 13, 14, 15). The
// generator only fabricates records that are unusable beyond doubt: digest
// types 3 (GOST R 34.11-94, deprecated), 7, 200, 255 (unassigned) and key
// algorithms 1 (RSAMD5, MUST NOT), 12 (ECC-GOST, MUST NOT), 200 (unassigned),
// 253 (private); algorithm 16 (Ed448, which a validator MAY implement) is used
// only next to a usable record, where either reading gives the same verdict.
//
// RFC 4035 §5.2 / RFC 6840 §5.2: unusable DS records are ignored one by one;
// only when NONE is usable is the child treated as unsigned. Record order is
// not covered by the RRSIG, so every order must give the same verdict.

func dsUsable(ds *dns.DS) bool {
	switch ds.DigestType {
	case dns.SHA1, dns.SHA256, dns.SHA384:
	default:
		return false
	}
	switch ds.Algorithm {
	case dns.RSASHA1, dns.RSASHA1NSEC3SHA1, dns.RSASHA256, dns.RSASHA512, dns.ECDSAP256SHA256, dns.ECDSAP384SHA384, dns.ED25519:
		return true
	}
	return false
}

func usableDS(set []dns.RR) []dns.RR {
	var out []dns.RR
	for _, rr := range set {
		if ds, ok := rr.(*dns.DS); ok && dsUsable(ds) {
			out = append(out, rr)
		}
	}
	return out
}

// delegSecure: the parent publishes at least one usable DS for the cut.
func delegSecure(parent *zm.Zone, child string) bool {
	if parent == nil {
		return false
	}
	d := parent.Delegation(child)
	return d != nil && len(usableDS(d.DS)) > 0
}

func layoutUsable(layout []string) bool {
	for _, t := range layout {
		if strings.HasPrefix(t, "ok") {
			return true
		}
	}
	return false
}

// layoutDS builds the DS RRset described by layout for child's KSK.
func layoutDS(child *zm.Zone, layout []string) []dns.RR {
	real := child.DS(0)
	if len(real) == 0 {
		return nil
	}
	base := real[0].(*dns.DS)
	var out []dns.RR
	for i, tok := range layout {
		switch {
		case tok == "ok":
			out = append(out, dns.Copy(base))
		case tok == "ok384":
			out = append(out, child.DS(0, dns.SHA384)[0])
		case tok == "ok1":
			out = append(out, child.DS(0, dns.SHA1)[0])
		case strings.HasPrefix(tok, "digest:"):
			n, _ := strconv.Atoi(tok[len("digest:"):])
			d := dns.Copy(base).(*dns.DS)
			d.DigestType = uint8(n)
			sum := sha256.Sum256([]byte(fmt.Sprintf("%s/%s/%d", child.Apex(), tok, i)))
			d.Digest = strings.ToUpper(hex.EncodeToString(sum[:]))
			out = append(out, d)
		case strings.HasPrefix(tok, "alg:"):
			n, _ := strconv.Atoi(tok[len("alg:"):])
			d := dns.Copy(base).(*dns.DS)
			d.Algorithm = uint8(n)
			out = append(out, d)
		}
	}
	return out
}

var unusableTokens = []string{"digest:3", "digest:7", "digest:200", "digest:255", "alg:1", "alg:12", "alg:200", "alg:253"}

// decorateDSMix gives some delegations of a generated hierarchy a mixed
// (usable + unusable) or an unusable-only DS RRset. Drawn from its own stream
// so the topology stream of genHier is unchanged.
func decorateDSMix(rng *rand.Rand, h *HierSpec) {
	for i := range h.Levels {
		l := &h.Levels[i]
		if l.Role == "root" {
			continue
		}
		x := rng.IntN(12)
		pick := func() string { return unusableTokens[rng.IntN(len(unusableTokens))] }
		switch l.Mode {
		case modeNSEC, modeNSEC3, modeOptOut:
			if x >= 3 {
				continue
			}
			lay := []string{[]string{"ok", "ok", "ok384", "ok1"}[rng.IntN(4)], pick()}
			if rng.IntN(2) == 0 {
				lay = append(lay, []string{pick(), "alg:16"}[rng.IntN(2)])
			}
			rng.Shuffle(len(lay), func(a, b int) { lay[a], lay[b] = lay[b], lay[a] })
			l.DSLayout = lay
		case modeIsland:
			if x >= 4 {
				continue
			}
			lay := []string{pick()}
			if rng.IntN(2) == 0 {
				lay = append(lay, pick())
			}
			l.DSLayout = lay
		}
	}
}

// stepStatus recomputes the DNSSEC status of a referral path with the
// usable-DS rule (zonemodel's Walk treats any DS as "the" DS).
func (w *world) stepStatus(path []string) zm.Security {
	st := zm.Secure
	if len(path) == 0 {
		return st
	}
	if z := w.u.NS.Zone(path[0]); z == nil || !z.Signed() {
		st = zm.Insecure
	}
	for i := 1; i < len(path) && st == zm.Secure; i++ {
		p, c := w.u.NS.Zone(path[i-1]), w.u.NS.Zone(path[i])
		if p == nil || c == nil {
			return st
		}
		d := p.Delegation(c.Apex())
		if d == nil {
			return st
		}
		us := usableDS(d.DS)
		switch {
		case len(us) == 0:
			st = zm.Insecure
		case !zm.DSMatches(us, c):
			st = zm.Bogus
		}
	}
	return st
}

// firstDSUnusable reports, for a DS RRset as sent on the wire, whether it mixes
// usable and unusable records and whether an unusable one leads.
func dsShape(rrs []dns.RR) (mixed, unusableFirst, unusableOnly bool) {
	var seen, usable int
	first := true
	for _, rr := range rrs {
		ds, ok := rr.(*dns.DS)
		if !ok {
			continue
		}
		seen++
		u := dsUsable(ds)
		if u {
			usable++
		}
		if first {
			unusableFirst = !u
			first = false
		}
	}
	mixed = seen > usable && usable > 0
	unusableOnly = seen > 0 && usable == 0
	if !mixed {
		unusableFirst = false
	}
	return
}
