package main

// Capacity probe — "capacity-refused resolution surfaces as SERVFAIL to that
// client only … and after load stops the server returns to quiescence".
//
// The script runs a tiny MaxConcurrentQueries, so the resolver's global pool
// of in-flight lookups is a handful of slots. One probe:
//
//	pins     cap+2 distinct questions below the probe's own slow-referral /
//	         black-holed zone (isoZone): each admitted one holds a lookup slot
//	         until the black hole opens (or its query timeout);
//	victims  once every slot is observed held (VerifC11Slots) and the pins have
//	         reached the black hole, clients ask never-asked names of an honest,
//	         fault-free zone, one at a time, each only while the pool is full —
//	         a cache miss that finds no slot is refused;
//	open     the victims have their replies → the black hole opens, the pins
//	         finish, every limiter slot is free and the listeners are quiescent
//	         (nothing but the cached control name is being asked);
//	re-ask   OTHER clients (UDP, pooled sockets) ask the victims' names, one
//	         at a time (the re-asks must not fill the pool themselves).
//
// Judged by counting, against the authorities' packet log: a victim is
// "refused" when it was sent while the pool was full, was answered SERVFAIL
// and no upstream server had seen its name by the time of the re-ask. The
// re-ask of a refused name arrives at a quiet server with a healthy upstream;
// the refusal belonged to the first client alone, so a SERVFAIL for the re-ask
// that was produced without any upstream packet for the name at all is that
// refusal handed to another client after the load stopped.

import (
	"fmt"
	"strings"
	"sync"
	"time"

	"github.com/miekg/dns"
	"github.com/semihalev/sdns/zzverif/vlib"
)

type capProbe struct {
	s       *scriptRun
	z       *isoZone
	pins    []*qrec
	victims []*qrec
	reasks  []*qrec // reasks[k] re-asks victims[k] (nil = not re-asked)
	full    []bool  // victims[k] was sent right after the pool was observed full
	mu      sync.Mutex
	last    time.Time
	ran     bool
	cap     int
	pinned  bool // ≥ cap pins reached the black hole with every slot held
	quiet   bool // slots free + listeners quiescent before the re-asks
}

func newCapProbe(s *scriptRun, z *isoZone, nVictims int) *capProbe {
	p := &capProbe{s: s, z: z}
	p.cap = s.e.h.VerifC11Slots().ResolutionCap
	vz := s.e.t.zones[len(s.e.t.zones)-1].apex
	mk := func(i int, pattern, tr, name string) *qrec {
		q := &qrec{Idx: 300000 + i, Wave: -1, Pattern: pattern, Tr: tr, Name: name, Qtype: dns.TypeA}
		q.pkt = buildQuery(q.Name, q.Qtype, 0, false, true)
		return q
	}
	for i := 0; i < p.cap+2; i++ {
		p.pins = append(p.pins, mk(i, "capacity-pin", "tcp", fmt.Sprintf("pin%d-%d.%s", s.sp.Index, i, z.leafApex)))
	}
	for k := 0; k < nVictims; k++ {
		name := fmt.Sprintf("capv%d-%d.%s", s.sp.Index, k, vz)
		p.victims = append(p.victims, mk(1000+k, "capacity-victim", "tcp", name))
		p.reasks = append(p.reasks, nil)
		p.full = append(p.full, false)
	}
	return p
}

func (p *capProbe) queries() []*qrec {
	out := append([]*qrec{}, p.pins...)
	out = append(out, p.victims...)
	p.mu.Lock()
	for _, q := range p.reasks {
		if q != nil {
			out = append(out, q)
		}
	}
	p.mu.Unlock()
	return out
}

func (p *capProbe) lastSend() time.Time {
	p.mu.Lock()
	defer p.mu.Unlock()
	return p.last
}

func (p *capProbe) send(q *qrec) {
	if q.Tr == "udp" {
		sock := p.s.cl.pooledUDP()
		sock.register(q)
		sock.send(q)
	} else {
		c, err := p.s.cl.tcpFor(true)
		if err != nil {
			return
		}
		c.send(q)
	}
	p.mu.Lock()
	p.last = time.Now()
	p.mu.Unlock()
}

func (p *capProbe) poolFull() bool {
	c := p.s.e.h.VerifC11Slots()
	return c.ResolutionCap > 0 && c.Resolution >= c.ResolutionCap
}

// pinsAtBlackHole: distinct pin names the black-holed leaf server has seen.
func (p *capProbe) pinsAtBlackHole() int {
	seen := map[string]bool{}
	for _, pk := range p.s.e.t.u.Log.All() {
		if strings.HasPrefix(pk.QNameL, "pin") && strings.HasSuffix(pk.QNameL, "."+p.z.leafApex) && pk.Action == "iso-blackhole" {
			seen[pk.QNameL] = true
		}
	}
	return len(seen)
}

func (p *capProbe) run() {
	p.ran = true
	e := p.s.e
	defer p.z.open.Store(true)
	if p.cap <= 0 || p.cap > 16 {
		return
	}
	t0 := time.Now()
	for _, q := range p.pins {
		p.send(q)
	}
	// the pins walk two slow referrals; wait until the admitted ones sit at the
	// black hole (they stay there until it opens or their query timeout)
	for time.Since(t0) < queryTimeout-500*time.Millisecond {
		if p.poolFull() && p.pinsAtBlackHole() >= p.cap {
			p.pinned = true
			break
		}
		time.Sleep(5 * time.Millisecond)
	}
	if !p.pinned {
		return
	}
	// victims: one at a time, each sent only while every slot is held
	stop := t0.Add(queryTimeout - 250*time.Millisecond)
	for k, v := range p.victims {
		for !p.poolFull() && time.Now().Before(stop) {
			time.Sleep(500 * time.Microsecond)
		}
		if !time.Now().Before(stop) {
			break
		}
		p.full[k] = true
		p.send(v)
		lim := time.Now().Add(150 * time.Millisecond)
		for v.nReplies() == 0 && time.Now().Before(lim) {
			time.Sleep(time.Millisecond)
		}
	}
	wait := func(qs []*qrec) {
		lim := time.Now().Add(p.s.margin())
		for time.Now().Before(lim) {
			pending := 0
			for _, q := range qs {
				sent, sendErr, reps, closed := q.snapshot()
				if !sent.IsZero() && sendErr == "" && !closed && len(reps) == 0 {
					pending++
				}
			}
			if pending == 0 {
				return
			}
			time.Sleep(2 * time.Millisecond)
		}
	}
	wait(p.victims)
	// ---- the overload ends
	p.z.open.Store(true)
	wait(p.pins)
	qStart := time.Now()
	for time.Since(qStart) < quiesceWant {
		ok := true
		for i := 0; i < 3 && ok; i++ {
			ok = e.st.Server.Quiesced() && e.h.VerifC11Slots().Total() == 0
			if ok {
				time.Sleep(2 * time.Millisecond)
			}
		}
		if ok {
			p.quiet = true
			break
		}
		time.Sleep(5 * time.Millisecond)
	}
	if !p.quiet {
		return // the general quiescence oracle speaks about this
	}
	// ---- other clients ask the same names of a quiet server
	// — one at a time, each only when no limiter slot is held, so that the
	// re-asks cannot fill the pool themselves
	for k, v := range p.victims {
		if v.nReplies() == 0 {
			continue
		}
		idle := time.Now().Add(time.Second)
		for e.h.VerifC11Slots().Total() != 0 && time.Now().Before(idle) {
			time.Sleep(time.Millisecond)
		}
		if e.h.VerifC11Slots().Total() != 0 {
			break
		}
		q := &qrec{Idx: 300000 + 2000 + k, Wave: -1, Pattern: "capacity-reask", Tr: "udp", Name: v.Name, Qtype: dns.TypeA}
		q.pkt = buildQuery(q.Name, q.Qtype, 0, false, true)
		p.mu.Lock()
		p.reasks[k] = q
		p.mu.Unlock()
		p.send(q)
		wait([]*qrec{q})
	}
}

func (p *capProbe) judge() {
	r := p.s.r
	if !p.ran {
		return
	}
	r.Count("capacity_probes", 1)
	if !p.pinned {
		r.Count("capacity_probe_pool_not_pinned", 1)
		return
	}
	r.Count("capacity_pool_pinned", 1)
	if p.quiet {
		r.Count("capacity_quiet_after_overload", 1)
	}
	born := p.s.e.t.born
	firstUp := map[string]time.Time{} // name → first time any upstream server saw it
	for _, pk := range p.s.e.t.u.Log.All() {
		if _, ok := firstUp[pk.QNameL]; !ok {
			firstUp[pk.QNameL] = born.Add(pk.At)
		}
	}
	for _, q := range p.pins {
		_, _, reps, _ := q.snapshot()
		if len(reps) == 1 && reps[0].rcode == dns.RcodeServerFailure {
			if _, up := firstUp[strings.ToLower(q.Name)]; !up {
				r.Count("capacity_pins_refused", 1)
			}
		}
	}
	for k, v := range p.victims {
		vSent, vErr, vReps, _ := v.snapshot()
		if vSent.IsZero() || vErr != "" || len(vReps) != 1 {
			continue // judged by the general oracle
		}
		name := strings.ToLower(v.Name)
		up, seen := firstUp[name]
		if vReps[0].rcode != dns.RcodeServerFailure {
			r.Count("capacity_victims_admitted", 1)
			continue
		}
		ra := p.reasks[k]
		if ra == nil {
			continue
		}
		aSent, aErr, aReps, _ := ra.snapshot()
		if aSent.IsZero() || aErr != "" {
			continue
		}
		if !p.full[k] || (seen && up.Before(aSent)) {
			// a SERVFAIL that upstream work went into: not (recognisably) a refusal
			r.Count("capacity_victim_servfail_unattributed", 1)
			continue
		}
		r.Count("capacity_victims_refused", 1)
		r.Count("capacity_refused_reasked_when_quiet", 1)
		if len(aReps) != 1 {
			continue // no reply / duplicates: the general oracle
		}
		vLat, aLat := vReps[0].at.Sub(vSent), aReps[0].at.Sub(aSent)
		switch {
		case aReps[0].rcode == dns.RcodeSuccess:
			r.Count("capacity_refusal_stayed_with_its_client", 1)
		case aReps[0].rcode == dns.RcodeServerFailure && !seen:
			p.s.violation("capacity-refusal-delivered-to-other-client/after-load-stopped",
				fmt.Sprintf("%s was refused (SERVFAIL after %.1f ms, no upstream packet) for one client while all %d lookup slots were held; %.0f ms later, with every limiter slot free and the listeners quiescent, another client asking the same name over UDP got SERVFAIL after %.1f ms although no upstream server was ever asked for it — the healthy zone %s was not tried, the first client's refusal was replayed",
					v.Name, ms(vLat), p.cap, ms(aSent.Sub(vReps[0].at)), ms(aLat), zoneOfName(v.Name)),
				ra, aReps, map[string]any{"refused_query": v, "refused_latency_ms": ms(vLat), "slots_cap": p.cap, "ede_reask": aReps[0].ede, "ede_refused": vReps[0].ede})
		default:
			r.Count("capacity_reask_other_outcome", 1)
		}
	}
}

func requireCapacity(r *vlib.Run, rounds int64) {
	r.Require("capacity_probes", rounds)
	r.Require("capacity_pool_pinned", rounds)
	r.Require("capacity_quiet_after_overload", rounds)
	r.Require("capacity_victims_refused", 3*rounds)
	r.Require("capacity_refused_reasked_when_quiet", 3*rounds)
}
