package main

// Host-side instruments: a scheduling-jitter monitor (so a loaded machine
// widens the "in time" margin instead of producing a false alarm), the
// kernel's UDP loss counters, and a goroutine-dump summariser.

import (
	"bufio"
	"fmt"
	"os"
	"regexp"
	"runtime"
	"sort"
	"strconv"
	"strings"
	"sync"
	"sync/atomic"
	"time"
)

// ---------------------------------------------------------------- jitter

// jitterMon measures how late this process' own timers fire. A goroutine
// sleeps jitterTick and records by how much it overslept; the maximum since
// the last reset is the observed scheduling lateness (GC pauses, run-queue
// delay, CPU starvation by other tenants of the box).
type jitterMon struct {
	maxNs atomic.Int64 // since reset
	allNs atomic.Int64 // whole process
	stop  chan struct{}
	done  chan struct{}

	// every tick since the last reset: when the sleep began and by how much it
	// overslept (maxBetween: the lateness observed inside a time window)
	mu      sync.Mutex
	samples []jitSample
}

type jitSample struct {
	from time.Time
	late time.Duration
}

const jitterTick = 5 * time.Millisecond

func startJitter() *jitterMon {
	j := &jitterMon{stop: make(chan struct{}), done: make(chan struct{})}
	go func() {
		defer close(j.done)
		t := time.NewTimer(jitterTick)
		defer t.Stop()
		for {
			t0 := time.Now()
			t.Reset(jitterTick)
			select {
			case <-j.stop:
				return
			case <-t.C:
			}
			late := time.Since(t0) - jitterTick
			if late < 0 {
				late = 0
			}
			j.mu.Lock()
			j.samples = append(j.samples, jitSample{t0, late})
			j.mu.Unlock()
			for {
				cur := j.maxNs.Load()
				if int64(late) <= cur || j.maxNs.CompareAndSwap(cur, int64(late)) {
					break
				}
			}
			for {
				cur := j.allNs.Load()
				if int64(late) <= cur || j.allNs.CompareAndSwap(cur, int64(late)) {
					break
				}
			}
		}
	}()
	return j
}

func (j *jitterMon) reset() {
	j.maxNs.Store(0)
	j.mu.Lock()
	j.samples = j.samples[:0]
	j.mu.Unlock()
}

// maxBetween is the largest timer lateness of a tick that overlaps [from, to]
// (n: how many ticks did).
func (j *jitterMon) maxBetween(from, to time.Time) (worst time.Duration, n int) {
	j.mu.Lock()
	defer j.mu.Unlock()
	for _, s := range j.samples {
		if s.from.After(to) || s.from.Add(jitterTick+s.late).Before(from) {
			continue
		}
		n++
		if s.late > worst {
			worst = s.late
		}
	}
	return
}

func (j *jitterMon) max() time.Duration { return time.Duration(j.maxNs.Load()) }
func (j *jitterMon) all() time.Duration { return time.Duration(j.allNs.Load()) }
func (j *jitterMon) close()             { close(j.stop); <-j.done }

// ---------------------------------------------------------------- kernel UDP counters

type udpSNMP struct {
	InDatagrams, NoPorts, InErrors, OutDatagrams, RcvbufErrors, SndbufErrors, InCsumErrors, MemErrors int64
	ok                                                                                          bool
}

// readUDPSNMP parses the "Udp:" pair of lines of /proc/net/snmp.
func readUDPSNMP() udpSNMP {
	var out udpSNMP
	f, err := os.Open("/proc/net/snmp")
	if err != nil {
		return out
	}
	defer f.Close()
	sc := bufio.NewScanner(f)
	var hdr []string
	for sc.Scan() {
		line := sc.Text()
		if !strings.HasPrefix(line, "Udp:") {
			continue
		}
		fs := strings.Fields(line)[1:]
		if hdr == nil {
			hdr = fs
			continue
		}
		for i, name := range hdr {
			if i >= len(fs) {
				break
			}
			v, _ := strconv.ParseInt(fs[i], 10, 64)
			switch name {
			case "InDatagrams":
				out.InDatagrams = v
			case "NoPorts":
				out.NoPorts = v
			case "InErrors":
				out.InErrors = v
			case "OutDatagrams":
				out.OutDatagrams = v
			case "RcvbufErrors":
				out.RcvbufErrors = v
			case "SndbufErrors":
				out.SndbufErrors = v
			case "InCsumErrors":
				out.InCsumErrors = v
			case "MemErrors":
				out.MemErrors = v
			}
		}
		out.ok = true
		break
	}
	return out
}

// lossSince is the number of datagrams the kernel reports lost since before:
// InErrors already contains RcvbufErrors, InCsumErrors and MemErrors on
// Linux, so the budget is max(InErrors, RcvbufErrors) + SndbufErrors.
func (a udpSNMP) lossSince(before udpSNMP) int64 {
	in := a.InErrors - before.InErrors
	if rb := a.RcvbufErrors - before.RcvbufErrors; rb > in {
		in = rb
	}
	return in + (a.SndbufErrors - before.SndbufErrors)
}

// ---------------------------------------------------------------- goroutines

var goroutineHdr = regexp.MustCompile(`^goroutine \d+ \[([^\]]*)\]:`)

// goroutineSummary groups the current goroutines by their top sdns /
// non-runtime frame and returns "count × frame [state]" lines, most frequent
// first — the witness of a goroutine-leak violation.
func goroutineSummary(maxLines int) []string {
	buf := make([]byte, 8<<20)
	n := runtime.Stack(buf, true)
	blocks := strings.Split(string(buf[:n]), "\n\n")
	counts := map[string]int{}
	for _, b := range blocks {
		lines := strings.Split(b, "\n")
		if len(lines) == 0 {
			continue
		}
		m := goroutineHdr.FindStringSubmatch(lines[0])
		if m == nil {
			continue
		}
		state := m[1]
		if i := strings.IndexByte(state, ','); i >= 0 {
			state = state[:i]
		}
		frame := ""
		first := ""
		for _, l := range lines[1:] {
			if strings.HasPrefix(l, "\t") || strings.HasPrefix(l, "created by") {
				continue
			}
			fn := l
			if i := strings.LastIndexByte(fn, '('); i > 0 {
				fn = fn[:i]
			}
			if first == "" {
				first = fn
			}
			if strings.Contains(fn, "github.com/semihalev/sdns/") {
				frame = strings.TrimPrefix(fn, "github.com/semihalev/sdns/")
				break
			}
		}
		if frame == "" {
			frame = first
		}
		counts[frame+" ["+state+"]"]++
	}
	type kv struct {
		k string
		v int
	}
	var all []kv
	for k, v := range counts {
		all = append(all, kv{k, v})
	}
	sort.Slice(all, func(i, j int) bool {
		if all[i].v != all[j].v {
			return all[i].v > all[j].v
		}
		return all[i].k < all[j].k
	})
	var out []string
	for i, e := range all {
		if i >= maxLines {
			break
		}
		out = append(out, fmt.Sprintf("%d × %s", e.v, e.k))
	}
	return out
}

// sdnsGoroutines counts goroutines that have an sdns (non-harness) frame
// anywhere on their stack.
func sdnsGoroutines() int {
	buf := make([]byte, 8<<20)
	n := runtime.Stack(buf, true)
	c := 0
	for _, b := range strings.Split(string(buf[:n]), "\n\n") {
		if !goroutineHdr.MatchString(b) {
			continue
		}
		for _, l := range strings.Split(b, "\n") {
			if strings.HasPrefix(l, "github.com/semihalev/sdns/") && !strings.Contains(l, "/zzverif/") {
				c++
				break
			}
		}
	}
	return c
}

// once-per-process helpers -------------------------------------------------

var logMu sync.Mutex

func debugOn() bool { return os.Getenv("VERIF_VERBOSE") != "" || os.Getenv("C11_DEBUG") != "" }

func logf(format string, a ...any) {
	if !debugOn() {
		return
	}
	logMu.Lock()
	fmt.Fprintf(os.Stderr, "c11: "+format+"\n", a...)
	logMu.Unlock()
}
