package main

// Query shapes for the mixed-eligibility bursts (mixed.go).
//
// The server has two request representations. A packet the strict wire parser
// accepts (middleware.Request.ParseWire: one question over an uncompressed
// name, empty answer/authority, at most one well-formed root OPT whose options
// it knows) enters the chain as a wire-born request; everything else the
// library decodes takes the decoded fallback of Server.ServeRaw /
// ServeRawReplay. On Linux the batched UDP reader runs the wire-born request
// inline and hands a strict-INELIGIBLE packet to a worker outright, which
// serves it through ServeRawReplay's decoded fallback.
//
// Every shape below is an admitted query: the header-level accept
// (QDCOUNT == 1, ANCOUNT ≤ 1, NSCOUNT ≤ 1, ARCOUNT ≤ 2, opcode QUERY) passes,
// the library decodes it, and the unchanged server answers it like the plain
// question (checked at run time: counters mixed_shape_answered/<shape>, and
// shapeEligible below is asserted against the real ParseWire when the plan is
// built).

import (
	"net"

	"github.com/miekg/dns"
)

type wireShape struct {
	Name     string
	Eligible bool // the strict parser accepts it (served wire-born)
	// Inline: a cache hit of this shape is answered on the reader goroutine
	// (strict-eligible and not declined by the inline wire ladder)
	Inline bool
	build  func(name string, qtype uint16) *dns.Msg
}

func baseQuery(name string, qtype uint16, edns bool) *dns.Msg {
	m := new(dns.Msg)
	m.SetQuestion(name, qtype)
	if edns {
		m.SetEdns0(1232, false)
	}
	return m
}

// wireShapes: index 0..2 are strict-eligible, the rest strict-ineligible.
var wireShapes = []wireShape{
	{Name: "plain", Eligible: true, Inline: true, build: func(n string, t uint16) *dns.Msg { return baseQuery(n, t, true) }},
	{Name: "plain-ad", Eligible: true, Inline: true, build: func(n string, t uint16) *dns.Msg {
		m := baseQuery(n, t, false)
		m.AuthenticatedData = true // RFC 6840 §5.7: a query may set AD
		return m
	}},
	{Name: "ecs", Eligible: true, build: func(n string, t uint16) *dns.Msg {
		m := baseQuery(n, t, true)
		o := m.IsEdns0()
		o.Option = append(o.Option, &dns.EDNS0_SUBNET{Code: dns.EDNS0SUBNET, Family: 1, SourceNetmask: 24, Address: net.IPv4(198, 51, 100, 0).To4()})
		return m
	}},
	// ---- strict-ineligible
	{Name: "ancount1", build: func(n string, t uint16) *dns.Msg {
		// one record in the answer section (a known-answer style query)
		m := baseQuery(n, t, true)
		m.Answer = []dns.RR{&dns.A{Hdr: dns.RR_Header{Name: n, Rrtype: dns.TypeA, Class: dns.ClassINET, Ttl: 0}, A: net.IPv4(192, 0, 2, 1).To4()}}
		return m
	}},
	{Name: "nscount1", build: func(n string, t uint16) *dns.Msg {
		m := baseQuery(n, t, false)
		m.Ns = []dns.RR{&dns.NS{Hdr: dns.RR_Header{Name: n, Rrtype: dns.TypeNS, Class: dns.ClassINET, Ttl: 0}, Ns: "ns.invalid."}}
		return m
	}},
	{Name: "additional-rr", build: func(n string, t uint16) *dns.Msg {
		// one additional record that is not an OPT (no EDNS)
		m := baseQuery(n, t, false)
		m.Extra = []dns.RR{&dns.TXT{Hdr: dns.RR_Header{Name: n, Rrtype: dns.TypeTXT, Class: dns.ClassINET, Ttl: 0}, Txt: []string{"x"}}}
		return m
	}},
	{Name: "additional-rr-opt", build: func(n string, t uint16) *dns.Msg {
		// ARCOUNT = 2: an address record ahead of the OPT
		m := baseQuery(n, t, false)
		m.Extra = []dns.RR{&dns.A{Hdr: dns.RR_Header{Name: n, Rrtype: dns.TypeA, Class: dns.ClassINET, Ttl: 0}, A: net.IPv4(192, 0, 2, 2).To4()}}
		m.SetEdns0(1232, false)
		return m
	}},
	{Name: "opt-owner", build: func(n string, t uint16) *dns.Msg {
		// an OPT whose owner is not the root
		m := baseQuery(n, t, true)
		m.IsEdns0().Hdr.Name = "o."
		return m
	}},
	{Name: "opt-unknown-option", build: func(n string, t uint16) *dns.Msg {
		// RFC 6891 §6.1.2: unknown options are ignored by the receiver
		m := baseQuery(n, t, true)
		o := m.IsEdns0()
		o.Option = append(o.Option, &dns.EDNS0_LOCAL{Code: 65001, Data: []byte{1, 2, 3}})
		return m
	}},
}

func shapeByName(name string) *wireShape {
	for i := range wireShapes {
		if wireShapes[i].Name == name {
			return &wireShapes[i]
		}
	}
	return &wireShapes[0]
}

// ineligibleShapes / workerHitShapes are the draws the planner uses.
func ineligibleShapes() []string {
	var out []string
	for _, s := range wireShapes {
		if !s.Eligible {
			out = append(out, s.Name)
		}
	}
	return out
}

// buildShape packs the query of a shape (id 0: the socket assigns it).
func buildShape(shape, name string, qtype uint16) []byte {
	m := shapeByName(shape).build(name, qtype)
	m.Id = 0
	b, err := m.Pack()
	if err != nil {
		panic("c11: shape " + shape + ": " + err.Error())
	}
	return b
}
