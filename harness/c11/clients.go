package main

// Socket clients that keep COUNTING until they are closed: every datagram /
// frame a client socket receives is attributed to the query it answers (by
// socket + DNS id) and appended to that query's reply list, so a second reply
// is seen whenever it arrives — not only inside an exchange timeout.

import (
	"encoding/binary"
	"errors"
	"fmt"
	"io"
	"net"
	"strings"
	"sync"
	"time"

	"github.com/miekg/dns"
)

// reply is one message received for a query.
type reply struct {
	at    time.Time
	rcode int
	tc    bool
	ede   []uint16
	// timeoutEDE: the reply carries the EDE text the server attaches when
	// the request's own deadline expired ("Query timeout exceeded")
	timeoutEDE bool
	raw        []byte
}

// qrec is one client query and everything observed about it.
type qrec struct {
	Idx     int    `json:"idx"`
	Wave    int    `json:"wave"`
	Pattern string `json:"pattern"`
	Tr      string `json:"transport"` // "udp" | "tcp"
	Name    string `json:"name"`
	Qtype   uint16 `json:"qtype"`
	CD      bool   `json:"cd,omitempty"`
	Src     string `json:"src"`
	ID      uint16 `json:"id"`
	// Closer: the client closes its socket/connection mid-flight; no reply
	// can be demanded (it is not observable), the server-side checks still
	// cover the request.
	Closer bool `json:"closer,omitempty"`
	// Junk: not a query at all (QR set / truncated header) — non-admitted
	// traffic that must get NO reply and be counted by the server.
	Junk string `json:"junk,omitempty"`
	// Pipe: position on a pipelined TCP connection (0 = first / not pipelined).
	Pipe int    `json:"pipe,omitempty"`
	Role string `json:"role,omitempty"`
	// Poison: a well-formed query forged from a source the kernel refuses to
	// send a reply to ("port0" | "unroutable", poison.go) — unanswerable
	// traffic: no reply can be observed or demanded; what is judged is that it
	// disturbs nobody else. Src / PoisonPort are the forged source.
	Poison     string `json:"poison,omitempty"`
	PoisonPort uint16 `json:"poison_port,omitempty"`
	// Burst: member of that poison burst (written back-to-back with the
	// others); ECS: the query carries an EDNS Client Subnet option (declined
	// by the inline wire path, answered by a worker).
	Burst int  `json:"burst,omitempty"`
	ECS   bool `json:"ecs,omitempty"`
	// Mixed-eligibility bursts (mixed.go). Shape: the wire shape of the query
	// (shapes.go); Mixed: its role (hit-worker | hit-inline | slow | probe-*);
	// Chain: the CNAME hops of a slow question; PlanMs: its scripted upstream time.
	Shape      string   `json:"shape,omitempty"`
	Mixed      string   `json:"mixed_role,omitempty"`
	MixedBurst int      `json:"mixed_burst,omitempty"`
	Chain      []string `json:"chain,omitempty"`
	PlanMs     int      `json:"planned_upstream_ms,omitempty"`

	pkt []byte

	mu         sync.Mutex
	sentAt     time.Time
	sentDone   time.Time // UDP: when the write returned (sentAt is taken before it)
	sendErr    string
	replies    []reply
	connClosed bool      // TCP: the server closed the connection with this query unanswered
	closedAt   time.Time // when the harness closed the socket (closers)
}

func (q *qrec) nReplies() int {
	q.mu.Lock()
	defer q.mu.Unlock()
	return len(q.replies)
}

func (q *qrec) snapshot() (sent time.Time, sendErr string, reps []reply, connClosed bool) {
	q.mu.Lock()
	defer q.mu.Unlock()
	return q.sentAt, q.sendErr, append([]reply(nil), q.replies...), q.connClosed
}

func (q *qrec) addReply(at time.Time, raw []byte) {
	r := reply{at: at, raw: raw, rcode: -1}
	if len(raw) >= 12 {
		r.rcode = int(raw[3] & 0x0f)
		r.tc = raw[2]&0x02 != 0
		m := new(dns.Msg)
		if m.Unpack(raw) == nil {
			r.rcode = m.Rcode
			if opt := m.IsEdns0(); opt != nil {
				for _, o := range opt.Option {
					if e, ok := o.(*dns.EDNS0_EDE); ok {
						r.ede = append(r.ede, e.InfoCode)
						if strings.Contains(e.ExtraText, timeoutEDEText) {
							r.timeoutEDE = true
						}
					}
				}
			}
		}
	}
	q.mu.Lock()
	q.replies = append(q.replies, r)
	q.mu.Unlock()
}

func buildQuery(name string, qtype uint16, id uint16, cd bool, edns bool) []byte {
	return buildQueryOpt(name, qtype, id, cd, edns, false)
}

// unjudged: not a query whose reply can be observed or demanded (junk
// datagrams, poison sources).
func (q *qrec) unjudged() bool { return q.Junk != "" || q.Poison != "" }

func buildQueryOpt(name string, qtype uint16, id uint16, cd, edns, ecs bool) []byte {
	m := new(dns.Msg)
	m.SetQuestion(name, qtype)
	m.Id = id
	m.CheckingDisabled = cd
	if edns || ecs {
		m.SetEdns0(1232, false)
	}
	if ecs {
		opt := m.IsEdns0()
		opt.Option = append(opt.Option, &dns.EDNS0_SUBNET{Code: dns.EDNS0SUBNET, Family: 1, SourceNetmask: 24, Address: net.IPv4(198, 51, 100, 0).To4()})
	}
	b, err := m.Pack()
	if err != nil {
		panic(err)
	}
	return b
}

// ---------------------------------------------------------------- UDP

type udpSock struct {
	conn *net.UDPConn
	src  string

	mu     sync.Mutex
	byID   map[uint16]*qrec
	nextID uint16
	stray  int // datagrams that answer no query of this socket
	recvd  int
	done   chan struct{}
}

func newUDPSock(srcIP, server string) (*udpSock, error) {
	raddr, err := net.ResolveUDPAddr("udp", server)
	if err != nil {
		return nil, err
	}
	c, err := net.DialUDP("udp", &net.UDPAddr{IP: net.ParseIP(srcIP)}, raddr)
	if err != nil {
		return nil, err
	}
	_ = c.SetReadBuffer(4 << 20)
	s := &udpSock{conn: c, src: srcIP, byID: map[uint16]*qrec{}, nextID: 1, done: make(chan struct{})}
	go s.readLoop()
	return s, nil
}

func (s *udpSock) readLoop() {
	defer close(s.done)
	buf := make([]byte, 65535)
	for {
		n, err := s.conn.Read(buf)
		now := time.Now()
		if err != nil {
			if errors.Is(err, net.ErrClosed) {
				return
			}
			var ne net.Error
			if !(errors.As(err, &ne) && ne.Timeout()) {
				time.Sleep(time.Millisecond) // e.g. an ICMP-induced error: keep reading
			}
			continue
		}
		raw := append([]byte(nil), buf[:n]...)
		s.mu.Lock()
		s.recvd++
		var q *qrec
		if n >= 2 && s.byID != nil {
			q = s.byID[binary.BigEndian.Uint16(raw)]
		}
		if q == nil {
			s.stray++
		}
		s.mu.Unlock()
		if q != nil {
			q.addReply(now, raw)
		}
	}
}

// register assigns the next id of this socket to q.
func (s *udpSock) register(q *qrec) {
	s.mu.Lock()
	q.ID = s.nextID
	s.nextID++
	if s.nextID == 0 {
		s.nextID = 1
	}
	s.byID[q.ID] = q
	s.mu.Unlock()
	q.Src = s.src
	if len(q.pkt) >= 2 {
		binary.BigEndian.PutUint16(q.pkt, q.ID)
	}
}

func (s *udpSock) send(q *qrec) {
	q.mu.Lock()
	q.sentAt = time.Now()
	q.mu.Unlock()
	_, err := s.conn.Write(q.pkt)
	done := time.Now()
	q.mu.Lock()
	q.sentDone = done
	if err != nil {
		q.sendErr = err.Error()
	}
	q.mu.Unlock()
}

// written returns when the write of a UDP query began and when it returned.
func (q *qrec) written() (from, to time.Time) {
	q.mu.Lock()
	defer q.mu.Unlock()
	if q.sentDone.IsZero() {
		return q.sentAt, q.sentAt
	}
	return q.sentAt, q.sentDone
}

func (s *udpSock) close() {
	_ = s.conn.Close()
	<-s.done
}

// ---------------------------------------------------------------- TCP

type tcpConn struct {
	c   net.Conn
	src string

	mu          sync.Mutex
	byID        map[uint16]*qrec
	outstanding map[uint16]*qrec
	nextID      uint16
	lastUse     time.Time
	dead        bool
	claimed     bool // handed to a sender that has not written yet
	private     bool // dialled for one sender (closer / pipeline / probe): never handed to another query
	weClosed    bool
	stray       int
	done        chan struct{}

	// per-CONNECTION account (the unit the server sheds TCP work in: one
	// refused connection / one job-wait drop = one counter increment, however
	// many frames the client had already written into the socket)
	queries      int       // queries written (or attempted) on this connection
	replies      int       // frames received that answered one of them
	forCloser    bool      // carries a client that walks away mid-flight
	serverClosed bool      // the read side ended while we had not closed it
	closedAt     time.Time // when the read side ended
	cutQueries   int       // queries outstanding and unanswered when the server closed
	writeFailed  bool      // a write failed (the server had already reset the connection)
	openedAt     time.Time
}

// tcpConnStat is the serialisable per-connection summary.
type tcpConnStat struct {
	Src          string  `json:"src"`
	Queries      int     `json:"queries"`
	Replies      int     `json:"replies"`
	Closer       bool    `json:"closer,omitempty"`
	ServerClosed bool    `json:"server_closed,omitempty"`
	CutQueries   int     `json:"cut_queries,omitempty"`
	WriteFailed  bool    `json:"write_failed,omitempty"`
	LifeMs       float64 `json:"life_ms,omitempty"` // dial → server close
}

func (t *tcpConn) stat() tcpConnStat {
	t.mu.Lock()
	defer t.mu.Unlock()
	st := tcpConnStat{Src: t.src, Queries: t.queries, Replies: t.replies, Closer: t.forCloser,
		ServerClosed: t.serverClosed, CutQueries: t.cutQueries, WriteFailed: t.writeFailed}
	if t.serverClosed {
		st.LifeMs = float64(t.closedAt.Sub(t.openedAt).Microseconds()) / 1000
	}
	return st
}

func dialTCP(srcIP, server string, timeout time.Duration) (*tcpConn, error) {
	d := net.Dialer{LocalAddr: &net.TCPAddr{IP: net.ParseIP(srcIP)}, Timeout: timeout}
	c, err := d.Dial("tcp", server)
	if err != nil {
		return nil, err
	}
	t := &tcpConn{c: c, src: srcIP, byID: map[uint16]*qrec{}, outstanding: map[uint16]*qrec{},
		nextID: 1, lastUse: time.Now(), claimed: true, done: make(chan struct{}), openedAt: time.Now()}
	go t.readLoop()
	return t, nil
}

func (t *tcpConn) readLoop() {
	defer close(t.done)
	var lb [2]byte
	for {
		_, err := io.ReadFull(t.c, lb[:])
		var raw []byte
		if err == nil {
			raw = make([]byte, binary.BigEndian.Uint16(lb[:]))
			_, err = io.ReadFull(t.c, raw)
		}
		now := time.Now()
		if err != nil {
			t.mu.Lock()
			t.dead = true
			if !t.weClosed {
				t.serverClosed = true
				t.closedAt = now
				for _, q := range t.outstanding {
					q.mu.Lock()
					if len(q.replies) == 0 {
						q.connClosed = true
						t.cutQueries++
					}
					q.mu.Unlock()
				}
			}
			t.mu.Unlock()
			return
		}
		t.mu.Lock()
		var q *qrec
		if len(raw) >= 2 {
			q = t.byID[binary.BigEndian.Uint16(raw)]
		}
		if q == nil {
			t.stray++
		} else {
			delete(t.outstanding, q.ID)
			t.replies++
		}
		t.lastUse = now
		t.mu.Unlock()
		if q != nil {
			q.addReply(now, raw)
		}
	}
}

// send registers and writes the queries back-to-back in ONE write (a single
// query, or a pipelined burst).
func (t *tcpConn) send(qs ...*qrec) {
	var frame []byte
	t.mu.Lock()
	for _, q := range qs {
		q.ID = t.nextID
		t.nextID++
		binary.BigEndian.PutUint16(q.pkt, q.ID)
		t.byID[q.ID] = q
		t.outstanding[q.ID] = q
		t.queries++
		if q.Closer {
			t.forCloser = true
		}
		q.Src = t.src
		var l [2]byte
		binary.BigEndian.PutUint16(l[:], uint16(len(q.pkt)))
		frame = append(frame, l[:]...)
		frame = append(frame, q.pkt...)
	}
	t.lastUse = time.Now()
	t.claimed = false
	// The server may have closed the connection (refused at the cap: accept,
	// close) before this first write: the reader has then already seen the
	// end of the stream with nothing outstanding. These queries are written
	// into a connection that is gone — cut, like those outstanding at close.
	alreadyCut := t.dead && !t.weClosed
	if alreadyCut {
		t.cutQueries += len(qs)
	}
	t.mu.Unlock()
	now := time.Now()
	for _, q := range qs {
		q.mu.Lock()
		q.sentAt = now
		if alreadyCut {
			q.connClosed = true
		}
		q.mu.Unlock()
	}
	_ = t.c.SetWriteDeadline(time.Now().Add(5 * time.Second))
	if _, err := t.c.Write(frame); err != nil {
		t.mu.Lock()
		t.writeFailed = true
		t.mu.Unlock()
		for _, q := range qs {
			q.mu.Lock()
			q.sendErr = err.Error()
			q.mu.Unlock()
		}
	}
}

func (t *tcpConn) idleFor() (idle bool, since time.Duration) {
	t.mu.Lock()
	defer t.mu.Unlock()
	return !t.dead && !t.claimed && len(t.outstanding) == 0, time.Since(t.lastUse)
}

func (t *tcpConn) close() {
	t.mu.Lock()
	t.weClosed = true
	t.mu.Unlock()
	_ = t.c.Close()
	<-t.done
}

// ---------------------------------------------------------------- client set

// clients owns every socket of one script.
type clients struct {
	server string // ip:port of the sdns listeners (UDP and TCP share it)

	mu       sync.Mutex
	udp      []*udpSock // shared pool, round-robin
	udpNext  int
	udpExtra []*udpSock // one-shot sockets (closers); closed early or at the end
	tcp      []*tcpConn
	srcSeq   int
	dialErrs int
	v6       bool // the server listens on [::1]: every client comes from ::1
}

func newClients(server string, udpSocks int) (*clients, error) {
	c := &clients{server: server, v6: strings.HasPrefix(server, "[")}
	for i := 0; i < udpSocks; i++ {
		s, err := newUDPSock(c.nextSrc(), server)
		if err != nil {
			c.closeAll()
			return nil, err
		}
		c.udp = append(c.udp, s)
	}
	return c, nil
}

// nextSrc hands out distinct loopback source addresses 127.11.x.y.
func (c *clients) nextSrc() string {
	c.mu.Lock()
	defer c.mu.Unlock()
	c.srcSeq++
	if c.v6 {
		return "::1"
	}
	return fmt.Sprintf("127.11.%d.%d", 1+(c.srcSeq/250)%250, 1+c.srcSeq%250)
}

func (c *clients) pooledUDP() *udpSock {
	c.mu.Lock()
	defer c.mu.Unlock()
	s := c.udp[c.udpNext%len(c.udp)]
	c.udpNext++
	return s
}

// fixedUDP returns the i-th pooled socket (bursts that must share a socket).
func (c *clients) fixedUDP(i int) *udpSock {
	c.mu.Lock()
	defer c.mu.Unlock()
	return c.udp[i%len(c.udp)]
}

func (c *clients) oneShotUDP() (*udpSock, error) {
	s, err := newUDPSock(c.nextSrc(), c.server)
	if err != nil {
		return nil, err
	}
	c.mu.Lock()
	c.udpExtra = append(c.udpExtra, s)
	c.mu.Unlock()
	return s, nil
}

// tcpFor returns an idle pooled connection used less than maxIdle ago, or
// dials a fresh one (fresh = true: always dial, and keep it out of the pool).
func (c *clients) tcpFor(fresh bool) (*tcpConn, error) {
	const maxIdle = 1500 * time.Millisecond
	if !fresh {
		c.mu.Lock()
		conns := append([]*tcpConn(nil), c.tcp...)
		c.mu.Unlock()
		for _, t := range conns {
			t.mu.Lock()
			ok := !t.private && !t.dead && !t.claimed && len(t.outstanding) == 0 && time.Since(t.lastUse) < maxIdle
			if ok {
				t.claimed = true
				t.lastUse = time.Now()
			}
			t.mu.Unlock()
			if ok {
				return t, nil
			}
		}
	}
	t, err := dialTCP(c.nextSrc(), c.server, 5*time.Second)
	if err != nil {
		c.mu.Lock()
		c.dialErrs++
		c.mu.Unlock()
		return nil, err
	}
	// A connection dialled for a client that will walk away (or for a
	// pipelined burst / a probe) belongs to that client alone: handing it to
	// another query would let the first owner's close orphan the second
	// query — a harness artefact that reads as a lost reply.
	t.private = fresh
	c.mu.Lock()
	c.tcp = append(c.tcp, t)
	c.mu.Unlock()
	return t, nil
}

// retireIdle closes pooled TCP connections idle for longer than d (so the
// server's own 8 s idle timeout never races a reuse).
func (c *clients) retireIdle(d time.Duration) {
	c.mu.Lock()
	conns := append([]*tcpConn(nil), c.tcp...)
	c.mu.Unlock()
	for _, t := range conns {
		if idle, since := t.idleFor(); idle && since > d {
			t.close()
		}
	}
}

func (c *clients) strays() (udp, tcp int) {
	c.mu.Lock()
	defer c.mu.Unlock()
	for _, s := range append(append([]*udpSock(nil), c.udp...), c.udpExtra...) {
		s.mu.Lock()
		udp += s.stray
		s.mu.Unlock()
	}
	for _, t := range c.tcp {
		t.mu.Lock()
		tcp += t.stray
		t.mu.Unlock()
	}
	return
}

// tcpStats returns the per-connection account of every TCP connection dialled.
func (c *clients) tcpStats() []tcpConnStat {
	c.mu.Lock()
	conns := append([]*tcpConn(nil), c.tcp...)
	c.mu.Unlock()
	out := make([]tcpConnStat, 0, len(conns))
	for _, t := range conns {
		out = append(out, t.stat())
	}
	return out
}

func (c *clients) closeAll() {
	c.mu.Lock()
	udp := append(append([]*udpSock(nil), c.udp...), c.udpExtra...)
	tcp := append([]*tcpConn(nil), c.tcp...)
	c.udp, c.udpExtra, c.tcp = nil, nil, nil
	c.mu.Unlock()
	for _, s := range udp {
		s.close()
	}
	for _, t := range tcp {
		t.close()
	}
}
