package main

// Script = (server configuration knobs, per-server fault mixes, arrival
// pattern mix). Everything random is a pure function of (VERIF_SEED, script
// index): the query list is generated up front from r.RandN, and the fault a
// server applies to a packet is a hash of (seed, script, server, qname, qtype,
// n-th hit) — independent of timing.

import (
	"encoding/binary"
	"fmt"
	"hash/fnv"
	"math/rand/v2"
	"strings"
	"time"

	"github.com/miekg/dns"

	"github.com/semihalev/sdns/zzverif/authsim"
)

// faultMix are integer weights over behaviours.
type faultMix struct {
	Honest     int `json:"honest,omitempty"`
	Drop       int `json:"drop,omitempty"`
	DelayShort int `json:"delay_short,omitempty"` // 0.3..0.9 × upstream timeout (answer still in time)
	DelayLong  int `json:"delay_long,omitempty"`  // 1.2..3 × upstream timeout (answer after the resolver gave up)
	TC         int `json:"tc,omitempty"`          // TC=1, then TCP per TCP* weights
	WrongID    int `json:"wrong_id,omitempty"`    // bogus datagram with id+1 ahead of the answer
	WrongQ     int `json:"wrong_q,omitempty"`     // bogus datagram for another qname ahead of the answer
	Malformed  int `json:"malformed,omitempty"`   // unparsable bytes with the right id
	ServFail   int `json:"servfail,omitempty"`
	Refused    int `json:"refused,omitempty"`
	Other      int `json:"other,omitempty"` // answers a different question with the right id
	// what a query arriving over TCP meets (chosen per server+qname, so the
	// TC → TCP sequence of one name is coherent)
	TCPAnswer int `json:"tcp_answer,omitempty"`
	TCPStall  int `json:"tcp_stall,omitempty"`
	TCPReset  int `json:"tcp_reset,omitempty"`
}

func (m faultMix) total() int {
	return m.Honest + m.Drop + m.DelayShort + m.DelayLong + m.TC + m.WrongID + m.WrongQ + m.Malformed + m.ServFail + m.Refused + m.Other
}

type patternWeight struct {
	Pattern string `json:"pattern"`
	Weight  int    `json:"weight"`
}

type scriptSpec struct {
	Name     string    `json:"name"`
	Index    int       `json:"index"` // position in the run's script list (keys the PRNG streams)
	Tweaks   envTweaks `json:"tweaks"`
	Zone     faultMix  `json:"zone_mix"`
	TLD      faultMix  `json:"tld_mix"`
	FirstOK  bool      `json:"first_server_honest,omitempty"` // the first server of every zone stays honest (failover can succeed)
	Waves    int       `json:"waves"`
	WaveSize int       `json:"wave_size"`
	WaveGap  int       `json:"wave_gap_ms"`
	Patterns []patternWeight `json:"patterns"`
	UDPShare int       `json:"udp_share_pct"` // share of UDP among transport choices
	Junk     int       `json:"junk"`          // non-admitted datagrams (QR set / short header)
	Iso      int       `json:"isolation_probes"`
	// QueueExpiry > 0: at QueueExpiryAt ms one client writes this many
	// distinct questions back-to-back (one receive batch) whose resolution
	// can only end at the query timeout (slow referrals, black-holed leaf —
	// an isolation-style zone of their own). With one ingress worker and a
	// one-slot ready queue the first occupies the worker for the whole
	// querytimeout, the second waits in the queue behind it for its whole
	// budget, the rest are served by overflow goroutines.
	QueueExpiry   int `json:"queue_expiry,omitempty"`
	QueueExpiryAt int `json:"queue_expiry_at_ms,omitempty"`
	// PoisonBursts > 0: that many tight, unpaced bursts (spread over the load
	// phase from PoisonFrom ms on) in which ordinary clients' queries for names
	// asked earlier (cache hits when the universe is honest) are interleaved
	// with poison queries — well-formed queries from sources the kernel
	// refuses to send a reply to (poison.go). See planPoison.
	PoisonBursts int `json:"poison_bursts,omitempty"`
	PoisonFrom   int `json:"poison_from_ms,omitempty"`
	// Poison marks a script whose purpose is the poison bursts (its other
	// traffic is only the warm-up and background).
	Poison bool `json:"poison_script,omitempty"`
	// MixedBursts > 0: that many mixed-eligibility bursts (mixed.go), one every
	// 2 s from MixedFrom ms on: cache hits that a worker answers interleaved
	// with strict-ineligible / wire-born questions whose resolution is slow.
	// Mixed marks a script whose purpose they are.
	MixedBursts int  `json:"mixed_bursts,omitempty"`
	MixedFrom   int  `json:"mixed_from_ms,omitempty"`
	Mixed       bool `json:"mixed_script,omitempty"`
	// Capacity > 0: one capacity probe (capacity.go) with that many victims:
	// every global lookup slot pinned, cache-miss questions refused, then the
	// same names asked by other clients once the server is quiet again.
	// CapacityScript marks a script whose purpose it is.
	Capacity       int  `json:"capacity_victims,omitempty"`
	CapacityScript bool `json:"capacity_script,omitempty"`
	Seed     uint64    `json:"seed"`
}

var allKinds = faultMix{Honest: 3, Drop: 2, DelayShort: 2, DelayLong: 2, TC: 2, WrongID: 1, WrongQ: 1, Malformed: 1, ServFail: 1, Refused: 1, Other: 1, TCPAnswer: 2, TCPStall: 1, TCPReset: 1}

var defaultPatterns = []patternWeight{{"burst-same", 3}, {"distinct-zone", 3}, {"spread", 2}, {"repeat", 2}, {"closers", 1}, {"pipeline", 1}}

// baseScripts is the fixed list of script shapes; the tier decides how many
// rounds of it run (each round re-derives names, choices and fault hashes from
// its own index).
func baseScripts() []scriptSpec {
	zs := func(n ...int) []int { return n }
	return []scriptSpec{
		{Name: "honest", Tweaks: envTweaks{ZoneServers: zs(1, 2, 3, 2)},
			Zone: faultMix{Honest: 1, TCPAnswer: 1}, TLD: faultMix{Honest: 1, TCPAnswer: 1},
			Patterns: []patternWeight{{"burst-same", 2}, {"distinct-zone", 2}, {"repeat", 4}, {"pipeline", 2}, {"closers", 1}}, Junk: 12, Iso: 1, PoisonBursts: 8},
		{Name: "drop", Tweaks: envTweaks{ZoneServers: zs(1, 2, 3, 1, 2, 3)},
			Zone: faultMix{Honest: 4, Drop: 6, TCPAnswer: 1, TCPStall: 1}, TLD: faultMix{Honest: 3, Drop: 1, DelayShort: 2, TCPAnswer: 1}, Iso: 1},
		{Name: "delay", Tweaks: envTweaks{ZoneServers: zs(1, 2, 3, 1, 2, 3)},
			Zone: faultMix{Honest: 3, DelayShort: 4, DelayLong: 3, TCPAnswer: 1}, TLD: faultMix{Honest: 1, DelayShort: 4, DelayLong: 1, TCPAnswer: 1}, Iso: 1},
		{Name: "tc-tcp", Tweaks: envTweaks{ZoneServers: zs(1, 2, 3, 1, 2)},
			Zone: faultMix{Honest: 3, TC: 7, TCPAnswer: 2, TCPStall: 3, TCPReset: 3}, TLD: faultMix{Honest: 3, TC: 2, DelayShort: 2, TCPAnswer: 2, TCPStall: 1, TCPReset: 1}, Iso: 1},
		{Name: "garbage", Tweaks: envTweaks{ZoneServers: zs(1, 2, 3, 2)},
			Zone: faultMix{Honest: 1, WrongID: 3, WrongQ: 3, Malformed: 3, Other: 2, TCPAnswer: 1}, TLD: faultMix{Honest: 2, WrongID: 1, WrongQ: 1, Malformed: 1, DelayShort: 2, TCPAnswer: 1}, Junk: 8, Iso: 1, PoisonBursts: 5},
		{Name: "rcodes", Tweaks: envTweaks{ZoneServers: zs(1, 2, 3, 3)},
			Zone: faultMix{Honest: 3, ServFail: 4, Refused: 4, TCPAnswer: 1}, TLD: faultMix{Honest: 3, ServFail: 1, Refused: 1, DelayShort: 2, TCPAnswer: 1}, Iso: 1},
		{Name: "everything", Tweaks: envTweaks{ZoneServers: zs(1, 2, 3, 1, 2, 3), QnameMin: true},
			Zone: allKinds, TLD: faultMix{Honest: 3, Drop: 1, DelayShort: 3, DelayLong: 1, TC: 1, ServFail: 1, TCPAnswer: 2, TCPStall: 1, TCPReset: 1}, Iso: 1, PoisonBursts: 5},
		{Name: "small-maxconcurrent", Tweaks: envTweaks{ZoneServers: zs(2, 3, 2), MaxConcurrent: 4},
			Zone: faultMix{Honest: 3, Drop: 4, DelayShort: 3, DelayLong: 2, TCPAnswer: 1}, TLD: faultMix{Honest: 2, DelayShort: 2, TCPAnswer: 1},
			Patterns: []patternWeight{{"distinct-zone", 5}, {"burst-same", 2}, {"spread", 2}, {"closers", 1}}, Iso: 1},
		{Name: "zone-quota", Tweaks: envTweaks{ZoneServers: zs(1, 1), MaxConcurrent: 64},
			Zone: faultMix{Honest: 2, Drop: 6, DelayLong: 2, TCPAnswer: 1, TCPStall: 1}, TLD: faultMix{Honest: 1, TCPAnswer: 1},
			Patterns: []patternWeight{{"distinct-zone", 8}, {"burst-same", 1}, {"repeat", 1}}, WaveSize: 56, Iso: 1},
		{Name: "tcp-conncap", Tweaks: envTweaks{ZoneServers: zs(1, 2, 3), IngressTCPConns: 6},
			Zone: faultMix{Honest: 4, DelayShort: 4, Drop: 2, TCPAnswer: 1}, TLD: faultMix{Honest: 1, DelayShort: 1, TCPAnswer: 1},
			UDPShare: 30, Patterns: []patternWeight{{"burst-same", 3}, {"distinct-zone", 3}, {"pipeline", 2}, {"closers", 2}}},
		{Name: "udp-shed", Tweaks: envTweaks{ZoneServers: zs(1, 2), TinyMemory: true, IngressWorkers: 2, IngressQueue: 2},
			Zone: faultMix{Honest: 1, Drop: 8, DelayLong: 1, TCPStall: 1}, TLD: faultMix{Honest: 1, TCPAnswer: 1},
			UDPShare: 92, Waves: 3, WaveSize: 170, WaveGap: 900, Patterns: []patternWeight{{"distinct-zone", 6}, {"spread", 3}, {"burst-same", 1}}}, // no junk, no closers: the shed account is exact
		{Name: "queue-expiry", Tweaks: envTweaks{ZoneServers: zs(1, 2), IngressWorkers: 1, IngressQueue: 1},
			Zone: faultMix{Honest: 1, TCPAnswer: 1}, TLD: faultMix{Honest: 1, TCPAnswer: 1},
			Waves: 2, WaveSize: 20, WaveGap: 3200, Patterns: []patternWeight{{"distinct-zone", 1}, {"spread", 1}},
			QueueExpiry: 6, QueueExpiryAt: 900},
		{Name: "closers-slow-walk", Tweaks: envTweaks{ZoneServers: zs(1, 2, 3, 1, 2, 3, 2, 2), QnameMin: true},
			Zone: faultMix{Honest: 3, Drop: 3, DelayShort: 3, TC: 1, TCPAnswer: 1, TCPStall: 1}, TLD: faultMix{DelayShort: 6, Honest: 1, Drop: 1, TCPAnswer: 1},
			Patterns: []patternWeight{{"closers", 4}, {"burst-same", 3}, {"distinct-zone", 2}, {"pipeline", 1}}, Iso: 2},
		// ---- poison scripts (appended: the indices above key PRNG streams).
		// Honest universe, so every burst question is a cache hit and the
		// replies of one receive batch leave as ONE transmit burst; few server
		// sockets (the low-memory plan opens 4 instead of one per CPU) and one
		// or two workers, so that both the readers' inline bursts and the
		// workers' bursts really hold several replies.
		{Name: "poison-mixed", Tweaks: envTweaks{ZoneServers: zs(1, 2, 2), TinyMemory: true, IngressWorkers: 1, IngressQueue: 64},
			Zone: faultMix{Honest: 1, TCPAnswer: 1}, TLD: faultMix{Honest: 1, TCPAnswer: 1},
			Waves: 7, WaveSize: 24, Patterns: []patternWeight{{"distinct-zone", 3}, {"repeat", 3}, {"spread", 2}, {"burst-same", 1}},
			PoisonBursts: 40, PoisonFrom: 450, Poison: true},
		{Name: "poison-mixed-v6", Tweaks: envTweaks{ZoneServers: zs(2, 1), ListenV6: true, TinyMemory: true, IngressWorkers: 2, IngressQueue: 64},
			Zone: faultMix{Honest: 1, TCPAnswer: 1}, TLD: faultMix{Honest: 1, TCPAnswer: 1},
			Waves: 7, WaveSize: 24, Patterns: []patternWeight{{"distinct-zone", 3}, {"repeat", 3}, {"spread", 2}, {"burst-same", 1}},
			PoisonBursts: 40, PoisonFrom: 450, Poison: true},
		// ---- mixed-eligibility scripts (mixed.go): honest single-server zones,
		// one or two workers and a short ready queue, so that cache hits and slow
		// strict-ineligible questions share a worker's transmit burst; besides a
		// token warm-up wave nothing else is in flight but the control client.
		{Name: "mixed-elig-1w", Tweaks: envTweaks{ZoneServers: zs(1, 1, 1, 1), TinyMemory: true, IngressWorkers: 1, IngressQueue: 12},
			Zone: faultMix{Honest: 1, TCPAnswer: 1}, TLD: faultMix{Honest: 1, TCPAnswer: 1},
			Waves: 1, WaveSize: 6, Patterns: []patternWeight{{"distinct-zone", 1}},
			MixedBursts: 6, MixedFrom: 700, Mixed: true},
		{Name: "mixed-elig-2w", Tweaks: envTweaks{ZoneServers: zs(1, 1, 1, 1), IngressWorkers: 2, IngressQueue: 10},
			Zone: faultMix{Honest: 1, TCPAnswer: 1}, TLD: faultMix{Honest: 1, TCPAnswer: 1},
			Waves: 1, WaveSize: 6, Patterns: []patternWeight{{"distinct-zone", 1}},
			MixedBursts: 6, MixedFrom: 700, Mixed: true},
		// ---- capacity script (capacity.go): honest universe, a four-slot lookup
		// pool, a token warm-up wave; nothing else in flight but the control client
		{Name: "capacity-refusal", Tweaks: envTweaks{ZoneServers: zs(1, 1, 1), MaxConcurrent: 4},
			Zone: faultMix{Honest: 1, TCPAnswer: 1}, TLD: faultMix{Honest: 1, TCPAnswer: 1},
			Waves: 1, WaveSize: 6, Patterns: []patternWeight{{"distinct-zone", 1}},
			Capacity: 6, CapacityScript: true},
	}
}

// nBaseScripts counts the scripts of a list that are not dedicated poison or
// mixed-eligibility scripts (the Require minimums of the general counters are per such script).
func nBaseScripts(list []scriptSpec) int64 {
	n := int64(0)
	for _, s := range list {
		if !s.Poison && !s.Mixed && !s.CapacityScript {
			n++
		}
	}
	return n
}

// scriptList returns the scripts of this run: rounds × base list, each with
// defaults filled in.
func scriptList(seed uint64, rounds int) []scriptSpec {
	var out []scriptSpec
	base := baseScripts()
	for round := 0; round < rounds; round++ {
		for _, s := range base {
			s.Index = len(out)
			s.Seed = seed
			if round > 0 {
				s.Name = fmt.Sprintf("%s#%d", s.Name, round)
			}
			if s.Waves == 0 {
				s.Waves = 7
			}
			if s.WaveSize == 0 {
				s.WaveSize = 40
			}
			if s.WaveGap == 0 {
				s.WaveGap = 450
			}
			if s.UDPShare == 0 {
				s.UDPShare = 55
			}
			if len(s.Patterns) == 0 {
				s.Patterns = defaultPatterns
			}
			out = append(out, s)
		}
	}
	return out
}

// ---------------------------------------------------------------- fault rules

func mixHash(parts ...string) uint64 {
	h := fnv.New64a()
	for _, p := range parts {
		_, _ = h.Write([]byte(p))
		_, _ = h.Write([]byte{0})
	}
	v := h.Sum64()
	// fnv has weak avalanche in the low bits for short inputs: finish with a mixer
	v ^= v >> 33
	v *= 0xff51afd7ed558ccd
	v ^= v >> 33
	v *= 0xc4ceb9fe1a85ec53
	v ^= v >> 33
	return v
}

type udpKind int

const (
	kHonest udpKind = iota
	kDrop
	kDelayShort
	kDelayLong
	kTC
	kWrongID
	kWrongQ
	kMalformed
	kServFail
	kRefused
	kOther
	nKinds
)

var kindNames = [...]string{"honest", "drop", "delay-short", "delay-long", "tc", "wrong-id", "wrong-question", "malformed", "servfail", "refused", "other-question"}

func (m faultMix) weights() [nKinds]int {
	return [nKinds]int{m.Honest, m.Drop, m.DelayShort, m.DelayLong, m.TC, m.WrongID, m.WrongQ, m.Malformed, m.ServFail, m.Refused, m.Other}
}

// pickKind maps a hash to a behaviour according to the weights.
func (m faultMix) pickKind(h uint64) udpKind {
	w := m.weights()
	tot := m.total()
	if tot == 0 {
		return kHonest
	}
	x := int(h % uint64(tot))
	for k, wk := range w {
		if x < wk {
			return udpKind(k)
		}
		x -= wk
	}
	return kHonest
}

func (m faultMix) pickTCP(h uint64) authsim.TCPMode {
	tot := m.TCPAnswer + m.TCPStall + m.TCPReset
	if tot == 0 {
		return authsim.TCPAnswer
	}
	x := int(h % uint64(tot))
	switch {
	case x < m.TCPAnswer:
		return authsim.TCPAnswer
	case x < m.TCPAnswer+m.TCPStall:
		return authsim.TCPStall
	}
	return authsim.TCPReset
}

// installFaults scripts one server: for every UDP packet about a name under
// scope the behaviour is pickKind(hash(seed, script, server, qname, qtype,
// hit)); for a TCP query it is pickTCP(hash(seed, script, server, qname)).
func installFaults(s *authsim.Server, sp *scriptSpec, mix faultMix, scope string, exclude func(qnameLower string) bool) {
	if mix.total() == 0 {
		return
	}
	seed := fmt.Sprint(sp.Seed)
	idx := fmt.Sprint(sp.Index)
	kindOf := func(p *authsim.Packet) udpKind {
		if exclude != nil && exclude(p.QNameL) {
			return kHonest
		}
		return mix.pickKind(mixHash(seed, idx, s.Name, p.QNameL, fmt.Sprint(p.QType), fmt.Sprint(p.Hit)))
	}
	tcpOf := func(p *authsim.Packet) authsim.TCPMode {
		if exclude != nil && exclude(p.QNameL) {
			return authsim.TCPAnswer
		}
		return mix.pickTCP(mixHash(seed, idx, s.Name, p.QNameL, "tcp"))
	}
	frac := func(p *authsim.Packet) float64 {
		return float64(mixHash(seed, idx, s.Name, p.QNameL, fmt.Sprint(p.Hit), "frac")%1000) / 1000
	}
	name := "*." + scope
	udpRule := func(k udpKind, a authsim.Action) {
		a.Label = kindNames[k]
		s.AddRule(authsim.Rule{Name: name, Transport: "udp", Match: func(p *authsim.Packet) bool { return kindOf(p) == k }, Action: a})
	}
	// delays come in three steps each so the value is a function of the packet
	for step := 0; step < 3; step++ {
		step := step
		ds := time.Duration((0.3 + 0.3*float64(step)) * float64(upstreamTimeout))
		s.AddRule(authsim.Rule{Name: name, Transport: "udp", Match: func(p *authsim.Packet) bool {
			return kindOf(p) == kDelayShort && int(frac(p)*3) == step
		}, Action: authsim.Action{Label: kindNames[kDelayShort], Delay: ds}})
		dl := time.Duration((1.2 + 0.9*float64(step)) * float64(upstreamTimeout))
		s.AddRule(authsim.Rule{Name: name, Transport: "udp", Match: func(p *authsim.Packet) bool {
			return kindOf(p) == kDelayLong && int(frac(p)*3) == step
		}, Action: authsim.Action{Label: kindNames[kDelayLong], Delay: dl}})
	}
	udpRule(kDrop, authsim.Drop())
	udpRule(kTC, authsim.Truncate(authsim.TCPAnswer))
	udpRule(kWrongID, authsim.Honest().WithPre(authsim.PreWrongID))
	udpRule(kWrongQ, authsim.Honest().WithPre(authsim.PreWrongQuestion))
	udpRule(kMalformed, authsim.Malformed())
	udpRule(kServFail, authsim.Rcode(dns.RcodeServerFailure))
	udpRule(kRefused, authsim.Rcode(dns.RcodeRefused))
	udpRule(kOther, authsim.AnswerOther("other."+scope, dns.TypeA))
	// TCP side
	s.AddRule(authsim.Rule{Name: name, Transport: "tcp", Match: func(p *authsim.Packet) bool { return tcpOf(p) == authsim.TCPStall },
		Action: authsim.Action{Label: "tcp-stall", TCP: authsim.TCPStall}})
	s.AddRule(authsim.Rule{Name: name, Transport: "tcp", Match: func(p *authsim.Packet) bool { return tcpOf(p) == authsim.TCPReset },
		Action: authsim.Action{Label: "tcp-reset", TCP: authsim.TCPReset}})
}

// ---------------------------------------------------------------- arrival plan

// planned is one query of the plan (before any socket exists).
type planned struct {
	q      *qrec
	atMs   int // offset from the start of the load phase
	group  int // queries of one group share a pipelined connection (pattern "pipeline")
	closeMs int // closers: close the socket this long after sending
	noPace  bool // written back-to-back on one socket, no pacing (one receive batch)
	burst   int  // > 0: member of that poison burst (plan.bursts[burst-1]); the whole burst is written back-to-back
	sock    int  // burst members: index of the pooled client socket that sends it
	mixed   int  // > 0: member of that mixed-eligibility burst (mixed.go)
}

// burstPlan is one poison burst: its members in SEND ORDER (ordinary queries
// and poison datagrams interleaved; the first is always an ordinary query).
type burstPlan struct {
	ID      int    `json:"id"`
	AtMs    int    `json:"at_ms"`
	Shape   string `json:"shape"`   // one-client | many-clients
	Flavour string `json:"flavour"` // inline (plain: answered from the wire cache on the reader) | worker (ECS option: declined inline, answered by a worker) | mixed
	Good    int    `json:"good"`
	Poison  int    `json:"poison"`
	seq     []*planned
}

type plan struct {
	items []*planned
	// sameBursts lists, per burst of identical questions, the indices of its
	// members (evidence: followers observed).
	sameBursts [][]int
	bursts     []*burstPlan
}

func pickPattern(rng *rand.Rand, ps []patternWeight) string {
	tot := 0
	for _, p := range ps {
		tot += p.Weight
	}
	x := rng.IntN(tot)
	for _, p := range ps {
		if x < p.Weight {
			return p.Pattern
		}
		x -= p.Weight
	}
	return ps[0].Pattern
}

var qtypes = []uint16{dns.TypeA, dns.TypeA, dns.TypeA, dns.TypeAAAA, dns.TypeTXT}

// buildPlan derives the whole query list of a script from its PRNG stream.
func buildPlan(rng, prng *rand.Rand, sp *scriptSpec, nZones int, v6 bool) *plan {
	pl := &plan{}
	firstAt := map[*qrec]int{} // when each planned query is sent (ms into the load phase)
	nameSeq := 0
	fresh := func(zone int) string {
		nameSeq++
		return fmt.Sprintf("n%d-%d.z%d.test.", sp.Index, nameSeq, zone)
	}
	var asked []*qrec // distinct questions asked so far (for "repeat")
	group := 0
	add := func(wave int, pattern, name string, qtype uint16, tr string, atMs int) *planned {
		q := &qrec{Idx: len(pl.items), Wave: wave, Pattern: pattern, Tr: tr, Name: name, Qtype: qtype}
		p := &planned{q: q, atMs: atMs}
		pl.items = append(pl.items, p)
		firstAt[q] = atMs
		return p
	}
	transport := func() string {
		if rng.IntN(100) < sp.UDPShare {
			return "udp"
		}
		return "tcp"
	}
	for w := 0; w < sp.Waves; w++ {
		base := w * sp.WaveGap
		pattern := pickPattern(rng, sp.Patterns)
		if pattern == "repeat" && len(asked) == 0 {
			// nothing to repeat yet: the first wave, or only "closers" /
			// "pipeline" waves so far (they record no repeatable question)
			pattern = "distinct-zone"
		}
		n := sp.WaveSize
		switch pattern {
		case "burst-same":
			// 2..3 bursts of identical questions, members arriving within a few ms
			bursts := 2 + rng.IntN(2)
			per := n / bursts
			for b := 0; b < bursts; b++ {
				name := fresh(rng.IntN(nZones))
				qt := qtypes[rng.IntN(len(qtypes))]
				var members []int
				for i := 0; i < per; i++ {
					p := add(w, pattern, name, qt, transport(), base+b*40+rng.IntN(6))
					members = append(members, p.q.Idx)
				}
				asked = append(asked, pl.items[members[0]].q)
				pl.sameBursts = append(pl.sameBursts, members)
			}
		case "distinct-zone":
			z := rng.IntN(nZones)
			for i := 0; i < n; i++ {
				p := add(w, pattern, fresh(z), qtypes[rng.IntN(len(qtypes))], transport(), base+rng.IntN(25))
				if i%4 == 0 {
					asked = append(asked, p.q)
				}
			}
		case "spread":
			for i := 0; i < n; i++ {
				p := add(w, pattern, fresh(rng.IntN(nZones)), qtypes[rng.IntN(len(qtypes))], transport(), base+rng.IntN(sp.WaveGap*2/3+1))
				if i%4 == 0 {
					asked = append(asked, p.q)
				}
			}
		case "repeat":
			// questions asked in earlier waves: cache hits (UDP: the inline
			// reader path), cached failures, or a second resolution
			for i := 0; i < n; i++ {
				o := asked[rng.IntN(len(asked))]
				tr := "udp"
				if rng.IntN(4) == 0 {
					tr = "tcp"
				}
				add(w, pattern, o.Name, o.Qtype, tr, base+rng.IntN(sp.WaveGap/2+1))
			}
		case "closers":
			// a burst on one or two names; every second client walks away mid-flight
			names := []string{fresh(rng.IntN(nZones)), fresh(rng.IntN(nZones))}
			var m0, m1 []int
			for i := 0; i < n; i++ {
				k := rng.IntN(2)
				p := add(w, pattern, names[k], dns.TypeA, transport(), base+rng.IntN(10))
				if i%2 == 1 {
					p.q.Closer = true
					p.closeMs = rng.IntN(400)
				}
				if k == 0 {
					m0 = append(m0, p.q.Idx)
				} else {
					m1 = append(m1, p.q.Idx)
				}
			}
			pl.sameBursts = append(pl.sameBursts, m0, m1)
		case "pipeline":
			// TCP connections carrying 3 queries written back-to-back, plus
			// single UDP queries on the same names
			conns := n / 4
			for c := 0; c < conns; c++ {
				group++
				z := rng.IntN(nZones)
				at := base + rng.IntN(30)
				for k := 0; k < 3; k++ {
					name := fresh(z)
					if k == 2 && len(asked) > 0 && rng.IntN(2) == 0 {
						name = asked[rng.IntN(len(asked))].Name
					}
					p := add(w, pattern, name, dns.TypeA, "tcp", at)
					p.group = group
					p.q.Pipe = k + 1
				}
				add(w, pattern, fresh(z), dns.TypeA, "udp", at+rng.IntN(10))
			}
		}
	}
	// the queue-expiry burst (see scriptSpec.QueueExpiry)
	for i := 0; i < sp.QueueExpiry; i++ {
		p := add(sp.Waves+1, "queue-expiry", fmt.Sprintf("qe%d-%d.leaf.m%d.iso.test.", sp.Index, i, sp.Iso), dns.TypeA, "udp", sp.QueueExpiryAt)
		p.noPace = true
	}
	// non-admitted datagrams, sprinkled over the load phase
	for i := 0; i < sp.Junk; i++ {
		kind := "qr-set"
		if i%3 == 2 {
			kind = "short-header"
		}
		p := add(sp.Waves, "junk", fmt.Sprintf("junk%d.z0.test.", i), dns.TypeA, "udp", rng.IntN(sp.Waves*sp.WaveGap+1))
		p.q.Junk = kind
	}
	// poison bursts: drawn from their own PRNG stream, so the plan above is the
	// same with and without them
	if sp.PoisonBursts > 0 && prng != nil {
		planPoison(prng, sp, pl, asked, firstAt, v6)
	}
	for _, p := range pl.items {
		q := p.q
		if p.burst != 0 {
			continue // built by planPoison
		}
		q.pkt = buildQuery(q.Name, q.Qtype, 0, q.CD, q.Idx%5 != 0)
		switch q.Junk {
		case "qr-set":
			q.pkt[2] |= 0x80
		case "short-header":
			q.pkt = q.pkt[:7+q.Idx%4]
		}
	}
	return pl
}

// planPoison adds sp.PoisonBursts bursts to the plan. A burst is a list of
// datagrams written back-to-back by one goroutine (no pacing), so that the
// server's receive batches — and therefore its transmit bursts — mix ordinary
// clients with poison sources:
//
//	shape one-client    4..10 queries from ONE client socket, 4..10 poison
//	                    queries from that many distinct forged sources
//	shape many-clients  16..32 queries spread over all pooled client sockets,
//	                    3..8 poison queries from one or two forged sources
//
// (the listener is a reuseport group: the kernel steers a datagram by the hash
// of its addresses and ports, which the harness cannot compute — many sources
// against one client, and many clients against one source, both make sure that
// some poison shares a server socket with ordinary queries). Every question is
// one asked at least 350 ms earlier, i.e. a cache hit when the universe is
// honest. Flavour: plain queries are answered from the wire cache on the
// reader (its inline transmit burst); queries carrying an EDNS Client Subnet
// option are declined inline and answered by a worker (the worker's burst).
// The send order is a random interleaving that starts with an ordinary query.
func planPoison(prng *rand.Rand, sp *scriptSpec, pl *plan, asked []*qrec, firstAt map[*qrec]int, v6 bool) {
	span := sp.Waves * sp.WaveGap
	from := sp.PoisonFrom
	if from <= 0 {
		from = 500
	}
	if span <= from {
		span = from + 1000
	}
	gap := (span - from) / sp.PoisonBursts
	if gap < 40 {
		gap = 40
	}
	srcSeq := prng.IntN(20000)
	for b := 0; b < sp.PoisonBursts; b++ {
		at := from + b*gap + prng.IntN(gap/4+1)
		var cands []*qrec
		for _, o := range asked {
			if firstAt[o]+350 <= at {
				cands = append(cands, o)
			}
		}
		shapeDraw, flavourDraw := prng.IntN(2), prng.IntN(3)
		nGood, nPoison := 4+prng.IntN(7), 4+prng.IntN(7)
		sockBase, nSrc := prng.IntN(64), nPoison
		shape := "one-client"
		if shapeDraw == 1 {
			shape = "many-clients"
			nGood, nPoison = 16+prng.IntN(17), 3+prng.IntN(6)
			nSrc = 1 + prng.IntN(2)
		}
		if len(cands) == 0 {
			continue // nothing asked long enough ago: no cache hit to ride on
		}
		bp := &burstPlan{ID: len(pl.bursts) + 1, AtMs: at, Shape: shape, Flavour: [...]string{"inline", "worker", "mixed"}[flavourDraw], Good: nGood, Poison: nPoison}
		// send order: a shuffle of G × good + P × poison, first one good
		kinds := make([]bool, nGood+nPoison) // true = poison
		for i := 0; i < nPoison; i++ {
			kinds[i] = true
		}
		prng.Shuffle(len(kinds), func(i, j int) { kinds[i], kinds[j] = kinds[j], kinds[i] })
		for i, k := range kinds {
			if !k {
				kinds[0], kinds[i] = kinds[i], kinds[0]
				break
			}
		}
		srcs := make([]int, nSrc)
		for i := range srcs {
			srcSeq += 1 + prng.IntN(7)
			srcs[i] = srcSeq
		}
		g, ps := 0, 0
		for _, isPoison := range kinds {
			o := cands[prng.IntN(len(cands))]
			ecs := flavourDraw == 1 || (flavourDraw == 2 && prng.IntN(2) == 0)
			q := &qrec{Idx: len(pl.items), Wave: -3, Pattern: "poison-burst", Tr: "udp", Name: o.Name, Qtype: o.Qtype, ECS: ecs, Burst: bp.ID}
			p := &planned{q: q, atMs: at, burst: bp.ID, noPace: true}
			if isPoison {
				kind := poisonPort0
				if !v6 && prng.IntN(5) == 0 {
					kind = poisonUnroutable
				}
				q.Poison = kind
				ip, port := poisonSource(kind, v6, srcs[ps%nSrc])
				q.Src = ip.String()
				q.PoisonPort = port
				q.ID = uint16(1 + prng.IntN(65535))
				ps++
			} else {
				if shape == "one-client" {
					p.sock = sockBase
				} else {
					p.sock = sockBase + g
				}
				g++
			}
			q.pkt = buildQueryOpt(q.Name, q.Qtype, q.ID, false, true, ecs)
			pl.items = append(pl.items, p)
			bp.seq = append(bp.seq, p)
		}
		pl.bursts = append(pl.bursts, bp)
	}
}

func zoneOfName(name string) string {
	labels := dns.SplitDomainName(name)
	if len(labels) < 2 {
		return ""
	}
	return strings.ToLower(labels[len(labels)-2] + "." + labels[len(labels)-1] + ".")
}

func idBytes(id uint16) []byte {
	var b [2]byte
	binary.BigEndian.PutUint16(b[:], id)
	return b[:]
}
