package main

// Environment of one script: a scripted authoritative universe (authsim) and
// the FULL production chain (defaults.Register → … → cache → resolver) behind
// real UDP + TCP listeners (stack.New with StopBefore "-"), with the resolver's
// dial-target remapper pointed at the universe. One live stack per process;
// scripts run sequentially inside a child process.

import (
	"fmt"
	"os"
	"path/filepath"
	"runtime/debug"
	"time"

	"github.com/semihalev/sdns/config"
	"github.com/semihalev/sdns/middleware/resolver"
	"github.com/semihalev/sdns/zzverif/authsim"
	"github.com/semihalev/sdns/zzverif/stack"
	zm "github.com/semihalev/sdns/zzverif/zonemodel"
)

const (
	queryTimeout    = 2 * time.Second        // cfg.QueryTimeout — the property's own deadline
	upstreamTimeout = 500 * time.Millisecond // cfg.Timeout — one upstream exchange
	baseMargin      = 3 * time.Second        // generous scheduling margin on top of queryTimeout
)

// topo is the universe every script resolves against:
//
//	.            root   (1 server, always honest unless the script says so)
//	test.        tld    (1 server)
//	z<k>.test.   zone k (its own 1..3 servers: s<k>a, s<k>b, s<k>c), wildcard A/AAAA/TXT
type topo struct {
	u     *authsim.Universe
	root  *authsim.Server
	tld   *authsim.Server
	zones []*zoneInfo
	iso   []*isoZone // isolation-probe zones (see run.go)
	// born: when the universe (and its packet log's clock) was created — a
	// logged packet arrived at born + Packet.At
	born time.Time
}

func (t *topo) zoneByApex(apex string) *zoneInfo {
	for _, z := range t.zones {
		if z.apex == apex {
			return z
		}
	}
	return &zoneInfo{apex: apex, servers: []*authsim.Server{nil}}
}

type zoneInfo struct {
	apex    string
	zone    *zm.Zone
	servers []*authsim.Server
}

// envTweaks are the knobs a script may turn.
type envTweaks struct {
	MaxConcurrent   int   `json:"max_concurrent,omitempty"`    // cfg.MaxConcurrentQueries (0 = default)
	IngressWorkers  int   `json:"ingress_workers,omitempty"`   // cfg.IngressWorkers
	IngressQueue    int   `json:"ingress_queue,omitempty"`     // cfg.IngressQueue
	IngressTCPConns int   `json:"ingress_tcp_conns,omitempty"` // cfg.IngressTCPConns
	TinyMemory      bool  `json:"tiny_memory,omitempty"`       // derive the ingress plan under a 128 MiB memory limit (small UDP slab cap)
	ZoneServers     []int `json:"zone_servers"`                // number of servers per zone
	QnameMin        bool  `json:"qname_min,omitempty"`         // leave QNAME minimisation at its default level
	ListenV6        bool  `json:"listen_v6,omitempty"`         // bind the listeners to [::1] (clients then all come from ::1)
}

type env struct {
	t     *topo
	st    *stack.Stack
	h     *resolver.DNSHandler
	dir   string
	tw    envTweaks
	slabs int64 // UDP admission cap as logged by the plan (0 = unknown)
}

func buildTopo(zoneServers []int, iso int) *topo {
	born := time.Now()
	u := authsim.New()
	t := &topo{u: u, born: born}
	t.root = u.AddV4Only("root")
	t.tld = u.AddV4Only("tld")
	root := u.AddZone(zm.Spec{Apex: "."}, t.root)
	tld := u.AddZone(zm.Spec{Apex: "test."}, t.tld)
	u.Delegate(root, tld, authsim.DelegOpts{})
	for k, n := range zoneServers {
		if n < 1 {
			n = 1
		}
		zi := &zoneInfo{apex: fmt.Sprintf("z%d.test.", k)}
		for i := 0; i < n; i++ {
			zi.servers = append(zi.servers, u.AddV4Only(fmt.Sprintf("s%d%c", k, 'a'+i)))
		}
		zi.zone = u.AddZone(zm.Spec{Apex: zi.apex}, zi.servers...)
		zi.zone.AddMarked("*."+zi.apex, 1 /*A*/, 300)
		zi.zone.AddMarked("*."+zi.apex, 28 /*AAAA*/, 300)
		zi.zone.AddMarked("*."+zi.apex, 16 /*TXT*/, 300)
		u.Delegate(tld, zi.zone, authsim.DelegOpts{})
		t.zones = append(t.zones, zi)
	}
	for i := 0; i < iso; i++ {
		z := &isoZone{idx: i, tld: t.tld,
			midApex:  fmt.Sprintf("m%d.iso.test.", i),
			leafApex: fmt.Sprintf("leaf.m%d.iso.test.", i)}
		z.mid = u.AddV4Only(fmt.Sprintf("im%d", i))
		z.leaf = u.AddV4Only(fmt.Sprintf("il%d", i))
		mid := u.AddZone(zm.Spec{Apex: z.midApex}, z.mid)
		leaf := u.AddZone(zm.Spec{Apex: z.leafApex}, z.leaf)
		leaf.AddMarked("*."+z.leafApex, 1 /*A*/, 300)
		u.Delegate(tld, mid, authsim.DelegOpts{})
		u.Delegate(mid, leaf, authsim.DelegOpts{})
		t.iso = append(t.iso, z)
	}
	return t
}

func tempRoot() string {
	if b := os.Getenv("VERIF_BUILD_DIR"); b != "" {
		d := filepath.Join(b, "tmp")
		if os.MkdirAll(d, 0o755) == nil {
			return d
		}
	}
	return os.TempDir()
}

// newEnv builds universe + stack + listeners.
func newEnv(tw envTweaks, iso int) (*env, error) {
	e := &env{tw: tw}
	e.t = buildTopo(tw.ZoneServers, iso)
	if err := e.t.u.Start(); err != nil {
		e.t.u.Close()
		return nil, err
	}
	dir, err := os.MkdirTemp(tempRoot(), "c11-")
	if err != nil {
		e.t.u.Close()
		return nil, err
	}
	e.dir = dir
	cfg, err := e.t.u.BaseConfig(dir)
	if err != nil {
		e.close()
		return nil, err
	}
	tweakConfig(cfg, tw)

	// The ingress resource plan is derived inside server.New from the process
	// memory limit; a script that wants a small UDP slab cap lowers the limit
	// for the duration of stack.New only (the plan is a value on the Server).
	var oldLimit int64
	if tw.TinyMemory {
		oldLimit = debug.SetMemoryLimit(128 << 20)
	}
	st, err := stack.New(stack.Options{
		Config:     cfg,
		StopBefore: "-", // full production chain, no stub
		Listen:     stack.Listen{Plain: true, IP: listenIP(tw)},
		LogLevel:   os.Getenv("VERIF_SDNS_LOG"),
	})
	if tw.TinyMemory {
		debug.SetMemoryLimit(oldLimit)
	}
	if err != nil {
		e.close()
		return nil, err
	}
	e.st = st
	h, _ := st.Handler("resolver").(*resolver.DNSHandler)
	if h == nil {
		e.close()
		return nil, fmt.Errorf("resolver handler not in the chain")
	}
	// The priming goroutine only ever dials the configured (loopback) root
	// before this point: it polls middleware.Ready() every 50 ms and its first
	// query goes to cfg.RootServers.
	h.VerifSetResolveTarget(e.t.u.Mapper())
	e.h = h
	return e, nil
}

func listenIP(tw envTweaks) string {
	if tw.ListenV6 {
		return "::1"
	}
	return "" // the stack's per-process 127.x.y.1
}

func tweakConfig(c *config.Config, tw envTweaks) {
	c.DNSSEC = "off"
	c.RootKeys = nil
	c.QueryTimeout.Duration = queryTimeout
	c.Timeout.Duration = upstreamTimeout
	c.RateLimit, c.ClientRateLimit = 0, 0
	c.AccessList = []string{"0.0.0.0/0", "::0/0"}
	c.IPv6Access = false
	c.Prefetch = 0
	if !tw.QnameMin {
		c.QnameMinLevel = 0
	}
	if tw.MaxConcurrent > 0 {
		c.MaxConcurrentQueries = tw.MaxConcurrent
	}
	c.IngressWorkers = tw.IngressWorkers
	c.IngressQueue = tw.IngressQueue
	c.IngressTCPConns = tw.IngressTCPConns
}

func (e *env) close() {
	if e.st != nil {
		e.st.Close()
		e.st = nil
		if e.h != nil {
			e.h.VerifRelease() // after the drain: the handler serves nothing any more
		}
	}
	if e.t != nil {
		e.t.u.Close()
	}
	if e.dir != "" {
		_ = os.RemoveAll(e.dir)
		e.dir = ""
	}
}
