package main

// Poison traffic: well-formed DNS queries whose SOURCE cannot be answered.
//
// A reply to such a query is refused by the kernel at the send call itself
// (sendmsg / sendmmsg return an errno for that one datagram), which is the
// fault the property calls "never-admitted / unanswerable traffic": it must
// not cost any OTHER client its one reply, nor earn it a second one. The
// server answers UDP in bursts (sendmmsg over the replies of one receive batch
// on a reader, or of one run of a worker), so the interesting executions are
// the bursts in which an ordinary client's reply and a refused datagram travel
// together — in every order.
//
// Kinds (each verified at run time against a harness-owned socket before it is
// used; a kind the kernel does not refuse here is skipped, with an assumption):
//
//	port0       source port 0: delivered by the kernel, the reply is refused
//	            with EINVAL (IPv4 and IPv6)
//	unroutable  source 240.11.x.y (class E): delivered over lo (rp_filter
//	            permitting), the reply is refused because a loopback-sourced
//	            datagram may not leave through a non-loopback route (or there
//	            is no route at all) — IPv4 only
//
// Forged sources need a raw socket (AF_INET/AF_INET6, SOCK_RAW, IPPROTO_RAW:
// send-only, the harness writes the IP and UDP headers itself). Without
// CAP_NET_RAW the poison scripts still run, carrying ordinary traffic only;
// that is recorded as an assumption and never makes the run inconclusive.

import (
	"encoding/binary"
	"errors"
	"fmt"
	"net"
	"os"
	"strings"
	"sync"
	"syscall"
	"time"
)

const (
	poisonPort0      = "port0"
	poisonUnroutable = "unroutable"
)

// rawInjector owns the send-only raw sockets of one process.
type rawInjector struct {
	fd4, fd6 int
	err4     error
	err6     error
	// refused[kind+"/4"|"/6"] = the kernel delivered a probe of that kind to a
	// harness socket and refused the reply to it
	refused map[string]bool
	why     map[string]string
}

var (
	rawOnce sync.Once
	rawInj  *rawInjector
)

// injector opens (once per process) the raw sockets and runs the refusal
// self-test of every kind.
func injector() *rawInjector {
	rawOnce.Do(func() {
		ri := &rawInjector{fd4: -1, fd6: -1, refused: map[string]bool{}, why: map[string]string{}}
		ri.fd4, ri.err4 = syscall.Socket(syscall.AF_INET, syscall.SOCK_RAW|syscall.SOCK_CLOEXEC, syscall.IPPROTO_RAW)
		if ri.err4 != nil {
			ri.fd4 = -1
		}
		ri.fd6, ri.err6 = syscall.Socket(syscall.AF_INET6, syscall.SOCK_RAW|syscall.SOCK_CLOEXEC, syscall.IPPROTO_RAW)
		if ri.err6 != nil {
			ri.fd6 = -1
		}
		if ri.fd4 >= 0 {
			ri.selfTest(poisonPort0, false)
			if sysctlIsZero("/proc/sys/net/ipv4/conf/all/route_localnet") && sysctlIsZero("/proc/sys/net/ipv4/conf/lo/route_localnet") {
				ri.selfTest(poisonUnroutable, false)
			} else {
				ri.why[poisonUnroutable+"/4"] = "route_localnet is set: a loopback-sourced reply could be routed"
			}
		}
		if ri.fd6 >= 0 {
			ri.selfTest(poisonPort0, true)
		}
		rawInj = ri
	})
	return rawInj
}

func sysctlIsZero(path string) bool {
	b, err := os.ReadFile(path)
	return err == nil && strings.TrimSpace(string(b)) == "0"
}

// rawAvailable reports whether forged datagrams can be sent at all over the
// given family.
func (ri *rawInjector) rawAvailable(v6 bool) bool {
	if v6 {
		return ri.fd6 >= 0
	}
	return ri.fd4 >= 0
}

// usable reports whether a poison kind is both injectable and refused here.
func (ri *rawInjector) usable(kind string, v6 bool) bool {
	return ri.refused[kind+famSuffix(v6)]
}

func famSuffix(v6 bool) string {
	if v6 {
		return "/6"
	}
	return "/4"
}

// poisonSource returns the forged source (address, port) of the n-th poison
// source of a kind.
func poisonSource(kind string, v6 bool, n int) (net.IP, uint16) {
	switch {
	case v6:
		return net.IPv6loopback, 0 // lo carries ::1 only
	case kind == poisonUnroutable:
		return net.IPv4(240, 11, byte(1+(n/250)%250), byte(1+n%250)).To4(), uint16(20000 + n%20000)
	default:
		return net.IPv4(127, 12, byte(1+(n/250)%250), byte(1+n%250)).To4(), 0
	}
}

// selfTest injects one datagram of the kind at a socket of our own and checks
// that (a) it is delivered with the forged source and (b) the kernel refuses
// the reply.
func (ri *rawInjector) selfTest(kind string, v6 bool) {
	key := kind + famSuffix(v6)
	network, ip := "udp4", net.IPv4(127, 12, 0, 1)
	if v6 {
		network, ip = "udp6", net.IPv6loopback
	}
	l, err := net.ListenUDP(network, &net.UDPAddr{IP: ip})
	if err != nil {
		ri.why[key] = "self-test socket: " + err.Error()
		return
	}
	defer l.Close()
	dst := l.LocalAddr().(*net.UDPAddr)
	src, sport := poisonSource(kind, v6, 0)
	payload := []byte("c11-poison-selftest")
	pkt := buildRawUDP(src, sport, dst.IP, uint16(dst.Port), payload)
	if err := ri.sendRaw(pkt, dst.IP); err != nil {
		ri.why[key] = "raw send: " + err.Error()
		return
	}
	buf := make([]byte, 256)
	for try := 0; try < 4; try++ {
		_ = l.SetReadDeadline(time.Now().Add(500 * time.Millisecond))
		n, from, err := l.ReadFromUDP(buf)
		if err != nil {
			ri.why[key] = "the forged datagram was not delivered (reverse-path filter?): " + err.Error()
			return
		}
		if string(buf[:n]) != string(payload) {
			continue // somebody else's stray datagram
		}
		if from.Port != int(sport) || !from.IP.Equal(src) {
			ri.why[key] = fmt.Sprintf("delivered with source %v, not the forged one", from)
			return
		}
		if _, werr := l.WriteToUDP([]byte{0}, from); werr != nil {
			ri.refused[key] = true
			ri.why[key] = "reply refused: " + errnoText(werr)
		} else {
			ri.why[key] = "the kernel accepted a reply to the forged source"
		}
		return
	}
	ri.why[key] = "self-test datagram not seen"
}

func errnoText(err error) string {
	var en syscall.Errno
	if errors.As(err, &en) {
		return en.Error()
	}
	return err.Error()
}

// sendRaw writes one prepared IP packet.
func (ri *rawInjector) sendRaw(pkt []byte, dst net.IP) error {
	if d4 := dst.To4(); d4 != nil {
		if ri.fd4 < 0 {
			return ri.err4
		}
		var sa syscall.SockaddrInet4
		copy(sa.Addr[:], d4)
		return syscall.Sendto(ri.fd4, pkt, 0, &sa)
	}
	if ri.fd6 < 0 {
		return ri.err6
	}
	var sa syscall.SockaddrInet6
	copy(sa.Addr[:], dst.To16())
	return syscall.Sendto(ri.fd6, pkt, 0, &sa)
}

// buildRawUDP returns IP header + UDP header + payload (checksums filled in;
// the kernel completes the IPv4 header checksum / total length / id of a
// header-included packet).
func buildRawUDP(src net.IP, sport uint16, dst net.IP, dport uint16, payload []byte) []byte {
	ulen := 8 + len(payload)
	udp := make([]byte, ulen)
	binary.BigEndian.PutUint16(udp[0:], sport)
	binary.BigEndian.PutUint16(udp[2:], dport)
	binary.BigEndian.PutUint16(udp[4:], uint16(ulen))
	copy(udp[8:], payload)
	if s4, d4 := src.To4(), dst.To4(); s4 != nil && d4 != nil {
		ph := make([]byte, 12)
		copy(ph[0:4], s4)
		copy(ph[4:8], d4)
		ph[9] = syscall.IPPROTO_UDP
		binary.BigEndian.PutUint16(ph[10:], uint16(ulen))
		binary.BigEndian.PutUint16(udp[6:], inetChecksum(ph, udp))
		h := make([]byte, 20, 20+ulen)
		h[0] = 0x45
		binary.BigEndian.PutUint16(h[2:], uint16(20+ulen))
		h[8] = 64
		h[9] = syscall.IPPROTO_UDP
		copy(h[12:16], s4)
		copy(h[16:20], d4)
		return append(h, udp...)
	}
	s16, d16 := src.To16(), dst.To16()
	ph := make([]byte, 40)
	copy(ph[0:16], s16)
	copy(ph[16:32], d16)
	binary.BigEndian.PutUint32(ph[32:], uint32(ulen))
	ph[39] = syscall.IPPROTO_UDP
	binary.BigEndian.PutUint16(udp[6:], inetChecksum(ph, udp))
	h := make([]byte, 40, 40+ulen)
	h[0] = 0x60
	binary.BigEndian.PutUint16(h[4:], uint16(ulen))
	h[6] = syscall.IPPROTO_UDP
	h[7] = 64
	copy(h[8:24], s16)
	copy(h[24:40], d16)
	return append(h, udp...)
}

func inetChecksum(parts ...[]byte) uint16 {
	var s uint32
	for _, b := range parts {
		for i := 0; i+1 < len(b); i += 2 {
			s += uint32(b[i])<<8 | uint32(b[i+1])
		}
		if len(b)%2 == 1 {
			s += uint32(b[len(b)-1]) << 8
		}
	}
	for s>>16 != 0 {
		s = s&0xffff + s>>16
	}
	c := ^uint16(s)
	if c == 0 {
		c = 0xffff
	}
	return c
}

// v6LoopbackUsable reports whether a UDP socket can be bound to [::1].
func v6LoopbackUsable() bool {
	l, err := net.ListenUDP("udp6", &net.UDPAddr{IP: net.IPv6loopback})
	if err != nil {
		return false
	}
	_ = l.Close()
	return true
}
