// C11 — exactly one reply per admitted query, in time, whatever upstreams do.
//
// The entry binary is race-instrumented. The parent runs nothing itself: it
// re-executes this binary as a few child processes (one live sdns stack per
// process; the children run their share of the script list sequentially, in
// parallel with each other) with GORACE=log_path so race reports are logged,
// merges their counters / violations and scans the race logs.
//
// A script (script.go) = server knobs + per-server fault mixes + an arrival
// plan. run.go plays it against the FULL production chain behind real UDP and
// TCP listeners resolving in a scripted authoritative universe and judges, by
// counting, every query: replies == 1, latency ≤ querytimeout + margin
// (+ measured scheduling lateness), replies == 0 only when accounted for by
// the server's shed/drop counters plus the kernel's UDP loss counters; then
// Server.Quiesced(), limiter slots and goroutines after the load.
//
// Besides ordinary clients the plan carries hostile traffic: junk datagrams,
// clients that walk away, and poison bursts (poison.go, planPoison) — tight
// bursts in which ordinary queries for cached names are interleaved with
// well-formed queries forged from sources the kernel refuses to send a reply
// to (source port 0, unroutable source address; raw socket), so that the
// server's transmit bursts (sendmmsg) mix answerable and refused datagrams.
// Poison is unanswerable traffic: it is never judged itself, every ordinary
// query beside it is.
//
// Two dedicated scripts play mixed-eligibility bursts (mixed.go, shapes.go):
// cache hits that a worker answers, interleaved with strict-ineligible and
// wire-born questions whose resolution is slow, on one or two ingress workers
// — "a finished reply never waits for another query's resolution"
// (late-reply/staged-reply-held-behind-other-query, judged by counting
// correlated witnesses against the authorities' packet log and the control
// client's round trips in the same window).
package main

import (
	"encoding/json"
	"fmt"
	"os"
	"strconv"
	"strings"
	"sync"
	"time"

	"github.com/semihalev/sdns/zzverif/vlib"
)

const rule = "evaluations = admitted client queries (UDP + TCP, sockets kept open to the end of their script) whose reply count was judged; distinct_nontrivial = scripts (fault-mix × arrival-mix × server-knob combination) that ran to a verdict"

func main() {
	r := vlib.Start("C11", "fault_enumeration")
	if rc := r.ReplayCase(); rc != nil {
		replay(r, rc)
		r.Finish(rule)
	}
	if g := os.Getenv("C11_GROUP"); g != "" {
		child(r, g)
		r.Finish(rule)
	}
	parent(r)
	r.Finish(rule)
}

func rounds(r *vlib.Run) int { return r.N(1, 36) } // thorough: 36 × 17 scripts ≈ 20 min

func groups(r *vlib.Run) int { return r.N(4, 4) }

func parent(r *vlib.Run) {
	self, err := os.Executable()
	if err != nil {
		self = vlib.BinPath("c11", "race")
	}
	n := groups(r)
	timeout := time.Duration(r.N(160, 1700)) * time.Second
	var wg sync.WaitGroup
	var mu sync.Mutex
	var prefixes []string
	for g := 0; g < n; g++ {
		g := g
		wg.Add(1)
		go func() {
			defer wg.Done()
			name := fmt.Sprintf("group%d", g)
			pfx := r.RacePrefix(name)
			mu.Lock()
			prefixes = append(prefixes, pfx)
			mu.Unlock()
			env := []string{vlib.RaceEnv(pfx), fmt.Sprintf("C11_GROUP=%d/%d", g, n)}
			res := r.Child(name, nil, self, nil, env, timeout)
			switch {
			case res.TimedOut:
				r.Inconclusive(fmt.Sprintf("child %s hit the %v watchdog (log %s)", name, timeout, res.Output))
			case !res.HasState:
				r.Inconclusive(fmt.Sprintf("child %s ended without reporting (exit %d, log %s)", name, res.ExitCode, res.Output))
			default:
				r.Count("children_completed", 1)
			}
		}()
	}
	wg.Wait()
	for _, p := range prefixes {
		r.ScanRaceLogs(p)
	}

	// ---- every path the verdict rests on must have been observed
	// (nRun: every script that ran; nScripts: the general scripts — the
	// per-script minimums of the general counters do not count on the dedicated
	// poison scripts, which carry warm-up and background traffic only)
	list := scriptList(r.Seed, rounds(r))
	nRun := int64(len(list)) - r.Counter("scripts_skipped_no_ipv6")
	nScripts := nBaseScripts(list)
	r.Require("scripts_run", nRun)
	r.Require("queries_udp", 120*nScripts)
	r.Require("queries_tcp", 60*nScripts)
	r.Require("queries_judged", 180*nScripts)
	r.Require("replies_udp", 100*nScripts)
	r.Require("replies_tcp", 50*nScripts)
	r.Require("servfails", 20*nScripts)
	r.Require("rcode/NOERROR", 20*nScripts)
	r.Require("deadline_servfails", nScripts/2)    // SERVFAIL produced by the query timeout itself (at ≥ querytimeout-0.1 s, or labelled "Query timeout exceeded")
	r.Require("followers_observed", 4*nScripts)     // dedup leader/follower cohorts
	r.Require("closers_udp", 2*nScripts)
	r.Require("closers_tcp", 2*nScripts)
	r.Require("pattern/pipeline", 2*nScripts)
	r.Require("engine_udp_inline_served", nScripts) // cache hits answered on the reader
	r.Require("engine_udp_inline_handoff", 50*nScripts)
	r.Require("engine_udp_drop_full", 1)             // ingress shedding happened …
	r.Require("engine_tcp_drop_conncap", 1)
	r.Require("drops_accounted", 2)                  // … and was accounted
	r.Require("udp_shed_accounted", 20)              // unanswered UDP queries matched against the engine's drop counters
	r.Require("tcp_shed_connections_accounted", 20)  // refused TCP connections matched, per connection, against conncap/jobwait
	r.Require("tcp_queries_never_admitted", 20)
	r.Require("tc_then_tcp_fallbacks", 20)           // upstream TC=1 followed by the resolver's TCP retry
	r.Require("upstream/udp/drop", 50)
	r.Require("upstream/udp/delay-long", 20)
	r.Require("upstream/udp/malformed", 5)
	r.Require("upstream/udp/wrong-id", 5)
	r.Require("upstream/udp/wrong-question", 5)
	r.Require("upstream/udp/servfail", 3)
	r.Require("upstream/udp/refused", 3)
	r.Require("upstream/tcp/tcp-stall", 3)
	r.Require("upstream/tcp/tcp-reset", 2)
	r.Require("pattern/queue-expiry", 6*int64(rounds(r))) // the one-worker / one-slot ready-queue burst (legal uncounted shedding, see FINDINGS.md "Not findings")
	r.Require("pattern/control", 40*nScripts)        // the always-answerable control client ran beside every script
	r.Require("junk_counted_by_server", 4)
	r.Require("quiescence_reached", nRun)
	r.Require("goroutines_back_to_baseline", nRun)
	r.Require("isolation_followers_recovered", 1)
	r.Require("isolation_leader_expired", 4)         // the deterministic querytimeout path: slow referrals + black-holed leaf
	r.Require("isolation_followers_in_flight_at_leader_expiry", 8)
	requirePoison(r, int64(rounds(r)))
	requireMixed(r, int64(rounds(r)))
	requireCapacity(r, int64(rounds(r)))
	r.Note("config", map[string]any{"querytimeout_ms": queryTimeout.Milliseconds(), "upstream_timeout_ms": upstreamTimeout.Milliseconds(), "margin_ms": baseMargin.Milliseconds()})
}

// requirePoison: whenever forged datagrams can be sent here, the poison bursts
// must really have happened — poison written in between ordinary queries of
// tight bursts, replies to it attempted by the server and refused by the
// kernel, and the ordinary members of those bursts judged — or the run says
// nothing about "unanswerable traffic disturbs nobody". Without raw sockets
// the bursts degrade to ordinary unpaced bursts: an assumption, not a reason
// to be inconclusive.
func requirePoison(r *vlib.Run, rounds int64) {
	ri := injector()
	r.Note("poison_kinds_parent", ri.why)
	if !ri.rawAvailable(false) {
		r.Assume(fmt.Sprintf("raw sockets are not available here (%v): no forged-source (port 0 / unroutable) queries were injected; the poison scripts ran as ordinary unpaced bursts", ri.err4))
		return
	}
	if !ri.usable(poisonPort0, false) {
		r.Assume("this kernel does not refuse a UDP reply to source port 0 (" + ri.why[poisonPort0+"/4"] + "): no port-0 poison was injected")
		return
	}
	r.Require("poison_port0_queries_sent", 300*rounds)
	r.Require("poison_bursts", 50*rounds)
	r.Require("poison_bursts_mixed", 50*rounds)
	r.Require("poison_bursts_tight", 10*rounds)                    // written within 3 ms (wall clock: a low bar, the typical share is > 90 %)
	r.Require("reply_bursts_with_refused_datagram", 25*rounds)      // bursts during whose reply window the server's transmit-error counter rose
	r.Require("poison_replies_refused_counted_by_server", 150*rounds)
	r.Require("poison_burst_good_answered_once", 500*rounds)
	r.Require("poison_queries_inline_path", 100*rounds)
	r.Require("poison_queries_worker_path", 100*rounds)
	r.Require("poison_burst_shape/one-client", 10*rounds)
	r.Require("poison_burst_shape/many-clients", 10*rounds)
	if !ri.usable(poisonUnroutable, false) {
		r.Assume("unroutable-source poison is not usable here (" + ri.why[poisonUnroutable+"/4"] + "): only port-0 poison was injected over IPv4")
	} else {
		r.Require("poison_unroutable_queries_sent", 30*rounds)
	}
	if !v6LoopbackUsable() || !ri.usable(poisonPort0, true) {
		r.Assume("port-0 poison over IPv6 is not usable here (" + ri.why[poisonPort0+"/6"] + "): the IPv6 listener saw ordinary bursts only")
	}
}

// child runs scripts i ≡ g (mod n) of the list, sequentially.
func child(r *vlib.Run, spec string) {
	parts := strings.SplitN(spec, "/", 2)
	g, _ := strconv.Atoi(parts[0])
	n := 1
	if len(parts) == 2 {
		n, _ = strconv.Atoi(parts[1])
	}
	if n < 1 {
		n = 1
	}
	jm := startJitter()
	defer jm.close()
	list := scriptList(r.Seed, rounds(r))
	only := os.Getenv("C11_ONLY")
	for i, sp := range list {
		if i%n != g {
			continue
		}
		if only != "" && !strings.Contains(sp.Name, only) {
			continue
		}
		runOne(r, sp, jm)
		r.Progress("script %d/%d (%s) done", i+1, len(list), sp.Name)
	}
	r.Max("jitter_process_max_ms", jm.all().Milliseconds())
}

func runOne(r *vlib.Run, sp scriptSpec, jm *jitterMon) {
	defer func() {
		if p := recover(); p != nil {
			r.Violation("panic/harness-or-sdns", fmt.Sprintf("script %s: panic escaped: %v", sp.Name, p), replayCase{Script: sp, Detail: fmt.Sprint(p)})
		}
	}()
	runScript(r, sp, jm)
}

// replay re-runs the one script a violation was found in.
func replay(r *vlib.Run, raw json.RawMessage) {
	var rc replayCase
	if err := json.Unmarshal(raw, &rc); err != nil || rc.Script.Name == "" {
		r.Inconclusive("replay: case does not hold a script")
		return
	}
	r.Seed = rc.Script.Seed
	jm := startJitter()
	defer jm.close()
	runOne(r, rc.Script, jm)
}
