package main

// Control probe: the "in time" verdict must not be decided by how busy the
// machine is. Besides the in-process timer-lateness monitor (sys.go) every
// script runs a control client that asks, at a fixed pace over its own UDP
// socket, for a name that is ALWAYS answerable without any upstream work (it is
// resolved through fault-free servers and cached before the load starts, so
// the server answers it on its reader goroutine from the cache). The largest
// round trip the control saw while the script ran is what this box, right now,
// adds to a reply that needed no waiting at all — it widens the latency margin
// (twice: it can hit the request and the reply independently) and, above
// stallLimit, turns timing verdicts into "inconclusive".
//
// Control queries are admitted queries like any other: they are counted and
// judged by the exactly-one oracle (pattern "control"), and one that was shed
// at ingress is part of the UDP shed account.

import (
	"fmt"
	"sync"
	"sync/atomic"
	"time"

	"github.com/miekg/dns"
)

const (
	controlLabel    = "ctl-"
	controlInterval = 50 * time.Millisecond
)

// isControlName reports whether a (lower-case) name is a control name; the
// fault scripts leave those alone.
func isControlName(qnameLower string) bool {
	return len(qnameLower) > len(controlLabel) && qnameLower[:len(controlLabel)] == controlLabel
}

type control struct {
	s    *scriptRun
	name string
	sock *udpSock

	mu   sync.Mutex
	qs   []*qrec
	stop chan struct{}
	done chan struct{}
	last atomic.Int64 // unix nanos of the last send
}

func newControl(s *scriptRun) (*control, error) {
	sock, err := s.cl.oneShotUDP()
	if err != nil {
		return nil, err
	}
	return &control{s: s, sock: sock, name: fmt.Sprintf("%s%d.z0.test.", controlLabel, s.sp.Index),
		stop: make(chan struct{}), done: make(chan struct{})}, nil
}

func (c *control) mk(idx int) *qrec {
	q := &qrec{Idx: 200000 + idx, Wave: -2, Pattern: "control", Tr: "udp", Name: c.name, Qtype: dns.TypeA}
	q.pkt = buildQuery(q.Name, q.Qtype, 0, false, true)
	return q
}

// prime resolves the control name once (retrying) so that every later control
// query is a cache hit. Returns false when no positive answer arrived.
func (c *control) prime() bool {
	for try := 0; try < 4; try++ {
		q := c.mk(-1 - try)
		c.sock.register(q)
		c.sock.send(q)
		lim := time.Now().Add(queryTimeout + baseMargin)
		for time.Now().Before(lim) {
			if _, _, reps, _ := q.snapshot(); len(reps) > 0 {
				if reps[0].rcode == dns.RcodeSuccess {
					return true
				}
				break
			}
			time.Sleep(2 * time.Millisecond)
		}
	}
	return false
}

func (c *control) start() {
	go func() {
		defer close(c.done)
		t := time.NewTicker(controlInterval)
		defer t.Stop()
		for i := 0; ; i++ {
			q := c.mk(i)
			c.sock.register(q)
			c.sock.send(q)
			c.last.Store(time.Now().UnixNano())
			c.mu.Lock()
			c.qs = append(c.qs, q)
			c.mu.Unlock()
			select {
			case <-c.stop:
				return
			case <-t.C:
			}
		}
	}()
}

func (c *control) halt() {
	select {
	case <-c.stop:
	default:
		close(c.stop)
	}
	<-c.done
}

func (c *control) lastSend() time.Time { return time.Unix(0, c.last.Load()) }

func (c *control) queries() []*qrec {
	c.mu.Lock()
	defer c.mu.Unlock()
	return append([]*qrec(nil), c.qs...)
}

// maxRTT is the largest round trip of an answered control query so far.
func (c *control) maxRTT() time.Duration {
	var m time.Duration
	for _, q := range c.queries() {
		sent, _, reps, _ := q.snapshot()
		if len(reps) > 0 && !sent.IsZero() {
			if d := reps[0].at.Sub(sent); d > m {
				m = d
			}
		}
	}
	return m
}
