package main

// Mixed-eligibility bursts: "a finished reply never waits for another query".
//
// The UDP engine stages a finished reply in its job slab and a worker sends its
// staged set only when it would block for more work (or 16 are staged). What
// keeps that honest is that every entry into SLOW work first sends what the
// transport has staged: detachStrictContext for wire-born requests (every
// replayed wire-born request materializes, hit or miss), the decoded fallbacks
// of Server.ServeRaw / ServeRawReplay for everything the strict parser
// declines. If one of those entries forgets, a reply that was finished in
// microseconds leaves only when the NEXT query of that worker has been
// resolved: an admitted query is answered late — by the other query's whole
// resolution, again and again while the ready queue stays non-empty — although
// its own work was done at once ("no later than the query timeout plus a small
// scheduling margin … regardless of how many identical or related queries are
// in flight").
//
// Workload (dedicated scripts mixed-elig-1w / mixed-elig-2w: IngressWorkers 1
// and 2, IngressQueue 12 and 10, four honest single-server zones, nothing else
// in flight but the control client). After a warm-up that caches the hit names
// and probes every wire shape one at a time, six bursts, one every 1.9 s. A
// burst is groups of three or four HITS followed by one SLOW question:
//
//	hits   questions cached during the warm-up, in shapes a WORKER answers: the
//	       strict-ineligible shapes of shapes.go (decoded fallback) or the
//	       ECS-carrying plain query (wire-born, declined inline); one in eight
//	       is a plain shape answered inline on the reader, as a contrast
//	slow   questions nobody asked before whose resolution takes 0.3 … 1.3 s
//	       although every upstream exchange succeeds: a chain of 1 … 3
//	       cross-zone CNAMEs, each hop answered by its (single, healthy)
//	       authority after 0.30 … 0.42 s (below the 0.5 s upstream timeout); in
//	       strict-ineligible shapes (ServeRawReplay's decoded fallback) or
//	       wire-born (plain, AD, ECS: detachStrictContext)
//
// The questions a worker serves in one burst are all strict-ineligible, all
// wire-born, or a mix (in turn), in two arrival shapes (in turn):
//
//	one-client    every member from ONE client socket, written back-to-back: one
//	              server socket, one reader, so the ready queue holds the
//	              members in send order (a hard guarantee)
//	many-clients  one member per client socket, 35 ms apart, opened by as many
//	              slow "primers" as there are workers: the pool is busy while
//	              the rest arrive, so they queue in send order behind it
//
// Beside every burst two TCP pipelines: ONE write of two or three hits (any
// shape) followed by one slow question (strict-ineligible and wire-born in
// turn) on a connection of its own. A connection serves its frames in order
// and stages the replies of a burst it has already read; the slow lane
// (Server.ServeRaw's decoded fallback / detachStrictContext) must send them
// before it blocks. A pipelined hit answered only together with the completion
// of the slow question behind it is a class (A) witness (the order is the
// byte order of one stream; nothing else shares the connection, so no
// queueing can explain it).
//
// The planner keeps the slow work ahead of every member but the last slow one
// ≤ 1.15 s and every planned end ≤ 1.7 s (as if ONE worker served the whole
// burst in order), so nobody can spend its 2 s budget in the ready queue.
//
// Oracle, by counting, per script run. Ground truth for "the query's own work
// was finished" is the packet log of the scripted authorities (arrival + the
// scripted delay of the last hop = when the resolver got the final answer):
//
//	(A) hit held behind a later query. A hit H is a witness when
//	    - it was served from the cache (no upstream packet for its name after
//	      the warm-up) and has exactly one reply, later than 250 ms AND later
//	      than 10 × the control client's worst round trip while H was pending
//	      (control: own socket, cached name, every 50 ms; at least 2 control
//	      round trips in that window, all answered, all < 10 ms; and this
//	      process' 5 ms timer was never 10 ms late in that window), and
//	    - the reply arrived together with (within 20 ms after) the completion of
//	      a slow query S that was read AFTER it — same client socket and written
//	      later, or its write began ≥ 25 ms after H's write returned — and
//	    - no slow query that may have been read BEFORE H completed in the 100 ms
//	      before H's reply (that is ordinary queueing: H waited in the ready
//	      queue for a worker and was answered the moment one came back; the
//	      unchanged server does that all the time — counter
//	      mixed_hits_answered_when_earlier_query_completed).
//	(B) finished reply held. A slow query S is a witness when its own reply
//	    arrived more than 250 ms (and 10 × control) after its OWN resolution
//	    ended, together with the completion of another slow query.
//
// Five witnesses of one class in one script run are the violation
// late-reply/staged-reply-held-behind-other-query; fewer, or late replies
// without that correlation, are counted and left unjudged. Nothing here is a
// deadline on the machine: a loaded box makes the control slow and the
// witnesses disappear, never appear.

import (
	"fmt"
	"math/rand/v2"
	"sort"
	"strings"
	"time"

	"github.com/miekg/dns"

	"github.com/semihalev/sdns/middleware"
	"github.com/semihalev/sdns/zzverif/authsim"
	"github.com/semihalev/sdns/zzverif/vlib"
)

const (
	mixedK          = 5                      // witnesses of one class in one script run
	mixedLate       = 250 * time.Millisecond // a hit answered later than this is "late"
	mixedCtlFast    = 10 * time.Millisecond  // the control's round-trip class
	mixedTogether   = 20 * time.Millisecond  // "arrives together with the completion of"
	mixedLegalSpan  = 100 * time.Millisecond // an earlier query completed this shortly before the reply: queueing
	mixedOrderGap   = 25 * time.Millisecond  // written this much later = read later (different sockets)
	mixedTrainGapMs = 35
	mixedPeriodMs   = 1900 // one burst every 1.9 s: bursts never overlap (every chain ends within 1.7 s)
	mixedChainMax   = 1150 * time.Millisecond // slow work ahead of any queued member
	mixedEndMax     = 1700 * time.Millisecond // planned end of every member of the pool, from the burst start
	mixedLabel      = "mx-delay"
)

type mixedMember struct {
	q     *qrec
	seq   int // position in the burst (send order)
	offMs int // send offset from the burst start
	sock  int
}

type mixedBurst struct {
	ID      int    `json:"id"`
	AtMs    int    `json:"at_ms"`
	Shape   string `json:"shape"` // one-client | many-clients
	Slow    string `json:"slow_questions"` // strict-ineligible | wire-born | mixed
	Members int    `json:"members"`
	seq     []*mixedMember
}

// mixedPipe is one TCP pipeline: hits, then one slow question, in one write.
type mixedPipe struct {
	Group          int  `json:"group"`
	AtMs           int  `json:"at_ms"`
	SlowIneligible bool `json:"slow_strict_ineligible"`
	qs             []*qrec
}

type mixedPlan struct {
	bursts []*mixedBurst
	pipes  []*mixedPipe
	// hop → scripted delay (lower-case names)
	delay map[string]time.Duration
	// strict-eligibility of every shape as the real parser sees it
	eligible map[string]bool
}

// slowChain invents the names of one slow question: hop 0 is what the client
// asks; hop i is a CNAME to hop i+1 in the next zone; the last hop is answered
// by the zone's wildcard.
func slowChain(idx, n, hops, zone0, nZones int) []string {
	out := make([]string, hops)
	for h := 0; h < hops; h++ {
		suffix := ""
		if h > 0 {
			suffix = fmt.Sprintf("h%d", h)
		}
		out[h] = fmt.Sprintf("ms%d-%d%s.z%d.test.", idx, n, suffix, (zone0+h)%nZones)
	}
	return out
}

// planMixed adds the warm-up, the shape probes and sp.MixedBursts bursts to the
// plan, publishes the CNAME chains and scripts the per-hop delays.
func planMixed(rng, trng *rand.Rand, sp *scriptSpec, pl *plan, e *env) *mixedPlan {
	mp := &mixedPlan{delay: map[string]time.Duration{}, eligible: map[string]bool{}}
	nZones := len(e.t.zones)
	for _, sh := range wireShapes {
		var req middleware.Request
		mp.eligible[sh.Name] = req.ParseWire(buildShape(sh.Name, "probe.z0.test.", dns.TypeA), time.Now(), nil)
	}
	add := func(q *qrec, atMs int) *planned {
		q.Idx = len(pl.items)
		p := &planned{q: q, atMs: atMs}
		pl.items = append(pl.items, p)
		return p
	}
	// ---- warm-up: the hit names, asked plainly while nothing else is going on
	nHits := 2 * nZones
	hitNames := make([]string, nHits)
	for k := range hitNames {
		hitNames[k] = fmt.Sprintf("mh%d-%d.z%d.test.", sp.Index, k, k%nZones)
		q := &qrec{Wave: -4, Pattern: "mixed-warmup", Tr: "udp", Name: hitNames[k], Qtype: dns.TypeA, Shape: "plain"}
		q.pkt = buildShape("plain", q.Name, q.Qtype)
		add(q, 5*k)
	}
	// ---- shape probes: every shape once for a cached name and (strict-
	// ineligible shapes) once for a fresh, promptly answered name, one at a
	// time: the unchanged server must answer each like the plain question
	at := 350
	for i, sh := range wireShapes {
		q := &qrec{Wave: -4, Pattern: "mixed-shape-probe", Tr: "udp", Name: hitNames[i%nHits], Qtype: dns.TypeA, Shape: sh.Name, Mixed: "probe-hit"}
		q.pkt = buildShape(sh.Name, q.Name, q.Qtype)
		add(q, at)
		at += 12
		if !sh.Eligible {
			q := &qrec{Wave: -4, Pattern: "mixed-shape-probe", Tr: "udp", Name: fmt.Sprintf("mp%d-%d.z%d.test.", sp.Index, i, i%nZones), Qtype: dns.TypeA, Shape: sh.Name, Mixed: "probe-miss"}
			q.pkt = buildShape(sh.Name, q.Name, q.Qtype)
			add(q, at)
			at += 12
		}
	}
	from := sp.MixedFrom
	if from < at+200 {
		from = at + 200
	}
	wireBorn := []string{"plain", "plain-ad", "ecs"}
	inel := ineligibleShapes()
	nSlow := 0
	// newSlow invents one slow question of at most `limit` upstream time:
	// publishes its CNAME chain and scripts the delay of every hop.
	newSlow := func(rng *rand.Rand, ineligible bool, limit time.Duration) *qrec {
		nSlow++
		shape := wireBorn[rng.IntN(len(wireBorn))]
		if ineligible {
			shape = inel[rng.IntN(len(inel))]
		}
		hops := 1 + rng.IntN(3)
		var ds []time.Duration
		total := time.Duration(0)
		for h := 0; h < hops; h++ {
			d := time.Duration(300+rng.IntN(121)) * time.Millisecond
			if h > 0 && total+d > limit {
				break
			}
			if h == 0 && d > limit {
				d = 300 * time.Millisecond
			}
			ds = append(ds, d)
			total += d
		}
		chain := slowChain(sp.Index, nSlow, len(ds), rng.IntN(nZones), nZones)
		for h, name := range chain {
			mp.delay[strings.ToLower(name)] = ds[h]
			zi := e.t.zones[zoneIndex(name)%nZones]
			if h+1 < len(chain) {
				zi.zone.AddCNAME(name, chain[h+1], 300)
			}
			for _, srv := range zi.servers {
				srv.AddRule(authsim.Rule{Name: name, Action: authsim.Action{Label: mixedLabel, Delay: ds[h]}})
			}
		}
		return &qrec{Name: chain[0], Shape: shape, Chain: chain, PlanMs: int(total.Milliseconds())}
	}
	for b := 0; b < sp.MixedBursts; b++ {
		mb := &mixedBurst{ID: b + 1, AtMs: from + b*mixedPeriodMs, Shape: "one-client"}
		if b%2 == 1 {
			mb.Shape = "many-clients"
		}
		// Both entries into slow work are exercised on their own and next to each
		// other: the questions a WORKER serves in one burst (slow ones and hits)
		// are all strict-ineligible (decoded fallback), all wire-born
		// (detachStrictContext; the hits carry ECS), or a mix.
		mb.Slow = [...]string{"strict-ineligible", "wire-born", "mixed"}[b%3]
		ineligible := func() bool {
			coin := rng.IntN(2)
			return mb.Slow == "strict-ineligible" || (mb.Slow == "mixed" && coin == 0)
		}
		sockBase := rng.IntN(64)
		member := func(q *qrec) *mixedMember {
			i := len(mb.seq)
			m := &mixedMember{q: q, seq: i, sock: sockBase}
			if mb.Shape == "many-clients" {
				m.offMs = i * mixedTrainGapMs
				m.sock = sockBase + i
			}
			q.Wave, q.Pattern, q.Tr, q.Qtype, q.MixedBurst = -4, "mixed-burst", "udp", dns.TypeA, mb.ID
			q.pkt = buildShape(q.Shape, q.Name, q.Qtype)
			p := add(q, mb.AtMs+m.offMs)
			p.mixed, p.noPace = mb.ID, true
			mb.seq = append(mb.seq, m)
			return m
		}
		addHit := func() {
			shape, role := "ecs", "hit-worker"
			if ineligible() {
				shape = inel[rng.IntN(len(inel))]
			}
			if rng.IntN(8) == 0 {
				shape, role = [...]string{"plain", "plain-ad"}[rng.IntN(2)], "hit-inline"
			}
			member(&qrec{Name: hitNames[rng.IntN(nHits)], Shape: shape, Mixed: role})
		}
		// addSlow plans one slow question of at most `limit` upstream time.
		addSlow := func(limit time.Duration) time.Duration {
			q := newSlow(rng, ineligible(), limit)
			q.Mixed = "slow"
			member(q)
			return time.Duration(q.PlanMs) * time.Millisecond
		}
		// `ahead` is the slow work planned so far: were the whole burst served by
		// ONE worker in order (the worst case: overflow goroutines and a second
		// worker only shorten it), a member would wait that long in the ready
		// queue. It stays ≤ mixedChainMax ahead of every member but the last slow
		// one, and every member ends ≤ mixedEndMax — nobody can spend its 2 s
		// budget waiting.
		ahead := time.Duration(0)
		off := func() time.Duration { // send offset of the next member
			if mb.Shape != "many-clients" {
				return 0
			}
			return time.Duration(len(mb.seq)*mixedTrainGapMs) * time.Millisecond
		}
		if mb.Shape == "many-clients" {
			for w := 0; w < sp.Tweaks.IngressWorkers; w++ {
				// primers: the pool is busy while the rest arrive; they run in
				// parallel, so only the longest counts
				if d := addSlow(mixedChainMax / 2); w == 0 || d > ahead {
					ahead = d
				}
			}
		} else if rng.IntN(3) == 0 {
			ahead += addSlow(mixedChainMax / 2)
		}
		for len(mb.seq) < 26 {
			// three or four hits, then a slow question, and again
			for n := 3 + rng.IntN(2); n > 0; n-- {
				addHit()
			}
			if room := mixedChainMax - ahead; room >= 600*time.Millisecond {
				// room for this one and for another behind it: one or two hops
				ahead += addSlow(min(room-300*time.Millisecond, time.Duration(420*(1+rng.IntN(2)))*time.Millisecond))
				continue
			}
			// the last slow one: nothing is queued behind it, it may take what is
			// left of the burst
			if limit := mixedEndMax - off() - ahead; limit >= 300*time.Millisecond {
				addSlow(limit)
			}
			break
		}
		mb.Members = len(mb.seq)
		mp.bursts = append(mp.bursts, mb)
	}
	// ---- TCP pipelines: two per burst period, each ONE write of two or three
	// hits (any shape) followed by one slow question on a connection of its own.
	// A connection serves its frames in order and stages the replies of a
	// burst it has already read; the slow lane (Server.ServeRaw's decoded
	// fallback / detachStrictContext) must send them before it blocks.
	group := 0
	for _, p := range pl.items {
		if p.group > group {
			group = p.group
		}
	}
	hitShapes := append([]string{"plain", "plain-ad", "ecs"}, inel...)
	for b, mb := range mp.bursts {
		for k := 0; k < 2; k++ {
			group++
			pipe := &mixedPipe{Group: group, AtMs: mb.AtMs + 600 + 600*k, SlowIneligible: (2*b+k)%2 == 0}
			nh := 2 + trng.IntN(2)
			for i := 0; i <= nh; i++ {
				var q *qrec
				if i < nh {
					q = &qrec{Name: hitNames[trng.IntN(nHits)], Shape: hitShapes[trng.IntN(len(hitShapes))], Mixed: "hit-tcp"}
				} else {
					q = newSlow(trng, pipe.SlowIneligible, 1200*time.Millisecond)
					q.Mixed = "slow-tcp"
				}
				q.Wave, q.Pattern, q.Tr, q.Qtype, q.MixedBurst, q.Pipe = -4, "mixed-pipeline", "tcp", dns.TypeA, mb.ID, i+1
				q.pkt = buildShape(q.Shape, q.Name, q.Qtype)
				add(q, pipe.AtMs).group = group
				pipe.qs = append(pipe.qs, q)
			}
			mp.pipes = append(mp.pipes, pipe)
		}
	}
	return mp
}

// zoneIndex parses the k of "….z<k>.test.".
func zoneIndex(name string) int {
	labels := dns.SplitDomainName(name)
	if len(labels) < 2 {
		return 0
	}
	k := 0
	_, _ = fmt.Sscanf(labels[len(labels)-2], "z%d", &k)
	return k
}

// sendMixedBurst writes one burst. one-client: back-to-back from the calling
// goroutine; many-clients: from a goroutine of its own, one member every
// mixedTrainGapMs.
func (s *scriptRun) sendMixedBurst(mb *mixedBurst, mark func()) {
	for _, m := range mb.seq {
		s.cl.fixedUDP(m.sock).register(m.q)
	}
	if mb.Shape == "one-client" {
		for _, m := range mb.seq {
			s.cl.fixedUDP(m.sock).send(m.q)
		}
		mark()
		return
	}
	s.burstWG.Add(1)
	go func() {
		defer s.burstWG.Done()
		t0 := time.Now()
		for _, m := range mb.seq {
			if d := time.Until(t0.Add(time.Duration(m.offMs) * time.Millisecond)); d > 0 {
				time.Sleep(d)
			}
			s.cl.fixedUDP(m.sock).send(m.q)
			mark()
		}
	}()
}

// ---------------------------------------------------------------- judge

type mixedWitness struct {
	Class      string  `json:"class"` // hit-held | finished-reply-held
	Burst      int     `json:"burst"`
	BurstShape string  `json:"burst_shape"`
	Name       string  `json:"name"`
	Shape      string  `json:"query_shape"`
	Client     string  `json:"client"`
	LatencyMs  float64 `json:"reply_after_ms"`          // send → reply
	HeldMs     float64 `json:"held_after_own_work_ms"` // own work finished → reply
	Behind     string  `json:"behind"`
	BehindWhy  string  `json:"behind_read_later_because"`
	BehindShape string `json:"behind_shape"`
	BehindClient string `json:"behind_client"`
	BehindTookMs float64 `json:"behind_resolution_ms"`
	ControlMs  float64 `json:"control_rtt_max_ms_meanwhile"`
	ControlN   int     `json:"control_round_trips_meanwhile"`
	QueryHex   string  `json:"query_hex"`
}

// slowFacts is what the authorities' packet log says about one slow question.
type slowFacts struct {
	m        *mixedMember
	mb       *mixedBurst
	sent     time.Time
	reply    time.Time // zero: none (or several)
	end      time.Time // the resolver received the last hop's answer (zero: not observed)
	ends     []time.Time
	resolved bool // NOERROR with an address
}

func (s *scriptRun) judgeMixed(ctlQs []*qrec) {
	r, mp := s.r, s.mx
	if mp == nil {
		return
	}
	for name, el := range mp.eligible {
		want := shapeByName(name).Eligible
		if el != want {
			r.Inconclusive(fmt.Sprintf("script %s: shape %s: the strict parser's verdict (%v) is not what the harness assumes (%v)", s.sp.Name, name, el, want))
			return
		}
	}
	born := s.e.t.born
	upLog := s.e.t.u.Log.All()
	// last upstream activity per name
	type upInfo struct {
		n        int
		lastEnd  time.Time
		lastSeen time.Time
	}
	up := map[string]*upInfo{}
	for i := range upLog {
		p := &upLog[i]
		u := up[p.QNameL]
		if u == nil {
			u = &upInfo{}
			up[p.QNameL] = u
		}
		u.n++
		at := born.Add(p.At)
		if at.After(u.lastSeen) {
			u.lastSeen = at
		}
		if d, ok := mp.delay[p.QNameL]; ok && strings.HasPrefix(p.Outcome, "answered") {
			if e := at.Add(d); e.After(u.lastEnd) {
				u.lastEnd = e
			}
		}
	}
	// control round trips, by send time
	type ctlRT struct {
		sent time.Time
		rtt  time.Duration
		ok   bool
	}
	var ctl []ctlRT
	for _, q := range ctlQs {
		sent, _, reps, _ := q.snapshot()
		if sent.IsZero() {
			continue
		}
		c := ctlRT{sent: sent}
		if len(reps) > 0 {
			c.ok, c.rtt = true, reps[0].at.Sub(sent)
		}
		ctl = append(ctl, c)
	}
	sort.Slice(ctl, func(i, j int) bool { return ctl[i].sent.Before(ctl[j].sent) })
	// controlDuring: worst control round trip among those sent in [from-75ms, to]
	controlDuring := func(from, to time.Time) (worst time.Duration, n int, allAnswered bool) {
		allAnswered = true
		for _, c := range ctl {
			if c.sent.Before(from.Add(-75*time.Millisecond)) || c.sent.After(to) {
				continue
			}
			n++
			if !c.ok {
				allAnswered = false
				continue
			}
			if c.rtt > worst {
				worst = c.rtt
			}
		}
		return
	}

	// ---- shape probes and warm-up
	for _, p := range s.pl.items {
		q := p.q
		if q.Pattern != "mixed-shape-probe" {
			continue
		}
		_, _, reps, _ := q.snapshot()
		if len(reps) == 1 && answersWithAddress(reps[0].raw) {
			r.Count("mixed_shape_answered/"+q.Shape, 1)
			r.Count("mixed_shape_probes_answered", 1)
		} else {
			r.Count("mixed_shape_probe_not_answered/"+q.Shape, 1)
		}
	}

	// ---- facts
	var slows []*slowFacts
	for _, mb := range mp.bursts {
		for _, m := range mb.seq {
			if m.q.Mixed != "slow" {
				continue
			}
			sent, sendErr, reps, _ := m.q.snapshot()
			if sent.IsZero() || sendErr != "" {
				continue
			}
			f := &slowFacts{m: m, mb: mb, sent: sent}
			if len(reps) == 1 {
				f.reply = reps[0].at
				f.resolved = answersWithAddress(reps[0].raw)
			}
			last := strings.ToLower(m.q.Chain[len(m.q.Chain)-1])
			if u := up[last]; u != nil && !u.lastEnd.IsZero() {
				f.end = u.lastEnd
			}
			// completions an observer may attribute a freed worker to: the
			// final answer, and the request's own deadline
			if !f.end.IsZero() {
				f.ends = append(f.ends, f.end)
			}
			f.ends = append(f.ends, sent.Add(queryTimeout))
			slows = append(slows, f)
			r.Count("mixed_slow_queries", 1)
			if s.mx.eligible[m.q.Shape] {
				r.Count("mixed_slow_strict_eligible", 1)
			} else {
				r.Count("mixed_slow_strict_ineligible", 1)
			}
			if f.resolved {
				r.Count("mixed_slow_resolved", 1)
				r.Count("mixed_slow_resolved_shape/"+m.q.Shape, 1)
				r.Count(fmt.Sprintf("mixed_slow_resolved_hops/%d", len(m.q.Chain)), 1)
				r.Max("mixed_slow_resolution_max_ms", f.reply.Sub(sent).Milliseconds())
			}
			if !f.end.IsZero() {
				r.Count("mixed_slow_final_answer_seen_upstream", 1)
			}
		}
	}
	// readLater: the server read `later` after m — both came from one client
	// socket (one server socket, one reader: the kernel keeps their order), or
	// the write of `later` BEGAN at least mixedOrderGap after m's write RETURNED.
	readLater := func(later *mixedMember, lmb *mixedBurst, m *mixedMember, mb *mixedBurst) string {
		if lmb == mb && later.sock == m.sock && later.seq > m.seq {
			return "same client socket, written later"
		}
		laterFrom, _ := later.q.written()
		_, done := m.q.written()
		if gap := laterFrom.Sub(done); gap >= mixedOrderGap {
			return fmt.Sprintf("written %.0f ms later", ms(gap))
		}
		return ""
	}

	var hitWitness, slowWitness []mixedWitness
	if debugOn() {
		for _, mb := range mp.bursts {
			var sb strings.Builder
			for _, m := range mb.seq {
				sent, _, reps, _ := m.q.snapshot()
				lat := -1.0
				if len(reps) > 0 {
					lat = ms(reps[0].at.Sub(sent))
				}
				role := "H"
				if m.q.Mixed == "slow" {
					role = fmt.Sprintf("S%d", m.q.PlanMs)
				} else if m.q.Mixed == "hit-inline" {
					role = "h"
				}
				fmt.Fprintf(&sb, " %s[%s]+%d→%.0f", role, m.q.Shape, m.offMs, lat)
			}
			logf("mixed %s burst %d (%s, %s):%s", s.sp.Name, mb.ID, mb.Shape, mb.Slow, sb.String())
		}
	}
	for _, mb := range mp.bursts {
		sentAny := false
		nHit, nSlow := 0, 0
		for _, m := range mb.seq {
			q := m.q
			sent, sendErr, reps, _ := q.snapshot()
			if sent.IsZero() || sendErr != "" {
				continue
			}
			sentAny = true
			if q.Mixed == "slow" {
				nSlow++
				continue
			}
			nHit++
			r.Count("mixed_hits", 1)
			r.Count("mixed_hits/"+q.Mixed, 1)
			r.Count("mixed_hit_shape/"+q.Shape, 1)
			if len(reps) != 1 {
				continue // zero / two replies: the general oracle's business
			}
			if u := up[strings.ToLower(q.Name)]; u != nil && u.lastSeen.After(s.t0.Add(300*time.Millisecond)) {
				r.Count("mixed_hits_not_served_from_cache", 1) // asked upstream again after the warm-up
				continue
			}
			r.Eval(1)
			r.Count("mixed_hits_judged", 1)
			at := reps[0].at
			lat := at.Sub(sent)
			r.Max("mixed_hit_latency_max_ms", lat.Milliseconds())
			if lat <= mixedLate {
				if lat <= 20*time.Millisecond {
					r.Count("mixed_hits_answered_within_20ms", 1)
				} else {
					r.Count("mixed_hits_answered_within_250ms", 1)
				}
				continue
			}
			r.Count("mixed_hits_late", 1)
			// who completed when the reply left?
			var legal, behind *slowFacts
			behindWhy := ""
			for _, f := range slows {
				why := readLater(f.m, f.mb, m, mb)
				for _, e := range f.ends {
					d := at.Sub(e) // reply this long after the completion
					if why == "" {
						if d >= -10*time.Millisecond && d <= mixedLegalSpan && f.sent.Before(at) {
							legal = f
						}
					} else if d >= -5*time.Millisecond && d <= mixedTogether && behind == nil {
						behind, behindWhy = f, why
					}
				}
			}
			switch {
			case legal != nil:
				r.Count("mixed_hits_answered_when_earlier_query_completed", 1) // waited in the ready queue: legal
				continue
			case behind == nil:
				r.Count("mixed_hits_late_uncorrelated", 1)
				continue
			}
			worst, n, allAns := controlDuring(sent, at)
			if n < 2 || !allAns || worst >= mixedCtlFast || lat <= 10*worst {
				r.Count("mixed_hits_late_control_not_fast", 1)
				continue
			}
			if jl, jn := s.jm.maxBetween(sent.Add(-75*time.Millisecond), at); jn < 10 || jl >= mixedCtlFast {
				r.Count("mixed_hits_late_timers_not_punctual", 1)
				continue
			}
			hitWitness = append(hitWitness, mixedWitness{Class: "hit-held", Burst: mb.ID, BurstShape: mb.Shape, Name: q.Name, Shape: q.Shape, Client: fmt.Sprintf("%s#%d", q.Src, m.sock),
				LatencyMs: ms(lat), HeldMs: ms(lat), Behind: behind.m.q.Name, BehindWhy: behindWhy, BehindShape: behind.m.q.Shape, BehindClient: fmt.Sprintf("%s#%d", behind.m.q.Src, behind.m.sock),
				BehindTookMs: float64(behind.m.q.PlanMs), ControlMs: ms(worst), ControlN: n, QueryHex: fmt.Sprintf("%x", q.pkt)})
		}
		if sentAny {
			r.Count("mixed_bursts", 1)
			r.Count("mixed_burst_shape/"+mb.Shape, 1)
			r.Count("mixed_burst_slow_questions/"+mb.Slow, 1)
			if nHit > 0 && nSlow > 0 {
				r.Count("mixed_bursts_interleaved", 1)
			}
		}
	}
	// (A, TCP) a hit's reply staged on a connection and sent only when the slow
	// question pipelined BEHIND it on that connection had been resolved. The
	// order is the byte order of one stream; nothing else shares a connection,
	// so there is no queueing that could explain it.
	for _, pipe := range mp.pipes {
		slow := pipe.qs[len(pipe.qs)-1]
		sSent, sErr, sReps, sCut := slow.snapshot()
		if sSent.IsZero() || sErr != "" || sCut {
			continue
		}
		r.Count("mixed_tcp_pipelines", 1)
		var ends []time.Time
		if u := up[strings.ToLower(slow.Chain[len(slow.Chain)-1])]; u != nil && !u.lastEnd.IsZero() {
			ends = append(ends, u.lastEnd)
			r.Count("mixed_tcp_slow_final_answer_seen_upstream", 1)
		}
		ends = append(ends, sSent.Add(queryTimeout))
		if len(sReps) == 1 && answersWithAddress(sReps[0].raw) {
			r.Count("mixed_tcp_slow_resolved", 1)
			if pipe.SlowIneligible {
				r.Count("mixed_tcp_slow_resolved_strict_ineligible", 1)
			} else {
				r.Count("mixed_tcp_slow_resolved_wire_born", 1)
			}
		}
		for _, q := range pipe.qs[:len(pipe.qs)-1] {
			sent, sendErr, reps, cut := q.snapshot()
			if sent.IsZero() || sendErr != "" || cut || len(reps) != 1 {
				continue
			}
			if u := up[strings.ToLower(q.Name)]; u != nil && u.lastSeen.After(s.t0.Add(300*time.Millisecond)) {
				r.Count("mixed_hits_not_served_from_cache", 1)
				continue
			}
			r.Eval(1)
			r.Count("mixed_tcp_hits_judged", 1)
			r.Count("mixed_tcp_hit_shape/"+q.Shape, 1)
			at := reps[0].at
			lat := at.Sub(sent)
			r.Max("mixed_tcp_hit_latency_max_ms", lat.Milliseconds())
			if lat <= mixedLate {
				r.Count("mixed_tcp_hits_answered_within_250ms", 1)
				continue
			}
			r.Count("mixed_tcp_hits_late", 1)
			together := false
			for _, e := range ends {
				if d := at.Sub(e); d >= -5*time.Millisecond && d <= mixedTogether {
					together = true
				}
			}
			if !together {
				r.Count("mixed_tcp_hits_late_uncorrelated", 1)
				continue
			}
			worst, n, allAns := controlDuring(sent, at)
			if n < 2 || !allAns || worst >= mixedCtlFast || lat <= 10*worst {
				r.Count("mixed_hits_late_control_not_fast", 1)
				continue
			}
			if jl, jn := s.jm.maxBetween(sent.Add(-75*time.Millisecond), at); jn < 10 || jl >= mixedCtlFast {
				r.Count("mixed_hits_late_timers_not_punctual", 1)
				continue
			}
			r.Count("mixed_tcp_hits_held_behind_later_query", 1)
			hitWitness = append(hitWitness, mixedWitness{Class: "hit-held", Burst: q.MixedBurst, BurstShape: "tcp-pipeline", Name: q.Name, Shape: q.Shape, Client: fmt.Sprintf("%s/tcp#%d", q.Src, pipe.Group),
				LatencyMs: ms(lat), HeldMs: ms(lat), Behind: slow.Name, BehindWhy: "same TCP connection, pipelined behind it", BehindShape: slow.Shape, BehindClient: fmt.Sprintf("%s/tcp#%d", slow.Src, pipe.Group),
				BehindTookMs: float64(slow.PlanMs), ControlMs: ms(worst), ControlN: n, QueryHex: fmt.Sprintf("%x", q.pkt)})
		}
	}

	// (B) a finished reply that left only with another query's completion
	for _, f := range slows {
		if f.reply.IsZero() || f.end.IsZero() || !f.resolved {
			continue
		}
		r.Eval(1)
		r.Count("mixed_slow_judged", 1)
		held := f.reply.Sub(f.end)
		r.Max("mixed_slow_reply_after_final_answer_max_ms", held.Milliseconds())
		if held <= mixedLate {
			r.Count("mixed_slow_reply_prompt_after_final_answer", 1)
			continue
		}
		r.Count("mixed_slow_reply_late_after_final_answer", 1)
		var behind *slowFacts
		for _, g := range slows {
			if g == f {
				continue
			}
			for _, e := range g.ends {
				if d := f.reply.Sub(e); d >= -5*time.Millisecond && d <= mixedTogether && behind == nil && e.Sub(f.end) > mixedLate/2 {
					behind = g
				}
			}
		}
		if behind == nil {
			r.Count("mixed_slow_late_uncorrelated", 1)
			continue
		}
		worst, n, allAns := controlDuring(f.end, f.reply)
		if n < 2 || !allAns || worst >= mixedCtlFast || held <= 10*worst {
			r.Count("mixed_slow_late_control_not_fast", 1)
			continue
		}
		if jl, jn := s.jm.maxBetween(f.end.Add(-75*time.Millisecond), f.reply); jn < 10 || jl >= mixedCtlFast {
			r.Count("mixed_slow_late_timers_not_punctual", 1)
			continue
		}
		q := f.m.q
		slowWitness = append(slowWitness, mixedWitness{Class: "finished-reply-held", Burst: f.mb.ID, BurstShape: f.mb.Shape, Name: q.Name, Shape: q.Shape, Client: fmt.Sprintf("%s#%d", q.Src, f.m.sock),
			LatencyMs: ms(f.reply.Sub(f.sent)), HeldMs: ms(held), Behind: behind.m.q.Name, BehindShape: behind.m.q.Shape, BehindClient: fmt.Sprintf("%s#%d", behind.m.q.Src, behind.m.sock),
			BehindWhy: "another query's resolution", BehindTookMs: float64(behind.m.q.PlanMs), ControlMs: ms(worst), ControlN: n, QueryHex: fmt.Sprintf("%x", q.pkt)})
	}
	logf("mixed %s: witnesses hit-held=%d finished-reply-held=%d", s.sp.Name, len(hitWitness), len(slowWitness))
	r.Count("mixed_hits_held_behind_later_query", len(hitWitness))
	r.Count("mixed_finished_replies_held_behind_other_query", len(slowWitness))
	if len(hitWitness) < mixedK && len(slowWitness) < mixedK {
		if n := len(hitWitness) + len(slowWitness); n > 0 {
			r.Count("mixed_witnesses_below_threshold_unjudged", n)
		}
		return
	}
	w := hitWitness
	what := fmt.Sprintf("%d cache-hit queries were answered only when a DIFFERENT query that the server read AFTER them had been resolved", len(hitWitness))
	if len(hitWitness) < mixedK {
		w = slowWitness
		what = fmt.Sprintf("%d replies whose own resolution had ended were sent only when another query's resolution ended", len(slowWitness))
	}
	first := w[0]
	s.violation("late-reply/staged-reply-held-behind-other-query",
		fmt.Sprintf("%s: e.g. %s (%s, client %s) was answered after %.0f ms — %.0f ms after its own work was done — together with the completion of %s (%s, client %s, %s; %.0f ms of upstream work), while the control client's round trips stayed below %.1f ms (%d of them meanwhile); also %d replies of finished resolutions held that way. A finished reply waited in the server for another query's resolution",
			what, first.Name, first.Shape, first.Client, first.LatencyMs, first.HeldMs, first.Behind, first.BehindShape, first.BehindClient, first.BehindWhy, first.BehindTookMs, first.ControlMs, first.ControlN, len(slowWitness)),
		nil, nil, map[string]any{"hit_witnesses": headW(hitWitness, 8), "finished_reply_witnesses": headW(slowWitness, 8), "bursts": mp.bursts})
}

func headW(l []mixedWitness, n int) []mixedWitness {
	if len(l) > n {
		return l[:n]
	}
	return l
}

// answersWithAddress: NOERROR carrying at least one A record.
func answersWithAddress(raw []byte) bool {
	m := new(dns.Msg)
	if m.Unpack(raw) != nil || m.Rcode != dns.RcodeSuccess {
		return false
	}
	for _, rr := range m.Answer {
		if _, ok := rr.(*dns.A); ok {
			return true
		}
	}
	return false
}

// requireMixed: the paths the head-of-line verdict rests on (none of them
// depends on how fast the machine is).
func requireMixed(r *vlib.Run, rounds int64) {
	r.Require("mixed_bursts", 12*rounds)
	r.Require("mixed_bursts_interleaved", 12*rounds)
	r.Require("mixed_burst_shape/one-client", 6*rounds)
	r.Require("mixed_burst_shape/many-clients", 6*rounds)
	r.Require("mixed_burst_slow_questions/strict-ineligible", 4*rounds)
	r.Require("mixed_burst_slow_questions/wire-born", 4*rounds)
	r.Require("mixed_burst_slow_questions/mixed", 4*rounds)
	r.Require("mixed_hits_judged", 60*rounds)
	r.Require("mixed_hits/hit-worker", 60*rounds)
	r.Require("mixed_hit_shape/ecs", 10*rounds)
	r.Require("mixed_slow_resolved", 25*rounds)
	r.Require("mixed_slow_strict_ineligible", 10*rounds)
	r.Require("mixed_slow_strict_eligible", 10*rounds)
	r.Require("mixed_slow_final_answer_seen_upstream", 25*rounds)
	r.Require("mixed_slow_judged", 25*rounds)
	// hits that waited in the ready queue behind a slow question and were
	// answered the moment the worker came back: hits and slow questions
	// really shared workers
	r.Require("mixed_hits_answered_when_earlier_query_completed", 8*rounds)
	for _, sh := range wireShapes {
		r.Require("mixed_shape_answered/"+sh.Name, 2*rounds)
	}
	r.Require("mixed_tcp_pipelines", 20*rounds)
	r.Require("mixed_tcp_hits_judged", 40*rounds)
	r.Require("mixed_tcp_slow_resolved_strict_ineligible", 8*rounds)
	r.Require("mixed_tcp_slow_resolved_wire_born", 8*rounds)
	r.Require("mixed_tcp_slow_final_answer_seen_upstream", 18*rounds)
}
