package main

// One script, start to verdict: build the environment, install the fault
// scripts, take baselines, play the arrival plan over real sockets, keep
// counting until every deadline has passed, check quiescence / goroutines /
// limiter slots, then judge every query by counting.

import (
	"fmt"
	"math/rand/v2"
	"net"
	"runtime"
	"sort"
	"strings"
	"sync"
	"sync/atomic"
	"time"

	"github.com/miekg/dns"

	"github.com/semihalev/sdns/zzverif/authsim"
	"github.com/semihalev/sdns/zzverif/replycontract"
	"github.com/semihalev/sdns/zzverif/vlib"
)

const (
	stallLimit      = queryTimeout // observed scheduling lateness above this makes timing/missing verdicts inconclusive
	quiesceWant     = 5 * time.Second
	quiescePersist  = 20 * time.Second // still not quiescent after this = stuck, not slow
	goroutineWant   = 10 * time.Second
	goroutineSlack  = 4
	goroutineLeakAt = 8 // persistent excess of at least this many sdns goroutines = leak
	timeoutEDEText  = "Query timeout exceeded"
)

// replayCase is what a violation carries: enough to re-run the script.
type replayCase struct {
	Script  scriptSpec `json:"script"`
	Query   *qrec      `json:"query,omitempty"`
	Replies []string   `json:"replies_hex,omitempty"`
	Detail  any        `json:"detail,omitempty"`
}

type scriptRun struct {
	r   *vlib.Run
	sp  scriptSpec
	jm  *jitterMon
	e   *env
	cl  *clients
	pl  *plan
	t0  time.Time
	iso []*isoProbe
	cp  *capProbe // capacity probe (capacity.go), nil unless the script asks for one
	ctl *control
	inj *rawInjector // forged-source sender (nil: the script plans no poison)
	mx  *mixedPlan   // mixed-eligibility bursts (nil: the script plans none)

	// poison bursts (dispatch side)
	burstWG       sync.WaitGroup
	burstsRefused atomic.Int64 // bursts during whose reply window the server's tx_error counter rose
	burstsTight   atomic.Int64 // bursts written within burstTight, poison included
	burstSpanMax  atomic.Int64 // µs

	inconclusive bool
	nViol        int
}

// lateness is what the machine demonstrably added to work that needed no
// waiting: the larger of this process' timer lateness and the control
// client's worst round trip for an always-cached name (control.go).
func (s *scriptRun) lateness() time.Duration {
	l := s.jm.max()
	if s.ctl != nil {
		if c := s.ctl.maxRTT(); c > l {
			l = c
		}
	}
	return l
}

func (s *scriptRun) margin() time.Duration {
	// the property's deadline + a generous fixed margin + the measured
	// lateness (twice: it can hit the server's timer / request path and the
	// client's receive path independently)
	return queryTimeout + baseMargin + 2*s.lateness()
}

func runScript(r *vlib.Run, sp scriptSpec, jm *jitterMon) {
	s := &scriptRun{r: r, sp: sp, jm: jm}
	tw := sp.Tweaks
	nIso := sp.Iso
	if sp.QueueExpiry > 0 {
		nIso++ // a black-holed zone of its own for the queue-expiry burst (never opened)
	}
	if sp.Capacity > 0 {
		nIso++ // the capacity probe's pin zone (last)
	}
	if tw.ListenV6 && !v6LoopbackUsable() {
		r.Assume("the IPv6 loopback ::1 cannot be bound here: script " + baseName(sp.Name) + " (IPv6 listener) is skipped")
		r.Count("scripts_skipped_no_ipv6", 1)
		return
	}
	e, err := newEnv(tw, nIso)
	if err != nil {
		r.Inconclusive(fmt.Sprintf("script %s: environment: %v", sp.Name, err))
		return
	}
	s.e = e
	defer e.close()

	// ---- clients; the control name is resolved and cached while the universe
	// is still honest
	nSocks := 16
	if tw.ListenV6 {
		// lo carries ::1 only: every client (and the one possible port-0 poison
		// source) differs in its port alone, so a larger pool is what spreads
		// the clients over the server's reuseport sockets
		nSocks = 32
	}
	cl, err := newClients(e.st.Addrs().UDP, nSocks)
	if err != nil {
		r.Inconclusive(fmt.Sprintf("script %s: client sockets: %v", sp.Name, err))
		return
	}
	s.cl = cl
	defer cl.closeAll()
	ctl, err := newControl(s)
	if err != nil {
		r.Inconclusive(fmt.Sprintf("script %s: control socket: %v", sp.Name, err))
		return
	}
	if !ctl.prime() {
		r.Inconclusive(fmt.Sprintf("script %s: the control name %s did not resolve in the fault-free universe", sp.Name, ctl.name))
		return
	}
	s.ctl = ctl

	// ---- fault scripts
	isIso := func(name string) bool { return strings.HasSuffix(name, ".iso.test.") || name == "iso.test." }
	for _, zi := range e.t.zones {
		for i, srv := range zi.servers {
			if sp.FirstOK && i == 0 {
				continue
			}
			installFaults(srv, &sp, sp.Zone, zi.apex, isControlName)
		}
	}
	for _, ip := range e.t.iso {
		ip.install()
	}
	installFaults(e.t.tld, &sp, sp.TLD, "test.", func(n string) bool { return isIso(n) || isControlName(n) })

	// ---- settle: the priming query has been answered, nothing is in flight
	settleDeadline := time.Now().Add(5 * time.Second)
	for time.Now().Before(settleDeadline) {
		if e.t.u.Log.Count(0, "root", ".", dns.TypeNS) > 0 && e.h.VerifC11Slots().Total() == 0 {
			break
		}
		time.Sleep(10 * time.Millisecond)
	}
	time.Sleep(50 * time.Millisecond)
	baseAll := runtime.NumGoroutine()
	baseSdns := sdnsGoroutines()
	ctr0 := e.st.Counters()
	k0 := readUDPSNMP()
	jm.reset()

	// ---- plan
	s.pl = buildPlan(r.RandN("plan", sp.Index), r.RandN("poison", sp.Index), &sp, len(e.t.zones), tw.ListenV6)
	if len(s.pl.bursts) > 0 {
		s.inj = injector()
	}
	if sp.MixedBursts > 0 {
		s.mx = planMixed(r.RandN("mixed", sp.Index), r.RandN("mixed-tcp", sp.Index), &sp, s.pl, e)
	}
	for i, ip := range e.t.iso {
		if i < sp.Iso {
			s.iso = append(s.iso, newIsoProbe(s, i, ip))
		}
	}

	if sp.Capacity > 0 {
		s.cp = newCapProbe(s, e.t.iso[len(e.t.iso)-1], sp.Capacity)
	}

	s.t0 = time.Now()
	ctl.start()
	var isoWG sync.WaitGroup
	if s.cp != nil {
		isoWG.Add(1)
		go func() {
			defer isoWG.Done()
			time.Sleep(500 * time.Millisecond)
			s.cp.run()
		}()
	}
	for i, p := range s.iso {
		isoWG.Add(1)
		go func(i int, p *isoProbe) {
			defer isoWG.Done()
			time.Sleep(time.Duration(300+i*700) * time.Millisecond)
			p.run()
		}(i, p)
	}
	lastSend := s.dispatch()
	isoWG.Wait()
	for _, p := range s.iso {
		if t := p.lastSend(); t.After(lastSend) {
			lastSend = t
		}
	}
	if s.cp != nil {
		if t := s.cp.lastSend(); t.After(lastSend) {
			lastSend = t
		}
	}
	// the control keeps running while replies are still expected (that is when
	// the deadline timers fire) and stops once the last planned query is
	// answered or overdue; its own last queries are then waited for as well

	// ---- keep counting until every query is answered or its deadline (plus
	// margin) has passed, and at least queryTimeout+0.5s after the last send
	// (a duplicate produced at a deadline shows up by then)
	all := s.allQueries()
	waitFor := func(qs []*qrec, settle time.Duration, since func() time.Time) {
		for {
			pending := 0
			now := time.Now()
			m := s.margin()
			for _, q := range qs {
				if q.Closer || q.unjudged() {
					continue
				}
				sent, sendErr, reps, closed := q.snapshot()
				if sendErr != "" || closed || len(reps) > 0 || sent.IsZero() {
					continue
				}
				lim := m
				if q.Pipe > 1 {
					lim += time.Duration(q.Pipe-1) * queryTimeout
				}
				if now.Sub(sent) < lim {
					pending++
				}
			}
			if pending == 0 && now.Sub(since()) > settle {
				return
			}
			time.Sleep(20 * time.Millisecond)
		}
	}
	waitFor(all, queryTimeout+500*time.Millisecond, func() time.Time { return lastSend })
	ctl.halt()
	ctlQs := ctl.queries()
	waitFor(ctlQs, 200*time.Millisecond, ctl.lastSend)
	all = append(all, ctlQs...)
	loadWall := time.Since(s.t0)

	// ---- quiescence: every listener slab home, every limiter slot free
	qStart := time.Now()
	quiesced, quiescedIn := false, time.Duration(0)
	for {
		if e.st.Server.Quiesced() && e.h.VerifC11Slots().Total() == 0 {
			// stable on three consecutive polls
			ok := true
			for i := 0; i < 2 && ok; i++ {
				time.Sleep(2 * time.Millisecond)
				ok = e.st.Server.Quiesced() && e.h.VerifC11Slots().Total() == 0
			}
			if ok {
				quiesced, quiescedIn = true, time.Since(qStart)
				break
			}
		}
		if time.Since(qStart) > quiescePersist {
			break
		}
		time.Sleep(10 * time.Millisecond)
	}
	slots := e.h.VerifC11Slots()
	srvQuiesced := e.st.Server.Quiesced()
	ctr1 := e.st.Counters()
	k1 := readUDPSNMP()

	// ---- the end of the run for the sockets: nothing more is counted
	udpStray, tcpStray := cl.strays()
	conns := cl.tcpStats()
	cl.closeAll()

	// ---- goroutines back to the pre-load baseline
	gStart := time.Now()
	afterSdns := sdnsGoroutines()
	for afterSdns > baseSdns+goroutineSlack && time.Since(gStart) < goroutineWant {
		time.Sleep(50 * time.Millisecond)
		afterSdns = sdnsGoroutines()
	}
	goroutinesIn := time.Since(gStart)
	if afterSdns > baseSdns+goroutineSlack {
		// slow or stuck? give it until the persist bound
		for afterSdns > baseSdns+goroutineSlack && time.Since(gStart) < quiescePersist {
			time.Sleep(200 * time.Millisecond)
			afterSdns = sdnsGoroutines()
		}
	}
	afterAll := runtime.NumGoroutine()
	jit := jm.max()
	ctlRTT := ctl.maxRTT()
	late := s.lateness()

	// ================================================================ judge
	r.Count("scripts_run", 1)
	r.Count("script/"+baseName(sp.Name), 1)
	r.Max("jitter_max_ms", jit.Milliseconds())
	r.Max("control_rtt_max_ms", ctlRTT.Milliseconds())
	r.Max("load_phase_max_ms", loadWall.Milliseconds())
	stalled := late > stallLimit
	if stalled {
		r.Count("scripts_stalled", 1)
	}
	delta := func(k string) int64 { return ctr1[k] - ctr0[k] }
	for k := range ctr1 {
		if d := delta(k); d != 0 {
			r.Count("engine_"+k, int(d))
		}
	}

	var (
		udpUnanswered   int64
		udpShedPossible int64 // closers / junk datagrams that may have been shed unobserved
		judged          int
		margin          = s.margin()
	)
	servfailLate := 0
	waves := map[int]*waveStat{}
	ws := func(q *qrec) *waveStat {
		w := waves[q.Wave]
		if w == nil {
			w = &waveStat{Wave: q.Wave, Pattern: q.Pattern, Rcodes: map[string]int{}}
			waves[q.Wave] = w
		}
		return w
	}
	var poisonSent int64
	for _, q := range all {
		sent, sendErr, reps, closed := q.snapshot()
		tr := q.Tr
		if q.Poison != "" {
			// unanswerable by construction: nothing to observe at a socket
			switch {
			case sent.IsZero():
				r.Count("poison_not_sent_kind_unavailable", 1)
			case sendErr != "":
				r.Count("poison_send_failed", 1)
			default:
				poisonSent++
				udpShedPossible++
				r.Count("poison_"+q.Poison+"_queries_sent", 1)
				if q.ECS {
					r.Count("poison_queries_worker_path", 1)
				} else {
					r.Count("poison_queries_inline_path", 1)
				}
			}
			continue
		}
		if q.Junk != "" {
			r.Count("junk_sent", 1)
			udpShedPossible++
			if len(reps) > 0 {
				r.Count("junk_answered", len(reps)) // informational: not this property's clause
			}
			continue
		}
		if sent.IsZero() {
			r.Count("queries_not_sent", 1)
			continue
		}
		r.Count("queries_"+tr, 1)
		r.Count("pattern/"+q.Pattern, 1)
		w := ws(q)
		w.Queries++
		if tr == "udp" {
			w.UDP++
		} else {
			w.TCP++
		}
		if q.Closer {
			r.Count("closers_"+tr, 1)
			w.Closers++
			if len(reps) > 0 {
				r.Count("closers_answered_before_close", 1)
			} else if tr == "udp" {
				udpShedPossible++
			}
			if len(reps) > 1 {
				s.violation("duplicate-reply/"+tr, fmt.Sprintf("%d replies to one %s query (client that later closed)", len(reps), tr), q, reps, nil)
			}
			continue
		}
		if sendErr != "" {
			// the write itself failed: the query never reached the server
			// (TCP: the server had already reset the connection — that
			// connection is accounted below, once, as a cut connection)
			r.Count(tr+"_send_failed", 1)
			w.NeverAdmitted++
			continue
		}
		judged++
		r.Eval(1)
		for _, rp := range reps {
			r.Count("replies_"+tr, 1)
			for _, b := range replycontract.Check(tr, q.pkt, rp.raw, replycontract.Options{ClientIP: q.Src}) {
				if !b.Info {
					r.Count("contract_breaches", 1)
					r.Count("contract_breach/"+b.Rule, 1)
				}
			}
		}
		switch {
		case len(reps) >= 2:
			w.Duplicates++
			r.Count("duplicates_observed/"+baseName(sp.Name), 1)
			s.violation("duplicate-reply/"+tr, fmt.Sprintf("%d replies to one admitted %s query for %s %s (second %.0f ms after the first)",
				len(reps), tr, q.Name, dns.TypeToString[q.Qtype], float64(reps[1].at.Sub(reps[0].at).Microseconds())/1000), q, reps, nil)
		case len(reps) == 1:
			rp := reps[0]
			lat := rp.at.Sub(sent)
			r.Max("latency_max_ms_"+tr, lat.Milliseconds())
			r.Count("rcode/"+rcodeName(rp.rcode), 1)
			w.Rcodes[rcodeName(rp.rcode)]++
			if m := ms(lat); m > w.LatencyMaxMs {
				w.LatencyMaxMs = m
			}
			if rp.rcode == dns.RcodeServerFailure {
				r.Count("servfails", 1)
				if lat >= queryTimeout-100*time.Millisecond || rp.timeoutEDE {
					// produced by the request's own deadline: at (or after)
					// querytimeout, or labelled so by the server
					servfailLate++
					w.DeadlineServfails++
				}
				if rp.timeoutEDE {
					r.Count("servfails_with_timeout_ede", 1)
				}
			}
			lim := margin
			if q.Pipe > 1 {
				// frames on one connection are served serially: the k-th
				// frame's clock starts when the server reads its prefix
				lim += time.Duration(q.Pipe-1) * queryTimeout
			}
			if lat > lim {
				if stalled {
					r.Count("late_replies_on_stalled_machine", 1)
					s.inconclusive = true
				} else {
					s.violation("late-reply/"+tr, fmt.Sprintf("reply to %s %s over %s after %.0f ms > querytimeout %.0f ms + margin %.0f ms (measured lateness: timers %.0f ms, control round trip %.0f ms)",
						q.Name, dns.TypeToString[q.Qtype], tr, ms(lat), ms(queryTimeout), ms(lim-queryTimeout), ms(jit), ms(ctlRTT)), q, reps, nil)
				}
			}
		default:
			switch {
			case tr == "udp":
				udpUnanswered++
				w.UDPUnanswered++
			case closed:
				// the server closed the connection with this query
				// unanswered: judged per CONNECTION below
				r.Count("tcp_queries_on_cut_connections", 1)
				w.NeverAdmitted++
			case stalled:
				r.Count("missing_replies_on_stalled_machine", 1)
				s.inconclusive = true
			default:
				w.Lost++
				s.violation("no-reply/tcp", fmt.Sprintf("admitted TCP query for %s %s got no reply within %.0f ms and the connection stayed open",
					q.Name, dns.TypeToString[q.Qtype], ms(margin)), q, reps, nil)
			}
		}
	}
	r.Count("queries_judged", judged)
	r.Count("deadline_servfails", servfailLate)

	// ---- poison bursts (evidence; every ordinary member was judged above like
	// any other admitted query)
	for _, bp := range s.pl.bursts {
		goodSent, goodOnce, goodNone, goodDup, poisonIn, poisonBetween := 0, 0, 0, 0, 0, 0
		seenGood := false
		for _, p := range bp.seq {
			sent, sendErr, reps, _ := p.q.snapshot()
			if sent.IsZero() || sendErr != "" {
				continue
			}
			if p.q.Poison != "" {
				poisonIn++
				if seenGood {
					poisonBetween++ // written after an ordinary query of the same burst
				}
				continue
			}
			seenGood = true
			goodSent++
			switch len(reps) {
			case 0:
				goodNone++
			case 1:
				goodOnce++
			default:
				goodDup++
			}
		}
		if goodSent == 0 {
			continue
		}
		if poisonIn == 0 {
			r.Count("poison_bursts_without_poison", 1) // raw sockets / this kind unavailable: an ordinary unpaced burst
			continue
		}
		r.Count("poison_bursts", 1)
		r.Count("poison_burst_shape/"+bp.Shape, 1)
		r.Count("poison_burst_flavour/"+bp.Flavour, 1)
		r.Count("poison_burst_good_queries", goodSent)
		r.Count("poison_burst_good_answered_once", goodOnce)
		r.Count("poison_burst_good_unanswered", goodNone) // in the UDP shed account above
		if poisonBetween > 0 && goodSent >= 2 {
			r.Count("poison_bursts_mixed", 1) // ≥ 2 ordinary queries and a poison datagram written after the first of them
		}
		if goodOnce == goodSent {
			r.Count("poison_bursts_every_client_answered_once", 1)
		}
	}
	if len(s.pl.bursts) > 0 {
		r.Count("reply_bursts_with_refused_datagram", int(s.burstsRefused.Load()))
		r.Count("poison_bursts_tight", int(s.burstsTight.Load()))
		r.Max("poison_burst_span_max_us", s.burstSpanMax.Load())
		if s.inj != nil {
			r.Note("poison_kinds", s.inj.why)
		}
	}

	// ---- mixed-eligibility bursts: a finished reply never waits for another
	// query's resolution (mixed.go)
	s.judgeMixed(ctlQs)

	// ---- zero replies must be accounted for exactly
	//
	// UDP. Every datagram the engine reads and does not serve increments one of
	// its drop counters; a datagram lost before the engine read it (or a reply
	// lost after it was sent) increments a kernel counter. An unanswered
	// judged query beyond those is an admitted query whose reply was lost.
	// (Closers and junk may be shed too without the harness being able to see
	// it, which can only make the budget LARGER than the judged loss — the
	// shed scripts therefore carry neither.)
	if p := delta("udp_drop_panic") + delta("tcp_drop_panic"); p > 0 {
		s.violation("ingress-panic-recovered", fmt.Sprintf("the engines recovered %d panic(s) outside the chain: each is a request that ended without a reply", p),
			nil, nil, map[string]any{"server_counters_delta": deltas(ctr0, ctr1)})
	}
	// A refused reply to a poison source is counted by the server as a
	// transmit error (one per datagram, when it was staged in a burst). Those
	// are not lost replies of anybody we wait for: they leave the budget.
	poisonRefused := min(delta("udp_drop_tx_error"), poisonSent)
	if poisonSent > 0 {
		r.Count("poison_replies_refused_counted_by_server", int(poisonRefused))
		if x := delta("udp_drop_tx_error") - poisonRefused; x > 0 {
			r.Count("udp_tx_errors_beyond_poison", int(x))
		}
	}
	udpServerDrops := delta("udp_drop_full") + delta("udp_drop_error") + delta("udp_drop_trunc") + delta("udp_drop_ctrunc") + delta("udp_drop_tx_error") - poisonRefused
	kernelLoss := int64(0)
	if k0.ok && k1.ok {
		kernelLoss = k1.lossSince(k0)
	}
	r.Count("udp_unanswered", int(udpUnanswered))
	r.Count("udp_drops_server_counted", int(udpServerDrops))
	r.Count("udp_loss_kernel_counted", int(kernelLoss))

	// A third legal kind of UDP shedding has no counter: a datagram that found a
	// slot in the ingress ready queue while every worker was busy, and waited
	// there for its WHOLE query budget, is discarded at dequeue (the
	// expired-on-entry return of Server.ServeRawReplay / serveWire) — shed at
	// ingress under overload, which the statement exempts. It is recognised
	// narrowly and only to explain a surplus the counters leave:
	//   (a) never dispatched: its name is asked by no other query of the script
	//       (no cache / dedup effect possible) and never reached any upstream
	//       server — no lookup for it was ever started;
	//   (b) the ingress was saturated for the whole query timeout from its
	//       arrival: the script runs a tiny bounded pool (IngressWorkers and
	//       IngressQueue ≤ 4), the engine's own counter shows the ready queue
	//       overflowed (udp_overflow_served), and at least IngressWorkers
	//       queries that arrived within 10 ms of it were answered by the query
	//       timeout itself (SERVFAIL at ≥ querytimeout − 0.1 s) — every worker
	//       was pinned until then;
	//   (c) at most IngressQueue such queries per 10 ms arrival cluster (only a
	//       queue-slot holder can wait; the rest get overflow goroutines).
	// Anything else unanswered beyond the counters is a lost reply.
	surplus := udpUnanswered - (udpServerDrops + kernelLoss)
	var expiredInQueue int64
	var expiredWitness, never, dispatched []string
	if surplus > 0 {
		seenUp := map[string]bool{}
		for _, p := range e.t.u.Log.All() {
			seenUp[p.QNameL] = true
		}
		nameUses := map[string]int{}
		type arrival struct {
			at       time.Time
			deadline bool // answered by the query timeout itself
		}
		var arrivals []arrival
		for _, q := range all {
			if q.unjudged() {
				continue
			}
			nameUses[strings.ToLower(q.Name)]++
			if q.Tr != "udp" || q.Closer {
				continue
			}
			sent, _, reps, _ := q.snapshot()
			if sent.IsZero() {
				continue
			}
			dl := len(reps) == 1 && reps[0].rcode == dns.RcodeServerFailure && reps[0].at.Sub(sent) >= queryTimeout-100*time.Millisecond
			arrivals = append(arrivals, arrival{sent, dl})
		}
		tinyPool := tw.IngressWorkers >= 1 && tw.IngressWorkers <= 4 && tw.IngressQueue >= 1 && tw.IngressQueue <= 4
		saturated := tinyPool && delta("udp_overflow_served") > 0
		const cluster = 10 * time.Millisecond
		var classifiedAt []time.Time
		for _, q := range all {
			if q.Tr != "udp" || q.Closer || q.unjudged() {
				continue
			}
			sent, sendErr, reps, _ := q.snapshot()
			if sent.IsZero() || sendErr != "" || len(reps) > 0 {
				continue
			}
			name := strings.ToLower(q.Name)
			d := fmt.Sprintf("%s %s (%s, sent at +%.0f ms)", q.Name, dns.TypeToString[q.Qtype], q.Pattern, ms(sent.Sub(s.t0)))
			if seenUp[name] {
				dispatched = append(dispatched, d)
				continue
			}
			never = append(never, d)
			if !saturated || nameUses[name] != 1 || expiredInQueue >= surplus {
				continue
			}
			mates, inCluster := 0, 0
			for _, a := range arrivals {
				if a.deadline && a.at.Sub(sent).Abs() <= cluster {
					mates++
				}
			}
			for _, t := range classifiedAt {
				if t.Sub(sent).Abs() <= cluster {
					inCluster++
				}
			}
			if mates >= tw.IngressWorkers && inCluster < tw.IngressQueue {
				expiredInQueue++
				classifiedAt = append(classifiedAt, sent)
				expiredWitness = append(expiredWitness, fmt.Sprintf("%s — %d arrival-mates answered at the query timeout", d, mates))
			}
		}
	}
	if expiredInQueue > 0 {
		r.Count("udp_expired_in_ingress_queue", int(expiredInQueue))
		r.Note("udp_expired_in_ingress_queue/"+sp.Name, head(expiredWitness, 4))
	}
	if udpUnanswered > 0 {
		switch {
		case surplus-expiredInQueue <= 0:
			r.Count("drops_accounted", int(udpUnanswered))
			r.Count("udp_shed_accounted", int(udpUnanswered-expiredInQueue))
			if udpServerDrops > 0 && kernelLoss == 0 && expiredInQueue == 0 && udpUnanswered+udpShedPossible >= udpServerDrops {
				// both directions: every counted drop is a query we saw go
				// unanswered (or a closer/junk datagram nobody waited for)
				r.Count("udp_shed_scripts_exact", 1)
			}
		case stalled:
			s.inconclusive = true
			r.Count("missing_replies_on_stalled_machine", int(udpUnanswered))
		default:
			s.violation("no-reply/udp-unaccounted", fmt.Sprintf("%d admitted UDP queries got no reply (%d of them were being resolved upstream, %d recognised as expired in a saturated ingress queue) but the server counted only %d shed/dropped datagrams and the kernel %d lost ones",
				udpUnanswered, len(dispatched), expiredInQueue, udpServerDrops, kernelLoss), nil, nil,
				map[string]any{"server_counters_delta": deltas(ctr0, ctr1), "kernel_before": k0, "kernel_after": k1,
					"unanswered_never_seen_upstream": head(never, 16), "unanswered_seen_upstream": head(dispatched, 16), "expired_in_ingress_queue": head(expiredWitness, 16)})
		}
	}

	// TCP. The server sheds TCP work per CONNECTION, never per query: a
	// connection accepted beyond the cap is closed unread (tcp_drop_conncap,
	// one increment, however many frames the client had pipelined into it), and
	// a frame that cannot get a job slab inside its own budget ends its
	// connection (tcp_drop_jobwait, one increment). A query is admitted only
	// when the server took it off the socket and dispatched it; queries written
	// into a connection that was refused were never admitted. So the unit of
	// account is the connection the server cut (closed while queries on it were
	// unanswered, or reset before the write completed):
	//
	//   cut connections                         ≤ conncap + jobwait
	//   cut connections that had already served ≤ jobwait
	//
	// (a connection that has answered a query was admitted; the cap cannot
	// explain its loss). Anything beyond is an admitted query whose reply was
	// lost with its connection.
	var cutFresh, cutServed, cutQueries, closerConnsUnobserved int64
	var cutWitness []tcpConnStat
	for _, c := range conns {
		cut := (c.ServerClosed && c.CutQueries > 0) || c.WriteFailed
		if !cut {
			if c.Closer && !c.ServerClosed {
				closerConnsUnobserved++
			}
			continue
		}
		cutQueries += int64(c.Queries - c.Replies)
		if c.Replies > 0 {
			cutServed++
		} else {
			cutFresh++
		}
		if len(cutWitness) < 16 {
			cutWitness = append(cutWitness, c)
		}
	}
	conncap, jobwait := delta("tcp_drop_conncap"), delta("tcp_drop_jobwait")
	r.Count("tcp_connections", len(conns))
	r.Count("tcp_connections_cut_unserved", int(cutFresh))
	r.Count("tcp_connections_cut_after_serving", int(cutServed))
	if cutFresh+cutServed > 0 {
		detail := map[string]any{"server_counters_delta": deltas(ctr0, ctr1), "cut_connections": cutWitness,
			"connections": len(conns), "queries_on_cut_connections": cutQueries}
		switch {
		case cutServed > jobwait && !stalled:
			s.violation("no-reply/tcp-admitted-connection-cut", fmt.Sprintf("%d TCP connection(s) that had already been served were closed by the server with queries unanswered, but it counted only %d job-wait drops (the connection cap cannot refuse an admitted connection)",
				cutServed, jobwait), nil, nil, detail)
		case cutFresh+cutServed > conncap+jobwait && !stalled:
			s.violation("no-reply/tcp-closed-unaccounted", fmt.Sprintf("the server closed %d TCP connections with %d queries on them unanswered but counted only %d refused connections + %d job-wait drops: the surplus connections were admitted and lost",
				cutFresh+cutServed, cutQueries, conncap, jobwait), nil, nil, detail)
		case cutServed > jobwait || cutFresh+cutServed > conncap+jobwait:
			s.inconclusive = true
		default:
			r.Count("drops_accounted", int(cutFresh+cutServed))
			r.Count("tcp_shed_connections_accounted", int(cutFresh+cutServed))
			r.Count("tcp_queries_never_admitted", int(cutQueries))
			if conncap+jobwait <= cutFresh+cutServed+closerConnsUnobserved {
				r.Count("tcp_shed_scripts_exact", 1)
			}
		}
	}
	if j := r.Counter("junk_sent"); j > 0 {
		r.Count("junk_counted_by_server", int(delta("udp_drop_ignored")+delta("udp_drop_malformed")))
	}
	if udpStray+tcpStray > 0 {
		r.Count("stray_replies", udpStray+tcpStray)
		s.violation("stray-reply", fmt.Sprintf("%d datagrams / %d frames arrived at client sockets answering no query of that socket", udpStray, tcpStray), nil, nil, nil)
	}

	// ---- followers (evidence): members of an identical burst beyond the
	// upstream lookups the zone servers saw for that name
	for _, members := range s.pl.sameBursts {
		if len(members) < 2 {
			continue
		}
		q0 := s.pl.items[members[0]].q
		up := 0
		for _, p := range e.t.u.Log.All() {
			if p.QNameL == strings.ToLower(q0.Name) && p.QType == q0.Qtype && strings.HasPrefix(p.Server, "s") && p.Transport == "udp" && p.Hit == 1 {
				up++
			}
		}
		answered := 0
		for _, i := range members {
			if s.pl.items[i].q.nReplies() > 0 {
				answered++
			}
		}
		nsrv := len(e.t.zoneByApex(zoneOfName(q0.Name)).servers)
		if f := answered - max(1, (up+nsrv-1)/nsrv); f > 0 {
			r.Count("followers_observed", f)
			r.Count("dedup_bursts_observed", 1)
		}
	}

	// ---- isolation probes
	for _, p := range s.iso {
		p.judge()
	}
	if s.cp != nil {
		s.cp.judge()
	}

	// ---- what the upstream side actually did to the resolver (evidence that
	// the fault scripts were exercised, incl. the TC → TCP fallback)
	upstream := map[string]int{}
	tcNames := map[string]bool{}
	upLog := e.t.u.Log.All()
	for i := range upLog {
		p := &upLog[i]
		if p.Transport == "udp" && p.Action == kindNames[kTC] {
			tcNames[p.Server+"|"+p.QNameL] = true
		}
	}
	for i := range upLog {
		p := &upLog[i]
		a := p.Action
		if a == "" {
			a = "honest"
		}
		upstream[p.Transport+"/"+a]++
		r.Count("upstream_"+p.Transport+"_packets", 1)
		if p.Transport == "tcp" && tcNames[p.Server+"|"+p.QNameL] {
			r.Count("tc_then_tcp_fallbacks", 1)
		}
	}
	for k, v := range upstream {
		r.Count("upstream/"+k, v)
	}

	// ---- evidence sample: this script as a real case
	{
		var wl []*waveStat
		for _, w := range waves {
			wl = append(wl, w)
		}
		sort.Slice(wl, func(i, j int) bool { return wl[i].Wave < wl[j].Wave })
		r.Sample(map[string]any{
			"script":       sp.Name,
			"seed":         sp.Seed,
			"tweaks":       sp.Tweaks,
			"zone_faults":  sp.Zone,
			"tld_faults":   sp.TLD,
			"arrival":      wl, // wave -1 = isolation probes + control client
			"upstream":     upstream,
			"server_drops": deltas(ctr0, ctr1),
			"outcome": map[string]any{
				"queries_judged":              judged,
				"udp_unanswered":              udpUnanswered,
				"udp_drops_counted":           udpServerDrops,
				"udp_expired_in_ingress_queue": expiredInQueue,
				"kernel_udp_loss":             kernelLoss,
				"tcp_connections":             len(conns),
				"tcp_connections_cut":         cutFresh + cutServed,
				"tcp_conncap_plus_jobwait":    conncap + jobwait,
				"tcp_queries_never_admitted":  cutQueries,
				"quiesced_in_ms":              ms(quiescedIn),
				"sdns_goroutines_before":      baseSdns,
				"sdns_goroutines_after":       afterSdns,
				"limiter_slots_after":         slots,
				"timer_lateness_max_ms":       ms(jit),
				"control_round_trip_max_ms":   ms(ctlRTT),
				"latency_bound_ms":            ms(margin),
				"violations_in_this_script":   s.nViol,
			},
		})
	}

	// ---- after the load: quiescent, goroutines back, no limiter slot held
	r.Count("quiescence_checks", 1)
	r.Max("quiesce_max_ms", quiescedIn.Milliseconds())
	switch {
	case quiesced && quiescedIn <= quiesceWant+2*late:
		r.Count("quiescence_reached", 1)
	case quiesced:
		r.Count("quiescence_slow", 1)
		r.Inconclusive(fmt.Sprintf("script %s: server quiescent only after %v (want %v; scheduling lateness %v)", sp.Name, quiescedIn, quiesceWant, late))
	default:
		if !srvQuiesced {
			s.violation("server-not-quiescent", fmt.Sprintf("%v after the last reply deadline the server still reports un-returned listener slabs (Server.Quiesced() == false)", quiescePersist),
				nil, nil, map[string]any{"goroutines": goroutineSummary(25), "slots": slots})
		}
		if slots.Total() != 0 {
			which := []string{}
			if slots.MaxConcurrent != 0 {
				which = append(which, "maxConcurrent")
			}
			if slots.Resolution != 0 {
				which = append(which, "resolutionSlots")
			}
			if slots.Probe != 0 {
				which = append(which, "probeSlots")
			}
			if slots.V6Lookup != 0 {
				which = append(which, "v6LookupSlots")
			}
			if slots.ZoneInflight != 0 {
				which = append(which, "zoneInflight")
			}
			s.violation("limiter-slot-leak/"+strings.Join(which, "+"), fmt.Sprintf("%v after load stopped the resolver still holds limiter tokens: %+v", quiescePersist, slots),
				nil, nil, map[string]any{"goroutines": goroutineSummary(25), "slots": slots})
		}
	}
	r.Count("goroutine_checks", 1)
	r.Max("goroutines_baseline_sdns", int64(baseSdns))
	r.Max("goroutines_after_sdns", int64(afterSdns))
	r.Max("goroutines_baseline_all", int64(baseAll))
	r.Max("goroutines_after_all", int64(afterAll))
	excess := afterSdns - baseSdns
	switch {
	case excess <= goroutineSlack && goroutinesIn <= goroutineWant:
		r.Count("goroutines_back_to_baseline", 1)
	case excess <= goroutineSlack:
		r.Count("goroutines_slow_to_baseline", 1)
	case excess >= goroutineLeakAt:
		s.violation("goroutine-leak", fmt.Sprintf("%d sdns goroutines before the load, %d still alive %v after it stopped (%d queries)", baseSdns, afterSdns, quiescePersist, len(all)),
			nil, nil, map[string]any{"goroutines": goroutineSummary(30), "baseline": baseSdns, "after": afterSdns})
	default:
		r.Count("goroutines_small_persistent_excess", 1)
		r.Inconclusive(fmt.Sprintf("script %s: %d sdns goroutines above the baseline persist (below the leak threshold %d): %v", sp.Name, excess, goroutineLeakAt, goroutineSummary(8)))
	}
	if s.inconclusive {
		r.Inconclusive(fmt.Sprintf("script %s: the machine stalled this process for %v (> %v): late/missing replies are not judged", sp.Name, late, stallLimit))
	}
	r.Distinct(sp.Name)
	logf("script %-22s queries=%d judged=%d load=%v quiesce=%v gor %d→%d dlsf=%d jitter=%v ctlrtt=%v udp unanswered/drops/kernel=%d/%d/%d tcp cut/cap+wait=%d/%d", sp.Name, len(all), judged, loadWall.Round(time.Millisecond), quiescedIn.Round(time.Millisecond), baseSdns, afterSdns, servfailLate, jit, ctlRTT, udpUnanswered, udpServerDrops, kernelLoss, cutFresh+cutServed, conncap+jobwait)
}

// waveStat is the per-wave outcome summary that goes into the evidence samples.
type waveStat struct {
	Wave              int            `json:"wave"`
	Pattern           string         `json:"pattern"`
	Queries           int            `json:"queries"`
	UDP               int            `json:"udp"`
	TCP               int            `json:"tcp"`
	Closers           int            `json:"closers,omitempty"`
	Rcodes            map[string]int `json:"replies_by_rcode"`
	DeadlineServfails int            `json:"servfail_at_query_timeout,omitempty"`
	UDPUnanswered     int            `json:"udp_unanswered_shed,omitempty"`
	NeverAdmitted     int            `json:"tcp_never_admitted,omitempty"`
	Duplicates        int            `json:"duplicates,omitempty"`
	Lost              int            `json:"lost,omitempty"`
	LatencyMaxMs      float64        `json:"latency_max_ms"`
}

func head(l []string, n int) []string {
	if len(l) > n {
		return l[:n]
	}
	return l
}

func baseName(n string) string {
	if i := strings.IndexByte(n, '#'); i >= 0 {
		return n[:i]
	}
	return n
}

func ms(d time.Duration) float64 { return float64(d.Microseconds()) / 1000 }

func rcodeName(rc int) string {
	if n, ok := dns.RcodeToString[rc]; ok {
		return n
	}
	return fmt.Sprintf("rcode%d", rc)
}

func deltas(a, b map[string]int64) map[string]int64 {
	out := map[string]int64{}
	for k, v := range b {
		if d := v - a[k]; d != 0 {
			out[k] = d
		}
	}
	return out
}

func (s *scriptRun) violation(sig, what string, q *qrec, reps []reply, detail any) {
	rc := replayCase{Script: s.sp, Query: q, Detail: detail}
	for _, rp := range reps {
		rc.Replies = append(rc.Replies, fmt.Sprintf("%x", rp.raw))
	}
	s.nViol++
	s.r.Violation(sig, "script "+s.sp.Name+": "+what, rc)
}

func (s *scriptRun) allQueries() []*qrec {
	var out []*qrec
	for _, p := range s.pl.items {
		out = append(out, p.q)
	}
	for _, p := range s.iso {
		out = append(out, p.queries()...)
	}
	if s.cp != nil {
		out = append(out, s.cp.queries()...)
	}
	return out
}

// dispatch plays the plan and returns the time of the last send.
func (s *scriptRun) dispatch() time.Time {
	items := append([]*planned(nil), s.pl.items...)
	sort.SliceStable(items, func(i, j int) bool { return items[i].atMs < items[j].atMs })
	var wg sync.WaitGroup
	var lastNs atomic.Int64
	mark := func() { lastNs.Store(time.Now().UnixNano()) }
	groups := map[int][]*planned{}
	for _, p := range items {
		if p.group != 0 {
			groups[p.group] = append(groups[p.group], p)
		}
	}
	sentGroup := map[int]bool{}
	sentBurst := map[int]bool{}
	sentMixed := map[int]bool{}
	var lastUDP time.Time
	for _, p := range items {
		if d := time.Until(s.t0.Add(time.Duration(p.atMs) * time.Millisecond)); d > 0 {
			time.Sleep(d)
		}
		q := p.q
		switch {
		case p.mixed != 0:
			if sentMixed[p.mixed] {
				continue
			}
			sentMixed[p.mixed] = true
			s.sendMixedBurst(s.mx.bursts[p.mixed-1], mark)
		case p.burst != 0:
			if sentBurst[p.burst] {
				continue
			}
			sentBurst[p.burst] = true
			s.sendBurst(s.pl.bursts[p.burst-1])
			mark()
		case q.Tr == "udp" && q.Closer:
			sock, err := s.cl.oneShotUDP()
			if err != nil {
				continue
			}
			sock.register(q)
			sock.send(q)
			mark()
			wg.Add(1)
			go func(p *planned) {
				defer wg.Done()
				time.Sleep(time.Duration(p.closeMs) * time.Millisecond)
				p.q.mu.Lock()
				p.q.closedAt = time.Now()
				p.q.mu.Unlock()
				sock.close()
			}(p)
		case q.Tr == "udp" && p.noPace:
			sock := s.cl.fixedUDP(0)
			sock.register(q)
			sock.send(q)
			mark()
		case q.Tr == "udp":
			// paced: at least 100 µs between datagrams of the shared sockets
			for time.Since(lastUDP) < 100*time.Microsecond {
				runtime.Gosched()
			}
			sock := s.cl.pooledUDP()
			sock.register(q)
			sock.send(q)
			lastUDP = time.Now()
			mark()
		case p.group != 0:
			if sentGroup[p.group] {
				continue
			}
			sentGroup[p.group] = true
			members := groups[p.group]
			wg.Add(1)
			go func() {
				defer wg.Done()
				c, err := s.cl.tcpFor(true)
				if err != nil {
					return
				}
				qs := make([]*qrec, len(members))
				for i, m := range members {
					qs[i] = m.q
				}
				c.send(qs...)
				mark()
			}()
		default:
			wg.Add(1)
			go func(p *planned) {
				defer wg.Done()
				c, err := s.cl.tcpFor(p.q.Closer)
				if err != nil {
					return
				}
				c.send(p.q)
				mark()
				if p.q.Closer {
					time.Sleep(time.Duration(p.closeMs) * time.Millisecond)
					p.q.mu.Lock()
					p.q.closedAt = time.Now()
					p.q.mu.Unlock()
					c.close()
				}
			}(p)
		}
	}
	wg.Wait()
	s.burstWG.Wait()
	if n := lastNs.Load(); n != 0 {
		return time.Unix(0, n)
	}
	return time.Now()
}

// burstTight: a burst written within this long is one arrival cluster for the
// server (evidence only — it decides no verdict).
const burstTight = 3 * time.Millisecond

// sendBurst writes one poison burst: every member back-to-back from this
// goroutine, ordinary queries through their client sockets, poison datagrams
// through the raw socket (a poison kind that is not usable on this machine is
// left unsent). A side goroutine then attributes the server's transmit-error
// counter to the burst: it samples the counter before the first write and
// again once every ordinary query of the burst has its reply (or 150 ms have
// passed).
func (s *scriptRun) sendBurst(bp *burstPlan) {
	dst, err := net.ResolveUDPAddr("udp", s.cl.server)
	if err != nil {
		return
	}
	v6 := s.sp.Tweaks.ListenV6
	type out struct {
		q    *qrec
		sock *udpSock
		raw  []byte
	}
	outs := make([]out, 0, len(bp.seq))
	var good []*qrec
	for _, p := range bp.seq {
		q := p.q
		if q.Poison != "" {
			if s.inj == nil || !s.inj.usable(q.Poison, v6) {
				continue
			}
			outs = append(outs, out{q: q, raw: buildRawUDP(net.ParseIP(q.Src), q.PoisonPort, dst.IP, uint16(dst.Port), q.pkt)})
			continue
		}
		sock := s.cl.fixedUDP(p.sock)
		sock.register(q)
		outs = append(outs, out{q: q, sock: sock})
		good = append(good, q)
	}
	const txErr = "udp_drop_tx_error"
	c0 := s.e.st.Counters()[txErr]
	t0 := time.Now()
	for _, o := range outs {
		if o.raw == nil {
			o.sock.send(o.q)
			continue
		}
		now := time.Now()
		err := s.inj.sendRaw(o.raw, dst.IP)
		o.q.mu.Lock()
		o.q.sentAt = now
		if err != nil {
			o.q.sendErr = err.Error()
		}
		o.q.mu.Unlock()
	}
	span := time.Since(t0)
	if span <= burstTight {
		s.burstsTight.Add(1)
	}
	for {
		cur := s.burstSpanMax.Load()
		if span.Microseconds() <= cur || s.burstSpanMax.CompareAndSwap(cur, span.Microseconds()) {
			break
		}
	}
	s.burstWG.Add(1)
	go func() {
		defer s.burstWG.Done()
		lim := time.Now().Add(150 * time.Millisecond)
		for time.Now().Before(lim) {
			pending := false
			for _, q := range good {
				if q.nReplies() == 0 {
					pending = true
					break
				}
			}
			if !pending {
				break
			}
			time.Sleep(time.Millisecond)
		}
		time.Sleep(2 * time.Millisecond)
		if s.e.st.Counters()[txErr] > c0 {
			s.burstsRefused.Add(1)
		}
	}()
}

// ---------------------------------------------------------------- isolation probe
//
// "Expired resolution surfaces as SERVFAIL to that client only."  One probe:
//
//	zone  m<i>.iso.test.        (1 server "im<i>")   delegated from tld
//	zone  leaf.m<i>.iso.test.   (1 server "il<i>")   delegated from m<i>
//
// tld and im<i> answer referrals for the probe's names after 0.4 s each, and
// il<i> is a black hole until the harness opens it. The leader L asks
// x.leaf.m<i>.iso.test. at t=0: two slow referrals, then a lookup at il<i>
// that is still running (UDP, UDP retry, TCP: 3 × 0.5 s) when L's query
// timeout expires at 2 s. Followers arrive at ≈1.3 s, when the delegations are
// cached: F-cd (same question with CD set: its own cache-level leader, but the
// SAME resolver-level lookup key, i.e. a singleflight follower of L's lookup)
// and F-same (the identical question: a cache-level dedup follower of L). When
// the client has L's reply the black hole opens. Each follower still has
// ≈1.3 s of its own budget and a healthy upstream: if the server tells it
// "Query timeout exceeded" long before its own query timeout elapsed, L's
// expiry was delivered to the wrong client.

type isoZone struct {
	idx      int
	mid      *authsim.Server
	leaf     *authsim.Server
	midApex  string
	leafApex string
	tld      *authsim.Server
	open     atomic.Bool // black hole lifted
}

func (z *isoZone) install() {
	slow := authsim.Action{Label: "iso-slow-referral", Delay: 400 * time.Millisecond}
	z.tld.AddRule(authsim.Rule{Name: "*." + z.midApex, Action: slow})
	z.mid.AddRule(authsim.Rule{Name: "*." + z.leafApex, Action: slow})
	z.leaf.AddRule(authsim.Rule{Name: "*." + z.leafApex, Match: func(*authsim.Packet) bool { return !z.open.Load() },
		Action: authsim.Action{Label: "iso-blackhole", Drop: true}})
}

type isoProbe struct {
	s    *scriptRun
	i    int
	z    *isoZone
	name string
	L    *qrec
	F    []*qrec
	mu   sync.Mutex
	last time.Time
	ran  bool
}

func newIsoProbe(s *scriptRun, i int, z *isoZone) *isoProbe {
	p := &isoProbe{s: s, i: i, z: z, name: fmt.Sprintf("x%d.%s", s.sp.Index, z.leafApex)}
	mk := func(role, tr string, cd bool) *qrec {
		q := &qrec{Idx: 100000 + i*10 + len(p.F), Wave: -1, Pattern: "isolation", Tr: tr, Name: p.name, Qtype: dns.TypeA, CD: cd, Role: role}
		q.pkt = buildQuery(q.Name, q.Qtype, 0, cd, true)
		return q
	}
	p.L = mk("leader", "tcp", false)
	p.F = []*qrec{mk("follower-cd", "tcp", true), mk("follower-same", "tcp", false), mk("follower-cd", "udp", true), mk("follower-same", "udp", false)}
	return p
}

func (p *isoProbe) queries() []*qrec { return append([]*qrec{p.L}, p.F...) }

func (p *isoProbe) lastSend() time.Time {
	p.mu.Lock()
	defer p.mu.Unlock()
	return p.last
}

func (p *isoProbe) send(q *qrec) {
	if q.Tr == "udp" {
		sock := p.s.cl.pooledUDP()
		sock.register(q)
		sock.send(q)
	} else {
		c, err := p.s.cl.tcpFor(true)
		if err != nil {
			return
		}
		c.send(q)
	}
	p.mu.Lock()
	p.last = time.Now()
	p.mu.Unlock()
}

func (p *isoProbe) run() {
	p.ran = true
	p.send(p.L)
	time.Sleep(1300 * time.Millisecond)
	for _, f := range p.F {
		p.send(f)
	}
	// open the black hole as soon as L has its reply (or L's deadline + margin passed)
	lim := time.Now().Add(p.s.margin())
	for p.L.nReplies() == 0 && time.Now().Before(lim) {
		time.Sleep(2 * time.Millisecond)
	}
	p.z.open.Store(true)
}

func (p *isoProbe) judge() {
	r := p.s.r
	if !p.ran {
		return
	}
	r.Count("isolation_probes", 1)
	lSent, _, lReps, _ := p.L.snapshot()
	if len(lReps) != 1 {
		return // judged by the general oracle
	}
	lLat := lReps[0].at.Sub(lSent)
	leaderExpired := lReps[0].rcode == dns.RcodeServerFailure && lLat >= queryTimeout-150*time.Millisecond
	if leaderExpired {
		r.Count("isolation_leader_expired", 1)
	}
	for _, f := range p.F {
		sent, sendErr, reps, _ := f.snapshot()
		if sendErr != "" || len(reps) != 1 || sent.IsZero() {
			continue
		}
		rp := reps[0]
		lat := rp.at.Sub(sent)
		joined := sent.Before(lReps[0].at) // the follower was in flight when the leader's budget ran out
		if joined && leaderExpired {
			r.Count("isolation_followers_in_flight_at_leader_expiry", 1)
		}
		if rp.rcode == dns.RcodeSuccess {
			if joined && leaderExpired {
				r.Count("isolation_followers_recovered", 1)
			}
			continue
		}
		if rp.rcode != dns.RcodeServerFailure {
			continue
		}
		// SERVFAIL: whose failure is it?
		saysTimeout := false
		m := new(dns.Msg)
		if m.Unpack(rp.raw) == nil {
			if opt := m.IsEdns0(); opt != nil {
				for _, o := range opt.Option {
					if e, ok := o.(*dns.EDNS0_EDE); ok && strings.Contains(e.ExtraText, timeoutEDEText) {
						saysTimeout = true
					}
				}
			}
		}
		ownBudgetLeft := queryTimeout - lat
		if saysTimeout && ownBudgetLeft > 300*time.Millisecond+2*p.s.lateness() {
			p.s.violation("expiry-delivered-to-other-client/"+f.Role,
				fmt.Sprintf("%s (%s) was told SERVFAIL %q after only %.0f ms — %.0f ms before its own query timeout — while the leader of the same lookup expired (leader latency %.0f ms); a healthy upstream was available to it",
					f.Role, f.Tr, timeoutEDEText, ms(lat), ms(ownBudgetLeft), ms(lLat)),
				f, reps, map[string]any{"leader": p.L, "leader_latency_ms": ms(lLat)})
		} else {
			r.Count("isolation_follower_servfail_unattributed", 1)
		}
	}
}

// random helper kept for replay determinism checks
var _ = rand.IntN
