package authsim

import (
	"encoding/binary"
	"errors"
	"fmt"
	"io"
	"net"
	"net/netip"
	"strings"
	"sync"
	"time"

	"github.com/miekg/dns"
	zm "github.com/semihalev/sdns/zzverif/zonemodel"
)

// Server is one scripted authoritative server: a UDP socket and a TCP
// listener on the same loopback port, hosting 0..n zones, advertised to the
// resolver under one or more documentation addresses.
type Server struct {
	Name  string
	Addrs []netip.Addr // advertised (documentation-range) addresses
	u     *Universe
	sink  bool

	mu    sync.Mutex
	zones []*zm.Zone
	rules []*Rule
	def   Action
	hits  map[string]int

	udp   *net.UDPConn
	tcp   *net.TCPListener
	addr  string // 127.0.0.1:port actually bound
	conns map[net.Conn]struct{}
}

// Addr returns the loopback "ip:port" the server listens on ("" before Start).
func (s *Server) Addr() string { return s.addr }

// IsSink reports whether this is the universe's sink.
func (s *Server) IsSink() bool { return s.sink }

// Zones lists the hosted zones.
func (s *Server) Zones() []*zm.Zone {
	s.mu.Lock()
	defer s.mu.Unlock()
	return append([]*zm.Zone(nil), s.zones...)
}

// Hosts reports whether the server is authoritative for the zone apex.
func (s *Server) Hosts(apex string) bool {
	apex = zm.Canon(apex)
	for _, z := range s.Zones() {
		if z.Apex() == apex {
			return true
		}
	}
	return false
}

// AddZone makes the server authoritative for z (also mid-run).
func (s *Server) AddZone(z *zm.Zone) {
	s.mu.Lock()
	defer s.mu.Unlock()
	for _, have := range s.zones {
		if have == z {
			return
		}
	}
	s.zones = append(s.zones, z)
}

// RemoveZone stops serving the zone with that apex (the server then answers
// from a hosted ancestor, or REFUSED).
func (s *Server) RemoveZone(apex string) {
	apex = zm.Canon(apex)
	s.mu.Lock()
	defer s.mu.Unlock()
	out := s.zones[:0]
	for _, z := range s.zones {
		if z.Apex() != apex {
			out = append(out, z)
		}
	}
	s.zones = out
}

// On appends a rule: action applies to (name, qtype) on the listed hits
// (none = all). Rules are evaluated in insertion order; first match wins.
func (s *Server) On(name string, qtype uint16, a Action, nth ...int) *Server {
	return s.AddRule(Rule{Name: name, Type: qtype, Nth: nth, Action: a})
}

// AddRule appends a fully specified rule.
func (s *Server) AddRule(r Rule) *Server {
	s.mu.Lock()
	defer s.mu.Unlock()
	rc := r
	s.rules = append(s.rules, &rc)
	return s
}

// SetDefault sets the action for queries no rule matches (initially honest).
func (s *Server) SetDefault(a Action) *Server {
	s.mu.Lock()
	defer s.mu.Unlock()
	s.def = a
	return s
}

// ClearScript removes all rules, resets the default to honest and (when
// resetHits) the per-question hit counters.
func (s *Server) ClearScript(resetHits bool) {
	s.mu.Lock()
	defer s.mu.Unlock()
	s.rules = nil
	s.def = Action{}
	if resetHits {
		s.hits = map[string]int{}
	}
}

// zoneFor picks the hosted zone that answers (qname, qtype): the deepest
// enclosing one, except that DS at a hosted child's apex is the parent's.
func (s *Server) zoneFor(qname string, qtype uint16) *zm.Zone {
	s.mu.Lock()
	zones := append([]*zm.Zone(nil), s.zones...)
	s.mu.Unlock()
	var best, second *zm.Zone
	for _, z := range zones {
		if !zm.IsSub(z.Apex(), qname) {
			continue
		}
		switch {
		case best == nil || zm.CountLabels(z.Apex()) > zm.CountLabels(best.Apex()):
			second = best
			best = z
		case second == nil || zm.CountLabels(z.Apex()) > zm.CountLabels(second.Apex()):
			second = z
		}
	}
	if best != nil && qtype == dns.TypeDS && best.Apex() == zm.Canon(qname) && second != nil {
		return second
	}
	return best
}

// HonestResponse returns what this server would honestly answer to q.
func (s *Server) HonestResponse(q *dns.Msg) *dns.Msg {
	if len(q.Question) != 1 {
		m := new(dns.Msg)
		m.SetRcode(q, dns.RcodeFormatError)
		return m
	}
	z := s.zoneFor(zm.Canon(q.Question[0].Name), q.Question[0].Qtype)
	if z == nil {
		m := new(dns.Msg)
		m.SetRcode(q, dns.RcodeRefused)
		return m
	}
	return z.Respond(q)
}

func (s *Server) start() error {
	for attempt := 0; attempt < 50; attempt++ {
		uc, err := net.ListenUDP("udp4", &net.UDPAddr{IP: net.IPv4(127, 0, 0, 1)})
		if err != nil {
			return err
		}
		port := uc.LocalAddr().(*net.UDPAddr).Port
		tl, err := net.ListenTCP("tcp4", &net.TCPAddr{IP: net.IPv4(127, 0, 0, 1), Port: port})
		if err != nil {
			_ = uc.Close()
			continue
		}
		_ = uc.SetReadBuffer(1 << 20)
		s.udp, s.tcp = uc, tl
		s.addr = fmt.Sprintf("127.0.0.1:%d", port)
		s.conns = map[net.Conn]struct{}{}
		s.u.wg.Add(2)
		go s.serveUDP()
		go s.serveTCP()
		return nil
	}
	return errors.New("authsim: could not bind a udp+tcp port pair")
}

func (s *Server) stop() {
	if s.udp != nil {
		_ = s.udp.Close()
	}
	if s.tcp != nil {
		_ = s.tcp.Close()
	}
	s.mu.Lock()
	for c := range s.conns {
		_ = c.Close()
	}
	s.mu.Unlock()
}

func (s *Server) serveUDP() {
	defer s.u.wg.Done()
	buf := make([]byte, 65535)
	for {
		n, raddr, err := s.udp.ReadFromUDPAddrPort(buf)
		if err != nil {
			return
		}
		raw := append([]byte(nil), buf[:n]...)
		p := s.logPacket("udp", raddr.String(), raw)
		s.u.wg.Add(1)
		go func() {
			defer s.u.wg.Done()
			s.behave(p, func(b []byte) error {
				_, err := s.udp.WriteToUDPAddrPort(b, raddr)
				return err
			}, nil)
		}()
	}
}

func (s *Server) serveTCP() {
	defer s.u.wg.Done()
	for {
		c, err := s.tcp.AcceptTCP()
		if err != nil {
			return
		}
		s.mu.Lock()
		s.conns[c] = struct{}{}
		s.mu.Unlock()
		s.u.wg.Add(1)
		go func() {
			defer s.u.wg.Done()
			defer func() {
				s.mu.Lock()
				delete(s.conns, c)
				s.mu.Unlock()
				_ = c.Close()
			}()
			for {
				var lb [2]byte
				if _, err := io.ReadFull(c, lb[:]); err != nil {
					return
				}
				raw := make([]byte, binary.BigEndian.Uint16(lb[:]))
				if _, err := io.ReadFull(c, raw); err != nil {
					return
				}
				p := s.logPacket("tcp", c.RemoteAddr().String(), raw)
				var wmu sync.Mutex
				keep := s.behave(p, func(b []byte) error {
					wmu.Lock()
					defer wmu.Unlock()
					out := make([]byte, 2+len(b))
					binary.BigEndian.PutUint16(out, uint16(len(b)))
					copy(out[2:], b)
					_, err := c.Write(out)
					return err
				}, c)
				if !keep {
					return
				}
			}
		}()
	}
}

func (s *Server) logPacket(transport, remote string, raw []byte) *Packet {
	p := describePacket(s.Name, s.sink, transport, remote, raw)
	if p.msg != nil && len(p.msg.Question) > 0 {
		key := p.QNameL + "/" + dns.TypeToString[p.QType] + "/" + transport
		s.mu.Lock()
		s.hits[key]++
		p.Hit = s.hits[key]
		s.mu.Unlock()
		if z := s.zoneFor(p.QNameL, p.QType); z != nil {
			p.Zone = z.Apex()
		}
	}
	s.u.Log.add(p)
	return p
}

func (s *Server) pick(p *Packet) Action {
	s.mu.Lock()
	defer s.mu.Unlock()
	for _, r := range s.rules {
		if r.matches(p) {
			return r.Action
		}
	}
	return s.def
}

func (s *Server) outcome(p *Packet, o string) {
	s.u.Log.update(p, func(p *Packet) {
		if p.Outcome == "" {
			p.Outcome = o
		} else {
			p.Outcome += "," + o
		}
	})
}

// behave executes the scripted behaviour; it returns false when the TCP
// connection must be closed.
func (s *Server) behave(p *Packet, send func([]byte) error, tc *net.TCPConn) bool {
	if s.sink {
		s.u.Log.update(p, func(p *Packet) { p.Action = "sink" })
		if tc != nil {
			<-s.u.done
			return false
		}
		return true
	}
	if p.msg == nil || len(p.msg.Question) != 1 {
		s.u.Log.update(p, func(p *Packet) { p.Action = "unparsable" })
		return tc == nil
	}
	a := s.pick(p)
	s.u.Log.update(p, func(p *Packet) { p.Action = a.label() })
	q := p.msg

	if a.Gate != nil {
		a.Gate.mu.Lock()
		a.Gate.n++
		a.Gate.mu.Unlock()
		select {
		case <-a.Gate.ch:
		case <-s.u.done:
			return false
		}
	}
	if a.Delay > 0 {
		t := time.NewTimer(a.Delay)
		select {
		case <-t.C:
		case <-s.u.done:
			t.Stop()
			return false
		}
	}
	if a.Drop {
		s.outcome(p, "dropped")
		return true
	}
	if tc != nil {
		switch a.TCP {
		case TCPStall:
			s.outcome(p, "tcp-stall")
			// hold the connection until the peer or the universe closes it
			go func() { <-s.u.done; _ = tc.Close() }()
			var one [1]byte
			for {
				if _, err := tc.Read(one[:]); err != nil {
					return false
				}
			}
		case TCPReset:
			s.outcome(p, "tcp-rst")
			_ = tc.SetLinger(0)
			return false
		}
	}

	var resp *dns.Msg
	switch {
	case a.Other != nil:
		oq := q.Copy()
		oq.Question = []dns.Question{*a.Other}
		resp = s.HonestResponse(oq)
	default:
		resp = s.HonestResponse(q)
	}
	if a.HasRcode {
		resp = new(dns.Msg)
		resp.SetRcode(q, a.Rcode)
		if opt := q.IsEdns0(); opt != nil {
			resp.SetEdns0(1232, opt.Do())
		}
	}
	if a.Truncate && tc == nil {
		resp = new(dns.Msg)
		resp.SetReply(q)
		resp.Truncated = true
		resp.Authoritative = true
		if opt := q.IsEdns0(); opt != nil {
			resp.SetEdns0(1232, opt.Do())
		}
	} else if a.Tamper != nil {
		resp = a.Tamper(q, resp.Copy())
		if resp == nil {
			s.outcome(p, "tamper-dropped")
			return true
		}
	}

	if tc == nil || a.PreTCP {
		for i, k := range a.Pre {
			if b := s.preDatagram(k, i, a, q); b != nil {
				_ = send(b)
				s.outcome(p, "pre")
			}
		}
	}
	if a.PreOnly {
		s.outcome(p, "pre-only")
		return true
	}

	if a.Raw != nil {
		b := append([]byte(nil), a.Raw...)
		if !a.RawKeepID && len(b) >= 2 {
			binary.BigEndian.PutUint16(b, q.Id)
		}
		_ = send(b)
		s.outcome(p, "raw")
		return true
	}

	limit := 65535
	if tc == nil {
		limit = 512
		if opt := q.IsEdns0(); opt != nil && int(opt.UDPSize()) > limit {
			limit = int(opt.UDPSize())
		}
	}
	b, err := resp.Pack()
	if err == nil && len(b) > limit {
		resp.Truncate(limit)
		b, err = resp.Pack()
		s.outcome(p, "size-truncated")
	}
	if err != nil {
		s.outcome(p, "pack-error:"+err.Error())
		return true
	}
	if err := send(b); err != nil {
		s.outcome(p, "send-error")
		return false
	}
	s.outcome(p, "answered:"+dns.RcodeToString[resp.Rcode])
	return true
}

func (s *Server) preDatagram(k PreKind, i int, a Action, q *dns.Msg) []byte {
	var m *dns.Msg
	switch k {
	case PreWrongID, PreWrongIDEvil:
		m = s.HonestResponse(q)
		if k == PreWrongIDEvil && a.PreTamper != nil {
			m = a.PreTamper(q, m.Copy())
		}
		if m == nil {
			return nil
		}
		m.Id = q.Id + 1
		if a.PreID != nil {
			m.Id = a.PreID(i, q.Id)
		}
	case PreWrongQuestion, PreWrongQEvil:
		oq := q.Copy()
		name := "wrong-question." + strings.TrimPrefix(q.Question[0].Name, ".")
		if q.Question[0].Name == "." {
			name = "wrong-question."
		}
		oq.Question = []dns.Question{{Name: name, Qtype: q.Question[0].Qtype, Qclass: q.Question[0].Qclass}}
		m = s.HonestResponse(oq)
		if k == PreWrongQEvil && a.PreTamper != nil {
			m = a.PreTamper(q, m.Copy())
		}
		if m == nil {
			return nil
		}
		m.Id = q.Id
	}
	b, err := m.Pack()
	if err != nil {
		return nil
	}
	return b
}
