package authsim

import (
	"encoding/hex"
	"fmt"
	"strings"
	"sync"
	"time"

	"github.com/miekg/dns"
)

// OptionInfo is one decoded EDNS option.
type OptionInfo struct {
	Code    uint16 `json:"code"`
	Name    string `json:"name"`
	Hex     string `json:"hex"`
	Decoded string `json:"decoded,omitempty"`
}

// OPTInfo is the full OPT pseudo-record of a received query.
type OPTInfo struct {
	UDPSize  uint16       `json:"udp_size"`
	DO       bool         `json:"do"`
	Version  uint8        `json:"version"`
	ExtRcode int          `json:"ext_rcode"`
	Z        uint16       `json:"z"`
	Options  []OptionInfo `json:"options,omitempty"`
}

// HasOption reports whether an option code is present.
func (o *OPTInfo) HasOption(code uint16) bool {
	if o == nil {
		return false
	}
	for _, x := range o.Options {
		if x.Code == code {
			return true
		}
	}
	return false
}

// Packet is one datagram or one TCP query received by a scripted server.
type Packet struct {
	Seq       int           `json:"seq"`
	At        time.Duration `json:"at_ns"` // monotonic, since Universe creation
	Server    string        `json:"server"`
	Sink      bool          `json:"sink,omitempty"`
	Transport string        `json:"transport"` // "udp" | "tcp"
	Remote    string        `json:"remote"`
	ID        uint16        `json:"id"`
	Opcode    int           `json:"opcode"`
	QName     string        `json:"qname"`       // as received (0x20 case preserved)
	QNameL    string        `json:"qname_lower"` // canonical lower case
	QType     uint16        `json:"qtype"`
	QClass    uint16        `json:"qclass"`
	QDCount   int           `json:"qdcount"`
	RD        bool          `json:"rd"`
	CD        bool          `json:"cd"`
	AD        bool          `json:"ad"`
	OPT       *OPTInfo      `json:"opt,omitempty"`
	RawHex    string        `json:"raw_hex"`
	ParseErr  string        `json:"parse_err,omitempty"`
	Zone      string        `json:"zone,omitempty"`   // zone chosen to answer ("" = none hosted)
	Hit       int           `json:"hit"`              // n-th time this (qname,qtype,transport) hit this server
	Action    string        `json:"action,omitempty"` // label of the behaviour applied ("honest", "drop", tamper name …)
	Outcome   string        `json:"outcome,omitempty"`
	msg       *dns.Msg
	rawLength int
}

// Msg returns the parsed query (nil if it did not parse).
func (p *Packet) Msg() *dns.Msg { return p.msg }

// Question returns the question as a dns.Question with the lower-cased name.
func (p *Packet) Question() dns.Question {
	return dns.Question{Name: p.QNameL, Qtype: p.QType, Qclass: p.QClass}
}

func (p *Packet) String() string {
	return fmt.Sprintf("#%d %8.3fms %s/%s id=%d %s %s hit=%d action=%s %s", p.Seq, float64(p.At)/1e6, p.Server, p.Transport,
		p.ID, p.QNameL, dns.TypeToString[p.QType], p.Hit, p.Action, p.Outcome)
}

// PacketLog is the append-only record of everything the universe's servers
// (including the sink) received.
type PacketLog struct {
	mu    sync.Mutex
	start time.Time
	pkts  []*Packet
}

func newPacketLog() *PacketLog { return &PacketLog{start: time.Now()} }

func (l *PacketLog) add(p *Packet) {
	l.mu.Lock()
	p.Seq = len(l.pkts)
	p.At = time.Since(l.start)
	l.pkts = append(l.pkts, p)
	l.mu.Unlock()
}

func (l *PacketLog) update(p *Packet, f func(*Packet)) {
	l.mu.Lock()
	f(p)
	l.mu.Unlock()
}

// Len returns the number of packets logged so far.
func (l *PacketLog) Len() int {
	l.mu.Lock()
	defer l.mu.Unlock()
	return len(l.pkts)
}

// Since returns copies of the packets with Seq >= from.
func (l *PacketLog) Since(from int) []Packet {
	l.mu.Lock()
	defer l.mu.Unlock()
	if from < 0 {
		from = 0
	}
	if from > len(l.pkts) {
		from = len(l.pkts)
	}
	out := make([]Packet, 0, len(l.pkts)-from)
	for _, p := range l.pkts[from:] {
		out = append(out, *p)
	}
	return out
}

// All returns a copy of the whole log.
func (l *PacketLog) All() []Packet { return l.Since(0) }

// Filter returns the packets (from Seq >= from) for which keep is true.
func (l *PacketLog) Filter(from int, keep func(*Packet) bool) []Packet {
	var out []Packet
	for _, p := range l.Since(from) {
		p := p
		if keep(&p) {
			out = append(out, p)
		}
	}
	return out
}

// Count counts packets matching server ("" = any), qname ("" = any, compared
// canonically) and qtype (0 = any) with Seq >= from.
func (l *PacketLog) Count(from int, server, qname string, qtype uint16) int {
	if qname != "" {
		qname = strings.ToLower(dns.Fqdn(qname))
	}
	n := 0
	for _, p := range l.Since(from) {
		if (server == "" || p.Server == server) && (qname == "" || p.QNameL == qname) && (qtype == 0 || p.QType == qtype) {
			n++
		}
	}
	return n
}

// SinkHits returns packets received by the sink with Seq >= from.
func (l *PacketLog) SinkHits(from int) []Packet {
	return l.Filter(from, func(p *Packet) bool { return p.Sink })
}

func describePacket(server string, sink bool, transport, remote string, raw []byte) *Packet {
	p := &Packet{Server: server, Sink: sink, Transport: transport, Remote: remote, RawHex: hex.EncodeToString(raw), rawLength: len(raw)}
	m := new(dns.Msg)
	if err := m.Unpack(raw); err != nil {
		p.ParseErr = err.Error()
		if len(raw) >= 2 {
			p.ID = uint16(raw[0])<<8 | uint16(raw[1])
		}
		return p
	}
	p.msg = m
	p.ID, p.Opcode, p.RD, p.CD, p.AD = m.Id, m.Opcode, m.RecursionDesired, m.CheckingDisabled, m.AuthenticatedData
	p.QDCount = len(m.Question)
	if len(m.Question) > 0 {
		q := m.Question[0]
		p.QName, p.QNameL, p.QType, p.QClass = q.Name, strings.ToLower(q.Name), q.Qtype, q.Qclass
	}
	if opt := m.IsEdns0(); opt != nil {
		oi := &OPTInfo{UDPSize: opt.UDPSize(), DO: opt.Do(), Version: opt.Version(), ExtRcode: opt.ExtendedRcode(), Z: uint16(opt.Hdr.Ttl & 0x7FFF)}
		for _, o := range opt.Option {
			info := OptionInfo{Code: o.Option(), Decoded: o.String()}
			switch o.Option() {
			case dns.EDNS0NSID:
				info.Name = "NSID"
			case dns.EDNS0SUBNET:
				info.Name = "ECS"
			case dns.EDNS0COOKIE:
				info.Name = "COOKIE"
			case dns.EDNS0TCPKEEPALIVE:
				info.Name = "KEEPALIVE"
			case dns.EDNS0PADDING:
				info.Name = "PADDING"
			case dns.EDNS0EDE:
				info.Name = "EDE"
			case dns.EDNS0EXPIRE:
				info.Name = "EXPIRE"
			default:
				info.Name = fmt.Sprintf("OPT%d", o.Option())
			}
			if b, err := packOption(o); err == nil {
				info.Hex = hex.EncodeToString(b)
			}
			oi.Options = append(oi.Options, info)
		}
		p.OPT = oi
	}
	return p
}

// packOption returns the option's wire data (without code/length).
func packOption(o dns.EDNS0) ([]byte, error) {
	opt := &dns.OPT{Hdr: dns.RR_Header{Name: ".", Rrtype: dns.TypeOPT}, Option: []dns.EDNS0{o}}
	buf := make([]byte, 4096)
	n, err := dns.PackRR(opt, buf, 0, nil, false)
	if err != nil {
		return nil, err
	}
	// root(1) type(2) class(2) ttl(4) rdlen(2) code(2) len(2) data…
	const skip = 1 + 2 + 2 + 4 + 2 + 2 + 2
	if n < skip {
		return nil, fmt.Errorf("short")
	}
	return append([]byte(nil), buf[skip:n]...), nil
}
