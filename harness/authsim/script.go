package authsim

import (
	"strings"
	"sync"
	"time"

	"github.com/miekg/dns"
)

// TCPMode says what a server does with a query that arrives over TCP.
type TCPMode int

// TCP behaviours.
const (
	TCPAnswer TCPMode = iota // answer (through the same tamper, if any)
	TCPStall                 // read the query, never answer, keep the connection open
	TCPReset                 // read the query, then RST the connection
)

// PreKind selects a bogus datagram sent ahead of the real answer (UDP only).
type PreKind int

// Bogus pre-datagrams.
const (
	PreWrongID       PreKind = iota // honest answer, id+1
	PreWrongQuestion                // honest-looking answer for a different qname, right id
	PreWrongIDEvil                  // answer with Action.PreTamper applied, id+1
	PreWrongQEvil                   // wrong question + PreTamper applied
)

// Gate blocks matching queries until Release (or universe Close).
type Gate struct {
	once sync.Once
	ch   chan struct{}
	mu   sync.Mutex
	n    int
}

// NewGate returns a closed gate.
func NewGate() *Gate { return &Gate{ch: make(chan struct{})} }

// Release opens the gate for good.
func (g *Gate) Release() { g.once.Do(func() { close(g.ch) }) }

// Waiting reports how many queries have arrived at the gate so far.
func (g *Gate) Waiting() int { g.mu.Lock(); defer g.mu.Unlock(); return g.n }

// TamperFunc rewrites the honest response (it receives a private copy). The
// query is read-only. Returning nil drops the reply.
type TamperFunc func(q *dns.Msg, honest *dns.Msg) *dns.Msg

// Action is what a server does with one matching query. The zero value is the
// honest behaviour.
type Action struct {
	// Label is recorded in the packet log (default derived from the fields).
	Label string
	// Drop: log, never answer.
	Drop bool
	// Delay before answering.
	Delay time.Duration
	// Gate: block until released, then continue with the rest of the action.
	Gate *Gate
	// Tamper is applied to the honest response.
	Tamper TamperFunc
	// Rcode (when HasRcode) replaces the response by an empty one with this rcode.
	Rcode    int
	HasRcode bool
	// Pre lists bogus datagrams sent before the real one (UDP only).
	Pre       []PreKind
	PreTamper TamperFunc
	// PreID, when set, chooses the id of the i-th (0-based) entry of Pre for the
	// wrong-id kinds (default: query id + 1). Returning the query's own id makes
	// that datagram a right-id one.
	PreID func(i int, qid uint16) uint16
	// PreTCP: Pre also applies over TCP — every bogus message is written as its
	// own frame ahead of the real one.
	PreTCP bool
	// PreOnly: after the Pre messages nothing else is sent (the real reply never
	// comes); outcome "pre-only".
	PreOnly bool
	// Truncate (UDP only): reply TC=1 with empty sections so the client
	// retries over TCP; TCP says what happens there.
	Truncate bool
	TCP      TCPMode
	// Raw: send these bytes instead of a DNS message (the first two octets
	// are overwritten with the query id unless RawKeepID).
	Raw       []byte
	RawKeepID bool
	// Other: answer this question instead (honestly, from the hosting zone),
	// keeping the query's id — the reply's question section is Other.
	Other *dns.Question
}

func (a Action) label() string {
	if a.Label != "" {
		return a.Label
	}
	var parts []string
	if a.Gate != nil {
		parts = append(parts, "gate")
	}
	if a.Delay > 0 {
		parts = append(parts, "delay")
	}
	switch {
	case a.Drop:
		parts = append(parts, "drop")
	case a.Raw != nil:
		parts = append(parts, "raw")
	case a.HasRcode:
		parts = append(parts, "rcode-"+dns.RcodeToString[a.Rcode])
	case a.Other != nil:
		parts = append(parts, "other-question")
	case a.Truncate:
		parts = append(parts, "tc")
	case a.Tamper != nil:
		parts = append(parts, "tamper")
	}
	if len(a.Pre) > 0 {
		parts = append(parts, "pre")
	}
	if len(parts) == 0 {
		return "honest"
	}
	return strings.Join(parts, "+")
}

// Convenience constructors -------------------------------------------------

// Honest is the zero action.
func Honest() Action { return Action{} }

// Drop never answers.
func Drop() Action { return Action{Drop: true} }

// Delay answers honestly after d.
func Delay(d time.Duration) Action { return Action{Delay: d} }

// Rcode answers with an empty message carrying rc (SERVFAIL, REFUSED, NOTIMP…).
func Rcode(rc int) Action { return Action{Rcode: rc, HasRcode: true} }

// Tamper applies f to the honest response.
func Tamper(label string, f TamperFunc) Action { return Action{Label: label, Tamper: f} }

// Truncate answers TC=1 over UDP and behaves per mode over TCP.
func Truncate(mode TCPMode) Action { return Action{Truncate: true, TCP: mode} }

// Malformed sends bytes that do not parse as a DNS message.
func Malformed() Action {
	return Action{Label: "malformed", Raw: []byte{0, 0, 0x84, 0x00, 0x00, 0x01, 0x00, 0x07, 0, 0, 0, 0, 0xc0, 0xff, 0xff}}
}

// WithPre prepends bogus datagrams to any action.
func (a Action) WithPre(kinds ...PreKind) Action { a.Pre = append([]PreKind(nil), kinds...); return a }

// Gated blocks on g first.
func (a Action) Gated(g *Gate) Action { a.Gate = g; return a }

// AnswerOther answers a different question.
func AnswerOther(name string, qtype uint16) Action {
	return Action{Other: &dns.Question{Name: dns.Fqdn(name), Qtype: qtype, Qclass: dns.ClassINET}}
}

// Rule binds an action to (qname, qtype, transport, n-th hit).
type Rule struct {
	// Name "" matches any name; a leading "*." matches the name and
	// everything below it. Compared case-insensitively.
	Name string
	// Type 0 matches any type.
	Type uint16
	// Transport "" matches both.
	Transport string
	// Nth lists the 1-based hit numbers (per qname+qtype+transport at this
	// server) the rule applies to; empty = every hit.
	Nth []int
	// Match, when set, must also return true.
	Match  func(*Packet) bool
	Action Action
}

func (r *Rule) matches(p *Packet) bool {
	if r.Type != 0 && r.Type != p.QType {
		return false
	}
	if r.Transport != "" && r.Transport != p.Transport {
		return false
	}
	if r.Name != "" {
		n := strings.ToLower(dns.Fqdn(r.Name))
		if strings.HasPrefix(n, "*.") {
			if !dns.IsSubDomain(n[2:], p.QNameL) {
				return false
			}
		} else if n != p.QNameL {
			return false
		}
	}
	if len(r.Nth) > 0 {
		ok := false
		for _, n := range r.Nth {
			if n == p.Hit {
				ok = true
			}
		}
		if !ok {
			return false
		}
	}
	if r.Match != nil && !r.Match(p) {
		return false
	}
	return true
}
