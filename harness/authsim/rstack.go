package authsim

import (
	"context"
	"fmt"
	"io"
	"net"
	"os"
	"path/filepath"
	"strings"
	"sync"
	"sync/atomic"
	"time"

	"github.com/miekg/dns"
	"github.com/semihalev/sdns/config"
	"github.com/semihalev/sdns/middleware"
	mcache "github.com/semihalev/sdns/middleware/cache"
	"github.com/semihalev/sdns/middleware/defaults"
	"github.com/semihalev/sdns/middleware/resolver"
	"github.com/semihalev/sdns/server"
	"github.com/semihalev/zlog/v2"
)

// RStack is the full production pipeline (defaults.Register → middleware.Setup
// → server.New) resolving against a Universe.
//
// The middleware registry is process-global, so at most ONE RStack (or
// harness/stack.Stack) may be live per process; stacks can be created and
// closed sequentially any number of times (see README "Lifecycle").
type RStack struct {
	U       *Universe
	Cfg     *config.Config
	Server  *server.Server
	Handler *resolver.DNSHandler
	dir     string

	inflight atomic.Int64
	closed   atomic.Bool
}

var (
	liveMu sync.Mutex
	live   *RStack
)

func tempRoot() string {
	if b := os.Getenv("VERIF_BUILD_DIR"); b != "" {
		d := filepath.Join(b, "tmp")
		if os.MkdirAll(d, 0o755) == nil {
			return d
		}
	}
	return os.TempDir()
}

// SetLogLevel routes sdns's zlog output: "" or "off" discards everything,
// otherwise debug|info|warn|error go to stderr.
func SetLogLevel(level string) {
	l := zlog.NewStructured()
	var w io.Writer = os.Stderr
	switch level {
	case "debug":
		l.SetLevel(zlog.LevelDebug)
	case "info":
		l.SetLevel(zlog.LevelInfo)
	case "warn":
		l.SetLevel(zlog.LevelWarn)
	case "error":
		l.SetLevel(zlog.LevelError)
	default:
		l.SetLevel(zlog.LevelFatal)
		w = io.Discard
	}
	l.SetWriter(zlog.NewTerminalWriter(w))
	zlog.SetDefault(l)
}

// BaseConfig loads sdns's own generated default configuration (production
// defaults: rfc8198, rfc9520, prefetch, qname minimisation, recursion
// firewall in shadow mode …) into dir and points it at the universe:
// RootServers = root servers' loopback sockets, no IPv6 roots, RootKeys = the
// root zone's KSK(s), DNSSEC on, IPv6Access on (v6 glue is remapped to
// loopback, no IPv6 packet is sent), no listeners' ports of consequence (no
// listener is started), upstream timeout 1 s, cache size 16384.
func (u *Universe) BaseConfig(dir string) (*config.Config, error) {
	text := config.VerifDefaultConfigText()
	text = strings.Replace(text, `directory = "db"`, fmt.Sprintf("directory = %q\nipv6access = true", dir), 1)
	path := filepath.Join(dir, "sdns.conf")
	if err := os.WriteFile(path, []byte(text), 0o600); err != nil {
		return nil, err
	}
	cfg, err := config.Load(path, "verif")
	if err != nil {
		return nil, err
	}
	if !cfg.IPv6Access || cfg.Directory != dir {
		return nil, fmt.Errorf("authsim: default config text changed shape (directory/ipv6access not applied)")
	}
	cfg.Bind = "127.0.0.1:0"
	cfg.API = ""
	cfg.RootServers = u.RootAddrs()
	cfg.Root6Servers = nil
	cfg.RootKeys = u.RootKeys()
	cfg.DNSSEC = "on"
	cfg.CacheSize = 16384
	cfg.Timeout.Duration = time.Second
	cfg.LogLevel = "error"
	_ = os.MkdirAll(filepath.Join(dir, "blacklists"), 0o750)
	return cfg, nil
}

// NewResolverStack starts the universe if necessary and builds the pipeline.
// tweaks run on the config before middleware.Setup.
func (u *Universe) NewResolverStack(tweaks ...func(*config.Config)) (*RStack, error) {
	if err := u.Start(); err != nil {
		return nil, err
	}
	liveMu.Lock()
	if live != nil {
		liveMu.Unlock()
		return nil, fmt.Errorf("authsim: an RStack is already live in this process; Close it first")
	}
	s := &RStack{U: u}
	live = s
	liveMu.Unlock()
	ok := false
	defer func() {
		if !ok {
			s.teardown()
		}
	}()
	if zlogUnset.CompareAndSwap(true, false) {
		SetLogLevel(os.Getenv("VERIF_SDNS_LOG"))
	}
	dir, err := os.MkdirTemp(tempRoot(), "authsim-")
	if err != nil {
		return nil, err
	}
	s.dir = dir
	cfg, err := u.BaseConfig(dir)
	if err != nil {
		return nil, err
	}
	for _, t := range tweaks {
		if t != nil {
			t(cfg)
		}
	}
	s.Cfg = cfg

	middleware.Reset()
	defaults.Register()
	middleware.Setup(cfg)
	h, _ := middleware.Get("resolver").(*resolver.DNSHandler)
	if h == nil {
		return nil, fmt.Errorf("authsim: resolver handler not in pipeline (forwarders configured?)")
	}
	// Installed before the priming goroutine (which polls Ready() every
	// 50 ms) can have dialled anything but the loopback root itself.
	h.VerifSetResolveTarget(u.Mapper())
	s.Handler = h
	s.Server = server.New(cfg)
	ok = true
	return s, nil
}

var zlogUnset = func() *atomic.Bool { b := new(atomic.Bool); b.Store(true); return b }()

// RecTransport is a recording middleware.Transport with an arbitrary client
// address.
type RecTransport struct {
	Local, Remote net.Addr
	ProtoName     string
	mu            sync.Mutex
	Msgs          []*dns.Msg
	Raws          [][]byte
}

// NewRecTransport builds a transport for proto ("udp", "tcp", "doh", "doq" …).
func NewRecTransport(proto, clientAddr string) *RecTransport {
	host, port, err := net.SplitHostPort(clientAddr)
	if err != nil {
		host, port = clientAddr, "40000"
	}
	ip := net.ParseIP(host)
	p := 0
	fmt.Sscanf(port, "%d", &p)
	t := &RecTransport{ProtoName: proto}
	switch proto {
	case "udp", "doq", "doh3":
		t.Remote = &net.UDPAddr{IP: ip, Port: p}
		t.Local = &net.UDPAddr{IP: net.IPv4(127, 0, 0, 1), Port: 53}
	default:
		t.Remote = &net.TCPAddr{IP: ip, Port: p}
		t.Local = &net.TCPAddr{IP: net.IPv4(127, 0, 0, 1), Port: 53}
	}
	return t
}

// LocalAddr implements Transport.
func (t *RecTransport) LocalAddr() net.Addr { return t.Local }

// RemoteAddr implements Transport.
func (t *RecTransport) RemoteAddr() net.Addr { return t.Remote }

// Proto lets the chain learn the protocol.
func (t *RecTransport) Proto() string { return t.ProtoName }

// Close implements Transport.
func (t *RecTransport) Close() error { return nil }

// Write implements Transport (raw wire bytes).
func (t *RecTransport) Write(b []byte) (int, error) {
	t.mu.Lock()
	defer t.mu.Unlock()
	cp := append([]byte(nil), b...)
	t.Raws = append(t.Raws, cp)
	m := new(dns.Msg)
	if err := m.Unpack(cp); err == nil {
		t.Msgs = append(t.Msgs, m)
	} else {
		t.Msgs = append(t.Msgs, nil)
	}
	return len(b), nil
}

// WriteMsg implements Transport. The message is round-tripped through the
// wire format so the caller sees what a client would parse.
func (t *RecTransport) WriteMsg(m *dns.Msg) error {
	b, err := m.Pack()
	if err != nil {
		t.mu.Lock()
		t.Msgs = append(t.Msgs, m.Copy())
		t.Raws = append(t.Raws, nil)
		t.mu.Unlock()
		return nil
	}
	_, err = t.Write(b)
	return err
}

// Replies returns everything written so far.
func (t *RecTransport) Replies() []*dns.Msg {
	t.mu.Lock()
	defer t.mu.Unlock()
	return append([]*dns.Msg(nil), t.Msgs...)
}

// Query serves q as client clientAddr ("ip" or "ip:port") over the decoded
// entry (Server.ServeMsg, the entry DoH/DoQ use) with a TCP-shaped recording
// transport, and returns the first reply (nil if none was written).
func (s *RStack) Query(clientAddr string, q *dns.Msg) *dns.Msg {
	r := s.QueryProto(context.Background(), "tcp", clientAddr, q)
	if len(r) == 0 {
		return nil
	}
	return r[0]
}

// QueryProto is Query with an explicit protocol name and parent context; it
// returns every reply written (exactly one is the contract).
func (s *RStack) QueryProto(ctx context.Context, proto, clientAddr string, q *dns.Msg) []*dns.Msg {
	t := NewRecTransport(proto, clientAddr)
	s.inflight.Add(1)
	defer s.inflight.Add(-1)
	s.Server.ServeMsg(ctx, t, q.Copy())
	return t.Replies()
}

// Cache returns the cache middleware (nil if disabled).
func (s *RStack) Cache() *mcache.Cache {
	c, _ := middleware.Get("cache").(*mcache.Cache)
	return c
}

// Quiesce waits until no Query is running, the resolver's limiter slots are
// all free and the prefetch queue is empty, on three consecutive polls.
// false = not reached within timeout (treat as inconclusive).
func (s *RStack) Quiesce(timeout time.Duration) bool {
	deadline := time.Now().Add(timeout)
	stable := 0
	for {
		a, b, c, d := s.Handler.VerifSlots()
		idle := s.inflight.Load() == 0 && a+b+c+d == 0
		if idle {
			if ch := s.Cache(); ch != nil && ch.VerifStackPrefetchBacklog() != 0 {
				idle = false
			}
		}
		if idle {
			stable++
			if stable >= 3 {
				return true
			}
		} else {
			stable = 0
		}
		if time.Now().After(deadline) {
			return false
		}
		time.Sleep(time.Millisecond)
	}
}

// Advance steps the virtual clock by d: every stored instant of the cache
// middleware and of the resolver's delegation cache moves back by d. Call
// only after Quiesce.
func (s *RStack) Advance(d time.Duration) {
	if c := s.Cache(); c != nil {
		c.VerifAdvance(d)
	}
	s.Handler.VerifAdvance(d)
}

// Close stops background workers of the chain, resets the registry, removes
// the temp directory. The Universe is NOT closed. Idempotent.
func (s *RStack) Close() {
	if s == nil || !s.closed.CompareAndSwap(false, true) {
		return
	}
	s.teardown()
}

func (s *RStack) teardown() {
	if s.Server != nil {
		s.Server.Stop()
	}
	for _, h := range middleware.Handlers() {
		switch v := h.(type) {
		case interface{ Stop() }:
			v.Stop()
		case interface{ Close() error }:
			_ = v.Close()
		}
	}
	if s.Handler != nil {
		s.Handler.VerifRelease()
	}
	middleware.Reset()
	if s.dir != "" {
		// The resolver's start-up goroutine (priming, then the RFC 5011
		// refresh) writes <dir>/trust-anchor.db a few milliseconds after
		// Setup; a removal racing with that write leaves the directory
		// behind. Remove now, remember the path, and re-remove the most
		// recent ones at every later teardown (SweepTemp does all of them).
		_ = os.RemoveAll(s.dir)
		liveMu.Lock()
		oldDirs = append(oldDirs, s.dir)
		recent := oldDirs
		if len(recent) > 24 {
			recent = recent[len(recent)-24:]
		}
		recent = append([]string(nil), recent...)
		liveMu.Unlock()
		for _, d := range recent {
			_ = os.RemoveAll(d)
		}
	}
	liveMu.Lock()
	if live == s {
		live = nil
	}
	liveMu.Unlock()
}

var oldDirs []string

// SweepTemp removes again every temp directory of closed stacks (a late
// background write of a closed resolver can leave one behind). Harnesses call
// it once before exiting (after a short pause).
func SweepTemp() {
	liveMu.Lock()
	dirs := append([]string(nil), oldDirs...)
	liveMu.Unlock()
	for _, d := range dirs {
		_ = os.RemoveAll(d)
	}
}
