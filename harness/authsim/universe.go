// Package authsim is the scripted DNS universe the monitors resolve against:
// a root plus a set of zonemodel zones placed on loopback servers whose
// behaviour can be scripted per (qname, qtype, n-th hit), a sink that logs
// traffic to addresses nobody owns, a packet log, and the wiring that points
// the real sdns pipeline at it (RStack, see rstack.go).
package authsim

import (
	"fmt"
	"net"
	"net/netip"
	"sync"

	"github.com/miekg/dns"
	zm "github.com/semihalev/sdns/zzverif/zonemodel"
)

// Universe owns zones, servers, the sink and the packet log.
type Universe struct {
	NS  *zm.Namespace
	Log *PacketLog

	mu        sync.Mutex
	servers   []*Server
	byDocAddr map[netip.Addr]*Server
	sink      *Server
	placement map[string][]*Server // zone apex -> hosting servers
	nextV4    int
	nextV6    int
	nextSpace int
	started   bool
	closed    bool

	done chan struct{}
	wg   sync.WaitGroup
}

// New creates an empty universe (no sockets yet).
func New() *Universe {
	u := &Universe{
		NS:        zm.NewNamespace(),
		Log:       newPacketLog(),
		byDocAddr: map[netip.Addr]*Server{},
		placement: map[string][]*Server{},
		done:      make(chan struct{}),
	}
	u.sink = &Server{Name: "sink", u: u, sink: true, hits: map[string]int{}}
	return u
}

var docV4 = []string{"192.0.2.", "198.51.100.", "203.0.113."}

// nextAddrs allocates one fresh documentation IPv4 and one IPv6 address.
func (u *Universe) nextAddrs(v6 bool) []netip.Addr {
	n := u.nextV4
	u.nextV4++
	out := []netip.Addr{netip.MustParseAddr(fmt.Sprintf("%s%d", docV4[(n/250)%3], 2+n%250))}
	if v6 {
		u.nextV6++
		out = append(out, netip.MustParseAddr(fmt.Sprintf("2001:db8::%x", 0x100+u.nextV6)))
	}
	return out
}

// AddServer creates a server advertised under the given documentation
// addresses (192.0.2/24, 198.51.100/24, 203.0.113/24, 2001:db8::/32). With no
// addresses one IPv4 and one IPv6 are allocated.
func (u *Universe) AddServer(name string, addrs ...string) *Server {
	u.mu.Lock()
	defer u.mu.Unlock()
	s := &Server{Name: name, u: u, hits: map[string]int{}}
	if len(addrs) == 0 {
		s.Addrs = u.nextAddrs(true)
	}
	for _, a := range addrs {
		s.Addrs = append(s.Addrs, netip.MustParseAddr(a))
	}
	for _, a := range s.Addrs {
		if _, dup := u.byDocAddr[a]; dup {
			panic("authsim: address already in use: " + a.String())
		}
		u.byDocAddr[a] = s
	}
	u.servers = append(u.servers, s)
	if u.started {
		if err := s.start(); err != nil {
			panic(err)
		}
	}
	return s
}

// AddV4Only is AddServer with a single allocated IPv4 address.
func (u *Universe) AddV4Only(name string) *Server {
	u.mu.Lock()
	a := u.nextAddrs(false)
	u.mu.Unlock()
	return u.AddServer(name, a[0].String())
}

// Servers lists the servers (without the sink).
func (u *Universe) Servers() []*Server {
	u.mu.Lock()
	defer u.mu.Unlock()
	return append([]*Server(nil), u.servers...)
}

// Server finds a server by name.
func (u *Universe) Server(name string) *Server {
	for _, s := range u.Servers() {
		if s.Name == name {
			return s
		}
	}
	return nil
}

// Sink returns the server that receives traffic for unknown addresses.
func (u *Universe) Sink() *Server { return u.sink }

// ServersOf lists the servers hosting the zone.
func (u *Universe) ServersOf(apex string) []*Server {
	u.mu.Lock()
	defer u.mu.Unlock()
	return append([]*Server(nil), u.placement[zm.Canon(apex)]...)
}

// NSHosts returns the NS host names and glue the universe uses for a zone:
// one in-bailiwick name "ns<i>.<apex>" per hosting server, with that
// server's advertised addresses.
func (u *Universe) NSHosts(apex string) []zm.NSHost {
	apex = zm.Canon(apex)
	var out []zm.NSHost
	for i, s := range u.ServersOf(apex) {
		h := zm.NSHost{Name: zm.Join(fmt.Sprintf("ns%d", i+1), apex)}
		for _, a := range s.Addrs {
			h.Addrs = append(h.Addrs, net.IP(a.AsSlice()))
		}
		out = append(out, h)
	}
	return out
}

// AddZone creates a zone from spec, hosts it on the given servers, names its
// NS hosts ns1.<apex>… (one per server) and publishes their address records
// in the zone. MarkerSpace is assigned automatically when zero.
func (u *Universe) AddZone(spec zm.Spec, servers ...*Server) *zm.Zone {
	if len(servers) == 0 {
		panic("authsim: AddZone needs at least one server")
	}
	apex := zm.Canon(spec.Apex)
	u.mu.Lock()
	if spec.MarkerSpace == 0 {
		u.nextSpace++
		spec.MarkerSpace = uint8(u.nextSpace)
	}
	u.placement[apex] = append([]*Server(nil), servers...)
	u.mu.Unlock()
	hosts := u.NSHosts(apex)
	if len(spec.NSHosts) == 0 {
		for _, h := range hosts {
			spec.NSHosts = append(spec.NSHosts, h.Name)
		}
	}
	z := zm.New(spec)
	for _, h := range hosts {
		if zm.IsSub(apex, h.Name) {
			for _, ip := range h.Addrs {
				z.AddAddr(h.Name, ip, 0)
			}
		}
	}
	for _, s := range servers {
		s.AddZone(z)
	}
	u.NS.Add(z)
	return z
}

// DSMode selects what the parent publishes at a cut.
type DSMode int

// DS modes.
const (
	DSAuto  DSMode = iota // DS of the child's KSK iff the child is signed
	DSNone                // no DS (insecure delegation) even if the child is signed
	DSWrong               // DS of a key the child does not hold (broken chain)
)

// DelegOpts tunes Delegate.
type DelegOpts struct {
	DS      DSMode
	NSTTL   uint32
	DSTTL   uint32
	GlueTTL uint32
	// NS overrides the NS hosts/glue (default: Universe.NSHosts(child)).
	NS []zm.NSHost
	// NoGlue publishes the NS names without addresses.
	NoGlue bool
}

// Delegate publishes, in parent, the delegation of child to the servers that
// host it (or opts.NS).
func (u *Universe) Delegate(parent, child *zm.Zone, opts DelegOpts) *zm.Delegation {
	ns := opts.NS
	if ns == nil {
		ns = u.NSHosts(child.Apex())
	}
	if opts.NoGlue {
		cp := make([]zm.NSHost, len(ns))
		for i, h := range ns {
			cp[i] = zm.NSHost{Name: h.Name}
		}
		ns = cp
	}
	var ds []dns.RR
	switch opts.DS {
	case DSAuto:
		if child.Signed() {
			ds = child.DS(0)
		}
	case DSWrong:
		other := zm.New(zm.Spec{Apex: child.Apex(), Signed: true, Algorithm: child.Spec().Algorithm})
		ds = other.DS(0)
	}
	return parent.Delegate(zm.DelegationSpec{
		Child: child.Apex(), NS: ns, DS: ds,
		NSTTL: opts.NSTTL, DSTTL: opts.DSTTL, GlueTTL: opts.GlueTTL,
	})
}

// Start binds every server (and the sink). Servers added later start at once.
func (u *Universe) Start() error {
	u.mu.Lock()
	defer u.mu.Unlock()
	if u.started {
		return nil
	}
	if err := u.sink.start(); err != nil {
		return err
	}
	for _, s := range u.servers {
		if err := s.start(); err != nil {
			return err
		}
	}
	u.started = true
	return nil
}

// Close shuts every socket, releases blocked behaviours and waits for the
// server goroutines. Idempotent.
func (u *Universe) Close() {
	u.mu.Lock()
	if u.closed {
		u.mu.Unlock()
		return
	}
	u.closed = true
	close(u.done)
	servers := append([]*Server{u.sink}, u.servers...)
	u.mu.Unlock()
	for _, s := range servers {
		s.stop()
	}
	u.wg.Wait()
}

// Mapper returns the dial-target remapper for the resolver: "ip:port" of an
// advertised documentation address → the loopback socket of its server;
// loopback targets pass through; anything else → the sink.
func (u *Universe) Mapper() func(string) string {
	return func(addr string) string {
		host, _, err := net.SplitHostPort(addr)
		if err != nil {
			return u.sink.addr
		}
		ip, err := netip.ParseAddr(host)
		if err != nil {
			return u.sink.addr
		}
		ip = ip.Unmap()
		if ip.IsLoopback() {
			return addr
		}
		u.mu.Lock()
		s := u.byDocAddr[ip]
		u.mu.Unlock()
		if s == nil || s.addr == "" {
			return u.sink.addr
		}
		return s.addr
	}
}

// ServerByDocAddr resolves an advertised address to its server (nil = sink).
func (u *Universe) ServerByDocAddr(ip string) *Server {
	a, err := netip.ParseAddr(ip)
	if err != nil {
		return nil
	}
	u.mu.Lock()
	defer u.mu.Unlock()
	return u.byDocAddr[a.Unmap()]
}

// Root returns the root zone (nil if none was added).
func (u *Universe) Root() *zm.Zone { return u.NS.Zone(".") }

// RootAddrs returns the loopback addresses of the servers hosting the root
// (for cfg.RootServers).
func (u *Universe) RootAddrs() []string {
	var out []string
	for _, s := range u.ServersOf(".") {
		out = append(out, s.addr)
	}
	return out
}

// RootKeys returns the root's SEP DNSKEYs in presentation format (for
// cfg.RootKeys). Empty when the root is unsigned.
func (u *Universe) RootKeys() []string {
	var out []string
	root := u.Root()
	if root == nil {
		return nil
	}
	for _, k := range root.Keys() {
		if k.Priv != nil && k.DNSKEY.Flags&1 == 1 {
			out = append(out, k.DNSKEY.String())
		}
	}
	return out
}
