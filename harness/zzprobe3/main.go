package main

import (
	"fmt"
	"os"

	"github.com/miekg/dns"
	"github.com/semihalev/sdns/config"
	"github.com/semihalev/sdns/zzverif/authsim"
	zm "github.com/semihalev/sdns/zzverif/zonemodel"
)

func main() {
	for _, shared := range []bool{false, true} {
		for _, qmin := range []int{0, 3} {
			u := authsim.New()
			sr, st := u.AddServer("root"), u.AddServer("tld")
			si, ss := st, st
			if !shared {
				si, ss = u.AddServer("isl"), u.AddServer("sub")
			}
			root := u.AddZone(zm.Spec{Apex: ".", Signed: true}, sr)
			tld := u.AddZone(zm.Spec{Apex: "test.", Signed: true, NSEC3: &zm.NSEC3Params{}}, st)
			isl := u.AddZone(zm.Spec{Apex: "isl.test.", Signed: true}, si)
			sub := u.AddZone(zm.Spec{Apex: "sub.isl.test.", Signed: true}, ss)
			u.Delegate(root, tld, authsim.DelegOpts{})
			u.Delegate(tld, isl, authsim.DelegOpts{DS: authsim.DSNone})
			u.Delegate(isl, sub, authsim.DelegOpts{})
			so := u.AddServer("other")
			other := u.AddZone(zm.Spec{Apex: "other.test.", Signed: true}, so)
			u.Delegate(tld, other, authsim.DelegOpts{})
			other.AddMarked("www.other.test.", dns.TypeA, 300)
			sub.AddDNAME("dn.sub.isl.test.", "other.test.", 300)
			sub.AddCNAME("alias.sub.isl.test.", "www.other.test.", 300)
			isl.AddDNAME("dn.isl.test.", "other.test.", 300)
			isl.AddCNAME("alias.isl.test.", "www.other.test.", 300)
			sub.AddMarked("www.sub.isl.test.", dns.TypeA, 300)
			isl.AddMarked("www.isl.test.", dns.TypeA, 300)
			rs, err := u.NewResolverStack(func(c *config.Config) { c.QnameMinLevel = qmin })
			if err != nil {
				panic(err)
			}
			for _, n := range []string{"www.dn.isl.test.", "alias.isl.test.", "www.dn.sub.isl.test.", "alias.sub.isl.test.", "www.dn.isl.test."} {
				q := new(dns.Msg)
				q.SetQuestion(n, dns.TypeA)
				q.SetEdns0(1232, true)
				from := u.Log.Len()
				r := rs.Query("127.0.0.1", q)
				want := u.NS.Resolve(n, dns.TypeA)
				fmt.Printf("shared=%v qmin=%d %s rcode=%s AD=%v (model status %s)\n", shared, qmin, n, dns.RcodeToString[r.Rcode], r.AuthenticatedData, want.Status)
				if os.Getenv("V") != "" {
					for _, p := range u.Log.Since(from) {
						fmt.Println("   ", p.String())
					}
				}
			}
			rs.Close()
			u.Close()
		}
	}
}
