// Package stack builds and drives the REAL sdns middleware pipeline + server
// in-process, with a scripted terminal stub handler standing in for the
// resolver. See README.md for the API contract and a runnable snippet.
package stack

import (
	"context"
	"fmt"
	"net"
	"os"
	"path/filepath"
	"sync"
	"sync/atomic"
	"time"

	"github.com/miekg/dns"

	"github.com/semihalev/sdns/config"
	"github.com/semihalev/sdns/middleware"
	"github.com/semihalev/sdns/middleware/cache"
	"github.com/semihalev/sdns/middleware/defaults"
	"github.com/semihalev/sdns/server"
	"github.com/semihalev/zlog/v2"
)

// StubName is the registered name of the terminal stub handler.
const StubName = "verif-stub"

// Options configures New. The zero value is usable.
type Options struct {
	// Config is the sdns configuration; nil means DefaultConfig(). New fills
	// in Directory (a fresh temp dir) when empty and listener addresses when
	// Listen asks for sockets. The Stack owns the config afterwards.
	Config *config.Config
	// StopBefore is passed to defaults.RegisterUpTo: the production chain is
	// registered up to but excluding this name and the stub is registered
	// after it. Default "failover" (keeps recovery … cache). Use "resolver"
	// to keep failover too. "-" registers the FULL production chain and no
	// stub (Stub() returns nil).
	StopBefore string
	// Stub scripts the terminal handler; nil installs DefaultStub.
	Stub StubFunc
	// Listen selects real listeners. Zero value: none (no socket is bound,
	// Server.Run is not called).
	Listen Listen
	// Before, if set, runs after the default chain + stub are registered and
	// before middleware.Setup — e.g. to middleware.RegisterBefore an extra
	// observer handler.
	Before func()
	// LogLevel for sdns's zlog output: "" = silent (fatal only), or
	// "debug"/"info"/"warn"/"error" (written to stderr).
	LogLevel string
}

// Listen selects which real listeners Server.Run binds. UDP and TCP always
// come as a pair (the server binds both on cfg.Bind).
type Listen struct {
	Plain bool // UDP + TCP on one port
	DoT   bool
	DoH   bool // also starts DoH3 on the same port number (UDP), as the server does
	DoQ   bool
	// IP is the loopback address to bind ("" = a per-process 127.x.y.1
	// derived from the pid, so concurrently running checks cannot collide on
	// SO_REUSEPORT UDP sockets).
	IP string
}

func (l Listen) any() bool { return l.Plain || l.DoT || l.DoH || l.DoQ }

// Stack is one live pipeline + server. Only ONE Stack may be live per
// process at a time (middleware registry, global pipeline and several metric
// sinks are process-global); New panics if the previous one was not closed.
type Stack struct {
	Cfg    *config.Config
	Server *server.Server

	stub   *Stub
	dir    string
	ownDir bool
	cancel context.CancelFunc
	ran    bool
	addrs  Addrs
	tlsPEM []byte // certificate (PEM) clients should trust
	closed atomic.Bool

	inflight atomic.Int64
}

// Addrs are the bound listener addresses ("" when not started).
type Addrs struct {
	UDP, TCP, DoT, DoH, DoQ string
}

var (
	liveMu sync.Mutex
	live   *Stack
)

// DefaultConfig returns a hermetic configuration: no listeners unless asked
// for, no blocklist sources, no network, DNSSEC validation off, chaos on,
// client/global rate limits off, access list open, cache on, prefetch off.
// Callers tweak the result before passing it to New.
func DefaultConfig() *config.Config {
	cfg := &config.Config{
		Version:         "verif",
		Bind:            "127.0.0.1:0",
		DNSSEC:          "off",
		Chaos:           true,
		Expire:          600,
		CacheSize:       16384,
		Prefetch:        0,
		Maxdepth:        30,
		RateLimit:       0,
		ClientRateLimit: 0,
		AccessList:      []string{"0.0.0.0/0", "::0/0"},
		Nullroute:       "0.0.0.0",
		Nullroutev6:     "::0",
		BlockLists:      nil,
		LogLevel:        "error",
	}
	cfg.Timeout.Duration = 2 * time.Second
	cfg.QueryTimeout.Duration = 10 * time.Second
	return cfg
}

func tempRoot() string {
	if b := os.Getenv("VERIF_BUILD_DIR"); b != "" {
		d := filepath.Join(b, "tmp")
		if os.MkdirAll(d, 0o755) == nil {
			return d
		}
	}
	return os.TempDir()
}

func setLogger(level string) {
	l := zlog.NewStructured()
	switch level {
	case "debug":
		l.SetLevel(zlog.LevelDebug)
	case "info":
		l.SetLevel(zlog.LevelInfo)
	case "warn":
		l.SetLevel(zlog.LevelWarn)
	case "error":
		l.SetLevel(zlog.LevelError)
	default:
		l.SetLevel(zlog.LevelFatal)
	}
	l.SetWriter(os.Stderr)
	zlog.SetDefault(l)
}

// New builds the pipeline and the server. It panics on harness misuse (a
// second live Stack) and returns an error for environment failures (temp
// dir, certificates, listeners).
func New(opts Options) (*Stack, error) {
	liveMu.Lock()
	if live != nil {
		liveMu.Unlock()
		panic("stack: a Stack is already live in this process; Close it first")
	}
	s := &Stack{}
	live = s
	liveMu.Unlock()
	ok := false
	defer func() {
		if !ok {
			s.teardown()
		}
	}()

	setLogger(opts.LogLevel)

	cfg := opts.Config
	if cfg == nil {
		cfg = DefaultConfig()
	}
	s.Cfg = cfg
	if cfg.Directory == "" {
		d, err := os.MkdirTemp(tempRoot(), "verif-stack-")
		if err != nil {
			return nil, fmt.Errorf("stack: temp dir: %w", err)
		}
		s.dir, s.ownDir = d, true
		cfg.Directory = d
	} else {
		s.dir = cfg.Directory
	}
	// blocklist.New's background refresh creates <Directory>/blacklists one
	// second after start; pre-create it so nothing is written later.
	if cfg.BlockListDir == "" {
		_ = os.MkdirAll(filepath.Join(cfg.Directory, "blacklists"), 0o750)
	}

	if opts.Listen.any() {
		if err := s.prepareListeners(opts.Listen); err != nil {
			return nil, err
		}
	}

	stop := opts.StopBefore
	if stop == "" {
		stop = "failover"
	}
	middleware.Reset()
	if stop == "-" {
		defaults.Register()
	} else {
		defaults.RegisterUpTo(stop)
		fn := opts.Stub
		if fn == nil {
			fn = DefaultStub
		}
		s.stub = newStub(fn, s)
		middleware.Register(StubName, func(*config.Config) middleware.Handler { return s.stub })
	}
	if opts.Before != nil {
		opts.Before()
	}
	middleware.Setup(cfg)
	s.Server = server.New(cfg)

	if opts.Listen.any() {
		if err := s.run(opts.Listen); err != nil {
			return nil, err
		}
	}
	ok = true
	return s, nil
}

// MustNew is New that panics on error (for probes and tests).
func MustNew(opts Options) *Stack {
	s, err := New(opts)
	if err != nil {
		panic(err)
	}
	return s
}

// Stub returns the terminal stub handler (nil with StopBefore "-").
func (s *Stack) Stub() *Stub { return s.stub }

// Dir is the stack's state directory (cfg.Directory).
func (s *Stack) Dir() string { return s.dir }

// Addrs returns the bound listener addresses.
func (s *Stack) Addrs() Addrs { return s.addrs }

// CertPEM is the self-signed certificate the TLS listeners present.
func (s *Stack) CertPEM() []byte { return s.tlsPEM }

// Handler returns an enabled middleware by name (middleware.Get).
func (s *Stack) Handler(name string) middleware.Handler { return middleware.Get(name) }

// Cache returns the cache middleware instance (nil if not in the chain).
func (s *Stack) Cache() *cache.Cache {
	c, _ := middleware.Get("cache").(*cache.Cache)
	return c
}

// Handlers lists the enabled handler names in chain order.
func (s *Stack) Handlers() []string {
	var out []string
	for _, h := range middleware.Handlers() {
		out = append(out, h.Name())
	}
	return out
}

// Counters returns server.VerifCounters() (ingress drop / inline counters;
// process-global and monotonic across Stacks).
func (s *Stack) Counters() map[string]int64 { return server.VerifCounters() }

// Quiesce waits until nothing is in flight: no in-process serve running, no
// stub invocation running, every listener slab back in its ring, and the
// prefetch queue empty — observed on three consecutive polls. It returns
// false if that did not happen within timeout (callers should treat that as
// inconclusive, never as a verdict).
func (s *Stack) Quiesce(timeout time.Duration) bool {
	deadline := time.Now().Add(timeout)
	stable := 0
	for {
		idle := s.inflight.Load() == 0 && (s.stub == nil || s.stub.inflight.Load() == 0)
		if idle && s.ran && !s.Server.Quiesced() {
			idle = false
		}
		if idle {
			if c := s.Cache(); c != nil && c.VerifStackPrefetchBacklog() != 0 {
				idle = false
			}
		}
		if idle {
			stable++
			if stable >= 3 {
				return true
			}
		} else {
			stable = 0
		}
		if time.Now().After(deadline) {
			return false
		}
		time.Sleep(500 * time.Microsecond)
	}
}

// Close shuts the listeners down, stops background workers of the chain,
// resets the middleware registry and removes the temp directory. Idempotent.
func (s *Stack) Close() {
	if s == nil || !s.closed.CompareAndSwap(false, true) {
		return
	}
	s.teardown()
}

func (s *Stack) teardown() {
	if s.cancel != nil {
		s.cancel()
		deadline := time.Now().Add(15 * time.Second)
		for !s.Server.Stopped() && time.Now().Before(deadline) {
			time.Sleep(2 * time.Millisecond)
		}
		s.cancel = nil
	}
	if s.Server != nil {
		s.Server.Stop()
	}
	if s.stub != nil {
		s.stub.releaseAll()
	}
	for _, h := range middleware.Handlers() {
		switch v := h.(type) {
		case interface{ Stop() }:
			v.Stop()
		case interface{ Close() error }:
			_ = v.Close()
		}
	}
	middleware.Reset()
	if s.ownDir && s.dir != "" {
		_ = os.RemoveAll(s.dir)
	}
	liveMu.Lock()
	if live == s {
		live = nil
	}
	liveMu.Unlock()
}

// ---------------------------------------------------------------------
// In-process entries
// ---------------------------------------------------------------------

// ParseAddr turns "ip:port" into the net.Addr flavour the pipeline derives
// the protocol from: *net.UDPAddr for datagram protos ("udp", "doq",
// "doh3"), *net.TCPAddr otherwise.
func ParseAddr(proto, addr string) net.Addr {
	host, port, err := net.SplitHostPort(addr)
	if err != nil {
		host, port = addr, "0"
	}
	ip := net.ParseIP(host)
	p := 0
	fmt.Sscanf(port, "%d", &p)
	switch proto {
	case "udp", "doq", "doh3":
		return &net.UDPAddr{IP: ip, Port: p}
	}
	return &net.TCPAddr{IP: ip, Port: p}
}

// RecTransport is a recording middleware.Transport for the decoded entry
// (Server.ServeMsg): arbitrary proto tag and client address; every WriteMsg /
// Write is recorded.
type RecTransport struct {
	ProtoName string
	Remote    net.Addr
	Local     net.Addr

	mu     sync.Mutex
	Msgs   []*dns.Msg // messages handed to WriteMsg (same pointers the chain wrote)
	Raws   [][]byte   // bytes handed to Write, or the packed form of Msgs[i]
	Errs   []error    // pack errors of WriteMsg
	Closed bool
}

// NewRecTransport builds a transport. proto: "udp", "tcp", "doh", "doq", …
// ("dot" is presented as the pipeline sees DoT: a TCP address with no Proto
// override, i.e. "tcp").
func NewRecTransport(proto, clientAddr string) *RecTransport {
	name := proto
	if proto == "dot" || proto == "tls" {
		name = "tcp"
	}
	t := &RecTransport{ProtoName: name, Remote: ParseAddr(proto, clientAddr)}
	switch t.Remote.(type) {
	case *net.UDPAddr:
		t.Local = &net.UDPAddr{IP: net.IPv4(127, 0, 0, 1), Port: 53}
	default:
		t.Local = &net.TCPAddr{IP: net.IPv4(127, 0, 0, 1), Port: 53}
	}
	return t
}

func (t *RecTransport) LocalAddr() net.Addr  { return t.Local }
func (t *RecTransport) RemoteAddr() net.Addr { return t.Remote }
func (t *RecTransport) Proto() string        { return t.ProtoName }
func (t *RecTransport) Close() error         { t.Closed = true; return nil }

func (t *RecTransport) Write(b []byte) (int, error) {
	t.mu.Lock()
	defer t.mu.Unlock()
	t.Raws = append(t.Raws, append([]byte(nil), b...))
	t.Msgs = append(t.Msgs, nil)
	return len(b), nil
}

func (t *RecTransport) WriteMsg(m *dns.Msg) error {
	if t.ProtoName == "doq" {
		m.Id = 0 // what server/doq.ResponseWriter does (RFC 9250 §4.2.1)
	}
	raw, err := m.Pack()
	t.mu.Lock()
	defer t.mu.Unlock()
	t.Msgs = append(t.Msgs, m)
	t.Raws = append(t.Raws, raw)
	if err != nil {
		t.Errs = append(t.Errs, err)
	}
	return err
}

// Result is what one in-process serve produced.
type Result struct {
	Wrote   bool     // at least one write reached the transport
	Writes  int      // number of writes (a correct pipeline: 0 or 1)
	Raw     []byte   // bytes of the last write
	Msg     *dns.Msg // decoded form of Raw (nil if it does not unpack)
	Handled bool     // ServeRaw*/only: the server's return value
	Strict  bool     // ServeRaw*/only: the packet took the wire-born strict branch
	Panic   any      // a panic escaped the server entry (recovered by the harness)
}

func (r *Result) fill(raws [][]byte) {
	r.Writes = len(raws)
	if len(raws) == 0 {
		return
	}
	r.Wrote = true
	r.Raw = raws[len(raws)-1]
	m := new(dns.Msg)
	if m.Unpack(r.Raw) == nil {
		r.Msg = m
	}
}

// ServeMsg drives Server.ServeMsg (the decoded entry DoH/DoQ/embedders use)
// with a recording transport. q is passed as is (the pipeline mutates it —
// pass a Copy if you need it afterwards).
func (s *Stack) ServeMsg(clientAddr, proto string, q *dns.Msg) (res Result) {
	return s.ServeMsgCtx(context.Background(), clientAddr, proto, q)
}

// ServeMsgCtx is ServeMsg with a caller-owned parent context.
func (s *Stack) ServeMsgCtx(ctx context.Context, clientAddr, proto string, q *dns.Msg) (res Result) {
	t := NewRecTransport(proto, clientAddr)
	s.inflight.Add(1)
	defer s.inflight.Add(-1)
	defer func() {
		if p := recover(); p != nil {
			res.Panic = p
		}
		t.mu.Lock()
		res.fill(t.Raws)
		t.mu.Unlock()
		res.Handled = true
	}()
	s.Server.ServeMsg(ctx, t, q)
	return res
}

// NewJob returns a strict-path job (server.VerifStrictJob) for a client
// address; proto "udp" or "tcp" (also "dot"). Reuse it across requests of one
// simulated client to exercise slot recycling, or take a fresh one per call.
func NewJob(clientAddr, proto string) *server.VerifStrictJob {
	if proto != "udp" {
		proto = "tcp"
	}
	return server.VerifNewStrictJob(ParseAddr(proto, clientAddr))
}

// RawMode selects the strict wire entry.
type RawMode int

const (
	RawServe  RawMode = iota // Server.ServeRaw (worker path)
	RawInline                // Server.ServeRawInline (reader fast path; may hand off)
	RawReplay                // Server.ServeRawReplay (worker pass after a handoff)
)

// ServeRawJob drives one of the strict wire entries with a caller-owned job.
// Note: the engines run the header-level accept check (QR / opcode / counts)
// BEFORE these entries; use server.VerifAcceptHeader or real sockets when
// that check is the subject.
func (s *Stack) ServeRawJob(job *server.VerifStrictJob, mode RawMode, pkt []byte) (res Result) {
	job.ResetCapture()
	s.inflight.Add(1)
	defer s.inflight.Add(-1)
	defer func() {
		if p := recover(); p != nil {
			res.Panic = p
		}
		res.fill(job.Writes)
		res.Strict = job.VerifUsedStrict()
	}()
	now := time.Now()
	switch mode {
	case RawInline:
		res.Handled = s.Server.ServeRawInline(job, pkt, now)
	case RawReplay:
		res.Handled = s.Server.ServeRawReplay(job, pkt, now)
	default:
		res.Handled = s.Server.ServeRaw(job, pkt, now)
	}
	return res
}

// ServeRaw is ServeRawJob(RawServe) with a fresh job.
func (s *Stack) ServeRaw(clientAddr, proto string, pkt []byte) Result {
	return s.ServeRawJob(NewJob(clientAddr, proto), RawServe, pkt)
}

// ServeRawInline runs the reader fast path; when it hands off
// (Handled == false && !Wrote) callers normally follow with ServeRawReplay on
// the SAME job, as the engines do. ServeRawLikeEngine does both.
func (s *Stack) ServeRawInline(clientAddr, proto string, pkt []byte) Result {
	return s.ServeRawJob(NewJob(clientAddr, proto), RawInline, pkt)
}

// ServeRawReplay runs the replay pass with a fresh job.
func (s *Stack) ServeRawReplay(clientAddr, proto string, pkt []byte) Result {
	return s.ServeRawJob(NewJob(clientAddr, proto), RawReplay, pkt)
}

// ServeRawLikeEngine mimics the UDP engine's reader: inline pass first, and
// if that hands off, the replay pass on the same job. inline reports whether
// the reply came from the inline pass.
func (s *Stack) ServeRawLikeEngine(job *server.VerifStrictJob, pkt []byte) (res Result, inline bool) {
	if s.Server.InlineReady() {
		res = s.ServeRawJob(job, RawInline, pkt)
		if res.Handled || res.Panic != nil {
			return res, true
		}
	}
	return s.ServeRawJob(job, RawReplay, pkt), false
}
