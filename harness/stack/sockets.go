package stack

import (
	"bytes"
	"context"
	"crypto/ecdsa"
	"crypto/elliptic"
	"crypto/rand"
	"crypto/tls"
	"crypto/x509"
	"crypto/x509/pkix"
	"encoding/base64"
	"encoding/binary"
	"encoding/pem"
	"errors"
	"fmt"
	"io"
	"math/big"
	mrand "math/rand/v2"
	"net"
	"net/http"
	"os"
	"path/filepath"
	"sync"
	"time"

	"github.com/quic-go/quic-go"
)

// ---------------------------------------------------------------------
// Listener set-up
// ---------------------------------------------------------------------

func defaultListenIP() string {
	pid := os.Getpid()
	return fmt.Sprintf("127.%d.%d.1", 64+pid%128, 1+(pid/128)%250)
}

// freePort finds a port that is currently free for BOTH tcp and udp on ip.
// The probe sockets are plain (no SO_REUSEPORT), so a port held by anybody —
// including another sdns UDP engine — is refused.
func freePort(ip string) (int, error) {
	for i := 0; i < 200; i++ {
		p := 20000 + mrand.IntN(40000)
		addr := net.JoinHostPort(ip, fmt.Sprint(p))
		l, err := net.Listen("tcp", addr)
		if err != nil {
			continue
		}
		u, err := net.ListenPacket("udp", addr)
		_ = l.Close()
		if err != nil {
			continue
		}
		_ = u.Close()
		return p, nil
	}
	return 0, errors.New("stack: no free loopback port found")
}

func (s *Stack) prepareListeners(l Listen) error {
	ip := l.IP
	if ip == "" {
		ip = defaultListenIP()
	}
	pick := func() (string, error) {
		p, err := freePort(ip)
		if err != nil {
			return "", err
		}
		return net.JoinHostPort(ip, fmt.Sprint(p)), nil
	}
	var err error
	// UDP+TCP are critical listeners: the server always binds them in Run.
	if s.Cfg.Bind, err = pick(); err != nil {
		return err
	}
	s.addrs.UDP, s.addrs.TCP = s.Cfg.Bind, s.Cfg.Bind
	if l.DoT {
		if s.Cfg.BindTLS, err = pick(); err != nil {
			return err
		}
		s.addrs.DoT = s.Cfg.BindTLS
	}
	if l.DoH {
		if s.Cfg.BindDOH, err = pick(); err != nil {
			return err
		}
		s.addrs.DoH = s.Cfg.BindDOH
	}
	if l.DoQ {
		if s.Cfg.BindDOQ, err = pick(); err != nil {
			return err
		}
		s.addrs.DoQ = s.Cfg.BindDOQ
	}
	if l.DoT || l.DoH || l.DoQ {
		certPath := filepath.Join(s.dir, "tls", "cert.pem")
		keyPath := filepath.Join(s.dir, "tls", "key.pem")
		pemBytes, err := writeSelfSigned(certPath, keyPath, ip)
		if err != nil {
			return err
		}
		s.tlsPEM = pemBytes
		s.Cfg.TLSCertificate, s.Cfg.TLSPrivateKey = certPath, keyPath
	}
	return nil
}

func (s *Stack) run(l Listen) error {
	ctx, cancel := context.WithCancel(context.Background())
	if err := s.Server.Run(ctx); err != nil {
		cancel()
		return fmt.Errorf("stack: server.Run: %w", err)
	}
	s.cancel = cancel
	s.ran = true
	want := []string{"udp", "tcp"}
	if l.DoT {
		want = append(want, "tls")
	}
	if l.DoH {
		want = append(want, "doh")
	}
	if l.DoQ {
		want = append(want, "doq")
	}
	deadline := time.Now().Add(10 * time.Second)
	for _, p := range want {
		for !s.Server.HasListener(p) {
			if time.Now().After(deadline) {
				return fmt.Errorf("stack: listener %s did not start", p)
			}
			time.Sleep(time.Millisecond)
		}
	}
	return nil
}

func writeSelfSigned(certPath, keyPath, ip string) ([]byte, error) {
	if err := os.MkdirAll(filepath.Dir(certPath), 0o700); err != nil {
		return nil, err
	}
	key, err := ecdsa.GenerateKey(elliptic.P256(), rand.Reader)
	if err != nil {
		return nil, err
	}
	serial, _ := rand.Int(rand.Reader, big.NewInt(1<<62))
	tmpl := &x509.Certificate{
		SerialNumber:          serial,
		Subject:               pkix.Name{CommonName: "verif-stack"},
		NotBefore:             time.Now().Add(-time.Hour),
		NotAfter:              time.Now().Add(48 * time.Hour),
		KeyUsage:              x509.KeyUsageDigitalSignature | x509.KeyUsageCertSign,
		ExtKeyUsage:           []x509.ExtKeyUsage{x509.ExtKeyUsageServerAuth},
		BasicConstraintsValid: true,
		IsCA:                  true,
		DNSNames:              []string{"localhost", "verif.test"},
		IPAddresses:           []net.IP{net.ParseIP("127.0.0.1"), net.ParseIP(ip)},
	}
	der, err := x509.CreateCertificate(rand.Reader, tmpl, tmpl, &key.PublicKey, key)
	if err != nil {
		return nil, err
	}
	keyDER, err := x509.MarshalECPrivateKey(key)
	if err != nil {
		return nil, err
	}
	certPEM := pem.EncodeToMemory(&pem.Block{Type: "CERTIFICATE", Bytes: der})
	keyPEM := pem.EncodeToMemory(&pem.Block{Type: "EC PRIVATE KEY", Bytes: keyDER})
	if err := os.WriteFile(certPath, certPEM, 0o600); err != nil {
		return nil, err
	}
	if err := os.WriteFile(keyPath, keyPEM, 0o600); err != nil {
		return nil, err
	}
	return certPEM, nil
}

// ---------------------------------------------------------------------
// Clients (raw bytes in, raw bytes out; any 127.x.y.z source address)
// ---------------------------------------------------------------------

// ErrNoReply means the exchange timed out without a reply (for UDP this is
// the legitimate outcome of a dropped / ignored packet).
var ErrNoReply = errors.New("stack: no reply within timeout")

// Client talks to a Stack's real listeners. SrcIP ("" = kernel's choice) is
// the local address every connection binds to. Stream connections (TCP, DoT,
// DoH, DoQ) are kept open and reused until Close. A Client is safe for use by
// one goroutine at a time.
type Client struct {
	Addrs   Addrs
	SrcIP   string
	Timeout time.Duration // per exchange; default 3s
	tlsConf *tls.Config

	mu    sync.Mutex
	tcp   net.Conn
	dot   net.Conn
	h2    *http.Client
	h2tr  *http.Transport
	qconn *quic.Conn
	qpc   net.PacketConn
}

// NewClient returns a client for this stack's listeners bound to srcIP.
func (s *Stack) NewClient(srcIP string) *Client {
	c := &Client{Addrs: s.addrs, SrcIP: srcIP, Timeout: 3 * time.Second}
	if s.tlsPEM != nil {
		pool := x509.NewCertPool()
		pool.AppendCertsFromPEM(s.tlsPEM)
		c.tlsConf = &tls.Config{RootCAs: pool, ServerName: "localhost", MinVersion: tls.VersionTLS12}
	}
	return c
}

func (c *Client) timeout() time.Duration {
	if c.Timeout > 0 {
		return c.Timeout
	}
	return 3 * time.Second
}

func (c *Client) local(network string) net.Addr {
	if c.SrcIP == "" {
		return nil
	}
	ip := net.ParseIP(c.SrcIP)
	if network == "udp" {
		return &net.UDPAddr{IP: ip}
	}
	return &net.TCPAddr{IP: ip}
}

// UDP sends one datagram from a fresh socket and waits for one reply
// datagram (whatever its ID). ErrNoReply on timeout.
func (c *Client) UDP(pkt []byte) ([]byte, error) {
	d := net.Dialer{LocalAddr: c.local("udp"), Timeout: c.timeout()}
	conn, err := d.Dial("udp", c.Addrs.UDP)
	if err != nil {
		return nil, err
	}
	defer conn.Close()
	if _, err := conn.Write(pkt); err != nil {
		return nil, err
	}
	_ = conn.SetReadDeadline(time.Now().Add(c.timeout()))
	buf := make([]byte, 65535)
	n, err := conn.Read(buf)
	if err != nil {
		var ne net.Error
		if errors.As(err, &ne) && ne.Timeout() {
			return nil, ErrNoReply
		}
		return nil, err
	}
	return buf[:n], nil
}

func streamExchange(conn net.Conn, pkt []byte, timeout time.Duration) ([]byte, error) {
	_ = conn.SetDeadline(time.Now().Add(timeout))
	frame := make([]byte, 2+len(pkt))
	binary.BigEndian.PutUint16(frame, uint16(len(pkt)))
	copy(frame[2:], pkt)
	if _, err := conn.Write(frame); err != nil {
		return nil, err
	}
	var l [2]byte
	if _, err := io.ReadFull(conn, l[:]); err != nil {
		var ne net.Error
		if errors.As(err, &ne) && ne.Timeout() {
			return nil, ErrNoReply
		}
		return nil, err
	}
	out := make([]byte, binary.BigEndian.Uint16(l[:]))
	if _, err := io.ReadFull(conn, out); err != nil {
		return nil, err
	}
	return out, nil
}

// TCP exchanges one framed message on the client's persistent TCP connection
// (dialled on first use; redialled once if the server closed it).
func (c *Client) TCP(pkt []byte) ([]byte, error) {
	return c.stream(&c.tcp, pkt, func() (net.Conn, error) {
		d := net.Dialer{LocalAddr: c.local("tcp"), Timeout: c.timeout()}
		return d.Dial("tcp", c.Addrs.TCP)
	})
}

// DoT is TCP over TLS (RFC 7858).
func (c *Client) DoT(pkt []byte) ([]byte, error) {
	return c.stream(&c.dot, pkt, func() (net.Conn, error) {
		d := &tls.Dialer{NetDialer: &net.Dialer{LocalAddr: c.local("tcp"), Timeout: c.timeout()}, Config: c.tlsConf}
		return d.Dial("tcp", c.Addrs.DoT)
	})
}

func (c *Client) stream(slot *net.Conn, pkt []byte, dial func() (net.Conn, error)) ([]byte, error) {
	c.mu.Lock()
	defer c.mu.Unlock()
	for attempt := 0; ; attempt++ {
		fresh := false
		if *slot == nil {
			conn, err := dial()
			if err != nil {
				return nil, err
			}
			*slot = conn
			fresh = true
		}
		out, err := streamExchange(*slot, pkt, c.timeout())
		if err == nil {
			return out, nil
		}
		_ = (*slot).Close()
		*slot = nil
		// A reused connection may have hit the server's idle timeout or
		// per-connection query cap: retry once on a fresh one. A timeout is
		// a verdict-relevant "no reply" and is returned as is.
		if fresh || attempt > 0 || errors.Is(err, ErrNoReply) {
			return nil, err
		}
	}
}

// ResetStreams closes the persistent TCP / DoT connections so the next
// exchange dials a fresh one.
func (c *Client) ResetStreams() {
	c.mu.Lock()
	for _, s := range []*net.Conn{&c.tcp, &c.dot} {
		if *s != nil {
			_ = (*s).Close()
			*s = nil
		}
	}
	c.mu.Unlock()
}

func (c *Client) httpClient() *http.Client {
	if c.h2 != nil {
		return c.h2
	}
	d := &net.Dialer{LocalAddr: c.local("tcp"), Timeout: c.timeout()}
	c.h2tr = &http.Transport{
		DialContext:       d.DialContext,
		TLSClientConfig:   c.tlsConf.Clone(),
		ForceAttemptHTTP2: true,
		MaxIdleConns:      4,
		IdleConnTimeout:   30 * time.Second,
	}
	c.h2 = &http.Client{Transport: c.h2tr, Timeout: c.timeout()}
	return c.h2
}

// DoHResult carries the HTTP facts next to the DNS payload.
type DoHResult struct {
	Status int
	Proto  string // "HTTP/2.0"
	Body   []byte // DNS message when Status == 200
}

// DoH sends one RFC 8484 request (method "GET" or "POST") over HTTP/2.
func (c *Client) DoH(method string, pkt []byte) (*DoHResult, error) {
	c.mu.Lock()
	defer c.mu.Unlock()
	hc := c.httpClient()
	url := "https://" + c.Addrs.DoH + "/dns-query"
	var req *http.Request
	var err error
	if method == http.MethodGet {
		req, err = http.NewRequest(http.MethodGet, url+"?dns="+base64.RawURLEncoding.EncodeToString(pkt), nil)
	} else {
		req, err = http.NewRequest(http.MethodPost, url, bytes.NewReader(pkt))
		if req != nil {
			req.Header.Set("Content-Type", "application/dns-message")
		}
	}
	if err != nil {
		return nil, err
	}
	req.Header.Set("Accept", "application/dns-message")
	resp, err := hc.Do(req)
	if err != nil {
		return nil, err
	}
	defer resp.Body.Close()
	body, err := io.ReadAll(io.LimitReader(resp.Body, 1<<17))
	if err != nil {
		return nil, err
	}
	return &DoHResult{Status: resp.StatusCode, Proto: resp.Proto, Body: body}, nil
}

// DoQ sends one query on a new bidirectional stream of the client's QUIC
// connection (RFC 9250): 2-byte length prefix, FIN, read the framed reply.
func (c *Client) DoQ(pkt []byte) ([]byte, error) {
	c.mu.Lock()
	defer c.mu.Unlock()
	ctx, cancel := context.WithTimeout(context.Background(), c.timeout())
	defer cancel()
	for attempt := 0; ; attempt++ {
		fresh := false
		if c.qconn == nil {
			pc, err := net.ListenUDP("udp", &net.UDPAddr{IP: net.ParseIP(c.SrcIP)})
			if err != nil {
				return nil, err
			}
			raddr, err := net.ResolveUDPAddr("udp", c.Addrs.DoQ)
			if err != nil {
				_ = pc.Close()
				return nil, err
			}
			tc := c.tlsConf.Clone()
			tc.NextProtos = []string{"doq"}
			conn, err := quic.Dial(ctx, pc, raddr, tc, &quic.Config{MaxIdleTimeout: 20 * time.Second})
			if err != nil {
				_ = pc.Close()
				return nil, err
			}
			c.qconn, c.qpc = conn, pc
			fresh = true
		}
		out, err := doqExchange(ctx, c.qconn, pkt)
		if err == nil {
			return out, nil
		}
		c.closeQUIC()
		if fresh || attempt > 0 || errors.Is(err, ErrNoReply) {
			return nil, err
		}
	}
}

func doqExchange(ctx context.Context, conn *quic.Conn, pkt []byte) ([]byte, error) {
	st, err := conn.OpenStreamSync(ctx)
	if err != nil {
		return nil, err
	}
	if dl, ok := ctx.Deadline(); ok {
		_ = st.SetDeadline(dl)
	}
	frame := make([]byte, 2+len(pkt))
	binary.BigEndian.PutUint16(frame, uint16(len(pkt)))
	copy(frame[2:], pkt)
	if _, err := st.Write(frame); err != nil {
		return nil, err
	}
	_ = st.Close() // FIN: the server reads to EOF
	buf, err := io.ReadAll(io.LimitReader(st, 1<<17))
	if err != nil {
		var ne net.Error
		if errors.As(err, &ne) && ne.Timeout() {
			return nil, ErrNoReply
		}
		return nil, err
	}
	if len(buf) == 0 {
		return nil, ErrNoReply // stream closed without a reply
	}
	if len(buf) < 2 || int(binary.BigEndian.Uint16(buf)) != len(buf)-2 {
		return nil, fmt.Errorf("stack: malformed DoQ frame (%d bytes)", len(buf))
	}
	return buf[2:], nil
}

func (c *Client) closeQUIC() {
	if c.qconn != nil {
		_ = c.qconn.CloseWithError(0, "")
		c.qconn = nil
	}
	if c.qpc != nil {
		_ = c.qpc.Close()
		c.qpc = nil
	}
}

// Exchange dispatches on a transport name: "udp", "tcp", "dot", "doh-get",
// "doh-post" (alias "doh"), "doq". For DoH a non-200 status is reported as an
// error of type *DoHStatusError.
func (c *Client) Exchange(transport string, pkt []byte) ([]byte, error) {
	switch transport {
	case "udp":
		return c.UDP(pkt)
	case "tcp":
		return c.TCP(pkt)
	case "dot":
		return c.DoT(pkt)
	case "doq":
		return c.DoQ(pkt)
	case "doh", "doh-post", "doh-get":
		m := http.MethodPost
		if transport == "doh-get" {
			m = http.MethodGet
		}
		r, err := c.DoH(m, pkt)
		if err != nil {
			return nil, err
		}
		if r.Status != http.StatusOK {
			return nil, &DoHStatusError{Status: r.Status}
		}
		return r.Body, nil
	}
	return nil, fmt.Errorf("stack: unknown transport %q", transport)
}

// DoHStatusError is a non-200 DoH response.
type DoHStatusError struct{ Status int }

func (e *DoHStatusError) Error() string { return fmt.Sprintf("stack: DoH status %d", e.Status) }

// Close releases every connection the client holds.
func (c *Client) Close() {
	c.ResetStreams()
	c.mu.Lock()
	if c.h2tr != nil {
		c.h2tr.CloseIdleConnections()
		c.h2tr, c.h2 = nil, nil
	}
	c.closeQUIC()
	c.mu.Unlock()
}
