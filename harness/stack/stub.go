package stack

import (
	"context"
	"fmt"
	"net"
	"sync"
	"sync/atomic"
	"time"

	"github.com/miekg/dns"

	"github.com/semihalev/sdns/middleware"
)

// StubFunc scripts the terminal handler: it is called once per request that
// reaches the end of the chain ("handed to resolution"). Returning nil means
// DefaultStub's reply. It may be called concurrently.
type StubFunc func(ctx context.Context, req *StubRequest) *StubReply

// StubRequest is what the stub saw — i.e. what would have gone to the
// resolver / upstream.
type StubRequest struct {
	Seq   uint64       // global invocation number (1-based)
	Nth   int          // invocation number for this (name,type,class) (1-based)
	Q     dns.Question // question as received (case preserved)
	Msg   *dns.Msg     // private copy of the request as the stub received it
	// Live is the request message the chain itself carries (NOT a copy). Use
	// it only to reproduce what the real resolver does with it — e.g. attach
	// Live.IsEdns0() to the response so the response OPT *is* the request
	// OPT (resolver.clearAdditional). Do not mutate it otherwise.
	Live *dns.Msg
	ID    uint16
	RD    bool
	CD    bool
	AD    bool
	DO    bool     // DO bit of the request OPT as seen here (edns forces it on)
	OPT   *dns.OPT // copy of the OPT as seen here (nil if none)
	Codes []uint16 // option codes on that OPT, in order
	ECS   *dns.EDNS0_SUBNET
	// Transport facts of the chain's writer.
	Proto      string
	ClientIP   net.IP
	ClientAddr string
	Internal   bool // internal sub-query (queryer / prefetch), not a client request
	ClientECS  bool // middleware.HasClientECS(ctx): the client request carried ECS
	Time       time.Time
}

// Key is the canonical (lower-cased name, type, class) key of the question.
func (r *StubRequest) Key() string { return QKey(r.Q) }

// QKey canonicalises a question.
func QKey(q dns.Question) string {
	return fmt.Sprintf("%s/%d/%d", dns.CanonicalName(q.Name), q.Qtype, q.Qclass)
}

// StubReply is the scripted upstream behaviour for one invocation.
type StubReply struct {
	// Msg, when non-nil, is the response. Unless Verbatim is set the stub
	// stamps the header fields a resolver derives from the request (Id,
	// QR=1, opcode, RD, CD, RA=1) and fills an empty question section from
	// the request; everything else (rcode, AA/AD/TC, sections, OPT with any
	// options, any size) is the script's.
	Msg      *dns.Msg
	Verbatim bool
	// Rcode is used when Msg is nil: an empty response with this rcode
	// (request OPT re-attached, as the real resolver does).
	Rcode int
	// EDE, when non-nil, is added to the response OPT (an OPT is created if
	// the response has none).
	EDE *dns.EDNS0_EDE
	// ECSScope, when >= 0, answers the request's ECS option (if the stub saw
	// one) with this scope prefix length on the response OPT, like a
	// tailoring authority (RFC 7871 §7.2.1). Use -1 (or leave the zero value
	// with HasECSScope false) for none.
	ECSScope    int
	HasECSScope bool
	// CutUntil / CutKey bound the answer's cache lifetime to a delegation
	// lease through middleware.ResponseMetaFrom(ctx).BoundCutFor.
	CutUntil time.Time
	CutKey   uint64
	// Negative marks the response as carrying resolver-validated negative
	// provenance (middleware.MarkValidatedNegativeProofResponse). Proof is
	// ignored (the mark always originates at the response).
	Negative *middleware.ValidatedNegativeProof
	// Sleep delays the reply. Gate, when non-nil, blocks until the channel
	// is closed / receives, the request context ends, or the Stack closes.
	Sleep time.Duration
	Gate  <-chan struct{}
	// Drop: never answer (return without writing; the chain is cancelled).
	Drop bool
	// Panic, when non-nil, panics with this value inside the handler.
	Panic any
	// After runs just before the response is written (same goroutine), with
	// the final response message; for monitors that need the exact pointer.
	After func(ctx context.Context, resp *dns.Msg)
}

// Stub is the terminal handler standing in for the resolver.
type Stub struct {
	fn    atomic.Pointer[StubFunc]
	stack *Stack

	inflight atomic.Int64
	seq      atomic.Uint64

	mu       sync.Mutex
	counts   map[string]int
	log      []*StubRequest
	logLimit int
	closing  chan struct{}
	closed   bool
}

func newStub(fn StubFunc, s *Stack) *Stub {
	st := &Stub{stack: s, counts: map[string]int{}, logLimit: 1 << 16, closing: make(chan struct{})}
	st.fn.Store(&fn)
	return st
}

// Name implements middleware.Handler.
func (s *Stub) Name() string { return StubName }

// Set replaces the script (safe while requests are running).
func (s *Stub) Set(fn StubFunc) {
	if fn == nil {
		fn = DefaultStub
	}
	s.fn.Store(&fn)
}

// SetLogLimit bounds the request log (default 65536; older entries are
// dropped first). 0 disables logging (counts are still kept).
func (s *Stub) SetLogLimit(n int) {
	s.mu.Lock()
	s.logLimit = n
	if len(s.log) > n {
		s.log = append([]*StubRequest(nil), s.log[len(s.log)-n:]...)
	}
	s.mu.Unlock()
}

// Total is the number of invocations so far.
func (s *Stub) Total() uint64 { return s.seq.Load() }

// Calls is the number of invocations for a question (case-insensitive name).
func (s *Stub) Calls(name string, qtype, qclass uint16) int {
	s.mu.Lock()
	defer s.mu.Unlock()
	return s.counts[QKey(dns.Question{Name: name, Qtype: qtype, Qclass: qclass})]
}

// Log returns a snapshot of the recorded requests (oldest first).
func (s *Stub) Log() []*StubRequest {
	s.mu.Lock()
	defer s.mu.Unlock()
	return append([]*StubRequest(nil), s.log...)
}

// LogSince returns recorded requests with Seq > seq.
func (s *Stub) LogSince(seq uint64) []*StubRequest {
	s.mu.Lock()
	defer s.mu.Unlock()
	var out []*StubRequest
	for _, r := range s.log {
		if r.Seq > seq {
			out = append(out, r)
		}
	}
	return out
}

// Reset forgets counts and the log (not the script).
func (s *Stub) Reset() {
	s.mu.Lock()
	s.counts = map[string]int{}
	s.log = nil
	s.mu.Unlock()
}

// InFlight is the number of invocations currently inside the stub.
func (s *Stub) InFlight() int64 { return s.inflight.Load() }

func (s *Stub) releaseAll() {
	s.mu.Lock()
	if !s.closed {
		s.closed = true
		close(s.closing)
	}
	s.mu.Unlock()
}

// DefaultStub answers A / AAAA / TXT with a provenance marker of generation
// 0, everything else with an empty NOERROR; RA set; the request's OPT
// re-attached (as the real resolver's clearAdditional does).
func DefaultStub(_ context.Context, req *StubRequest) *StubReply {
	m := new(dns.Msg)
	if rr := MarkerRR(0, req.Q.Name, req.Q.Qtype, 300); rr != nil && req.Q.Qclass == dns.ClassINET {
		m.Answer = []dns.RR{rr}
	}
	if req.OPT != nil {
		m.Extra = append(m.Extra, dns.Copy(req.OPT))
	}
	return &StubReply{Msg: m}
}

// ServeDNS implements middleware.Handler.
func (s *Stub) ServeDNS(ctx context.Context, ch *middleware.Chain) {
	ctx, req := ch.Materialize(ctx)
	if req == nil {
		return
	}
	s.inflight.Add(1)
	defer s.inflight.Add(-1)

	w := ch.Writer
	sr := &StubRequest{
		Seq:       s.seq.Add(1),
		Msg:       req.Copy(),
		Live:      req,
		ID:        req.Id,
		RD:        req.RecursionDesired,
		CD:        req.CheckingDisabled,
		AD:        req.AuthenticatedData,
		Proto:     w.Proto(),
		Internal:  w.Internal(),
		ClientECS: middleware.HasClientECS(ctx),
		Time:      time.Now(),
	}
	if len(req.Question) > 0 {
		sr.Q = req.Question[0]
	}
	if ip := w.RemoteIP(); ip != nil {
		sr.ClientIP = append(net.IP(nil), ip...)
	}
	if ra := w.RemoteAddr(); ra != nil {
		sr.ClientAddr = ra.String()
	}
	if opt := sr.Msg.IsEdns0(); opt != nil {
		sr.OPT = opt
		sr.DO = opt.Do()
		for _, o := range opt.Option {
			sr.Codes = append(sr.Codes, o.Option())
			if e, ok := o.(*dns.EDNS0_SUBNET); ok && sr.ECS == nil {
				sr.ECS = e
			}
		}
	}
	key := sr.Key()
	s.mu.Lock()
	s.counts[key]++
	sr.Nth = s.counts[key]
	if s.logLimit > 0 {
		if len(s.log) >= s.logLimit {
			n := copy(s.log, s.log[len(s.log)-s.logLimit/2:])
			s.log = s.log[:n]
		}
		s.log = append(s.log, sr)
	}
	s.mu.Unlock()

	fn := *s.fn.Load()
	rep := fn(ctx, sr)
	if rep == nil {
		rep = DefaultStub(ctx, sr)
	}

	if rep.Sleep > 0 {
		t := time.NewTimer(rep.Sleep)
		select {
		case <-t.C:
		case <-ctx.Done():
		case <-s.closing:
		}
		t.Stop()
	}
	if rep.Gate != nil {
		select {
		case <-rep.Gate:
		case <-ctx.Done():
		case <-s.closing:
		}
	}
	if rep.Panic != nil {
		panic(rep.Panic)
	}
	if rep.Drop {
		ch.Cancel()
		return
	}

	resp := rep.Msg
	if resp == nil {
		resp = new(dns.Msg)
		resp.SetRcode(req, rep.Rcode)
		resp.RecursionAvailable = true
		if opt := req.IsEdns0(); opt != nil {
			resp.Extra = append(resp.Extra, opt)
		}
	} else if !rep.Verbatim {
		resp.Id = req.Id
		resp.Response = true
		resp.Opcode = req.Opcode
		resp.RecursionDesired = req.RecursionDesired
		resp.CheckingDisabled = req.CheckingDisabled
		resp.RecursionAvailable = true
		if len(resp.Question) == 0 {
			resp.Question = append([]dns.Question(nil), req.Question...)
		}
	}
	if rep.EDE != nil {
		respOPT(resp).Option = append(respOPT(resp).Option, rep.EDE)
	}
	if rep.HasECSScope && rep.ECSScope >= 0 && sr.ECS != nil {
		e := *sr.ECS
		e.SourceScope = uint8(rep.ECSScope)
		opt := respOPT(resp)
		opt.Option = append(opt.Option, &e)
	}
	if !rep.CutUntil.IsZero() {
		if meta := middleware.ResponseMetaFrom(ctx); meta != nil {
			meta.BoundCutFor(rep.CutUntil, rep.CutKey)
		}
	}
	if rep.Negative != nil {
		middleware.MarkValidatedNegativeProofResponse(ctx, resp, *rep.Negative)
	}
	if rep.After != nil {
		rep.After(ctx, resp)
	}
	_ = ch.Writer.WriteMsg(resp)
	ch.Cancel()
}

func respOPT(m *dns.Msg) *dns.OPT {
	if opt := m.IsEdns0(); opt != nil {
		return opt
	}
	opt := new(dns.OPT)
	opt.Hdr.Name = "."
	opt.Hdr.Rrtype = dns.TypeOPT
	opt.SetUDPSize(1232)
	m.Extra = append(m.Extra, opt)
	return opt
}

// Rules is a small rule table usable as a StubFunc: the most specific rule
// wins (exact name+type, then name with type 0 = any type, then Default).
type Rules struct {
	mu      sync.RWMutex
	rules   map[string]StubFunc
	Default StubFunc
}

// NewRules returns an empty table.
func NewRules() *Rules { return &Rules{rules: map[string]StubFunc{}} }

func ruleKey(name string, qtype uint16) string {
	return fmt.Sprintf("%s/%d", dns.CanonicalName(name), qtype)
}

// On installs a scripted behaviour for (name, qtype); qtype 0 matches any.
func (r *Rules) On(name string, qtype uint16, fn StubFunc) *Rules {
	r.mu.Lock()
	r.rules[ruleKey(name, qtype)] = fn
	r.mu.Unlock()
	return r
}

// Answer installs a fixed answer section (NOERROR) for (name, qtype).
func (r *Rules) Answer(name string, qtype uint16, rrs ...dns.RR) *Rules {
	return r.On(name, qtype, func(_ context.Context, req *StubRequest) *StubReply {
		m := new(dns.Msg)
		for _, rr := range rrs {
			m.Answer = append(m.Answer, dns.Copy(rr))
		}
		if req.OPT != nil {
			m.Extra = append(m.Extra, dns.Copy(req.OPT))
		}
		return &StubReply{Msg: m}
	})
}

// Func is the StubFunc view of the table.
func (r *Rules) Func(ctx context.Context, req *StubRequest) *StubReply {
	r.mu.RLock()
	fn := r.rules[ruleKey(req.Q.Name, req.Q.Qtype)]
	if fn == nil {
		fn = r.rules[ruleKey(req.Q.Name, 0)]
	}
	if fn == nil {
		fn = r.Default
	}
	r.mu.RUnlock()
	if fn == nil {
		return nil
	}
	return fn(ctx, req)
}
