package stack

import (
	"fmt"
	"hash/fnv"
	"net"
	"strconv"
	"strings"

	"github.com/miekg/dns"
)

// Provenance markers: every generated RRset embeds the generation that
// produced it, plus a short hash of (owner, type), so a reply identifies
// which admission it came from and whether it belongs to the question.
//
//	A     10.<h8>.<gen hi>.<gen lo>                gen in [0, 65535]
//	AAAA  2001:db8:<h16>::<gen32 hi>:<gen32 lo>    gen in [0, 2^32)
//	TXT   "verif g=<gen> o=<canonical owner> t=<type>"
func ownerHash(owner string, qtype uint16) uint16 {
	h := fnv.New32a()
	_, _ = h.Write([]byte(dns.CanonicalName(owner)))
	_, _ = h.Write([]byte{byte(qtype >> 8), byte(qtype)})
	v := h.Sum32()
	return uint16(v ^ v>>16)
}

// MarkerA returns the marker address for (gen, owner, A).
func MarkerA(gen uint32, owner string) net.IP {
	h := ownerHash(owner, dns.TypeA)
	return net.IPv4(10, byte(h), byte(gen>>8), byte(gen)).To4()
}

// MarkerAAAA returns the marker address for (gen, owner, AAAA).
func MarkerAAAA(gen uint32, owner string) net.IP {
	h := ownerHash(owner, dns.TypeAAAA)
	ip := net.ParseIP("2001:db8::")
	ip[4], ip[5] = byte(h>>8), byte(h)
	ip[12], ip[13], ip[14], ip[15] = byte(gen>>24), byte(gen>>16), byte(gen>>8), byte(gen)
	return ip
}

// MarkerTXT returns the marker string for (gen, owner, type).
func MarkerTXT(gen uint32, owner string, qtype uint16) string {
	return fmt.Sprintf("verif g=%d o=%s t=%d", gen, dns.CanonicalName(owner), qtype)
}

// MarkerRR builds the marker record for a question type (A, AAAA, TXT); nil
// for other types.
func MarkerRR(gen uint32, owner string, qtype uint16, ttl uint32) dns.RR {
	hdr := dns.RR_Header{Name: owner, Rrtype: qtype, Class: dns.ClassINET, Ttl: ttl}
	switch qtype {
	case dns.TypeA:
		return &dns.A{Hdr: hdr, A: MarkerA(gen, owner)}
	case dns.TypeAAAA:
		return &dns.AAAA{Hdr: hdr, AAAA: MarkerAAAA(gen, owner)}
	case dns.TypeTXT:
		return &dns.TXT{Hdr: hdr, Txt: []string{MarkerTXT(gen, owner, qtype)}}
	}
	return nil
}

// ParseMarker extracts (generation, belongs) from a marker record: belongs
// reports whether the embedded owner/type hash matches the record's own
// owner and type. ok is false when rr is not a marker record.
func ParseMarker(rr dns.RR) (gen uint32, belongs, ok bool) {
	switch v := rr.(type) {
	case *dns.A:
		ip := v.A.To4()
		if ip == nil || ip[0] != 10 {
			return 0, false, false
		}
		return uint32(ip[2])<<8 | uint32(ip[3]), ip[1] == byte(ownerHash(v.Hdr.Name, dns.TypeA)), true
	case *dns.AAAA:
		ip := v.AAAA.To16()
		if ip == nil || ip[0] != 0x20 || ip[1] != 0x01 || ip[2] != 0x0d || ip[3] != 0xb8 {
			return 0, false, false
		}
		h := ownerHash(v.Hdr.Name, dns.TypeAAAA)
		gen = uint32(ip[12])<<24 | uint32(ip[13])<<16 | uint32(ip[14])<<8 | uint32(ip[15])
		return gen, ip[4] == byte(h>>8) && ip[5] == byte(h), true
	case *dns.TXT:
		if len(v.Txt) != 1 || !strings.HasPrefix(v.Txt[0], "verif g=") {
			return 0, false, false
		}
		f := strings.Fields(v.Txt[0])
		if len(f) != 4 {
			return 0, false, false
		}
		g, err := strconv.ParseUint(strings.TrimPrefix(f[1], "g="), 10, 32)
		if err != nil {
			return 0, false, false
		}
		want := MarkerTXT(uint32(g), v.Hdr.Name, v.Hdr.Rrtype)
		return uint32(g), v.Txt[0] == want, true
	}
	return 0, false, false
}
