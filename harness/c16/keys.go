package main

import (
	"math"
	"math/rand/v2"

	"github.com/semihalev/sdns/internal/cache"
)

// The tables place a key by h = key * 0x9E3779B9 (mod 2^64): slot index
// (h ^ h>>16) & mask, segment (h>>16) & segmentMask. The multiplier is odd, so h
// can be chosen first and the key recovered with the modular inverse. That
// knowledge is only used to PROPOSE keys: every proposal is verified against the
// real index functions through the hooks (VerifC16PrimaryIndex / VerifC16SegmentOf)
// and, if the tree's hash ever changes, generation falls back to brute force over
// the hooks.
const hashMul = uint64(0x9E3779B9)

func modInverse(a uint64) uint64 {
	x := a // correct to 3 bits for odd a
	for i := 0; i < 6; i++ {
		x *= 2 - a*x
	}
	return x
}

var hashInv = modInverse(hashMul)

// keyOracle answers "which slot / which segment would this key get" using the
// real code: a 65536-bucket UInt64Map gives the 16 low bits of the primary index
// (tables up to 65536 buckets use a suffix of those bits), a 256-segment map
// gives the segment (smaller segment counts use a suffix of those bits).
type keyOracle struct {
	probe        *cache.UInt64Map[struct{}]
	seg          *cache.SegmentUInt64Map[struct{}]
	constructive bool
	fallbacks    int
}

func newKeyOracle() *keyOracle {
	o := &keyOracle{
		probe: cache.NewUInt64Map[struct{}](49152), // /0.75 -> 65536 buckets
		seg:   cache.NewSegmentUInt64Map[struct{}](8, 0),
	}
	o.constructive = o.probe.VerifC16Buckets() == 65536
	if o.constructive {
		rng := rand.New(rand.NewPCG(16, 16))
		for i := 0; i < 64 && o.constructive; i++ {
			s, p := rng.IntN(256), rng.IntN(65536)
			k := construct(rng, s, p)
			if o.idx16(k) != p || o.segOf(k) != s {
				o.constructive = false
			}
		}
	}
	return o
}

func (o *keyOracle) idx16(k uint64) int { return o.probe.VerifC16PrimaryIndex(k) & 0xFFFF }
func (o *keyOracle) segOf(k uint64) int { return o.seg.VerifC16SegmentOf(k) }

func construct(rng *rand.Rand, seg, p16 int) uint64 {
	for {
		upper := rng.Uint64() >> 16 // bits 16..63 of h
		if seg >= 0 {
			upper = upper&^0xFF | uint64(seg)
		}
		low := rng.Uint64() & 0xFFFF
		if p16 >= 0 {
			low = uint64(p16) ^ (upper & 0xFFFF)
		}
		h := upper<<16 | low
		if k := h * hashInv; k != 0 {
			return k
		}
	}
}

// key returns a non-zero key in segment seg (of 256; -1 = any) whose primary
// index has the 16 low bits p16 (-1 = any).
func (o *keyOracle) key(rng *rand.Rand, seg, p16 int) uint64 {
	ok := func(k uint64) bool {
		return k != 0 && (seg < 0 || o.segOf(k) == seg) && (p16 < 0 || o.idx16(k) == p16)
	}
	if o.constructive {
		if k := construct(rng, seg, p16); ok(k) {
			return k
		}
	}
	// brute force over the hooks; relax the index constraint to its low 8 bits
	// (tables up to 256 buckets) to keep the search bounded
	for i := 0; i < 1<<22; i++ {
		k := rng.Uint64()
		if k != 0 && (seg < 0 || o.segOf(k) == seg) && (p16 < 0 || o.idx16(k)&0xFF == p16&0xFF) {
			return k
		}
	}
	o.fallbacks++
	return rng.Uint64() | 1
}

var edgeKeys = []uint64{1, 2, math.MaxUint64, math.MaxUint64 - 1, 1 << 63, 1 << 32, 1<<32 - 1, 1 << 16, 0xFFFF, hashInv, hashInv << 16, 0x8000000080000000}

// key classes of the property's quantifier
var keyClasses = []string{"seq", "cluster", "collide", "wrap", "random", "sameseg", "mixed"}

// wrapIdx: primary indices whose low bits are all ones / all zeros at EVERY
// table size up to 65536 buckets, i.e. chains that start in the last slots and
// continue at slot 0 whatever the table has grown to.
var wrapIdx = []int{0xFFFF, 0xFFFE, 0xFFFD, 0xFFFC, 0xFFFF, 0xFFFE, 0, 1}

// pool generates n distinct keys of a class. seg >= 0 pins the constructed
// classes (collide/wrap/sameseg/random) to one of 256 segments so a single
// segment's table grows, collides and wraps; seq/cluster keys spread over
// segments by design of the hash. withZero adds the zero key.
func (o *keyOracle) pool(rng *rand.Rand, class string, n, seg int, withZero bool) []uint64 {
	seen := map[uint64]struct{}{}
	out := make([]uint64, 0, n+1)
	add := func(k uint64) {
		if _, dup := seen[k]; dup {
			return
		}
		seen[k] = struct{}{}
		out = append(out, k)
	}
	if withZero {
		add(0)
	}
	gen := func(class string, n int) {
		target := len(out) + n
		switch class {
		case "seq":
			base := uint64(1)
			switch rng.IntN(4) {
			case 0:
				base = rng.Uint64()
			case 1:
				base = math.MaxUint64 - uint64(rng.IntN(n+1)) // runs through 2^64-1 -> 0 -> 1
			case 2:
				base = uint64(rng.IntN(1 << 20))
			}
			for i := 0; len(out) < target && i < 4*n+8; i++ {
				add(base + uint64(i))
			}
		case "cluster":
			nb := 1 + rng.IntN(4)
			bases := make([]uint64, nb)
			for i := range bases {
				bases[i] = rng.Uint64() &^ 0xFFF
				if rng.IntN(3) == 0 {
					bases[i] = uint64(rng.IntN(1<<16)) << 8
				}
			}
			span := uint64(2*n/nb + 4)
			for i := 0; len(out) < target && i < 16*n+64; i++ {
				add(bases[rng.IntN(nb)] + rng.Uint64N(span))
			}
		case "collide":
			// one or two primary indices shared by all keys, plus the next index
			p := rng.IntN(65536)
			for i := 0; len(out) < target && i < 4*n+8; i++ {
				q := p
				if i%5 == 4 {
					q = (p + 1 + rng.IntN(2)) & 0xFFFF
				}
				add(o.key(rng, seg, q))
			}
		case "wrap":
			for i := 0; len(out) < target && i < 4*n+8; i++ {
				add(o.key(rng, seg, wrapIdx[rng.IntN(len(wrapIdx))]))
			}
		case "sameseg":
			s := seg
			if s < 0 {
				s = rng.IntN(256)
			}
			for i := 0; len(out) < target && i < 4*n+8; i++ {
				add(o.key(rng, s, -1))
			}
		default: // random
			for i := 0; len(out) < target && i < 4*n+8; i++ {
				if seg >= 0 && rng.IntN(2) == 0 {
					add(o.key(rng, seg, -1))
				} else {
					add(rng.Uint64())
				}
			}
		}
	}
	if class == "mixed" {
		parts := []string{"seq", "cluster", "collide", "wrap", "random"}
		rem := n
		for i, c := range parts {
			m := rem / (len(parts) - i)
			gen(c, m)
			rem -= m
		}
		for i := 0; i < 3 && i < n; i++ {
			add(edgeKeys[rng.IntN(len(edgeKeys))])
		}
	} else {
		gen(class, n)
	}
	return out
}
