package main

import (
	"fmt"
	"math/rand/v2"
	"sync"
	"sync/atomic"
	"time"

	"github.com/semihalev/sdns/internal/cache"
)

// "Writers never wait on a global lock", in the decidable form of DESIGN §5:
// while the harness holds ONE segment's write lock (taken through the hook the
// same way a writer takes it), every operation on a key of a DIFFERENT segment
// completes. This is the one monitor where a wall-clock bound decides; the bound
// is generous (nolockWait) and the operations take microseconds.
//
// An over-capacity Add collects its eviction toll from the following segments
// "one lock at a time" when its own segment cannot pay, and may then
// legitimately queue behind the held lock; that is waiting on a segment lock,
// not on a global one. The over-capacity scenario therefore gives the writer's
// own segment enough other entries to pay the toll locally. The complementary
// scenario - the writer's segment cannot pay, the writer parks on the held
// segment, and everything else must still get through - is nest.go.

const nolockWait = 20 * time.Second

type nolockCase struct {
	Kind      string `json:"kind"` // "nolock"
	Index     int    `json:"index"`
	Capacity  int    `json:"capacity"`
	Preload   int    `json:"preload"`
	LockedKey uint64 `json:"locked_key"`
	LockedSeg int    `json:"locked_segment"`
	WriterKey uint64 `json:"writer_key"`
	WriterSeg int    `json:"writer_segment"`
	Over      bool   `json:"over_capacity"`
	Op        string `json:"op,omitempty"`
}

type nolockResult struct {
	cs       nolockCase
	fail     *seqFail
	inconc   string
	done     int // other-segment operations completed under the held lock
	blocked  bool
	evicting bool
}

func runNoLock(c *ctx, idx int) *nolockResult {
	rng := c.r.RandN("nolock", idx)
	cs := nolockCase{Kind: "nolock", Index: idx}
	cs.Over = idx%2 == 1
	cs.Capacity = []int{64, 300, 1024, 5000}[rng.IntN(4)]
	return execNoLock(c, rng, cs)
}

func execNoLock(c *ctx, rng *rand.Rand, cs nolockCase) *nolockResult {
	res := &nolockResult{cs: cs}
	t := cache.New(cs.Capacity)
	if cs.LockedKey == 0 && cs.WriterKey == 0 {
		cs.LockedSeg = rng.IntN(256)
		cs.WriterSeg = (cs.LockedSeg + 1 + rng.IntN(255)) % 256
		cs.LockedKey = c.ko.key(rng, cs.LockedSeg, -1)
		cs.WriterKey = c.ko.key(rng, cs.WriterSeg, -1)
	}
	if t.VerifC16SegmentOf(cs.LockedKey) == t.VerifC16SegmentOf(cs.WriterKey) {
		res.inconc = "nolock: could not place two keys in different segments"
		return res
	}
	res.cs = cs
	// preload: spread keys; in the over-capacity scenario fill to capacity and
	// put several entries into the writer's own segment
	own := []uint64{}
	for i := 0; i < 6; i++ {
		own = append(own, c.ko.key(rng, t.VerifC16SegmentOf(cs.WriterKey), -1))
	}
	for i, k := range own {
		t.Add(k, &cv{Key: k, ID: uint64(1000000 + i)})
	}
	t.Add(cs.LockedKey, &cv{Key: cs.LockedKey, ID: 7})
	target := cs.Capacity / 2
	if cs.Over {
		target = cs.Capacity // exactly full: nothing has been evicted yet
	}
	for i := 0; t.Len() < target && i < 4*cs.Capacity; i++ {
		k := rng.Uint64()
		t.Add(k, &cv{Key: k, ID: uint64(i + 1)})
	}
	cs.Preload = t.Len()
	if cs.Over {
		// the next insert of a new key is over capacity; it must find its two
		// victims in its own segment
		sh := t.VerifC16Inner().VerifC16SegmentShape(t.VerifC16SegmentOf(cs.WriterKey))
		if t.Len() < cs.Capacity || sh.Size < 3 {
			res.inconc = fmt.Sprintf("nolock: over-capacity preload failed (len %d cap %d, own segment holds %d)", t.Len(), cs.Capacity, sh.Size)
			return res
		}
		res.evicting = true
	}

	unlock := t.VerifC16LockSegment(cs.LockedKey)
	released := false
	defer func() {
		if !released {
			unlock()
		}
	}()

	// sanity of the instrument: a writer to the LOCKED segment must not finish
	sameDone := make(chan struct{})
	go func() {
		defer close(sameDone)
		t.Add(cs.LockedKey, &cv{Key: cs.LockedKey, ID: 8})
	}()

	type opf struct {
		name string
		f    func()
	}
	wk := cs.WriterKey
	v1 := &cv{Key: wk, ID: 9}
	v2 := &cv{Key: wk, ID: 10}
	ops := []opf{
		{"Add", func() { t.Add(wk, v1) }},
		{"Get", func() { t.Get(wk) }},
		{"CompareAndSwap", func() { t.CompareAndSwap(wk, v1, v2) }},
		{"Add-update", func() { t.Add(wk, v1) }},
		{"CompareAndDelete", func() { t.CompareAndDelete(wk, v1) }},
		{"Add-again", func() { t.Add(wk, v2) }},
		{"Remove", func() { t.Remove(wk) }},
		{"Len", func() { t.Len() }},
	}
	var wg sync.WaitGroup
	for _, o := range ops {
		done := make(chan struct{})
		wg.Add(1)
		go func(o opf) {
			defer wg.Done()
			defer close(done)
			o.f()
		}(o)
		select {
		case <-done:
			res.done++
		case <-time.After(nolockWait):
			cs.Op = o.name
			res.cs = cs
			res.fail = &seqFail{sig: "global-lock/" + o.name, what: fmt.Sprintf("%s on key %#x (segment %d) did not complete within %v while the harness held only the write lock of segment %d: the writer waits on a lock shared across segments", o.name, wk, t.VerifC16SegmentOf(wk), nolockWait, t.VerifC16SegmentOf(cs.LockedKey))}
			unlock()
			released = true
			wg.Wait()
			<-sameDone
			return res
		}
	}
	select {
	case <-sameDone:
		res.inconc = "nolock: a writer to the locked segment completed while the hook held its lock (hook does not lock what writers lock)"
	case <-time.After(30 * time.Millisecond):
		res.blocked = true
	}
	unlock()
	released = true
	<-sameDone
	wg.Wait()
	return res
}

// ---------------------------------------------------------------- concurrent Clear

// Clear racing with writers on the segmented map (the type documents itself as
// thread-safe). Once everything has returned, Len() must equal the number of
// reachable entries.
type clearCase struct {
	Kind    string `json:"kind"` // "clear"
	Table   string `json:"table"`
	Index   int    `json:"index"`
	Writers int    `json:"writers"`
	Rounds  int    `json:"rounds"`
	Len     int    `json:"len"`
	Reach   int    `json:"reachable"`
	Each    int    `json:"foreach"`
}

func runConcClear(c *ctx, idx int) (fail *seqFail, cs clearCase) {
	rng := c.r.RandN("clear", idx)
	cs = clearCase{Kind: "clear", Index: idx, Writers: 2 + rng.IntN(7), Rounds: 40}
	var m interface {
		Set(uint64, any)
		Del(uint64) bool
		Clear()
		Len() int64
		ForEach(func(uint64, any) bool)
	}
	var inner *cache.SegmentUInt64Map[any]
	if idx%2 == 0 {
		cs.Table = "segment"
		s := cache.NewSegmentUInt64Map[any](uint8(4+idx%5), 0)
		m, inner = s, s
	} else {
		cs.Table = "sync"
		s := cache.NewSyncUInt64Map[any](8)
		m, inner = s, s.VerifC16Inner()
	}
	var wg sync.WaitGroup
	start := make(chan struct{})
	var stop atomic.Bool
	for g := 0; g < cs.Writers; g++ {
		wg.Add(1)
		wr := c.r.RandN(fmt.Sprintf("clear/w%d", g), idx)
		go func(g int) {
			defer wg.Done()
			<-start
			// writers keep going until the last Clear has returned (a later
			// Clear repairs the count, so only a race with the last one stays
			// visible); bounded in case the clearer is starved
			for i := 0; i < 4_000_000 && !stop.Load(); i++ {
				k := wr.Uint64N(512) + 1
				if wr.IntN(4) == 0 {
					m.Del(k)
				} else {
					m.Set(k, &cv{Key: k, ID: uint64(g+1)<<32 | uint64(i)})
				}
			}
		}(g)
	}
	wg.Add(1)
	go func() {
		defer wg.Done()
		<-start
		for i := 0; i < cs.Rounds; i++ {
			m.Clear()
		}
		stop.Store(true)
	}()
	close(start)
	wg.Wait()
	n := 0
	m.ForEach(func(uint64, any) bool { n++; return true })
	cs.Len, cs.Reach, cs.Each = int(m.Len()), inner.VerifC16Reachable(), n
	if cs.Len != cs.Reach || cs.Len != cs.Each {
		return &seqFail{sig: "conc-clear/quiescent-miscount", what: fmt.Sprintf("%s map: after Clear() ran concurrently with Set/Del and every goroutine returned, Len()=%d but %d entries are reachable (ForEach yields %d)", cs.Table, cs.Len, cs.Reach, cs.Each)}, cs
	}
	return nil, cs
}

// runClearForced replays the losing schedule of Clear deterministically: the
// harness holds the LAST segment's lock, so Clear() empties segments 0..n-2 and
// then waits; a Set into (already emptied) segment 0 completes meanwhile; the
// lock is released and Clear finishes with count.Store(0).
func runClearForced(c *ctx, table string) (fail *seqFail, cs clearCase, inconc string) {
	cs = clearCase{Kind: "clear", Table: table, Index: -1, Writers: 1, Rounds: 1}
	var set func(uint64, any)
	var get func(uint64) (any, bool)
	var clear func()
	var length func() int64
	var inner *cache.SegmentUInt64Map[any]
	if table == "segment" {
		s := cache.NewSegmentUInt64Map[any](4, 0)
		set, get, clear, length, inner = s.Set, s.Get, s.Clear, s.Len, s
	} else {
		s := cache.NewSyncUInt64Map[any](8)
		set, get, clear, length, inner = s.Set, s.Get, s.Clear, s.Len, s.VerifC16Inner()
	}
	rng := c.r.Rand("clear-forced/" + table)
	nseg := inner.SegmentCount()
	var k0, k1 uint64
	for i := 0; i < 1<<20 && (k0 == 0 || k1 == 0); i++ {
		k := rng.Uint64() | 1
		if inner.VerifC16SegmentOf(k) == 0 {
			if k0 == 0 {
				k0 = k
			} else if k != k0 {
				k1 = k
			}
		}
	}
	if k0 == 0 || k1 == 0 {
		return nil, cs, "clear-forced: no keys found for segment 0"
	}
	set(k0, &cv{Key: k0, ID: 1})
	unlock := inner.VerifC16LockSegment(nseg - 1)
	done := make(chan struct{})
	go func() { defer close(done); clear() }()
	deadline := time.Now().Add(nolockWait)
	for {
		if _, ok := get(k0); !ok {
			break // Clear has passed segment 0
		}
		if time.Now().After(deadline) {
			unlock()
			<-done
			return nil, cs, "clear-forced: Clear did not reach segment 0 within the watchdog"
		}
		time.Sleep(200 * time.Microsecond)
	}
	set(k1, &cv{Key: k1, ID: 2}) // completes: segment 0 is free again
	unlock()
	<-done
	n := 0
	inner.ForEach(func(uint64, any) bool { n++; return true })
	cs.Len, cs.Reach, cs.Each = int(length()), inner.VerifC16Reachable(), n
	if cs.Len != cs.Reach || cs.Len != cs.Each {
		return &seqFail{sig: "conc-clear/quiescent-miscount", what: fmt.Sprintf("%s map: Set(%#x) completed while Clear() was between emptying segment 0 and its final count.Store(0); after both returned Len()=%d but %d entries are reachable (ForEach yields %d)", table, k1, cs.Len, cs.Reach, cs.Each)}, cs, ""
	}
	return nil, cs, ""
}
