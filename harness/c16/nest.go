package main

import (
	"fmt"
	"math/rand/v2"
	"runtime"
	"strconv"
	"strings"
	"sync"
	"sync/atomic"
	"time"

	"github.com/miekg/dns"
	"github.com/semihalev/sdns/internal/cache"
	mcache "github.com/semihalev/sdns/middleware/cache"
)

// Two monitors for the lock discipline of the over-capacity insert ("spill to
// the following segments one lock at a time", "writers never wait on a global
// lock"):
//
//   nest  A writer W1 whose own segment Y cannot pay the two-entry toll walks the
//         following segments. The harness holds the write lock of one of them (X),
//         so W1 parks there - legitimately, that is waiting on ONE segment's lock.
//         That W1 is parked is established from its goroutine's state (blocked in
//         sync.(*RWMutex).Lock per runtime.Stack), not from timing. While it is
//         parked, every operation that cannot itself spill must still complete on
//         keys of Y (the own segment was released before the walk) and on keys of
//         a third segment Z. A writer that keeps its own segment locked while it
//         waits for another one makes everybody behind it wait on a lock that is
//         not theirs: segment locks nest, and two such writers can deadlock.
//
//   tiny  4-8 writers x a few thousand inserts on tables of capacity 2..64 (every
//         insert spills across the ring). Verdict only on a frozen state: zero
//         completed operations over a whole 20 s window AND every unfinished
//         writer goroutine blocked on a mutex (runtime.Stack). The tables are
//         private to the run and only the writers ever lock them, so that state
//         is a deadlock, not slowness. Anything else slow is not judged.

// ---------------------------------------------------------------- goroutine states

type gState struct {
	state string // text between '[' and ']' of the header, without the duration
	block string
}

func curGID() uint64 {
	var b [64]byte
	n := runtime.Stack(b[:], false)
	s := strings.TrimPrefix(string(b[:n]), "goroutine ")
	if i := strings.IndexByte(s, ' '); i > 0 {
		id, _ := strconv.ParseUint(s[:i], 10, 64)
		return id
	}
	return 0
}

// goroutineStates parses runtime.Stack(all).
func goroutineStates() map[uint64]gState {
	buf := make([]byte, 1<<18)
	for {
		n := runtime.Stack(buf, true)
		if n < len(buf) {
			buf = buf[:n]
			break
		}
		buf = make([]byte, 2*len(buf))
	}
	out := map[uint64]gState{}
	for _, blk := range strings.Split(string(buf), "\n\n") {
		if !strings.HasPrefix(blk, "goroutine ") {
			continue
		}
		hdr, _, _ := strings.Cut(blk, "\n")
		rest := strings.TrimPrefix(hdr, "goroutine ")
		i := strings.IndexByte(rest, ' ')
		if i <= 0 {
			continue
		}
		id, err := strconv.ParseUint(rest[:i], 10, 64)
		if err != nil {
			continue
		}
		st := rest[i+1:]
		st = strings.TrimPrefix(st, "[")
		if j := strings.IndexByte(st, ']'); j >= 0 {
			st = st[:j]
		}
		if j := strings.IndexByte(st, ','); j >= 0 {
			st = st[:j]
		}
		out[id] = gState{state: st, block: blk}
	}
	return out
}

// onMutex: the goroutine is in a wait state of the sync package AND its stack
// shows a Lock/RLock frame. A goroutine that is running, runnable (just woken) or
// in a syscall is never "blocked".
func (g gState) onMutex() bool {
	switch {
	case strings.HasPrefix(g.state, "sync.Mutex.Lock"),
		strings.HasPrefix(g.state, "sync.RWMutex.Lock"),
		strings.HasPrefix(g.state, "sync.RWMutex.RLock"),
		strings.HasPrefix(g.state, "semacquire"):
	default:
		return false
	}
	return strings.Contains(g.block, "sync.(*RWMutex).Lock(") ||
		strings.Contains(g.block, "sync.(*RWMutex).RLock(") ||
		strings.Contains(g.block, "sync.(*Mutex).Lock(")
}

func trimBlock(b string, lines int) string {
	parts := strings.Split(b, "\n")
	if len(parts) > lines {
		parts = append(parts[:lines], "\t...")
	}
	return strings.Join(parts, "\n")
}

// ---------------------------------------------------------------- nest

type nestCase struct {
	Kind      string `json:"kind"` // "nest"
	Index     int    `json:"index"`
	Table     string `json:"table"`
	Capacity  int    `json:"capacity"`
	Segments  int    `json:"segments"`
	Variant   string `json:"variant"` // empty-own | overfilled
	OwnSeg    int    `json:"writer_segment"`
	HeldSeg   int    `json:"held_segment"`
	ThirdSeg  int    `json:"third_segment"`
	Distance  int    `json:"ring_distance"`
	WriterKey uint64 `json:"writer_key"`
	Preload   int    `json:"preload"`
	Op        string `json:"blocked_op,omitempty"`
	OpSeg     string `json:"blocked_op_segment,omitempty"`
	OpKey     uint64 `json:"blocked_op_key,omitempty"`
	OpSegIdx  int    `json:"blocked_op_segment_index,omitempty"`
	Stack     string `json:"spilling_writer_stack,omitempty"`
}

type nestResult struct {
	cs        nestCase
	fail      *seqFail
	inconc    string
	parked    bool
	notParked bool // the writer finished without ever waiting for the held segment
	ownDone   int
	sweepDone int
	thirdDone int
	gated     int
	stillHeld bool
	resumed   bool
}

func runNest(c *ctx, idx int) *nestResult {
	return execNest(c, idx)
}

// keyInSeg returns a fresh key of segment seg of a table with nseg segments.
func (c *ctx) keyInSeg(rng *rand.Rand, inner *cache.SegmentUInt64Map[any], seg int) (uint64, bool) {
	nseg := inner.SegmentCount()
	for try := 0; try < 64; try++ {
		s256 := seg
		if nseg < 256 {
			s256 = seg + nseg*rng.IntN(256/nseg)
		}
		k := c.ko.key(rng, s256, -1)
		if inner.VerifC16SegmentOf(k) == seg {
			return k, true
		}
	}
	return 0, false
}

func execNest(c *ctx, idx int) *nestResult {
	rng := c.r.RandN("nest", idx)
	cs := nestCase{Kind: "nest", Index: idx}
	cs.Table = []string{"cache", "sync", "segment"}[idx%3]
	cs.Capacity = []int{1, 2, 3, 4, 8, 16, 64, 200, 400}[rng.IntN(9)]
	cs.Variant = "empty-own"
	if cs.Table != "cache" && rng.IntN(2) == 0 {
		cs.Variant = "overfilled" // needs the uncapped Set, which cache.Cache does not export
	}
	res := &nestResult{}
	t := newLinTable(cs.Table, cs.Capacity)
	nseg := t.inner.SegmentCount()
	cs.Segments = nseg
	cs.OwnSeg = rng.IntN(nseg)
	switch idx % 4 {
	case 0:
		cs.Distance = 1
	case 1:
		cs.Distance = nseg - 1 // the walk wraps around the whole ring
	default:
		cs.Distance = 1 + rng.IntN(nseg-1)
	}
	cs.HeldSeg = (cs.OwnSeg + cs.Distance) % nseg
	// residents may live in held, held+1, ..., own-1 (ring order); the segments
	// the writer crosses before it reaches the held one stay empty
	var allowed []int
	for s := cs.HeldSeg; s != cs.OwnSeg; s = (s + 1) % nseg {
		allowed = append(allowed, s)
	}
	thirdResident := len(allowed) >= 2
	if thirdResident {
		cs.ThirdSeg = allowed[1+rng.IntN(len(allowed)-1)]
	} else {
		cs.ThirdSeg = (cs.OwnSeg + 1 + rng.IntN(cs.Distance-1)) % nseg // an empty segment on the way
	}
	res.cs = cs
	bad := func(s string) *nestResult { res.inconc = "nest: " + s; res.cs = cs; return res }

	id := uint64(0)
	val := func(k uint64) *cv { id++; return &cv{Key: k, ID: id} }
	key := func(seg int) uint64 {
		k, ok := c.keyInSeg(rng, t.inner, seg)
		if !ok {
			return 0
		}
		return k
	}
	wk, y2, z1, z2 := key(cs.OwnSeg), key(cs.OwnSeg), key(cs.ThirdSeg), key(cs.ThirdSeg)
	if wk == 0 || y2 == 0 || z1 == 0 || z2 == 0 || wk == y2 || z1 == z2 {
		return bad("could not construct keys by segment")
	}
	cs.WriterKey = wk
	store := t.setCap
	n := cs.Capacity
	if cs.Variant == "overfilled" {
		store = t.set
		n = cs.Capacity + 2 + rng.IntN(3)
		store(y2, val(y2)) // the one entry the writer's own segment can give
		n--
	}
	placed := 0
	if thirdResident {
		for _, k := range []uint64{z1, z2} {
			if placed < n {
				store(k, val(k))
				placed++
			}
		}
	}
	for ; placed < n; placed++ {
		k := key(allowed[rng.IntN(len(allowed))])
		if k == 0 {
			return bad("could not construct keys by segment")
		}
		store(k, val(k))
	}
	cs.Preload = t.length()
	want := n
	if cs.Variant == "overfilled" {
		want++
	}
	if cs.Preload != want {
		return bad(fmt.Sprintf("preload holds %d entries, expected %d (duplicate key or eviction below capacity)", cs.Preload, want))
	}
	for s := (cs.OwnSeg + 1) % nseg; s != cs.HeldSeg; s = (s + 1) % nseg {
		if sh := t.inner.VerifC16SegmentShape(s); sh.Size != 0 {
			return bad("a segment between the writer and the held segment is not empty")
		}
	}
	res.cs = cs

	unlock := t.inner.VerifC16LockSegment(cs.HeldSeg)
	released := false
	release := func() {
		if !released {
			released = true
			unlock()
		}
	}
	defer release()

	v1 := val(wk)
	gidCh := make(chan uint64, 1)
	w1Done := make(chan struct{})
	go func() {
		defer close(w1Done)
		gidCh <- curGID()
		t.setCap(wk, v1) // over capacity; own segment cannot pay: spills towards the held segment
	}()
	gid := <-gidCh

	// parked? decided by the goroutine's state, never by elapsed time
	deadline := time.Now().Add(nolockWait)
	sleep := 50 * time.Microsecond
	for !res.parked {
		select {
		case <-w1Done:
			res.notParked = true
			return res
		default:
		}
		if g, ok := goroutineStates()[gid]; ok && g.onMutex() {
			res.parked = true
			cs.Stack = trimBlock(g.block, 14)
			break
		}
		if time.Now().After(deadline) {
			release()
			<-w1Done
			return bad("the spilling writer neither finished nor parked on a lock within the watchdog")
		}
		time.Sleep(sleep)
		if sleep < 2*time.Millisecond {
			sleep *= 2
		}
	}

	// gated inserts: an insert may legitimately spill (and then wait for the held
	// segment too) whenever it leaves the table over capacity. W1 is parked and
	// the harness runs one operation at a time, so Len() is exact here.
	var gated atomic.Int64
	gatedAdd := func(k uint64, v any) func() {
		return func() {
			_, present := t.get(k)
			if l := t.length(); (present && l <= cs.Capacity) || (!present && l < cs.Capacity) {
				t.setCap(k, v)
			} else {
				gated.Add(1)
			}
		}
	}
	remove := func(k uint64) func() {
		if t.remove != nil {
			return func() { t.remove(k) }
		}
		return func() { t.del(k) }
	}
	type opf struct {
		name, seg string
		k         uint64
		f         func()
	}
	v2, v3 := val(wk), val(wk)
	ops := []opf{
		{"Get", "own", wk, func() { t.get(wk) }},
		{"Get", "own", y2, func() { t.get(y2) }},
	}
	if t.cas != nil {
		ops = append(ops, opf{"CompareAndSwap", "own", wk, func() { t.cas(wk, v1, v2) }})
		ops = append(ops, opf{"CompareAndDelete", "own", y2, func() { t.cad(y2, v1) }})
	}
	if t.has != nil {
		ops = append(ops, opf{"Has", "own", wk, func() { t.has(wk) }})
	}
	ops = append(ops,
		opf{"Remove", "own", y2, remove(y2)},
		opf{"Get", "third", z1, func() { t.get(z1) }},
		opf{"Remove", "third", z1, remove(z1)},
		opf{"Remove", "third", z2, remove(z2)},
		opf{"Add", "third", z1, gatedAdd(z1, val(z1))},
		opf{"Add-update", "own", wk, gatedAdd(wk, v3)},
		opf{"Add", "own", y2, gatedAdd(y2, val(y2))},
		opf{"Remove", "own", wk, remove(wk)},
		opf{"Add", "own", wk, gatedAdd(wk, val(wk))},
		opf{"Len", "own", 0, func() { t.length() }},
		// radical eviction of one segment takes that segment's lock only
		opf{"ClearSegment", "third", z1, func() { t.inner.ClearSegment(cs.ThirdSeg) }},
	)
	var wg sync.WaitGroup
	thirdFail := func(name string, k uint64, seg int, still bool) *seqFail {
		return &seqFail{sig: "lock-nesting/" + name + "-third-segment-behind-spilling-writer", what: fmt.Sprintf("%s table, capacity %d, %d segments: an over-capacity insert of key %#x (segment %d) is parked on the write lock of segment %d, which the harness holds (writer still parked: %v); %s on key %#x of a THIRD segment %d did not complete within %v although it does not leave the table over capacity: it waits on a lock that is not its own segment's - either the parked writer still holds a segment it is not working on, or the operation itself takes locks across segments", cs.Table, cs.Capacity, cs.Segments, wk, cs.OwnSeg, cs.HeldSeg, still, name, k, seg, nolockWait)}
	}
	ownFail := func(name string, k uint64, still bool) *seqFail {
		return &seqFail{sig: "lock-nesting/" + name + "-behind-spilling-writer", what: fmt.Sprintf("%s table, capacity %d, %d segments: an over-capacity insert of key %#x (segment %d) is parked on the write lock of segment %d, which the harness holds (writer still parked: %v); %s on key %#x of the writer's OWN segment %d did not complete within %v. The spilling writer still holds its own segment while it waits for another one: segment locks nest, everything behind that segment waits on a lock it does not need, and two such writers can deadlock", cs.Table, cs.Capacity, cs.Segments, wk, cs.OwnSeg, cs.HeldSeg, still, name, k, cs.OwnSeg, nolockWait)}
	}
	stillParked := func() bool {
		g, ok := goroutineStates()[gid]
		return ok && g.onMutex()
	}
	// a parked spilling writer holds no segment lock at all: a read on a key of
	// every segment but the held one completes (ring order from the writer's
	// segment, so the segments it has already crossed come first)
	{
		var sweepK []uint64
		var sweepS []int
		for s := cs.OwnSeg; ; {
			if s != cs.HeldSeg {
				if k := key(s); k != 0 {
					sweepK, sweepS = append(sweepK, k), append(sweepS, s)
				}
			}
			if s = (s + 1) % nseg; s == cs.OwnSeg {
				break
			}
		}
		var at atomic.Int64
		sweepDone := make(chan struct{})
		wg.Add(1)
		go func() {
			defer wg.Done()
			defer close(sweepDone)
			for i, k := range sweepK {
				at.Store(int64(i))
				t.get(k)
			}
		}()
		select {
		case <-sweepDone:
			res.sweepDone = len(sweepK)
		case <-time.After(nolockWait):
			i := at.Load()
			cs.Op, cs.OpSeg, cs.OpKey, cs.OpSegIdx = "Get", "third", sweepK[i], sweepS[i]
			if sweepS[i] == cs.OwnSeg {
				cs.OpSeg = "own"
			}
			res.cs = cs
			if cs.OpSeg == "own" {
				res.fail = ownFail("Get", sweepK[i], stillParked())
			} else {
				res.fail = thirdFail("Get", sweepK[i], sweepS[i], stillParked())
			}
			release()
			waitBounded(&wg, w1Done)
			return res
		}
	}
	for _, o := range ops {
		done := make(chan struct{})
		wg.Add(1)
		go func(o opf) {
			defer wg.Done()
			defer close(done)
			o.f()
		}(o)
		select {
		case <-done:
			if o.seg == "own" {
				res.ownDone++
			} else {
				res.thirdDone++
			}
		case <-time.After(nolockWait):
			cs.Op, cs.OpSeg, cs.OpKey, cs.OpSegIdx = o.name, o.seg, o.k, cs.ThirdSeg
			if o.seg == "own" {
				cs.OpSegIdx = cs.OwnSeg
			}
			res.cs = cs
			if o.seg == "own" {
				res.fail = ownFail(o.name, o.k, stillParked())
			} else {
				res.fail = thirdFail(o.name, o.k, cs.ThirdSeg, stillParked())
			}
			release()
			waitBounded(&wg, w1Done)
			return res
		}
	}
	// the instrument held for the whole case: W1 is still waiting
	select {
	case <-w1Done:
	default:
		if g, ok := goroutineStates()[gid]; ok && g.onMutex() {
			res.stillHeld = true
		}
	}
	release()
	select {
	case <-w1Done:
		res.resumed = true
	case <-time.After(nolockWait):
		res.cs = cs
		return bad("the spilling writer did not finish after the held segment was released (watchdog)")
	}
	wg.Wait()
	res.gated = int(gated.Load())
	res.cs = cs
	return res
}

// waitBounded waits for the goroutines of a failed case to drain after the held
// lock was released; if they do not (a real deadlock), they are left behind.
func waitBounded(wg *sync.WaitGroup, w1 <-chan struct{}) {
	all := make(chan struct{})
	go func() { wg.Wait(); <-w1; close(all) }()
	select {
	case <-all:
	case <-time.After(nolockWait):
	}
}

// ---------------------------------------------------------------- frozen-progress guard

// liveness watches the goroutines of one concurrent run over a PRIVATE table.
// Verdict "dead" only on a state, never on a latency: not a single operation
// completed by anybody for tinyFrozen, and every unfinished goroutine sits in a
// sync wait state inside Lock/RLock (confirmed again a second later with the
// counters unchanged). Only these goroutines ever lock the table, so nobody is
// left who could release what they wait for.
type liveness struct {
	ctrs []atomic.Int64
	gids []atomic.Uint64
	fin  []atomic.Bool
}

func newLiveness(n int) *liveness {
	return &liveness{ctrs: make([]atomic.Int64, n), gids: make([]atomic.Uint64, n), fin: make([]atomic.Bool, n)}
}

func (l *liveness) enter(g int)  { l.gids[g].Store(curGID()) }
func (l *liveness) tick(g int)   { l.ctrs[g].Add(1) }
func (l *liveness) finish(g int) { l.fin[g].Store(true) }

func (l *liveness) total() (s int64) {
	for i := range l.ctrs {
		s += l.ctrs[i].Load()
	}
	return
}

func (l *liveness) completed() []int64 {
	out := make([]int64, len(l.ctrs))
	for i := range l.ctrs {
		out[i] = l.ctrs[i].Load()
	}
	return out
}

// allOnMutex: at least one goroutine is unfinished and every unfinished one is
// blocked on a mutex.
func (l *liveness) allOnMutex() (all bool, dump []string) {
	gs := goroutineStates()
	unfinished := 0
	all = true
	for g := range l.ctrs {
		if l.fin[g].Load() {
			continue
		}
		unfinished++
		st, ok := gs[l.gids[g].Load()]
		if !ok || !st.onMutex() {
			all = false
			continue
		}
		dump = append(dump, fmt.Sprintf("goroutine #%d of the run (%d operations completed): %s", g, l.ctrs[g].Load(), trimBlock(st.block, 16)))
	}
	return all && unfinished >= 1, dump
}

type liveVerdict struct {
	dead    bool
	starved bool // frozen for the whole watchdog without being on mutexes: not judged
	frozen  time.Duration
	dump    []string
}

// wait returns when done is closed (zero verdict), when the run is dead, or when
// it has been frozen-but-not-blocked beyond the watchdog.
func (l *liveness) wait(done <-chan struct{}) liveVerdict {
	last, since, began := int64(-1), time.Now(), time.Now()
	tick := time.NewTicker(200 * time.Millisecond)
	defer tick.Stop()
	for {
		select {
		case <-done:
			return liveVerdict{}
		case <-tick.C:
		}
		cur := l.total()
		if cur != last {
			last, since = cur, time.Now()
			continue
		}
		frozen := time.Since(since)
		if frozen < tinyFrozen {
			continue
		}
		if all, _ := l.allOnMutex(); all {
			time.Sleep(time.Second)
			if all2, dump := l.allOnMutex(); all2 && l.total() == last {
				return liveVerdict{dead: true, frozen: time.Since(since).Round(time.Second), dump: dump}
			}
			continue
		}
		if time.Since(began) > tinyWatchdog {
			return liveVerdict{starved: true, frozen: frozen.Round(time.Second)}
		}
	}
}

// ---------------------------------------------------------------- tiny

const (
	tinyFrozen   = 20 * time.Second // zero completed operations for this long, then the goroutine states decide
	tinyWatchdog = 75 * time.Second // frozen but not on mutexes (starved machine): not judged
)

type tinyCase struct {
	Kind      string   `json:"kind"` // "tiny"
	Index     int      `json:"index"`
	Table     string   `json:"table"`
	Capacity  int      `json:"capacity"`
	Writers   int      `json:"writers"`
	AddsPer   int      `json:"adds_per_writer"`
	KeyClass  string   `json:"key_class"`
	Completed []int64  `json:"completed_per_writer,omitempty"`
	Frozen    string   `json:"frozen_for,omitempty"`
	Dump      []string `json:"writer_goroutines,omitempty"`
}

type tinyResult struct {
	cs       tinyCase
	fail     *seqFail
	inconc   string
	adds     int64
	finalLen int
	overCap  bool
}

// tinyTable returns the insert function of one table type with SetWithCap
// semantics, and its Len.
func tinyTable(name string, capacity, writers int) (insert func(w int, k uint64, i int), length func() int, err error) {
	switch name {
	case "cache":
		t := cache.New(capacity)
		return func(w int, k uint64, i int) { t.Add(k, i) }, t.Len, nil
	case "sync":
		t := cache.NewSyncUInt64Map[any](uint(capacity % 12))
		return func(w int, k uint64, i int) { t.SetWithCap(k, i, int64(capacity)) }, func() int { return int(t.Len()) }, nil
	case "segment":
		t := cache.NewSegmentUInt64Map[any](uint8(4+capacity%5), 0)
		return func(w int, k uint64, i int) { t.SetWithCap(k, i, int64(capacity)) }, func() int { return int(t.Len()) }, nil
	case "positive", "negative":
		var pc answerCache
		if name == "positive" {
			pc = mcache.NewPositiveCache(capacity, time.Second, time.Hour, &mcache.CacheMetrics{})
		} else {
			pc = mcache.NewNegativeCache(capacity, time.Second, time.Hour, &mcache.CacheMetrics{})
		}
		es := make([]*mcache.CacheEntry, writers)
		for w := range es {
			es[w] = mcache.NewCacheEntry(testMsg(w), time.Hour, 0)
		}
		return func(w int, k uint64, i int) { pc.Set(k, es[w]) }, pc.Len, nil
	case "failure":
		fc, e := mcache.NewFailureCache(mcache.FailureCacheConfig{Size: capacity, InitialTTL: 5 * time.Second, MaxTTL: 5 * time.Minute})
		if e != nil {
			return nil, nil, e
		}
		return func(w int, k uint64, i int) {
			fc.RecordQuestion(mcache.FailureQuestionKey{Question: dns.Question{Name: "q" + strconv.FormatUint(k, 36) + ".c16tiny.", Qtype: dns.TypeA, Qclass: dns.ClassINET}}, "c16", nil)
		}, fc.Len, nil
	}
	return nil, nil, fmt.Errorf("unknown table %q", name)
}

var tinyTables = []string{"cache", "sync", "segment", "positive", "negative", "failure"}

//go:noinline
func tinyWriter(live *liveness, w, n int, f func(i int)) {
	live.enter(w)
	for i := 0; i < n; i++ {
		f(i)
		live.tick(w)
	}
}

func runTiny(c *ctx, idx int) *tinyResult {
	rng := c.r.RandN("tiny", idx)
	cs := tinyCase{Kind: "tiny", Index: idx}
	cs.Table = tinyTables[idx%len(tinyTables)]
	cs.Capacity = []int{2, 2, 3, 4, 8, 16, 32, 64}[rng.IntN(8)]
	cs.Writers = 4 + rng.IntN(5)
	cs.AddsPer = c.r.N(1500, 4000)
	cs.KeyClass = []string{"seq", "random", "fewseg"}[rng.IntN(3)]
	res := &tinyResult{cs: cs}
	insert, length, err := tinyTable(cs.Table, cs.Capacity, cs.Writers)
	if err != nil {
		res.inconc = "tiny: " + err.Error()
		return res
	}
	// per-writer key scripts, fixed before the run
	keys := make([][]uint64, cs.Writers)
	segs := []int{rng.IntN(256), rng.IntN(256), rng.IntN(256)}
	for w := range keys {
		wr := c.r.RandN(fmt.Sprintf("tiny/w%d", w), idx)
		ks := make([]uint64, cs.AddsPer)
		for i := range ks {
			switch cs.KeyClass {
			case "seq":
				ks[i] = uint64(w*cs.AddsPer + i + 1)
			case "fewseg":
				if wr.IntN(2) == 0 {
					ks[i] = c.ko.key(wr, segs[wr.IntN(len(segs))], -1)
				} else {
					ks[i] = wr.Uint64()
				}
			default:
				ks[i] = wr.Uint64()
			}
		}
		keys[w] = ks
	}
	live := newLiveness(cs.Writers)
	var wg sync.WaitGroup
	start := make(chan struct{})
	for w := 0; w < cs.Writers; w++ {
		wg.Add(1)
		go func(w int) {
			defer wg.Done()
			defer live.finish(w)
			<-start
			tinyWriter(live, w, cs.AddsPer, func(i int) { insert(w, keys[w][i], i) })
		}(w)
	}
	done := make(chan struct{})
	go func() { wg.Wait(); close(done) }()
	close(start)
	switch v := live.wait(done); {
	case v.dead:
		cs.Frozen, cs.Completed, cs.Dump = v.frozen.String(), live.completed(), v.dump
		res.cs = cs
		res.adds = live.total()
		res.fail = &seqFail{sig: "deadlock/tiny-capacity-writers", what: fmt.Sprintf("%d writers inserting distinct keys into a %s table of capacity %d: after %d of %d inserts not one more completed for %s, and every unfinished writer goroutine is blocked in a mutex of the table (only these writers ever lock it, and none of them is running): the writers wait on each other's segment locks", cs.Writers, cs.Table, cs.Capacity, res.adds, int64(cs.Writers)*int64(cs.AddsPer), cs.Frozen)}
		return res // the deadlocked goroutines stay behind in this (child) process
	case v.starved:
		res.inconc = fmt.Sprintf("tiny: run %d made no progress for %s but its writers are not all blocked on mutexes (starved machine?): not judged", idx, v.frozen)
		res.adds = live.total()
		return res
	}
	res.adds = live.total()
	res.finalLen = length()
	res.overCap = res.finalLen > cs.Capacity
	return res
}
