package main

import (
	"fmt"
	"math/rand/v2"

	"github.com/semihalev/sdns/internal/cache"
	"github.com/semihalev/sdns/zzverif/vlib"
)

// cv is the value the harness stores: one allocation per write, so pointer
// identity identifies the write and Key shows aliasing between keys.
type cv struct {
	Key uint64
	ID  uint64
}

// seqOp is one scripted operation. Scripts never depend on results of earlier
// operations, so a recorded case replays exactly.
type seqOp struct {
	Op string `json:"op"`
	K  uint64 `json:"k,omitempty"`
	A  int    `json:"a,omitempty"` // evict: offset | cas/cad: how "old" is chosen | clearseg: index
	B  int    `json:"b,omitempty"` // evict: n
}

type seqCase struct {
	Kind   string  `json:"kind"` // "seq"
	Table  string  `json:"table"`
	Index  int     `json:"index"`
	Class  string  `json:"class"`
	Cap    int     `json:"cap"`     // uint64map: NewUInt64Map(cap); segment: initialCapacity; cache: New(cap)
	SegPow int     `json:"seg_pow"` // segment: segmentPower; sync: sizePower
	Bound  int64   `json:"bound"`   // capacity passed to SetWithCap (0 = unbounded script)
	Boxed  bool    `json:"boxed"`   // cache: store boxed uint64 instead of pointers
	Ops    []seqOp `json:"ops"`
	FailAt int     `json:"fail_at,omitempty"`
}

type seqFail struct {
	sig, what string
	at        int
}

type seqStats struct {
	ops, grows, wrapStates, delWrapped, casOK, casFail, cadOK, cadFail, evictions, zeroOps, maxProbe, fullChecks, evictOps, evictShort int
	pieNew, pieOld, clears, clearSegs, delHit, delMiss, collideStates, maxEvictPerOp                                             int
}

func (s *seqStats) flush(r *vlib.Run, table string) {
	r.Count("ops_"+table, s.ops)
	r.Count("seq_ops", s.ops)
	r.Count("grow_events", s.grows)
	r.Count("wrap_states", s.wrapStates)
	r.Count("del_with_wrapped_chain", s.delWrapped)
	r.Count("collide_states_probe_ge3", s.collideStates)
	r.Count("seq_cas_ok", s.casOK)
	r.Count("seq_cas_fail", s.casFail)
	r.Count("seq_cad_ok", s.cadOK)
	r.Count("seq_cad_fail", s.cadFail)
	r.Count("seq_evictions", s.evictions)
	r.Count("seq_evicting_ops", s.evictOps)
	r.Count("seq_evictkeys_short", s.evictShort)
	r.Count("zero_key_ops", s.zeroOps)
	r.Count("seq_full_checks", s.fullChecks)
	r.Count("seq_putifnotexists_new", s.pieNew)
	r.Count("seq_putifnotexists_old", s.pieOld)
	r.Count("seq_clears", s.clears+s.clearSegs)
	r.Count("seq_del_hit", s.delHit)
	r.Count("seq_del_miss", s.delMiss)
	r.Max("max_probe_distance", int64(s.maxProbe))
	r.Max("seq_max_evicted_by_one_insert", int64(s.maxEvictPerOp))
}

// ---------------------------------------------------------------- script generation

func pickKey(rng *rand.Rand, pool []uint64) uint64 {
	// skewed: a hot eighth of the pool gets half of the picks, so removes and
	// CAS hit present keys and chains are torn down and rebuilt repeatedly
	if hot := len(pool)/8 + 1; rng.IntN(2) == 0 {
		return pool[rng.IntN(hot)]
	}
	return pool[rng.IntN(len(pool))]
}

type weighted struct {
	op string
	w  int
}

func pickOp(rng *rand.Rand, ws []weighted) string {
	t := 0
	for _, w := range ws {
		t += w.w
	}
	x := rng.IntN(t)
	for _, w := range ws {
		if x < w.w {
			return w.op
		}
		x -= w.w
	}
	return ws[0].op
}

func scriptLen(rng *rand.Rand) int {
	// 10^2 .. 10^4 operations, log-uniform-ish
	switch rng.IntN(10) {
	case 0:
		return 3000 + rng.IntN(7000)
	case 1, 2, 3:
		return 600 + rng.IntN(2400)
	default:
		return 100 + rng.IntN(500)
	}
}

func genSeqCase(c *ctx, table string, idx int) *seqCase {
	rng := c.r.RandN("seq/"+table, idx)
	sc := &seqCase{Kind: "seq", Table: table, Index: idx}
	sc.Class = keyClasses[idx%len(keyClasses)]
	nops := scriptLen(rng)
	poolN := 4 + rng.IntN(60)
	switch rng.IntN(6) {
	case 0:
		poolN = 3 + rng.IntN(6)
	case 1:
		poolN = 200 + rng.IntN(1800)
	}
	withZero := rng.IntN(3) != 0
	seg := -1
	var ws []weighted
	switch table {
	case "uint64map":
		sc.Cap = []int{0, 1, 8, 9, 12, 16, 24, 100, 1000}[rng.IntN(9)]
		ws = []weighted{{"put", 34}, {"get", 12}, {"has", 5}, {"del", 26}, {"pie", 8}, {"len", 2}, {"each", 2}, {"iter", 2}, {"clear", 1}, {"evict", 5}}
		if sc.Class == "sameseg" {
			sc.Class = "collide"
		}
	case "segment":
		sc.SegPow = []int{0, 4, 5, 6, 8, 9}[rng.IntN(6)]
		sc.Cap = []int{0, 16, 128, 1024, 5000}[rng.IntN(5)]
		seg = rng.IntN(256)
		if rng.IntN(2) == 0 {
			sc.Bound = int64([]int{1, 2, 3, 8, 16, 40, 100, 300}[rng.IntN(8)])
			ws = []weighted{{"setcap", 44}, {"get", 14}, {"has", 5}, {"del", 22}, {"len", 2}, {"each", 3}, {"clearseg", 1}, {"clear", 1}}
		} else {
			ws = []weighted{{"set", 30}, {"setcap", 4}, {"get", 12}, {"has", 5}, {"del", 28}, {"pie", 8}, {"len", 2}, {"each", 3}, {"clearseg", 1}, {"clear", 1}}
			sc.Bound = 0
		}
	case "sync":
		sc.SegPow = []int{0, 4, 8, 10, 12}[rng.IntN(5)]
		seg = rng.IntN(256)
		if rng.IntN(2) == 0 {
			sc.Bound = int64([]int{1, 2, 5, 16, 64, 200}[rng.IntN(6)])
			ws = []weighted{{"setcap", 44}, {"get", 14}, {"has", 5}, {"del", 24}, {"len", 2}, {"each", 3}, {"clear", 1}}
		} else {
			ws = []weighted{{"set", 36}, {"get", 14}, {"has", 5}, {"del", 30}, {"len", 2}, {"each", 3}, {"clear", 1}}
		}
	case "cache":
		sc.Cap = []int{1, 2, 3, 7, 16, 50, 128, 400, 1024, 1100, 20000}[rng.IntN(11)]
		sc.Bound = int64(sc.Cap)
		sc.Boxed = rng.IntN(4) == 0
		seg = rng.IntN(256)
		ws = []weighted{{"setcap", 36}, {"get", 12}, {"del", 16}, {"cas", 14}, {"cad", 12}, {"len", 2}, {"each", 3}}
	}
	if sc.Bound > 0 && int64(poolN) <= sc.Bound && rng.IntN(3) != 0 {
		// make a bounded script actually exceed its capacity
		poolN = int(sc.Bound)*2 + 4 + rng.IntN(int(sc.Bound)+8)
	}
	if rng.IntN(4) == 0 {
		seg = -1
	}
	pool := c.ko.pool(rng, sc.Class, poolN, seg, withZero)
	sc.Ops = make([]seqOp, 0, nops)
	for i := 0; i < nops; i++ {
		op := seqOp{Op: pickOp(rng, ws), K: pickKey(rng, pool)}
		switch op.Op {
		case "evict":
			op.A = int(rng.Uint64() >> 40)
			op.B = []int{-1, 0, 1, 1, 2, 2, 2, 3, 5, 1000}[rng.IntN(10)]
			if rng.IntN(3) == 0 {
				op.K = rng.Uint64() // skip key not in the table
			}
		case "cas", "cad":
			op.A = []int{0, 0, 0, 1, 1, 2, 3, 4}[rng.IntN(8)]
		case "clearseg":
			op.A = rng.IntN(300) - 20
		case "iter":
			op.A = rng.IntN(3)
			op.B = rng.IntN(8)
		case "len", "each", "clear":
			op.K = 0
		}
		sc.Ops = append(sc.Ops, op)
	}
	return sc
}

// ---------------------------------------------------------------- UInt64Map executor

func runSeqUInt64Map(sc *seqCase, st *seqStats) (fail *seqFail) {
	at := 0
	defer func() {
		if p := recover(); p != nil {
			fail = &seqFail{"seq/uint64map/panic", fmt.Sprintf("panic in op %d (%+v): %v", at, sc.Ops[at], p), at}
		}
	}()
	m := cache.NewUInt64Map[*cv](sc.Cap)
	ref := map[uint64]*cv{}
	known := map[uint64]struct{}{} // every key the script ever used (absent-key probes)
	lastMut := "none"
	bad := func(kind, format string, a ...any) *seqFail {
		return &seqFail{"seq/uint64map/" + kind + "/after-" + lastMut, fmt.Sprintf(format, a...), at}
	}
	checkKey := func(k uint64) *seqFail {
		want, in := ref[k]
		got, ok := m.Get(k)
		if m.Has(k) != ok {
			return bad("has-get-disagree", "Has(%#x)=%v but Get ok=%v", k, !ok, ok)
		}
		switch {
		case in && !ok:
			return bad("lost-key", "key %#x stored (value id %d) and never removed/evicted, but Get misses it", k, want.ID)
		case !in && ok:
			return bad("phantom-key", "key %#x is absent in the reference map but Get finds value %+v", k, got)
		case in && got != want:
			if got == nil || got.Key != k {
				return bad("alias", "Get(%#x) returns %+v, the value of another key", k, got)
			}
			return bad("stale-value", "Get(%#x) returns value id %d, most recent store was id %d", k, got.ID, want.ID)
		}
		return nil
	}
	light := func() *seqFail {
		if m.Len() != len(ref) {
			return bad("miscount", "Len()=%d, reference map holds %d keys", m.Len(), len(ref))
		}
		for k := range ref {
			if f := checkKey(k); f != nil {
				return f
			}
		}
		return nil
	}
	full := func() *seqFail {
		st.fullChecks++
		if f := light(); f != nil {
			return f
		}
		seen := make(map[uint64]struct{}, len(ref))
		var f *seqFail
		m.ForEach(func(k uint64, v *cv) bool {
			if _, dup := seen[k]; dup {
				f = bad("foreach-duplicate", "ForEach yields key %#x twice", k)
				return false
			}
			seen[k] = struct{}{}
			if want, in := ref[k]; !in {
				f = bad("foreach-phantom", "ForEach yields key %#x which the reference map does not hold", k)
				return false
			} else if v != want {
				f = bad("foreach-wrong-value", "ForEach yields %+v for key %#x, want id %d", v, k, want.ID)
				return false
			}
			return true
		})
		if f != nil {
			return f
		}
		if len(seen) != len(ref) {
			return bad("foreach-missing", "ForEach yields %d keys, reference map holds %d", len(seen), len(ref))
		}
		if s, rch := m.VerifC16Stored(), m.VerifC16Reachable(); s != len(ref) || rch != len(ref) {
			return bad("ghost-entry", "slot array stores %d entries, %d reachable by Get, reference map holds %d", s, rch, len(ref))
		}
		n := 0
		for k := range known {
			if _, in := ref[k]; !in {
				if ff := checkKey(k); ff != nil {
					return ff
				}
				if n++; n > 64 {
					break
				}
			}
		}
		sh := m.VerifC16Shape()
		if sh.Wrapped > 0 {
			st.wrapStates++
		}
		if sh.MaxProbe >= 3 {
			st.collideStates++
		}
		if sh.MaxProbe > st.maxProbe {
			st.maxProbe = sh.MaxProbe
		}
		return nil
	}
	for i, op := range sc.Ops {
		at = i
		st.ops++
		k := op.K
		known[k] = struct{}{}
		if k == 0 {
			st.zeroOps++
		}
		mutated := false
		switch op.Op {
		case "put":
			b0 := m.VerifC16Buckets()
			v := &cv{Key: k, ID: uint64(i + 1)}
			m.Put(k, v)
			ref[k] = v
			lastMut, mutated = "put", true
			if m.VerifC16Buckets() != b0 {
				st.grows++
				lastMut = "grow"
			}
		case "pie":
			b0 := m.VerifC16Buckets()
			v := &cv{Key: k, ID: uint64(i + 1)}
			got, ins := m.PutIfNotExists(k, v)
			cur, in := ref[k]
			lastMut, mutated = "putifnotexists", true
			if ins == in {
				return bad("putifnotexists-result", "PutIfNotExists(%#x) inserted=%v but key present in reference=%v", k, ins, in)
			}
			if ins {
				st.pieNew++
				ref[k] = v
				if got != v {
					return bad("putifnotexists-result", "PutIfNotExists(%#x) inserted but returned %+v", k, got)
				}
			} else {
				st.pieOld++
				if got != cur {
					return bad("stale-value", "PutIfNotExists(%#x) returned existing %+v, want id %d", k, got, cur.ID)
				}
			}
			if m.VerifC16Buckets() != b0 {
				st.grows++
				lastMut = "grow"
			}
		case "get", "has":
			if f := checkKey(k); f != nil {
				return f
			}
		case "del":
			wrapped := m.VerifC16Shape().Wrapped > 0
			_, in := ref[k]
			d := m.Del(k)
			lastMut, mutated = "del", true
			if d != in {
				return bad("del-result", "Del(%#x)=%v but key present in reference=%v", k, d, in)
			}
			if in {
				st.delHit++
				if wrapped {
					st.delWrapped++
				}
			} else {
				st.delMiss++
			}
			delete(ref, k)
		case "len":
			if m.Len() != len(ref) {
				return bad("miscount", "Len()=%d, reference map holds %d keys", m.Len(), len(ref))
			}
		case "each":
			if f := full(); f != nil {
				return f
			}
		case "iter":
			// the iterator views, including early termination after B items
			limit, n := op.B, 0
			seen := map[uint64]struct{}{}
			switch op.A {
			case 0:
				for k2, v := range m.All() {
					if want, in := ref[k2]; !in || want != v {
						return bad("foreach-wrong-value", "All() yields (%#x,%+v) not in the reference map", k2, v)
					}
					if _, dup := seen[k2]; dup {
						return bad("foreach-duplicate", "All() yields key %#x twice", k2)
					}
					seen[k2] = struct{}{}
					if n++; n >= limit && limit > 0 {
						break
					}
				}
			case 1:
				for k2 := range m.Keys() {
					if _, in := ref[k2]; !in {
						return bad("foreach-phantom", "Keys() yields %#x not in the reference map", k2)
					}
					if _, dup := seen[k2]; dup {
						return bad("foreach-duplicate", "Keys() yields key %#x twice", k2)
					}
					seen[k2] = struct{}{}
					if n++; n >= limit && limit > 0 {
						break
					}
				}
			default:
				for v := range m.Values() {
					if v == nil || ref[v.Key] != v {
						return bad("foreach-wrong-value", "Values() yields %+v which is not a current value", v)
					}
					if n++; n >= limit && limit > 0 {
						break
					}
				}
			}
			if limit == 0 && n != len(ref) {
				return bad("foreach-missing", "iterator view %d yields %d items, reference map holds %d", op.A, n, len(ref))
			}
		case "clear":
			m.Clear()
			ref = map[uint64]*cv{}
			st.clears++
			lastMut, mutated = "clear", true
		case "evict":
			wrapped := m.VerifC16Shape().Wrapped > 0
			d := m.EvictKeysAt(op.A, op.B, k)
			lastMut, mutated = "evict", true
			st.evictOps++
			evictable := len(ref)
			if _, in := ref[k]; in {
				evictable--
			}
			want := op.B
			if want < 0 {
				want = 0
			}
			if want > evictable {
				want = evictable
			}
			if d < 0 || d > want {
				return bad("evict-count", "EvictKeysAt(%d,%d,skip=%#x) reports %d evictions with %d evictable entries", op.A, op.B, k, d, evictable)
			}
			if d < want {
				st.evictShort++ // "up to n": counted, not judged
			}
			var gone []uint64
			for k2 := range ref {
				if !m.Has(k2) {
					gone = append(gone, k2)
				}
			}
			for _, g := range gone {
				if g == k {
					return bad("self-evict", "EvictKeysAt(skip=%#x) removed the protected key", k)
				}
			}
			if len(gone) != d {
				return bad("unreported-loss", "EvictKeysAt reported %d evictions but %d keys became unreachable (%#x…)", d, len(gone), first(gone))
			}
			for _, g := range gone {
				delete(ref, g)
			}
			st.evictions += d
			if d > 0 && wrapped {
				st.delWrapped++
			}
		}
		if mutated {
			if m.Len() != len(ref) {
				return bad("miscount", "Len()=%d, reference map holds %d keys", m.Len(), len(ref))
			}
			if _, in := ref[k]; in || op.Op == "del" {
				if f := checkKey(k); f != nil {
					return f
				}
			}
			switch {
			case i%13 == 0 || lastMut == "grow" && len(ref) <= 1024 || m.VerifC16Buckets() <= 64 && len(ref) <= 48:
				if f := full(); f != nil {
					return f
				}
			case len(ref) <= 96:
				if f := light(); f != nil {
					return f
				}
			}
		}
	}
	at = len(sc.Ops) - 1
	return full()
}

func first(ks []uint64) uint64 {
	if len(ks) == 0 {
		return 0
	}
	return ks[0]
}

// ---------------------------------------------------------------- segmented family

// segTable adapts SegmentUInt64Map[any], SyncUInt64Map[any] and *cache.Cache to
// one script executor; nil funcs are operations the type does not export.
type segTable struct {
	name     string
	set      func(k uint64, v any)
	setCap   func(k uint64, v any)
	get      func(k uint64) (any, bool)
	has      func(k uint64) bool
	del      func(k uint64) (deleted, reported bool)
	pie      func(k uint64, v any) (any, bool)
	cas      func(k uint64, old, v any) bool
	cad      func(k uint64, old any) bool
	each     func(f func(uint64, any) bool)
	length   func() int
	clear    func()
	clearSeg func(i int)
	inner    *cache.SegmentUInt64Map[any]
	segCount int
	bound    int64
}

func newSegTable(sc *seqCase) *segTable {
	switch sc.Table {
	case "segment":
		m := cache.NewSegmentUInt64Map[any](uint8(sc.SegPow), sc.Cap)
		b := sc.Bound
		if b == 0 {
			b = 1 << 40
		}
		return &segTable{name: "segment", inner: m, segCount: m.SegmentCount(), bound: sc.Bound,
			set: m.Set, setCap: func(k uint64, v any) { m.SetWithCap(k, v, b) }, get: m.Get, has: m.Has,
			del: func(k uint64) (bool, bool) { return m.Del(k), true }, pie: m.PutIfNotExists,
			each: m.ForEach, length: func() int { return int(m.Len()) }, clear: m.Clear, clearSeg: m.ClearSegment}
	case "sync":
		m := cache.NewSyncUInt64Map[any](uint(sc.SegPow))
		b := sc.Bound
		if b == 0 {
			b = 1 << 40
		}
		return &segTable{name: "sync", inner: m.VerifC16Inner(), segCount: m.VerifC16Inner().SegmentCount(), bound: sc.Bound,
			set: m.Set, setCap: func(k uint64, v any) { m.SetWithCap(k, v, b) }, get: m.Get, has: m.Has,
			del:  func(k uint64) (bool, bool) { return m.Del(k), true },
			each: m.ForEach, length: func() int { return int(m.Len()) }, clear: m.Clear}
	default:
		c := cache.New(sc.Cap)
		return &segTable{name: "cache", inner: c.VerifC16Inner(), segCount: c.VerifC16Inner().SegmentCount(), bound: c.VerifC16Capacity(),
			setCap: c.Add, get: c.Get, del: func(k uint64) (bool, bool) { c.Remove(k); return false, false },
			cas: c.CompareAndSwap, cad: c.CompareAndDelete, each: c.ForEach, length: c.Len}
	}
}

func describe(v any) string {
	switch x := v.(type) {
	case *cv:
		if x == nil {
			return "(*cv)(nil)"
		}
		return fmt.Sprintf("{key %#x id %d}", x.Key, x.ID)
	case nil:
		return "nil"
	default:
		return fmt.Sprintf("%v", v)
	}
}

func runSeqSeg(sc *seqCase, st *seqStats) (fail *seqFail) {
	at := 0
	defer func() {
		if p := recover(); p != nil {
			fail = &seqFail{"seq/" + sc.Table + "/panic", fmt.Sprintf("panic in op %d (%+v): %v", at, sc.Ops[at], p), at}
		}
	}()
	t := newSegTable(sc)
	ref := map[uint64]any{}
	prev := map[uint64]any{} // value overwritten most recently per key (stale CAS operands)
	known := map[uint64]struct{}{}
	lastMut := "none"
	bad := func(kind, format string, a ...any) *seqFail {
		return &seqFail{"seq/" + sc.Table + "/" + kind + "/after-" + lastMut, fmt.Sprintf(format, a...), at}
	}
	mkval := func(k uint64, i int) any {
		if sc.Boxed {
			// boxed integers: == is value equality; still unique per (key, write)
			return uint64(i+1)<<20 ^ (k & 0xFFFFF) ^ k<<44
		}
		return &cv{Key: k, ID: uint64(i + 1)}
	}
	checkKey := func(k uint64) *seqFail {
		want, in := ref[k]
		got, ok := t.get(k)
		if t.has != nil && t.has(k) != ok {
			return bad("has-get-disagree", "Has(%#x)=%v but Get ok=%v", k, !ok, ok)
		}
		switch {
		case in && !ok:
			return bad("lost-key", "key %#x stored (%s) and never removed/evicted, but Get misses it", k, describe(want))
		case !in && ok:
			return bad("phantom-key", "key %#x is absent in the reference map but Get finds %s", k, describe(got))
		case in && got != want:
			if p, isP := got.(*cv); isP && (p == nil || p.Key != k) {
				return bad("alias", "Get(%#x) returns %s, the value of another key", k, describe(got))
			}
			return bad("stale-value", "Get(%#x) returns %s, most recent store was %s", k, describe(got), describe(want))
		}
		return nil
	}
	light := func() *seqFail {
		if t.length() != len(ref) {
			return bad("miscount", "Len()=%d, reference map holds %d keys", t.length(), len(ref))
		}
		for k := range ref {
			if f := checkKey(k); f != nil {
				return f
			}
		}
		return nil
	}
	full := func() *seqFail {
		st.fullChecks++
		if f := light(); f != nil {
			return f
		}
		seen := make(map[uint64]struct{}, len(ref))
		var f *seqFail
		t.each(func(k uint64, v any) bool {
			if _, dup := seen[k]; dup {
				f = bad("foreach-duplicate", "ForEach yields key %#x twice", k)
				return false
			}
			seen[k] = struct{}{}
			if want, in := ref[k]; !in {
				f = bad("foreach-phantom", "ForEach yields key %#x which the reference map does not hold", k)
				return false
			} else if v != want {
				f = bad("foreach-wrong-value", "ForEach yields %s for key %#x, want %s", describe(v), k, describe(want))
				return false
			}
			return true
		})
		if f != nil {
			return f
		}
		if len(seen) != len(ref) {
			return bad("foreach-missing", "ForEach yields %d keys, reference map holds %d", len(seen), len(ref))
		}
		if s, rch := t.inner.VerifC16Stored(), t.inner.VerifC16Reachable(); s != len(ref) || rch != len(ref) {
			return bad("ghost-entry", "slot arrays store %d entries, %d reachable by Get, reference map holds %d", s, rch, len(ref))
		}
		n := 0
		for k := range known {
			if _, in := ref[k]; !in {
				if ff := checkKey(k); ff != nil {
					return ff
				}
				if n++; n > 64 {
					break
				}
			}
		}
		return nil
	}
	// reconcile after an insert that may evict: returns the evicted keys
	afterInsert := func(k uint64, v any, overBefore bool) *seqFail {
		got, ok := t.get(k)
		if !ok {
			return bad("self-evict", "insert of key %#x left it absent: the insert evicted the key it was writing", k)
		}
		if got != v {
			return bad("stale-value", "Get(%#x) right after the insert returns %s, stored %s", k, describe(got), describe(v))
		}
		if t.length() == len(ref) && len(ref) > 160 && at%17 != 0 {
			return nil // no eviction claimed; large tables are fully scanned periodically
		}
		var gone []uint64
		for k2 := range ref {
			if _, ok := t.get(k2); !ok {
				gone = append(gone, k2)
			}
		}
		if len(gone) > 0 {
			if !overBefore {
				return bad("lost-key", "insert of %#x at occupancy %d <= capacity %d made key %#x unreachable (no eviction is due under capacity)", k, len(ref), t.bound, gone[0])
			}
			for _, g := range gone {
				delete(ref, g)
				delete(prev, g)
			}
			st.evictions += len(gone)
			st.evictOps++
			if len(gone) > st.maxEvictPerOp {
				st.maxEvictPerOp = len(gone)
			}
		}
		return nil
	}
	segShape := func(k uint64) cache.VerifC16Shape {
		return t.inner.VerifC16SegmentShape(t.inner.VerifC16SegmentOf(k))
	}
	for i, op := range sc.Ops {
		at = i
		st.ops++
		k := op.K
		if op.Op != "len" && op.Op != "each" && op.Op != "clear" && op.Op != "clearseg" {
			known[k] = struct{}{}
			if k == 0 {
				st.zeroOps++
			}
		}
		mutated := false
		switch op.Op {
		case "set", "setcap":
			sh0 := segShape(k)
			v := mkval(k, i)
			if old, in := ref[k]; in {
				prev[k] = old
			}
			ref[k] = v
			if op.Op == "set" {
				t.set(k, v)
				lastMut, mutated = "set", true
				if f := checkKey(k); f != nil {
					return f
				}
			} else {
				t.setCap(k, v)
				lastMut, mutated = "setcap", true
				over := t.bound > 0 && int64(len(ref)) > t.bound
				if f := afterInsert(k, v, over); f != nil {
					return f
				}
				if t.bound > 0 && int64(t.length()) > t.bound+1 {
					return bad("over-capacity", "Len()=%d after a single-writer insert, capacity %d", t.length(), t.bound)
				}
			}
			if sh1 := segShape(k); sh1.Buckets != sh0.Buckets {
				st.grows++
				lastMut = "grow"
				if sh1.Wrapped > 0 {
					st.wrapStates++
				}
			} else if sh1.MaxProbe >= 3 {
				st.collideStates++
				if sh1.MaxProbe > st.maxProbe {
					st.maxProbe = sh1.MaxProbe
				}
			}
		case "pie":
			v := mkval(k, i)
			got, ins := t.pie(k, v)
			cur, in := ref[k]
			lastMut, mutated = "putifnotexists", true
			if ins == in {
				return bad("putifnotexists-result", "PutIfNotExists(%#x) inserted=%v but key present in reference=%v", k, ins, in)
			}
			if ins {
				st.pieNew++
				ref[k] = v
			} else {
				st.pieOld++
				if got != cur {
					return bad("stale-value", "PutIfNotExists(%#x) returned existing %s, want %s", k, describe(got), describe(cur))
				}
			}
		case "get", "has":
			if f := checkKey(k); f != nil {
				return f
			}
		case "del":
			sh0 := segShape(k)
			_, in := ref[k]
			d, reported := t.del(k)
			lastMut, mutated = "del", true
			if reported && d != in {
				return bad("del-result", "Del(%#x)=%v but key present in reference=%v", k, d, in)
			}
			if in {
				st.delHit++
				if sh0.Wrapped > 0 {
					st.delWrapped++
				}
				if sh0.Wrapped > 0 {
					st.wrapStates++
				}
			} else {
				st.delMiss++
			}
			delete(ref, k)
			delete(prev, k)
			if f := checkKey(k); f != nil {
				return f
			}
		case "cas", "cad":
			cur, in := ref[k]
			var old any
			switch op.A {
			case 0:
				old = cur
			case 1:
				old = prev[k]
			case 2: // equal content, different allocation (pointer identity must fail; boxed ints are ==)
				if p, isP := cur.(*cv); isP && p != nil {
					cp := *p
					old = &cp
				} else {
					old = cur
				}
			case 3:
				old = nil
			default:
				for k2, v2 := range ref {
					if k2 != k {
						old = v2
						break
					}
				}
			}
			want := in && cur == old
			sh0 := segShape(k)
			if op.Op == "cas" {
				v := mkval(k, i)
				got := t.cas(k, old, v)
				lastMut, mutated = "cas", true
				if got != want {
					return bad("cas-result", "CompareAndSwap(%#x, old=%s) = %v; current value %s (present=%v)", k, describe(old), got, describe(cur), in)
				}
				if got {
					st.casOK++
					prev[k] = cur
					ref[k] = v
				} else {
					st.casFail++
				}
			} else {
				got := t.cad(k, old)
				lastMut, mutated = "cad", true
				if got != want {
					return bad("cad-result", "CompareAndDelete(%#x, old=%s) = %v; current value %s (present=%v)", k, describe(old), got, describe(cur), in)
				}
				if got {
					st.cadOK++
					if sh0.Wrapped > 0 {
						st.delWrapped++
					}
					delete(ref, k)
					delete(prev, k)
				} else {
					st.cadFail++
				}
			}
			if f := checkKey(k); f != nil {
				return f
			}
		case "len":
			if t.length() != len(ref) {
				return bad("miscount", "Len()=%d, reference map holds %d keys", t.length(), len(ref))
			}
		case "each":
			if f := full(); f != nil {
				return f
			}
		case "clear":
			t.clear()
			ref = map[uint64]any{}
			prev = map[uint64]any{}
			st.clears++
			lastMut, mutated = "clear", true
		case "clearseg":
			t.clearSeg(op.A)
			if op.A >= 0 && op.A < t.segCount {
				for k2 := range ref {
					if t.inner.VerifC16SegmentOf(k2) == op.A {
						delete(ref, k2)
						delete(prev, k2)
					}
				}
			}
			st.clearSegs++
			lastMut, mutated = "clearseg", true
		}
		if mutated {
			if t.length() != len(ref) {
				return bad("miscount", "Len()=%d, reference map holds %d keys", t.length(), len(ref))
			}
			switch {
			case i%29 == 0:
				if f := full(); f != nil {
					return f
				}
			case len(ref) <= 64:
				if f := light(); f != nil {
					return f
				}
			}
		}
	}
	at = len(sc.Ops) - 1
	if f := full(); f != nil {
		return f
	}
	sum, _ := t.inner.VerifC16Shape()
	if sum.Wrapped > 0 {
		st.wrapStates++
	}
	return nil
}

func runSeqCase(sc *seqCase, st *seqStats) *seqFail {
	if sc.Table == "uint64map" {
		return runSeqUInt64Map(sc, st)
	}
	return runSeqSeg(sc, st)
}
