package main

import (
	"fmt"
	"math/rand/v2"
	"runtime"
	"sort"
	"sync"
	"sync/atomic"

	"github.com/semihalev/sdns/internal/cache"
)

// Over-capacity concurrent run against cache.Cache (the type every user holds).
//
// Oracle (evictions may remove any key at any time, so a miss is always legal):
//   * a Get / ForEach / successful CAS-CAD operand that yields value v for key k:
//       - v was stored under k (alias), by a store that took effect (phantom:
//         e.g. the new value of a CAS that returned false) and began before the
//         read returned;
//       - v is not older than a mutation of k that COMPLETED before the read
//         began: no effective mutation s' (store, remove, successful CAS/CAD)
//         with  ret(store of v) < call(s')  and  ret(s') < call(read).
//   * sampled Len() <= capacity + number of writer goroutines;
//   * at quiescence Len() == ForEach count == successful Gets over the key
//     universe == reachable entries, each key once, Len() <= capacity, and the
//     surviving values obey the staleness rule with "now" as the read time.

type evStore struct {
	K    uint64 `json:"k"`
	ID   uint64 `json:"id"` // 0 = the key was removed
	Call int64  `json:"call"`
	Ret  int64  `json:"ret"`
	Kind string `json:"kind"`
}
type evRead struct {
	K    uint64 `json:"k"`
	ID   uint64 `json:"id"`
	Call int64  `json:"call"`
	Ret  int64  `json:"ret"`
	Kind string `json:"kind"`
}

type evParams struct {
	Kind     string `json:"kind"` // "evict"
	Index    int    `json:"index"`
	Capacity int    `json:"capacity"`
	Universe int    `json:"universe"`
	Writers  int    `json:"writers"`
	Readers  int    `json:"readers"`
	OpsPer   int    `json:"ops_per_goroutine"`
	Class    string `json:"class"`
}

type evCase struct {
	evParams
	Read   *evRead   `json:"read,omitempty"`
	Stores []evStore `json:"stores_of_key,omitempty"`
	Detail string    `json:"detail,omitempty"`
	// deadlock/over-capacity-run: operations completed per goroutine and the
	// stacks of the blocked ones
	Completed []int64  `json:"completed_per_goroutine,omitempty"`
	Dump      []string `json:"blocked_goroutines,omitempty"`
}

type evResult struct {
	params     evParams
	fail       *seqFail
	failCase   *evCase
	inconc     string
	reads      int
	readHits   int
	stores     int
	casOK      int
	casFail    int
	cadOK      int
	cadFail    int
	lenSamples int
	lenMax     int64
	lenOverCap int // samples strictly above capacity (legal up to +writers)
	evicted    int
	finalLen   int
	wrapped    int
	grewTo     int
}

// judgeReads applies the value rules to every read of one key.
func judgeReads(k uint64, stores []evStore, reads []evRead) (string, string, *evRead) {
	byID := make(map[uint64]*evStore, len(stores))
	for i := range stores {
		if stores[i].ID != 0 {
			byID[stores[i].ID] = &stores[i]
		}
	}
	// prefix maximum of call time over mutations sorted by return time
	byRet := make([]evStore, len(stores))
	copy(byRet, stores)
	sort.Slice(byRet, func(i, j int) bool { return byRet[i].Ret < byRet[j].Ret })
	maxCall := make([]int64, len(byRet))
	for i := range byRet {
		maxCall[i] = byRet[i].Call
		if i > 0 && maxCall[i-1] > maxCall[i] {
			maxCall[i] = maxCall[i-1]
		}
	}
	for i := range reads {
		rd := &reads[i]
		s := byID[rd.ID]
		if s == nil {
			return "phantom-value", fmt.Sprintf("%s of key %#x yielded value id %#x, but no store of that value took effect (e.g. the new value of a failed CompareAndSwap)", rd.Kind, k, rd.ID), rd
		}
		if s.Call > rd.Ret {
			return "value-from-future", fmt.Sprintf("%s of key %#x returned at t=%d with value id %#x whose store began at t=%d", rd.Kind, k, rd.Ret, rd.ID, s.Call), rd
		}
		// last mutation that completed strictly before the read began
		j := sort.Search(len(byRet), func(x int) bool { return byRet[x].Ret >= rd.Call }) - 1
		if j >= 0 && maxCall[j] > s.Ret {
			return "stale-read", fmt.Sprintf("%s of key %#x (t=%d..%d) yielded value id %#x stored during t=%d..%d, although a later mutation of that key began after t=%d and completed before the read began", rd.Kind, k, rd.Call, rd.Ret, rd.ID, s.Call, s.Ret, s.Ret), rd
		}
	}
	return "", "", nil
}

func runEvict(c *ctx, idx int) *evResult {
	rng := c.r.RandN("evict", idx)
	p := evParams{Kind: "evict", Index: idx}
	p.Capacity = []int{8, 16, 32, 64, 100, 256, 1000, 1500}[idx%8]
	p.Writers = []int{2, 4, 8, 16}[rng.IntN(4)]
	p.Readers = []int{1, 2, 4, 8}[rng.IntN(4)]
	p.Universe = p.Capacity*(2+rng.IntN(4)) + 16
	p.OpsPer = c.r.N(1500, 6000)
	p.Class = []string{"mixed", "sameseg", "collide", "wrap", "random", "seq"}[rng.IntN(6)]
	res := &evResult{params: p}
	// half of the universe lives in at most three segments so that their tables
	// hold many entries, grow, wrap and are evicted from in place
	keys := c.ko.pool(rng, p.Class, p.Universe/2, rng.IntN(256), true)
	for _, k := range c.ko.pool(rng, "sameseg", p.Universe/4, rng.IntN(256), false) {
		keys = append(keys, k)
	}
	for _, k := range c.ko.pool(rng, "random", p.Universe-len(keys), -1, false) {
		keys = append(keys, k)
	}
	{
		seen := map[uint64]struct{}{}
		out := keys[:0]
		for _, k := range keys {
			if _, dup := seen[k]; !dup {
				seen[k] = struct{}{}
				out = append(out, k)
			}
		}
		keys = out
	}
	universe := make(map[uint64]struct{}, len(keys))
	for _, k := range keys {
		universe[k] = struct{}{}
	}
	t := cache.New(p.Capacity)
	capacity := t.VerifC16Capacity()

	type worker struct {
		id     int
		rng    *rand.Rand
		stores []evStore
		reads  []evRead
		last   map[uint64]*cv
		ctr    uint64
		fail   *seqFail
		detail string
	}
	setFail := func(w *worker, kind, what string) {
		if w.fail == nil {
			w.fail = &seqFail{sig: "evict/" + kind, what: what}
		}
	}
	observe := func(w *worker, k uint64, v any, kind string, call, ret int64) *cv {
		pv, isP := v.(*cv)
		if !isP || pv == nil || pv.Key != k {
			setFail(w, "alias", fmt.Sprintf("%s for key %#x yielded %s, which was never stored under that key", kind, k, describe(v)))
			return nil
		}
		w.reads = append(w.reads, evRead{K: k, ID: pv.ID, Call: call, Ret: ret, Kind: kind})
		return pv
	}
	newVal := func(w *worker, k uint64) *cv {
		w.ctr++
		return &cv{Key: k, ID: uint64(w.id+1)<<40 | w.ctr}
	}
	pick := func(w *worker) uint64 {
		if w.rng.IntN(3) == 0 { // a hot set smaller than the capacity: contended keys that mostly survive
			return keys[w.rng.IntN(min(len(keys), p.Capacity/2+1))]
		}
		return keys[w.rng.IntN(len(keys))]
	}
	live := newLiveness(p.Writers + p.Readers) // frozen-progress guard (nest.go)
	writer := func(w *worker) {
		for i := 0; i < p.OpsPer; i++ {
			k := pick(w)
			if w.rng.IntN(16) == 0 {
				runtime.Gosched()
			}
			switch x := w.rng.IntN(100); {
			case x < 62:
				v := newVal(w, k)
				call := now()
				t.Add(k, v)
				ret := now()
				w.stores = append(w.stores, evStore{k, v.ID, call, ret, "add"})
				w.last[k] = v
			case x < 70:
				call := now()
				t.Remove(k)
				ret := now()
				w.stores = append(w.stores, evStore{k, 0, call, ret, "remove"})
				delete(w.last, k)
			case x < 82:
				old := w.last[k]
				v := newVal(w, k)
				var oa any
				if old != nil {
					oa = old
				}
				call := now()
				ok := t.CompareAndSwap(k, oa, v)
				ret := now()
				if ok {
					if old == nil {
						setFail(w, "cas-nil", fmt.Sprintf("CompareAndSwap(%#x, old=nil) reported success", k))
						return
					}
					// the successful compare is a read of old, the swap a store of v
					w.reads = append(w.reads, evRead{K: k, ID: old.ID, Call: call, Ret: ret, Kind: "cas-operand"})
					w.stores = append(w.stores, evStore{k, v.ID, call, ret, "cas"})
					w.last[k] = v
				}
			case x < 88:
				old := w.last[k]
				var oa any
				if old != nil {
					oa = old
				}
				call := now()
				ok := t.CompareAndDelete(k, oa)
				ret := now()
				if ok {
					if old == nil {
						setFail(w, "cas-nil", fmt.Sprintf("CompareAndDelete(%#x, old=nil) reported success", k))
						return
					}
					w.reads = append(w.reads, evRead{K: k, ID: old.ID, Call: call, Ret: ret, Kind: "cad-operand"})
					w.stores = append(w.stores, evStore{k, 0, call, ret, "cad"})
					delete(w.last, k)
				}
			default:
				call := now()
				v, ok := t.Get(k)
				ret := now()
				if ok {
					if pv := observe(w, k, v, "get", call, ret); pv != nil {
						w.last[k] = pv
					}
				}
			}
			if w.fail != nil {
				return
			}
			live.tick(w.id)
		}
	}
	reader := func(w *worker) {
		for i := 0; i < p.OpsPer; i++ {
			if w.rng.IntN(200) == 0 {
				seen := map[uint64]struct{}{}
				call := now()
				var pairs []Pair
				t.ForEach(func(k uint64, v any) bool {
					pairs = append(pairs, Pair{k, v})
					return true
				})
				ret := now()
				for _, pr := range pairs {
					if _, dup := seen[pr.k]; dup {
						setFail(w, "foreach-duplicate", fmt.Sprintf("one ForEach pass yielded key %#x twice", pr.k))
					}
					seen[pr.k] = struct{}{}
					if _, in := universe[pr.k]; !in {
						setFail(w, "foreach-phantom", fmt.Sprintf("ForEach yielded key %#x which no goroutine ever stored", pr.k))
						continue
					}
					observe(w, pr.k, pr.v, "foreach", call, ret)
				}
			} else {
				k := pick(w)
				call := now()
				v, ok := t.Get(k)
				ret := now()
				if ok {
					observe(w, k, v, "get", call, ret)
				}
			}
			if w.fail != nil {
				return
			}
			live.tick(w.id)
		}
	}

	var ws []*worker
	for g := 0; g < p.Writers+p.Readers; g++ {
		ws = append(ws, &worker{id: g, rng: c.r.RandN(fmt.Sprintf("evict/w%d", g), idx), last: map[uint64]*cv{}})
	}
	var wg sync.WaitGroup
	start := make(chan struct{})
	var stop atomic.Bool
	var monMax, monN, monOver int64
	monDone := make(chan struct{})
	go func() { // Len() sampler
		defer close(monDone)
		<-start
		for !stop.Load() {
			l := int64(t.Len())
			monN++
			if l > monMax {
				monMax = l
			}
			if l > capacity {
				monOver++
			}
			if monN%64 == 0 {
				runtime.Gosched()
			}
		}
	}()
	for g, w := range ws {
		wg.Add(1)
		go func(g int, w *worker) {
			defer wg.Done()
			defer live.finish(g)
			defer func() {
				if pn := recover(); pn != nil {
					setFail(w, "panic", fmt.Sprintf("panic in a table operation: %v", pn))
				}
			}()
			<-start
			live.enter(g)
			if g < p.Writers {
				writer(w)
			} else {
				reader(w)
			}
		}(g, w)
	}
	close(start)
	allDone := make(chan struct{})
	go func() { wg.Wait(); close(allDone) }()
	if v := live.wait(allDone); v.dead || v.starved {
		stop.Store(true)
		<-monDone
		if v.starved {
			res.inconc = fmt.Sprintf("over-capacity run %d made no progress for %s but its goroutines are not all blocked on mutexes (starved machine?): not judged", idx, v.frozen)
			return res
		}
		// the table must not be touched any more: its locks are held for good
		what := fmt.Sprintf("%d writers and %d readers on a cache of capacity %d: after %d operations not one more completed for %s, and every unfinished goroutine is blocked in a mutex of the table (only these goroutines ever lock it, and none of them is running)", p.Writers, p.Readers, p.Capacity, live.total(), v.frozen)
		res.fail = &seqFail{sig: "deadlock/over-capacity-run", what: what}
		res.failCase = &evCase{evParams: p, Detail: what, Completed: live.completed(), Dump: v.dump}
		return res
	}
	stop.Store(true)
	<-monDone
	res.lenSamples, res.lenMax, res.lenOverCap = int(monN), monMax, int(monOver)

	for _, w := range ws {
		if w.fail != nil {
			res.fail = w.fail
			res.failCase = &evCase{evParams: p, Detail: w.fail.what}
			return res
		}
	}
	if monMax > capacity+int64(p.Writers) {
		res.fail = &seqFail{sig: "evict/over-capacity", what: fmt.Sprintf("sampled Len()=%d with capacity %d and %d concurrent writers", monMax, capacity, p.Writers)}
		res.failCase = &evCase{evParams: p, Detail: res.fail.what}
		return res
	}

	// quiescent state
	stores := map[uint64][]evStore{}
	reads := map[uint64][]evRead{}
	for _, w := range ws {
		for _, s := range w.stores {
			stores[s.K] = append(stores[s.K], s)
			switch s.Kind {
			case "cas":
				res.casOK++
			case "cad":
				res.cadOK++
			}
		}
		for _, r := range w.reads {
			reads[r.K] = append(reads[r.K], r)
		}
		res.stores += len(w.stores)
		res.reads += len(w.reads)
	}
	qnow := now()
	gets := 0
	for _, k := range keys {
		v, ok := t.Get(k)
		if !ok {
			// evicted (or removed): legal. Count keys whose every maximal
			// mutation is a store as observed evictions.
			ss := stores[k]
			if len(ss) > 0 {
				lastCall := int64(-1)
				for _, s := range ss {
					if s.Call > lastCall {
						lastCall = s.Call
					}
				}
				allStores := true
				for _, s := range ss {
					if s.Ret >= lastCall && s.ID == 0 { // a removal concurrent with / after the last mutation
						allStores = false
					}
				}
				if allStores {
					res.evicted++
				}
			}
			continue
		}
		gets++
		pv, isP := v.(*cv)
		if !isP || pv == nil || pv.Key != k {
			res.fail = &seqFail{sig: "evict/alias", what: fmt.Sprintf("quiescent Get(%#x) yielded %s", k, describe(v))}
			res.failCase = &evCase{evParams: p, Detail: res.fail.what}
			return res
		}
		reads[k] = append(reads[k], evRead{K: k, ID: pv.ID, Call: qnow, Ret: qnow + 1, Kind: "quiescent-get"})
	}
	for k, rs := range reads {
		if kind, what, rd := judgeReads(k, stores[k], rs); kind != "" {
			res.fail = &seqFail{sig: "evict/" + kind, what: what}
			res.failCase = &evCase{evParams: p, Read: rd, Stores: stores[k], Detail: what}
			return res
		}
	}
	n, dup := 0, false
	seen := map[uint64]struct{}{}
	t.ForEach(func(k uint64, _ any) bool {
		if _, d := seen[k]; d {
			dup = true
		}
		seen[k] = struct{}{}
		n++
		return true
	})
	l, st, rc := t.Len(), t.VerifC16Stored(), t.VerifC16Reachable()
	res.finalLen = l
	switch {
	case dup:
		res.fail = &seqFail{sig: "evict/foreach-duplicate", what: "quiescent ForEach yielded a key twice"}
	case l != n || l != gets || l != st || l != rc:
		res.fail = &seqFail{sig: "evict/quiescent-miscount", what: fmt.Sprintf("after writers stopped: Len()=%d, ForEach yields %d, successful Gets over the key universe %d, stored slots %d, reachable %d (capacity %d)", l, n, gets, st, rc, capacity)}
	case int64(l) > capacity:
		res.fail = &seqFail{sig: "evict/over-capacity-quiescent", what: fmt.Sprintf("after writers stopped Len()=%d exceeds capacity %d", l, capacity)}
	}
	if res.fail != nil {
		res.failCase = &evCase{evParams: p, Detail: res.fail.what}
	}
	sum, maxB := t.VerifC16Inner().VerifC16Shape()
	res.wrapped, res.grewTo = sum.Wrapped, maxB
	for _, rs := range reads {
		res.readHits += len(rs)
	}
	return res
}

// Pair is a (key, value) yielded by ForEach.
type Pair struct {
	k uint64
	v any
}
