package main

import (
	"encoding/binary"
	"fmt"
	"hash/fnv"
	"math/rand/v2"
	"runtime"
	"sort"
	"sync"
	"time"

	"github.com/anishathalye/porcupine"
	"github.com/semihalev/sdns/internal/cache"
)

// One monotonic clock for every call/return stamp. time.Since uses the
// monotonic reading and, unlike an atomic counter, adds no happens-before edge
// between the workers, so the race detector still sees the tables' own
// synchronisation only.
var clock0 = time.Now()

func now() int64 { return int64(time.Since(clock0)) }

const (
	opSet    = uint8(iota + 1) // store A
	opGet                      // -> V, OK
	opHas                      // -> OK
	opDel                      // -> OK (deleted)
	opRemove                   // no result
	opPIE                      // PutIfNotExists A -> V (existing), OK (inserted)
	opCAS                      // A old, B new -> OK
	opCAD                      // A old -> OK
	opEach                     // per-key observation made by one ForEach pass -> V, OK
	opSetCap                   // SetWithCap far below capacity: same as opSet
)

var opNames = map[uint8]string{opSet: "set", opGet: "get", opHas: "has", opDel: "del", opRemove: "remove", opPIE: "putifnotexists", opCAS: "cas", opCAD: "cad", opEach: "foreach", opSetCap: "setwithcap"}

// linOp is one completed operation: value ids (0 = absent/nil) instead of pointers.
type linOp struct {
	C    int    `json:"c"`
	Op   uint8  `json:"op"`
	K    uint64 `json:"k"`
	A    uint64 `json:"a,omitempty"`
	B    uint64 `json:"b,omitempty"`
	V    uint64 `json:"v,omitempty"`
	OK   bool   `json:"ok,omitempty"`
	Call int64  `json:"call"`
	Ret  int64  `json:"ret"`
}

type linIn struct {
	op   uint8
	k    uint64
	a, b uint64
}
type linOut struct {
	v  uint64
	ok bool
}

// registerModel: per key, the state is the id of the current value (0 = absent).
var registerModel = porcupine.Model{
	Partition: func(h []porcupine.Operation) [][]porcupine.Operation {
		by := map[uint64][]porcupine.Operation{}
		var order []uint64
		for _, o := range h {
			k := o.Input.(linIn).k
			if _, ok := by[k]; !ok {
				order = append(order, k)
			}
			by[k] = append(by[k], o)
		}
		out := make([][]porcupine.Operation, 0, len(by))
		for _, k := range order {
			out = append(out, by[k])
		}
		return out
	},
	Init: func() interface{} { return uint64(0) },
	Step: func(state, input, output interface{}) (bool, interface{}) {
		s := state.(uint64)
		in := input.(linIn)
		out := output.(linOut)
		switch in.op {
		case opSet, opSetCap:
			return true, in.a
		case opGet, opEach:
			if out.ok {
				return s != 0 && s == out.v, s
			}
			return s == 0, s
		case opHas:
			return out.ok == (s != 0), s
		case opDel:
			return out.ok == (s != 0), uint64(0)
		case opRemove:
			return true, uint64(0)
		case opPIE:
			if out.ok {
				return s == 0, in.a
			}
			return s != 0 && out.v == s, s
		case opCAS:
			if out.ok {
				return in.a != 0 && s == in.a, in.b
			}
			return in.a == 0 || s != in.a, s
		case opCAD:
			if out.ok {
				return in.a != 0 && s == in.a, uint64(0)
			}
			return in.a == 0 || s != in.a, s
		}
		return false, s
	},
	Equal: func(a, b interface{}) bool { return a.(uint64) == b.(uint64) },
	DescribeOperation: func(input, output interface{}) string {
		in, out := input.(linIn), output.(linOut)
		return fmt.Sprintf("%s(%#x,%d,%d)->(%d,%v)", opNames[in.op], in.k, in.a, in.b, out.v, out.ok)
	},
}

func toPorcupine(ops []linOp) []porcupine.Operation {
	out := make([]porcupine.Operation, len(ops))
	for i, o := range ops {
		out[i] = porcupine.Operation{ClientId: o.C, Input: linIn{o.Op, o.K, o.A, o.B}, Call: o.Call, Output: linOut{o.V, o.OK}, Return: o.Ret}
	}
	return out
}

// interleavingHash identifies the observed schedule: the order of all call and
// return events (ties broken by client), not their absolute times.
func interleavingHash(ops []linOp) string {
	type ev struct {
		t   int64
		c   int
		seq int
		ret bool
	}
	evs := make([]ev, 0, 2*len(ops))
	perClient := map[int]int{}
	for _, o := range ops {
		n := perClient[o.C]
		perClient[o.C] = n + 1
		evs = append(evs, ev{o.Call, o.C, n, false}, ev{o.Ret, o.C, n, true})
	}
	sort.Slice(evs, func(i, j int) bool {
		a, b := evs[i], evs[j]
		if a.t != b.t {
			return a.t < b.t
		}
		if a.c != b.c {
			return a.c < b.c
		}
		if a.seq != b.seq {
			return a.seq < b.seq
		}
		return !a.ret && b.ret
	})
	h := fnv.New64a()
	var buf [10]byte
	for _, e := range evs {
		binary.LittleEndian.PutUint32(buf[0:], uint32(e.c))
		binary.LittleEndian.PutUint32(buf[4:], uint32(e.seq))
		buf[8] = 0
		if e.ret {
			buf[8] = 1
		}
		h.Write(buf[:9])
	}
	return fmt.Sprintf("%016x", h.Sum64())
}

// concurrency of a history = number of operation pairs on the same key whose
// intervals overlap (evidence that the schedule was not sequential)
func overlaps(ops []linOp) int {
	by := map[uint64][]linOp{}
	for _, o := range ops {
		by[o.K] = append(by[o.K], o)
	}
	n := 0
	for _, l := range by {
		sort.Slice(l, func(i, j int) bool { return l[i].Call < l[j].Call })
		for i := range l {
			for j := i + 1; j < len(l) && l[j].Call <= l[i].Ret; j++ {
				if l[i].C != l[j].C {
					n++
				}
			}
		}
	}
	return n
}

// linTable: the operations of one table type on `any` values.
type linTable struct {
	name   string
	set    func(k uint64, v any)
	setCap func(k uint64, v any)
	get    func(k uint64) (any, bool)
	has    func(k uint64) bool
	del    func(k uint64) bool
	remove func(k uint64)
	pie    func(k uint64, v any) (any, bool)
	cas    func(k uint64, old, v any) bool
	cad    func(k uint64, old any) bool
	each   func(f func(uint64, any) bool)
	length func() int
	inner  *cache.SegmentUInt64Map[any]
	ops    []uint8 // op mix (with repetition = weight)
}

func newLinTable(name string, capacity int) *linTable {
	switch name {
	case "segment":
		m := cache.NewSegmentUInt64Map[any](uint8(4+capacity%5), 0)
		return &linTable{name: name, inner: m, set: m.Set, setCap: func(k uint64, v any) { m.SetWithCap(k, v, int64(capacity)) },
			get: m.Get, has: m.Has, del: m.Del, pie: m.PutIfNotExists, each: m.ForEach, length: func() int { return int(m.Len()) },
			ops: []uint8{opSet, opSet, opSet, opSetCap, opGet, opGet, opGet, opHas, opDel, opDel, opPIE, opPIE, opEach}}
	case "sync":
		m := cache.NewSyncUInt64Map[any](uint(capacity % 12))
		return &linTable{name: name, inner: m.VerifC16Inner(), set: m.Set, setCap: func(k uint64, v any) { m.SetWithCap(k, v, int64(capacity)) },
			get: m.Get, has: m.Has, del: m.Del, each: m.ForEach, length: func() int { return int(m.Len()) },
			ops: []uint8{opSet, opSet, opSetCap, opSetCap, opGet, opGet, opGet, opHas, opDel, opDel, opEach}}
	default:
		c := cache.New(capacity)
		return &linTable{name: "cache", inner: c.VerifC16Inner(), setCap: c.Add, get: c.Get, remove: c.Remove,
			cas: c.CompareAndSwap, cad: c.CompareAndDelete, each: c.ForEach, length: c.Len,
			ops: []uint8{opSetCap, opSetCap, opSetCap, opGet, opGet, opGet, opRemove, opCAS, opCAS, opCAS, opCAD, opCAD, opEach}}
	}
}

type linParams struct {
	Kind       string   `json:"kind"` // "lin"
	Table      string   `json:"table"`
	Index      int      `json:"index"`
	Goroutines int      `json:"goroutines"`
	Capacity   int      `json:"capacity"`
	Hot        []uint64 `json:"hot_keys"`
	Filler     int      `json:"filler_keys_per_goroutine"`
	OpsPer     int      `json:"ops_per_goroutine"`
	Placement  string   `json:"placement"`
	Think      int      `json:"think_spin"` // upper bound of the busy-wait between operations (0 = back to back)
}

type linCase struct {
	linParams
	FailKey uint64  `json:"fail_key"`
	Ops     []linOp `json:"ops"` // the failing key's partition (or all on replay of a full history)
}

type linResult struct {
	params  linParams
	ops     []linOp
	direct  *seqFail // violation seen without the checker (alias, duplicate in one ForEach pass, bad quiescent state)
	casOK   int
	casFail int
	cadOK   int
	cadFail int
	grew    bool
	wrapped bool
}

// spin burns roughly n nanoseconds without touching shared memory.
func spin(n int) uint64 {
	x := uint64(n) | 1
	for i := 0; i < n; i++ {
		x = x*6364136223846793005 + 1442695040888963407
	}
	return x
}

func idOf(v any) (id uint64, key uint64, ok bool) {
	p, isP := v.(*cv)
	if !isP || p == nil {
		return 0, 0, false
	}
	return p.ID, p.Key, true
}

// runLinHistory executes one short concurrent history against a fresh table and
// returns the recorded operations. Total distinct keys stay far below capacity.
func runLinHistory(c *ctx, table string, idx int) *linResult {
	rng := c.r.RandN("lin/"+table, idx)
	p := linParams{Kind: "lin", Table: table, Index: idx}
	p.Goroutines = []int{4, 4, 6, 8, 8, 12, 16, 24, 32}[rng.IntN(9)]
	if c.r.Quick() && p.Goroutines > 16 {
		// the short quick-tier checker budget rarely finishes a 24/32-goroutine
		// history on a loaded machine; crowds that large are left to thorough
		p.Goroutines = 16
	}
	p.Capacity = []int{256, 1000, 1024, 4096, 20000}[rng.IntN(5)]
	nHot := 1 + rng.IntN(4)
	p.Filler = []int{0, 0, 1, 2, 3, 6}[rng.IntN(6)]
	total := 300 + rng.IntN(200)
	p.OpsPer = total / p.Goroutines
	if p.OpsPer < 10 {
		p.OpsPer = 10
	}
	// All goroutines hammering one segment back to back are permanently queued
	// on its lock, i.e. every operation overlaps with one of every other
	// goroutine; the checker's search is exponential in that number. Dense
	// histories are therefore run with few goroutines, larger crowds with a
	// random busy-wait between operations (outside the stamped interval).
	if p.Goroutines > 8 || rng.IntN(2) == 0 {
		p.Think = p.Goroutines * p.Goroutines * (20 + rng.IntN(40))
	}
	// placement of hot + filler keys
	seg := rng.IntN(256)
	p.Placement = []string{"collide", "wrap", "sameseg", "spread", "collide"}[rng.IntN(5)]
	class, pseg := p.Placement, seg
	if class == "spread" {
		class, pseg = "random", -1
	}
	keys := c.ko.pool(rng, class, nHot+p.Filler*p.Goroutines, pseg, rng.IntN(3) == 0)
	for len(keys) < nHot+p.Filler*p.Goroutines { // dedup may have shortened a tiny pool
		keys = append(keys, c.ko.key(rng, pseg, -1))
	}
	// the zero key (if any) is pool[0]; make it a hot key
	p.Hot = append([]uint64{}, keys[:nHot]...)
	fill := keys[nHot:]

	t := newLinTable(table, p.Capacity)
	res := &linResult{params: p}
	tracked := map[uint64]struct{}{}
	for _, k := range keys {
		tracked[k] = struct{}{}
	}
	b0, _ := t.inner.VerifC16Shape()

	type worker struct {
		id   int
		rng  *rand.Rand
		ops  []linOp
		last map[uint64]any
		ctr  uint64
		keys []uint64
		fail *seqFail
		spun uint64
	}
	newVal := func(w *worker, k uint64) *cv {
		w.ctr++
		return &cv{Key: k, ID: uint64(w.id+1)<<32 | w.ctr}
	}
	observe := func(w *worker, k uint64, v any, where string) (uint64, bool) {
		id, key, ok := idOf(v)
		if !ok || key != k {
			if w.fail == nil {
				w.fail = &seqFail{sig: "lin/" + table + "/alias", what: fmt.Sprintf("%s for key %#x returned %s, which was never stored under that key", where, k, describe(v))}
			}
			return 0, false
		}
		return id, true
	}
	step := func(w *worker) {
		k := w.keys[0]
		if x := w.rng.IntN(10); x < 7 || len(w.keys) <= len(p.Hot) {
			k = p.Hot[w.rng.IntN(len(p.Hot))]
		} else {
			k = w.keys[len(p.Hot)+w.rng.IntN(len(w.keys)-len(p.Hot))]
		}
		op := t.ops[w.rng.IntN(len(t.ops))]
		if w.rng.IntN(6) == 0 {
			runtime.Gosched()
		}
		if p.Think > 0 {
			w.spun += spin(w.rng.IntN(p.Think))
		}
		rec := linOp{C: w.id, Op: op, K: k}
		switch op {
		case opSet, opSetCap:
			v := newVal(w, k)
			rec.A = v.ID
			if op == opSet && t.set != nil {
				rec.Call = now()
				t.set(k, v)
				rec.Ret = now()
			} else {
				rec.Op = opSetCap
				rec.Call = now()
				t.setCap(k, v)
				rec.Ret = now()
			}
			w.last[k] = v
		case opGet:
			rec.Call = now()
			v, ok := t.get(k)
			rec.Ret = now()
			if ok {
				if id, good := observe(w, k, v, "Get"); good {
					rec.V, rec.OK = id, true
					w.last[k] = v
				} else {
					return
				}
			}
		case opHas:
			rec.Call = now()
			rec.OK = t.has(k)
			rec.Ret = now()
		case opDel:
			rec.Call = now()
			rec.OK = t.del(k)
			rec.Ret = now()
		case opRemove:
			rec.Call = now()
			t.remove(k)
			rec.Ret = now()
		case opPIE:
			v := newVal(w, k)
			rec.A = v.ID
			rec.Call = now()
			got, ins := t.pie(k, v)
			rec.Ret = now()
			rec.OK = ins
			if ins {
				w.last[k] = v
			} else if id, good := observe(w, k, got, "PutIfNotExists"); good {
				rec.V = id
				w.last[k] = got
			} else {
				return
			}
		case opCAS, opCAD:
			var old any
			switch w.rng.IntN(8) {
			case 0:
				old = &cv{Key: k, ID: 1<<62 | uint64(w.id)<<32 | w.ctr} // never stored
			case 1:
				old = nil
			default:
				old = w.last[k] // last value this goroutine saw or wrote (may be nil)
			}
			if id, _, ok := idOf(old); ok {
				rec.A = id
			}
			if op == opCAS {
				v := newVal(w, k)
				rec.B = v.ID
				rec.Call = now()
				rec.OK = t.cas(k, old, v)
				rec.Ret = now()
				if rec.OK {
					w.last[k] = v
				}
			} else {
				rec.Call = now()
				rec.OK = t.cad(k, old)
				rec.Ret = now()
			}
		case opEach:
			seen := map[uint64]any{}
			call := now()
			t.each(func(k2 uint64, v any) bool {
				if _, dup := seen[k2]; dup && w.fail == nil {
					w.fail = &seqFail{sig: "lin/" + table + "/foreach-duplicate", what: fmt.Sprintf("one ForEach pass yielded key %#x twice", k2)}
				}
				seen[k2] = v
				return true
			})
			ret := now()
			for k2 := range seen {
				if _, mine := tracked[k2]; !mine && w.fail == nil {
					w.fail = &seqFail{sig: "lin/" + table + "/foreach-phantom", what: fmt.Sprintf("ForEach yielded key %#x which no goroutine ever stored", k2)}
				}
			}
			// a ForEach pass reads every key under its segment's read lock:
			// per key it is one read somewhere inside [call, ret]. Recorded for
			// the hot keys and this goroutine's own filler keys.
			for _, k2 := range w.keys {
				r2 := linOp{C: w.id, Op: opEach, K: k2, Call: call, Ret: ret}
				if v, ok := seen[k2]; ok {
					if id, good := observe(w, k2, v, "ForEach"); good {
						r2.V, r2.OK = id, true
					} else {
						continue
					}
				}
				w.ops = append(w.ops, r2)
			}
			return
		}
		w.ops = append(w.ops, rec)
	}

	ws := make([]*worker, p.Goroutines)
	for g := range ws {
		w := &worker{id: g, rng: c.r.RandN(fmt.Sprintf("lin/%s/w%d", table, g), idx), last: map[uint64]any{}}
		w.keys = append(append([]uint64{}, p.Hot...), fill[g*p.Filler:(g+1)*p.Filler]...)
		ws[g] = w
	}
	// a sequential preload by client 0 so histories do not all start empty
	if rng.IntN(2) == 0 {
		w := ws[0]
		for _, k := range w.keys {
			if rng.IntN(2) == 0 {
				v := newVal(w, k)
				rec := linOp{C: w.id, Op: opSetCap, K: k, A: v.ID}
				rec.Call = now()
				t.setCap(k, v)
				rec.Ret = now()
				w.last[k] = v
				w.ops = append(w.ops, rec)
			}
		}
	}
	var wg sync.WaitGroup
	start := make(chan struct{})
	for _, w := range ws {
		wg.Add(1)
		go func(w *worker) {
			defer wg.Done()
			defer func() {
				if pn := recover(); pn != nil && w.fail == nil {
					w.fail = &seqFail{sig: "lin/" + table + "/panic", what: fmt.Sprintf("panic in a table operation: %v", pn)}
				}
			}()
			<-start
			for i := 0; i < p.OpsPer; i++ {
				step(w)
			}
		}(w)
	}
	close(start)
	wg.Wait()
	for _, w := range ws {
		res.ops = append(res.ops, w.ops...)
		if w.fail != nil && res.direct == nil {
			res.direct = w.fail
		}
	}
	for _, o := range res.ops {
		switch {
		case o.Op == opCAS && o.OK:
			res.casOK++
		case o.Op == opCAS:
			res.casFail++
		case o.Op == opCAD && o.OK:
			res.cadOK++
		case o.Op == opCAD:
			res.cadFail++
		}
	}
	// quiescent read of every tracked key, appended to the history as a final
	// client: the end state must be explained by the linearization too
	qc := p.Goroutines
	n, reach := 0, 0
	for k := range tracked {
		rec := linOp{C: qc, Op: opGet, K: k}
		rec.Call = now()
		v, ok := t.get(k)
		rec.Ret = now()
		if ok {
			reach++
			id, key, good := idOf(v)
			if !good || key != k {
				if res.direct == nil {
					res.direct = &seqFail{sig: "lin/" + table + "/alias", what: fmt.Sprintf("quiescent Get(%#x) returned %s", k, describe(v))}
				}
				continue
			}
			rec.V, rec.OK = id, true
		}
		res.ops = append(res.ops, rec)
	}
	t.each(func(uint64, any) bool { n++; return true })
	if l, s, rc := t.length(), t.inner.VerifC16Stored(), t.inner.VerifC16Reachable(); res.direct == nil && (l != n || l != reach || l != s || l != rc) {
		res.direct = &seqFail{sig: "lin/" + table + "/quiescent-miscount", what: fmt.Sprintf("after all goroutines returned (no eviction possible: %d keys, capacity %d): Len()=%d, ForEach yields %d, successful Gets %d, stored slots %d, reachable %d", len(tracked), p.Capacity, l, n, reach, s, rc)}
	}
	b1, _ := t.inner.VerifC16Shape()
	res.grew = b1.Buckets != b0.Buckets
	res.wrapped = b1.Wrapped > 0
	return res
}

// checkLin judges one history. Illegal -> the failing key's partition is
// isolated for the replay case.
func checkLin(res *linResult, timeout time.Duration) (porcupine.CheckResult, *linCase) {
	ops := toPorcupine(res.ops)
	r := porcupine.CheckOperationsTimeout(registerModel, ops, timeout)
	if r != porcupine.Illegal {
		return r, nil
	}
	lc := &linCase{linParams: res.params}
	for _, part := range registerModel.Partition(ops) {
		m := registerModel
		m.Partition = nil
		if porcupine.CheckOperationsTimeout(m, part, timeout) == porcupine.Illegal {
			lc.FailKey = part[0].Input.(linIn).k
			for _, o := range res.ops {
				if o.K == lc.FailKey {
					lc.Ops = append(lc.Ops, o)
				}
			}
			sort.Slice(lc.Ops, func(i, j int) bool { return lc.Ops[i].Call < lc.Ops[j].Call })
			return r, lc
		}
	}
	lc.Ops = res.ops
	return r, lc
}
