package main

import (
	"fmt"
	"time"

	"github.com/miekg/dns"
	"github.com/semihalev/sdns/internal/authority"
	mcache "github.com/semihalev/sdns/middleware/cache"
	"github.com/semihalev/sdns/middleware/ratelimit"
)

// The same reference-map judgement through the types users actually hold, as far
// as their exported API allows. Scripts are regenerated from (seed, index), so
// the replay case is the index.

type wrapCase struct {
	Kind    string `json:"kind"` // "wrap"
	Wrapper string `json:"wrapper"`
	Index   int    `json:"index"`
	Op      int    `json:"failing_op"`
}

type wrapStats struct {
	ops, evictions, expired, casRenewals int
}

type answerCache interface {
	Get(uint64) (*mcache.CacheEntry, bool)
	Set(uint64, *mcache.CacheEntry)
	Remove(uint64)
	Len() int
}

func testMsg(i int) *dns.Msg {
	m := new(dns.Msg)
	m.SetQuestion(fmt.Sprintf("k%d.c16.test.", i), dns.TypeA)
	m.Response = true
	return m
}

// runWrapAnswer drives PositiveCache / NegativeCache: Set/Get/Remove/Len with
// live and already-expired entries (an expired entry is deleted by the Get that
// finds it, through CompareAndDelete).
func runWrapAnswer(c *ctx, which string, idx int, st *wrapStats) (fail *seqFail) {
	rng := c.r.RandN("wrap/"+which, idx)
	size := []int{4, 32, 200, 1024}[rng.IntN(4)]
	var pc answerCache
	if which == "positive" {
		pc = mcache.NewPositiveCache(size, time.Second, time.Hour, &mcache.CacheMetrics{})
	} else {
		pc = mcache.NewNegativeCache(size, time.Second, time.Hour, &mcache.CacheMetrics{})
	}
	at := 0
	bad := func(kind, format string, a ...any) *seqFail {
		return &seqFail{"wrap/" + which + "/" + kind, fmt.Sprintf(format, a...), at}
	}
	defer func() {
		if p := recover(); p != nil {
			fail = bad("panic", "panic: %v", p)
		}
	}()
	poolN := size/2 + rng.IntN(3*size)
	pool := c.ko.pool(rng, keyClasses[idx%len(keyClasses)], poolN, rng.IntN(256), rng.IntN(2) == 0)
	type refEnt struct {
		e       *mcache.CacheEntry
		expired bool
	}
	ref := map[uint64]refEnt{}
	nops := 200 + rng.IntN(1500)
	reconcile := func(over bool) *seqFail {
		for k, w := range ref {
			got, ok := pc.Get(k)
			switch {
			case w.expired:
				if ok {
					return bad("expired-served", "Get(%#x) returned an entry stored already expired", k)
				}
				delete(ref, k) // deleted by that Get (or evicted before)
				st.expired++
			case !ok:
				if !over {
					return bad("lost-key", "key %#x stored and never removed, cache never over capacity since, but Get misses it", k)
				}
				delete(ref, k)
				st.evictions++
			case got != w.e:
				return bad("stale-value", "Get(%#x) returned a different entry than the one most recently stored", k)
			}
		}
		if pc.Len() != len(ref) {
			return bad("miscount", "Len()=%d but %d keys are reachable", pc.Len(), len(ref))
		}
		return nil
	}
	for i := 0; i < nops; i++ {
		at = i
		st.ops++
		k := pickKey(rng, pool)
		switch x := rng.IntN(100); {
		case x < 45:
			e := mcache.NewCacheEntry(testMsg(i), time.Hour, 0)
			pc.Set(k, e)
			ref[k] = refEnt{e: e}
			if got, ok := pc.Get(k); !ok {
				return bad("self-evict", "Set(%#x) left the key absent", k)
			} else if got != e {
				return bad("stale-value", "Get(%#x) right after Set returned another entry", k)
			}
			if len(ref) > size {
				if f := reconcile(true); f != nil {
					return f
				}
				if pc.Len() > size+1 {
					return bad("over-capacity", "Len()=%d with capacity %d after a single-writer Set", pc.Len(), size)
				}
			}
		case x < 55:
			e := mcache.NewCacheEntry(testMsg(i), -time.Second, 0)
			if !e.IsExpired() {
				continue
			}
			pc.Set(k, e)
			ref[k] = refEnt{e: e, expired: true}
			if len(ref) > size {
				if f := reconcile(true); f != nil {
					return f
				}
			}
		case x < 75:
			got, ok := pc.Get(k)
			w, in := ref[k]
			switch {
			case in && w.expired:
				if ok {
					return bad("expired-served", "Get(%#x) returned an entry stored already expired", k)
				}
				delete(ref, k)
				st.expired++
			case in != ok:
				return bad("lost-key", "Get(%#x) ok=%v, reference present=%v", k, ok, in)
			case in && got != w.e:
				return bad("stale-value", "Get(%#x) returned a different entry than the one most recently stored", k)
			}
		case x < 92:
			pc.Remove(k)
			delete(ref, k)
			if _, ok := pc.Get(k); ok {
				return bad("phantom-key", "Get(%#x) succeeds right after Remove", k)
			}
		default:
			if f := reconcile(false); f != nil {
				return f
			}
		}
		if pc.Len() != len(ref) {
			return bad("miscount", "Len()=%d, reference holds %d keys", pc.Len(), len(ref))
		}
	}
	return reconcile(false)
}

// runWrapDelegation drives authority.Cache (Set/Get/Remove; capacity 256K, so
// the scripted part stays under capacity) — the delegation cache.
func runWrapDelegation(c *ctx, idx int, st *wrapStats) (fail *seqFail) {
	rng := c.r.RandN("wrap/delegation", idx)
	dc := authority.NewCache()
	at := 0
	bad := func(kind, format string, a ...any) *seqFail {
		return &seqFail{"wrap/delegation/" + kind, fmt.Sprintf(format, a...), at}
	}
	defer func() {
		if p := recover(); p != nil {
			fail = bad("panic", "panic: %v", p)
		}
	}()
	pool := c.ko.pool(rng, keyClasses[idx%len(keyClasses)], 20+rng.IntN(600), rng.IntN(256), rng.IntN(2) == 0)
	ref := map[uint64]*authority.Servers{}
	check := func(k uint64) *seqFail {
		d, err := dc.Get(k)
		want, in := ref[k]
		switch {
		case in && err != nil:
			return bad("lost-key", "Get(%#x): %v, but a delegation was stored and never removed (cache far below capacity)", k, err)
		case !in && err == nil:
			return bad("phantom-key", "Get(%#x) finds a delegation for a key never stored / removed", k)
		case in && d.Servers != want:
			return bad("stale-value", "Get(%#x) returns another delegation than the most recently stored one", k)
		}
		return nil
	}
	nops := 300 + rng.IntN(2500)
	for i := 0; i < nops; i++ {
		at = i
		st.ops++
		k := pickKey(rng, pool)
		switch x := rng.IntN(100); {
		case x < 45:
			s := &authority.Servers{Zone: fmt.Sprintf("z%d.", i)}
			ttl := []time.Duration{time.Hour, time.Minute, 30 * time.Hour, 0, -time.Second}[rng.IntN(5)]
			if rng.IntN(2) == 0 {
				dc.Set(k, nil, s, ttl)
			} else {
				dc.SetUntil(k, nil, s, time.Now().Add(ttl))
			}
			if ttl > 0 {
				ref[k] = s
			}
			if f := check(k); f != nil {
				return f
			}
		case x < 75:
			if f := check(k); f != nil {
				return f
			}
		default:
			dc.Remove(k)
			delete(ref, k)
			if f := check(k); f != nil {
				return f
			}
		}
		if i%97 == 0 || i == nops-1 {
			for k2 := range ref {
				if f := check(k2); f != nil {
					return f
				}
			}
			for _, k2 := range pool {
				if _, in := ref[k2]; !in {
					if f := check(k2); f != nil {
						return f
					}
				}
			}
		}
	}
	return nil
}

// runWrapFailure drives FailureCache with an injected clock: exact-question
// records, lookups, resets, expiry renewals (CompareAndSwap) and purges
// (ForEach + CompareAndDelete).
func runWrapFailure(c *ctx, idx int, st *wrapStats) (fail *seqFail) {
	rng := c.r.RandN("wrap/failure", idx)
	size := []int{8, 64, 300, 4096}[rng.IntN(4)]
	clock := time.Unix(1_700_000_000, 0)
	fc, err := mcache.NewFailureCache(mcache.FailureCacheConfig{Size: size, InitialTTL: 5 * time.Second, MaxTTL: 5 * time.Minute, Now: func() time.Time { return clock }})
	at := 0
	bad := func(kind, format string, a ...any) *seqFail {
		return &seqFail{"wrap/failure/" + kind, fmt.Sprintf(format, a...), at}
	}
	if err != nil {
		return bad("harness", "NewFailureCache: %v", err)
	}
	defer func() {
		if p := recover(); p != nil {
			fail = bad("panic", "panic: %v", p)
		}
	}()
	nq := size/2 + rng.IntN(2*size)
	keyOf := func(i int) mcache.FailureQuestionKey {
		return mcache.FailureQuestionKey{Question: dns.Question{Name: fmt.Sprintf("q%d.c16fail.", i), Qtype: dns.TypeA, Qclass: dns.ClassINET}, CD: i%3 == 0}
	}
	type refEnt struct {
		streak     uint32
		retryAfter time.Time
	}
	ref := map[int]refEnt{}
	over := false
	nops := 200 + rng.IntN(1500)
	for i := 0; i < nops; i++ {
		at = i
		st.ops++
		qi := rng.IntN(nq)
		if rng.IntN(2) == 0 {
			qi = rng.IntN(nq/8 + 1)
		}
		key := keyOf(qi)
		switch x := rng.IntN(100); {
		case x < 40:
			hit := fc.RecordQuestion(key, "c16", nil)
			w, in := ref[qi]
			if hit.Question.Question.Name != key.Question.Name || hit.Question.CD != key.CD || hit.Kind != mcache.FailureKindQuestion {
				return bad("alias", "RecordQuestion(%s) returned the state of %s", key.Question.Name, hit.Question.Question.Name)
			}
			switch {
			case !in || (over && hit.Streak == 1 && !clock.Before(w.retryAfter)):
				// new key (or evicted history: restart is legal once over capacity)
				if !in && hit.Streak != 1 {
					return bad("phantom-key", "RecordQuestion(%s) on a key without history returned streak %d", key.Question.Name, hit.Streak)
				}
				ref[qi] = refEnt{1, hit.RetryAfter}
			case clock.Before(w.retryAfter):
				// active generation: idempotent — unless it was evicted
				if hit.Streak != w.streak && !(over && hit.Streak == 1) {
					return bad("stale-value", "RecordQuestion(%s) during an active generation returned streak %d, stored %d", key.Question.Name, hit.Streak, w.streak)
				}
				ref[qi] = refEnt{hit.Streak, hit.RetryAfter}
			default:
				want := w.streak + 1
				if clock.Sub(w.retryAfter) >= 5*time.Minute {
					want = 1
				}
				if hit.Streak != want {
					return bad("cas-result", "RecordQuestion(%s) after expiry returned streak %d, want %d (renewal by CompareAndSwap of the stored entry)", key.Question.Name, hit.Streak, want)
				}
				st.casRenewals++
				ref[qi] = refEnt{hit.Streak, hit.RetryAfter}
			}
			if len(ref) > size {
				over = true
			}
			if h2, ok := fc.Lookup(key); !ok || h2.Streak != ref[qi].streak {
				return bad("self-evict", "Lookup(%s) right after RecordQuestion: found=%v streak=%d want %d", key.Question.Name, ok, h2.Streak, ref[qi].streak)
			}
		case x < 65:
			hit, ok := fc.Lookup(key)
			w, in := ref[qi]
			active := in && clock.Before(w.retryAfter)
			switch {
			case ok && !active:
				return bad("phantom-key", "Lookup(%s) hit (streak %d) but the reference has no active failure", key.Question.Name, hit.Streak)
			case !ok && active && !over:
				return bad("lost-key", "Lookup(%s) missed an active recorded failure (cache never over capacity)", key.Question.Name)
			case ok && (hit.Question.Question.Name != key.Question.Name || hit.Streak != w.streak):
				return bad("stale-value", "Lookup(%s) returned %s streak %d, want streak %d", key.Question.Name, hit.Question.Question.Name, hit.Streak, w.streak)
			case !ok && active:
				delete(ref, qi)
				st.evictions++
			}
		case x < 80:
			got := fc.ResetQuestion(key)
			_, in := ref[qi]
			if got && !in {
				return bad("phantom-key", "ResetQuestion(%s) deleted a state the reference does not hold", key.Question.Name)
			}
			if !got && in && !over {
				return bad("cad-result", "ResetQuestion(%s) found nothing but the reference holds a state (cache never over capacity)", key.Question.Name)
			}
			delete(ref, qi)
			if _, ok := fc.Lookup(key); ok {
				return bad("phantom-key", "Lookup(%s) hits right after ResetQuestion", key.Question.Name)
			}
		case x < 88:
			n := fc.PurgeQuestion(key.Question)
			want := 0
			if _, in := ref[qi]; in {
				want = 1
			}
			if n > want || (n < want && !over) {
				return bad("cad-result", "PurgeQuestion(%s) removed %d states, reference holds %d", key.Question.Name, n, want)
			}
			delete(ref, qi)
		default:
			clock = clock.Add([]time.Duration{time.Second, 6 * time.Second, time.Minute, 11 * time.Minute}[rng.IntN(4)])
		}
		l := fc.Len()
		if !over && l != len(ref) {
			return bad("miscount", "Len()=%d, reference holds %d states (cache never over capacity)", l, len(ref))
		}
		if l > size+1 {
			return bad("over-capacity", "Len()=%d with capacity %d", l, size)
		}
		if over && l > len(ref) {
			return bad("miscount", "Len()=%d exceeds the %d states ever recorded and not reset", l, len(ref))
		}
	}
	return nil
}

// runWrapLimiter drives ratelimit.LimiterStore (a single-lock bounded map:
// the "no global lock" clause does not apply to it by its documented design).
func runWrapLimiter(c *ctx, idx int, st *wrapStats) (fail *seqFail) {
	rng := c.r.RandN("wrap/limiter", idx)
	size := []int{1, 4, 50, 400, 1500}[rng.IntN(5)]
	ls := ratelimit.NewLimiterStore(size, 10)
	at := 0
	bad := func(kind, format string, a ...any) *seqFail {
		return &seqFail{"wrap/limiter/" + kind, fmt.Sprintf(format, a...), at}
	}
	defer func() {
		if p := recover(); p != nil {
			fail = bad("panic", "panic: %v", p)
		}
	}()
	pool := c.ko.pool(rng, keyClasses[idx%len(keyClasses)], size/2+1+rng.IntN(2*size+2), -1, rng.IntN(2) == 0)
	ref := map[uint64]any{}   // key -> limiter last handed out
	owner := map[any]uint64{} // limiter -> key (aliasing)
	distinct := map[uint64]struct{}{}
	nops := 200 + rng.IntN(2000)
	for i := 0; i < nops; i++ {
		at = i
		st.ops++
		k := pickKey(rng, pool)
		l := any(ls.Get(k))
		distinct[k] = struct{}{}
		if o, seen := owner[l]; seen && o != k {
			return bad("alias", "Get(%#x) handed out the limiter of key %#x", k, o)
		}
		owner[l] = k
		if old, in := ref[k]; in && old != l {
			if len(distinct) <= size {
				return bad("lost-key", "Get(%#x) created a new limiter although only %d distinct keys <= capacity %d were ever used", k, len(distinct), size)
			}
			st.evictions++
		}
		ref[k] = l
		if again := any(ls.Get(k)); again != l {
			return bad("self-evict", "Get(%#x) twice in a row returned two limiters: the insert evicted its own key", k)
		}
		if n := ls.Len(); n > size && size >= 1 {
			return bad("over-capacity", "Len()=%d with capacity %d", n, size)
		} else if len(distinct) <= size && n != len(distinct) {
			return bad("miscount", "Len()=%d with %d distinct keys used (below capacity %d)", n, len(distinct), size)
		}
	}
	return nil
}
