package main

import (
	"fmt"

	"github.com/semihalev/sdns/internal/cache"
)

func main() {
	c := cache.New(10)
	c.Add(1, 1)
	fmt.Println(c.VerifC16Reachable(), c.VerifC16Stored(), c.VerifC16SegmentOf(1))
}
