// C16 — bounded concurrent tables behave as maps and stay within capacity.
//
// The entry binary is race-instrumented. It runs nothing itself: every phase is
// executed by re-running this binary as a child with GORACE=log_path (reports
// are logged, not fatal) and C16_PHASE=<phase>; the parent merges the children's
// counters/violations and scans the race logs.
//
//	seq    sequential reference-map differential: UInt64Map, SegmentUInt64Map,
//	       SyncUInt64Map, cache.Cache (seq.go) and the wrappers users hold:
//	       PositiveCache, NegativeCache, authority.Cache, FailureCache,
//	       LimiterStore (wrappers.go)
//	conc   concurrent histories judged by porcupine (lin.go), over-capacity
//	       concurrent runs (evict.go), the no-global-lock monitor and the
//	       concurrent-Clear monitor (nolock.go), the lock-nesting monitor and the
//	       tiny-capacity deadlock monitor (nest.go); run at several GOMAXPROCS
package main

import (
	"encoding/json"
	"fmt"
	"os"
	"runtime"
	"strconv"
	"strings"
	"sync"
	"time"

	"github.com/anishathalye/porcupine"
	"github.com/semihalev/sdns/zzverif/vlib"
)

type ctx struct {
	r  *vlib.Run
	ko *keyOracle
	lo int // share of each case list handled by this process, in percent [lo,hi)
	hi int
}

func (c *ctx) mine(i, n int) bool { return i >= c.lo*n/100 && i < c.hi*n/100 }

const rule = "distinct_nontrivial = sequential scripts that reached growth, a wrapped probe chain or an eviction, plus concurrent histories with at least one pair of overlapping operations on the same key; interleavings = distinct call/return event orders"

func main() {
	r := vlib.Start("C16", "exploration")
	if r.Quick() {
		linTimeout = 8 * time.Second
	}
	c := &ctx{r: r, ko: newKeyOracle(), lo: 0, hi: 100}
	if s := os.Getenv("C16_SHARE"); s != "" {
		if a, b, ok := strings.Cut(s, ":"); ok {
			c.lo, _ = strconv.Atoi(a)
			c.hi, _ = strconv.Atoi(b)
		}
	}
	if rc := r.ReplayCase(); rc != nil {
		replay(c, rc)
		r.Finish(rule)
	}
	switch os.Getenv("C16_PHASE") {
	case "seq":
		phaseSeq(c)
	case "conc":
		phaseConc(c)
	case "locks": // development aid: only the monitors of nest.go
		phaseLocks(c)
	case "evict": // development aid: only the over-capacity runs
		phaseEvict(c, false)
	default:
		parent(c)
	}
	r.Note("key_construction_verified_by_hooks", c.ko.constructive)
	if c.ko.fallbacks > 0 {
		r.Count("keygen_fallbacks", c.ko.fallbacks)
	}
	r.Finish(rule)
}

func parent(c *ctx) {
	r := c.r
	type child struct {
		name  string
		phase string
		share string
		procs string
	}
	// GOMAXPROCS sweep for the schedule-dependent phases; the last child keeps
	// whatever the caller set (default: all cores).
	kids := []child{
		{"seq", "seq", "0:100", ""},
		{"conc-p2", "conc", "0:20", "2"},
		{"conc-p6", "conc", "20:45", "6"},
		{"conc-pN", "conc", "45:100", ""},
	}
	timeout := time.Duration(r.N(300, 2400)) * time.Second
	self, err := os.Executable()
	if err != nil {
		self = vlib.BinPath("c16", "race")
	}
	var wg sync.WaitGroup
	var mu sync.Mutex
	prefixes := []string{}
	run := func(k child) {
		defer wg.Done()
		pfx := r.RacePrefix(k.name)
		mu.Lock()
		prefixes = append(prefixes, pfx)
		mu.Unlock()
		env := []string{vlib.RaceEnv(pfx), "C16_PHASE=" + k.phase, "C16_SHARE=" + k.share}
		if k.procs != "" {
			env = append(env, "GOMAXPROCS="+k.procs)
		}
		res := r.Child(k.name, nil, self, nil, env, timeout)
		switch {
		case res.TimedOut:
			r.Inconclusive(fmt.Sprintf("child %s hit the %v watchdog (log %s)", k.name, timeout, res.Output))
		case !res.HasState:
			r.Inconclusive(fmt.Sprintf("child %s ended without reporting (exit %d, log %s)", k.name, res.ExitCode, res.Output))
		}
		r.Count("children_completed", 1)
	}
	// the sequential child runs beside the first concurrent children (it adds
	// scheduling noise to them, which is welcome); the all-cores child runs alone
	wg.Add(3)
	go run(kids[0])
	go run(kids[1])
	go run(kids[2])
	wg.Wait()
	wg.Add(1)
	run(kids[3])
	for _, p := range prefixes {
		r.ScanRaceLogs(p)
	}
	// too many unjudged histories => inconclusive (5% thorough; 20% quick, where the
	// checker budget is short and the absolute minimum lin_ok is Required below)
	lim := int64(20)
	if r.Quick() {
		lim = 5
	}
	if u, h := r.Counter("lin_unknown"), r.Counter("lin_histories"); u*lim > h {
		r.Inconclusive(fmt.Sprintf("porcupine timed out on %d of %d histories (more than 1/%d)", u, h, lim))
	}
	r.Note("gomaxprocs_sweep", []string{"2", "6", fmt.Sprint(runtime.GOMAXPROCS(0))})

	for _, t := range []string{"uint64map", "segment", "sync", "cache"} {
		r.Require("ops_"+t, 20000)
	}
	r.Require("seq_scripts", 200)
	r.Require("grow_events", 100)
	r.Require("wrap_states", 100)
	r.Require("del_with_wrapped_chain", 100)
	r.Require("collide_states_probe_ge3", 100)
	r.Require("zero_key_ops", 100)
	r.Require("seq_cas_ok", 50)
	r.Require("seq_cas_fail", 50)
	r.Require("seq_cad_ok", 50)
	r.Require("seq_cad_fail", 50)
	r.Require("seq_evictions", 100)
	r.Require("wrap_ops", 2000)
	r.Require("lin_histories", 100)
	r.Require("lin_ok", 100)
	r.Require("lin_overlapping_pairs", 500)
	r.Require("lin_cas_ok", 20)
	r.Require("lin_cas_fail", 20)
	r.Require("lin_cad_ok", 10)
	r.Require("lin_cad_fail", 10)
	r.Require("evict_runs", 8)
	r.Require("evict_reads_judged", 10000)
	r.Require("evict_len_samples", 1000)
	r.Require("evictions_observed", 100)
	r.Require("evict_cas_ok", 20)
	r.Require("nolock_ops_completed_under_held_lock", 50)
	r.Require("nolock_same_segment_writer_blocked", 5)
	r.Require("nolock_evicting_cases", 3)
	r.Require("nest_writer_parked_on_held_segment", 30)
	r.Require("nest_own_segment_ops_completed_behind_parked_writer", 200)
	r.Require("nest_third_segment_ops_completed_behind_parked_writer", 100)
	r.Require("nest_segments_read_behind_parked_writer", 2000)
	r.Require("nest_writer_still_parked_after_ops", 30)
	r.Require("nest_writer_finished_after_release", 30)
	r.Require("nest_walk_wrapped_whole_ring", 5)
	r.Require("tiny_runs", 20)
	r.Require("tiny_inserts_completed", 100000)
	r.Require("conc_clear_runs", 4)
	r.Require("children_completed", 4)
	r.Assume("the Go race detector and porcupine v1.3.0 are trusted")
	r.Assume("CLOCK_MONOTONIC is consistent across CPUs (call/return stamps come from time.Since of one base instant)")
	r.Assume("runtime.Stack reports a goroutine blocked in sync.(*RWMutex).Lock/RLock with a sync.* wait state (that state, not elapsed time, establishes 'the spilling writer is parked' and 'every writer is blocked')")
	r.Assume("the 'no global lock' clause is decided only as: operations on another segment complete while the harness holds one segment's write lock; ratelimit.LimiterStore is a single-mutex map by documented design and is exempt from that clause")
}

// ---------------------------------------------------------------- phase: sequential

func phaseSeq(c *ctx) {
	r := c.r
	type job struct {
		table string
		idx   int
	}
	per := map[string]int{"uint64map": r.N(700, 9000), "segment": r.N(450, 6000), "sync": r.N(250, 3000), "cache": r.N(600, 8000)}
	var jobs []job
	for _, t := range []string{"uint64map", "segment", "sync", "cache"} {
		for i := 0; i < per[t]; i++ {
			if c.mine(i, per[t]) {
				jobs = append(jobs, job{t, i})
			}
		}
	}
	ch := make(chan job)
	var wg sync.WaitGroup
	workers := runtime.GOMAXPROCS(0)
	for w := 0; w < workers; w++ {
		wg.Add(1)
		go func() {
			defer wg.Done()
			ko := newKeyOracle() // per worker: the oracle's probe tables are not shared
			cc := &ctx{r: r, ko: ko}
			for j := range ch {
				sc := genSeqCase(cc, j.table, j.idx)
				var st seqStats
				f := runSeqCase(sc, &st)
				st.flush(r, j.table)
				r.Eval(1)
				r.Count("seq_scripts", 1)
				if st.grows > 0 || st.wrapStates > 0 || st.evictions > 0 {
					r.Distinct(fmt.Sprintf("seq/%s/%d", j.table, j.idx))
				}
				r.DistinctIn("seq_key_classes", j.table+"/"+sc.Class)
				if f != nil {
					sc.FailAt = f.at
					if f.at+1 < len(sc.Ops) {
						sc.Ops = sc.Ops[:f.at+1]
					}
					r.Violation(f.sig, fmt.Sprintf("%s script %d (%s keys), op %d %+v: %s", j.table, j.idx, sc.Class, f.at, sc.Ops[len(sc.Ops)-1], f.what), sc)
				} else if j.idx < 2 {
					r.Sample(map[string]any{"phase": "seq", "table": j.table, "class": sc.Class, "ops": len(sc.Ops), "grows": st.grows, "evictions": st.evictions, "max_probe": st.maxProbe})
				}
				r.Progress("seq %s #%d", j.table, j.idx)
			}
			if ko.fallbacks > 0 {
				r.Count("keygen_fallbacks", ko.fallbacks)
			}
		}()
	}
	for _, j := range jobs {
		ch <- j
	}
	close(ch)
	wg.Wait()

	// wrappers (single goroutine each; cheap)
	type wjob struct {
		name string
		n    int
		f    func(*ctx, int, *wrapStats) *seqFail
	}
	wj := []wjob{
		{"positive", r.N(60, 800), func(c *ctx, i int, s *wrapStats) *seqFail { return runWrapAnswer(c, "positive", i, s) }},
		{"negative", r.N(30, 400), func(c *ctx, i int, s *wrapStats) *seqFail { return runWrapAnswer(c, "negative", i, s) }},
		{"delegation", r.N(12, 120), runWrapDelegation},
		{"failure", r.N(60, 800), runWrapFailure},
		{"limiter", r.N(60, 800), runWrapLimiter},
	}
	type wj1 struct {
		w wjob
		i int
	}
	wch := make(chan wj1)
	for w := 0; w < workers; w++ {
		wg.Add(1)
		go func() {
			defer wg.Done()
			cc := &ctx{r: r, ko: newKeyOracle()}
			for j := range wch {
				var st wrapStats
				f := j.w.f(cc, j.i, &st)
				r.Eval(1)
				r.Count("wrap_ops", st.ops)
				r.Count("wrap_ops_"+j.w.name, st.ops)
				r.Count("wrap_evictions", st.evictions)
				r.Count("wrap_expired_deleted_by_get", st.expired)
				r.Count("wrap_failure_cas_renewals", st.casRenewals)
				if f != nil {
					r.Violation(f.sig, fmt.Sprintf("%s wrapper script %d, op %d: %s", j.w.name, j.i, f.at, f.what), wrapCase{"wrap", j.w.name, j.i, f.at})
				}
			}
		}()
	}
	for _, w := range wj {
		for i := 0; i < w.n; i++ {
			if c.mine(i, w.n) {
				wch <- wj1{w, i}
			}
		}
	}
	close(wch)
	wg.Wait()
}

// ---------------------------------------------------------------- phase: concurrent

// per-history checker budget; a timeout is "not judged", never a violation. Short in
// the quick tier so a loaded machine wastes little on the few hard histories.
var linTimeout = 30 * time.Second

func judgeLin(c *ctx, res *linResult) {
	r := c.r
	p := res.params
	r.Eval(1)
	r.Count("lin_histories", 1)
	r.Count("lin_histories_"+p.Table, 1)
	r.Count("lin_ops", len(res.ops))
	r.Count("lin_cas_ok", res.casOK)
	r.Count("lin_cas_fail", res.casFail)
	r.Count("lin_cad_ok", res.cadOK)
	r.Count("lin_cad_fail", res.cadFail)
	if res.grew {
		r.Count("lin_histories_with_growth", 1)
	}
	if res.wrapped {
		r.Count("lin_histories_with_wrapped_chain", 1)
	}
	ov := overlaps(res.ops)
	r.Count("lin_overlapping_pairs", ov)
	r.Max("lin_max_goroutines", int64(p.Goroutines))
	h := interleavingHash(res.ops)
	r.DistinctIn("interleavings", h)
	if ov > 0 {
		r.Distinct("lin/" + h)
	}
	if res.direct != nil {
		r.Violation(res.direct.sig, fmt.Sprintf("%s history %d (%d goroutines, keys %s): %s", p.Table, p.Index, p.Goroutines, p.Placement, res.direct.what), linCase{linParams: p, Ops: res.ops})
		return
	}
	verdict, lc := checkLin(res, linTimeout)
	switch verdict {
	case porcupine.Ok:
		r.Count("lin_ok", 1)
	case porcupine.Unknown:
		// a checker timeout is never a violation; the history counts as not
		// judged (the parent makes the run inconclusive if too many are)
		r.Count("lin_unknown", 1)
		fmt.Fprintf(os.Stderr, "porcupine timed out after %v on %s history %d (%d ops, %d goroutines)\n", linTimeout, p.Table, p.Index, len(res.ops), p.Goroutines)
	case porcupine.Illegal:
		r.Count("lin_illegal", 1)
		r.Violation("lin/"+p.Table+"/not-linearizable", fmt.Sprintf("%s history %d (%d goroutines, %d ops): the operations on key %#x cannot be explained by any sequential order of a register with remove/CAS/compare-delete consistent with their call/return times", p.Table, p.Index, p.Goroutines, len(res.ops), lc.FailKey), lc)
	}
}

func phaseConc(c *ctx) {
	r := c.r
	r.Note("gomaxprocs_"+os.Getenv("C16_SHARE"), runtime.GOMAXPROCS(0))

	// (2) linearizability: histories run one at a time (they want the cores);
	// the checker runs behind them on a small pool
	nLin := map[string]int{"cache": r.N(130, 900), "segment": r.N(70, 450), "sync": r.N(40, 300)}
	checkCh := make(chan *linResult, 64)
	var cwg sync.WaitGroup
	for w := 0; w < 3; w++ {
		cwg.Add(1)
		go func() {
			defer cwg.Done()
			for res := range checkCh {
				judgeLin(c, res)
			}
		}()
	}
	for _, t := range []string{"cache", "segment", "sync"} {
		for i := 0; i < nLin[t]; i++ {
			if !c.mine(i, nLin[t]) {
				continue
			}
			res := runLinHistory(c, t, i)
			if i < 1 && c.lo == 0 {
				r.Sample(map[string]any{"phase": "lin", "table": t, "goroutines": res.params.Goroutines, "ops": len(res.ops), "hot_keys": len(res.params.Hot), "overlapping_pairs": overlaps(res.ops)})
			}
			checkCh <- res
			r.Progress("lin %s #%d", t, i)
		}
	}
	close(checkCh)
	defer cwg.Wait() // the checker finishes behind the remaining phases

	lockTrouble := phaseLocks(c)

	phaseEvict(c, lockTrouble)

	// (4) no global lock
	nNL := r.N(24, 400)
	nlFails := 0
	for i := 0; i < nNL; i++ {
		if !c.mine(i, nNL) {
			continue
		}
		res := runNoLock(c, i)
		r.Eval(1)
		r.Count("nolock_cases", 1)
		r.Count("nolock_ops_completed_under_held_lock", res.done)
		if res.blocked {
			r.Count("nolock_same_segment_writer_blocked", 1)
		}
		if res.evicting {
			r.Count("nolock_evicting_cases", 1)
		}
		if res.inconc != "" {
			r.Inconclusive(res.inconc)
		}
		if res.fail != nil {
			r.Violation(res.fail.sig, res.fail.what, res.cs)
			// each blocked writer costs the full (generous) wait; a few witnesses are
			// enough, and the remaining cases must not run the child into its watchdog
			if nlFails++; nlFails >= 2 {
				r.Count("nolock_cases_skipped_after_violations", nNL-i-1)
				break
			}
		}
	}

	// (7) Clear racing with writers: one forced schedule per table type, then
	// free-running ones
	if c.lo == 0 {
		for _, t := range []string{"segment", "sync"} {
			f, cs, inconc := runClearForced(c, t)
			r.Eval(1)
			r.Count("conc_clear_forced_schedules", 1)
			if inconc != "" {
				r.Inconclusive(inconc)
			}
			if f != nil {
				r.Count("conc_clear_miscounts", 1)
				r.Violation(f.sig, f.what, cs)
			}
		}
	}
	nCl := r.N(6, 100)
	for i := 0; i < nCl; i++ {
		if !c.mine(i, nCl) {
			continue
		}
		f, cs := runConcClear(c, i)
		r.Eval(1)
		r.Count("conc_clear_runs", 1)
		if f != nil {
			r.Count("conc_clear_miscounts", 1)
			r.Violation(f.sig, f.what, cs)
		}
	}
}

// phaseLocks runs the lock-nesting and the tiny-capacity deadlock monitors
// (nest.go); true = a violation was found (nested locks can hang later phases).
func phaseLocks(c *ctx) bool {
	r := c.r
	// (3a) lock nesting: operations behind a spilling writer that is parked on a
	// held segment (nest.go). Runs before the over-capacity phases: a tree with
	// nested segment locks can hang those for good.
	lockTrouble := false
	nNest := r.N(45, 450)
	for i := 0; i < nNest; i++ {
		if !c.mine(i, nNest) {
			continue
		}
		res := runNest(c, i)
		r.Eval(1)
		r.Count("nest_cases", 1)
		r.Count("nest_cases_"+res.cs.Table, 1)
		r.Count("nest_cases_"+res.cs.Variant, 1)
		if res.parked {
			r.Count("nest_writer_parked_on_held_segment", 1)
			r.DistinctIn("nest_shapes", fmt.Sprintf("%s/%d/%s/%d", res.cs.Table, res.cs.Capacity, res.cs.Variant, res.cs.Distance))
			if res.cs.Distance == res.cs.Segments-1 {
				r.Count("nest_walk_wrapped_whole_ring", 1)
			}
		}
		if res.notParked {
			r.Count("nest_writer_finished_without_waiting", 1)
		}
		r.Count("nest_own_segment_ops_completed_behind_parked_writer", res.ownDone)
		r.Count("nest_third_segment_ops_completed_behind_parked_writer", res.thirdDone)
		r.Count("nest_inserts_gated_out_over_capacity", res.gated)
		r.Count("nest_segments_read_behind_parked_writer", res.sweepDone)
		if res.stillHeld {
			r.Count("nest_writer_still_parked_after_ops", 1)
		}
		if res.resumed {
			r.Count("nest_writer_finished_after_release", 1)
		}
		if i < 1 && c.lo == 0 && res.parked {
			r.Sample(map[string]any{"phase": "nest", "table": res.cs.Table, "capacity": res.cs.Capacity, "segments": res.cs.Segments, "writer_segment": res.cs.OwnSeg, "held_segment": res.cs.HeldSeg, "own_ops_done": res.ownDone, "third_ops_done": res.thirdDone})
		}
		if res.inconc != "" {
			r.Inconclusive(res.inconc)
		}
		if res.fail != nil {
			lockTrouble = true
			r.Violation(res.fail.sig, res.fail.what, res.cs)
			r.Count("nest_cases_skipped_after_violation", nNest-i-1)
			break // each blocked operation costs the full (generous) wait
		}
	}

	// (3b) tiny-capacity writers: frozen progress + every writer on a mutex = deadlock
	nTiny := r.N(30, 180)
	for i := 0; i < nTiny; i++ {
		if !c.mine(i, nTiny) {
			continue
		}
		res := runTiny(c, i)
		r.Eval(1)
		r.Count("tiny_runs", 1)
		r.Count("tiny_runs_"+res.cs.Table, 1)
		r.Count("tiny_inserts_completed", int(res.adds))
		r.Max("tiny_max_writers", int64(res.cs.Writers))
		if res.overCap {
			r.Count("tiny_runs_ending_above_capacity_not_judged", 1)
		}
		if res.inconc != "" {
			r.Inconclusive(res.inconc)
		}
		if res.fail != nil {
			lockTrouble = true
			r.Violation(res.fail.sig, res.fail.what, res.cs)
			r.Count("tiny_runs_skipped_after_violation", nTiny-i-1)
			break
		}
		r.Progress("tiny #%d", i)
	}
	return lockTrouble
}

// phaseEvict: over-capacity concurrent runs (evict.go).
func phaseEvict(c *ctx, lockTrouble bool) {
	r := c.r
	// (3) over capacity
	nEv := r.N(14, 240)
	for i := 0; i < nEv; i++ {
		if !c.mine(i, nEv) {
			continue
		}
		if lockTrouble {
			// the over-capacity runs have no deadlock guard of their own
			r.Count("evict_runs_skipped_after_lock_violation", 1)
			continue
		}
		res := runEvict(c, i)
		p := res.params
		r.Eval(1)
		r.Count("evict_runs", 1)
		r.Count("evict_reads_judged", res.reads)
		r.Count("evict_mutations", res.stores)
		r.Count("evict_len_samples", res.lenSamples)
		r.Count("evict_len_samples_above_capacity", res.lenOverCap)
		r.Count("evictions_observed", res.evicted)
		r.Count("evict_cas_ok", res.casOK)
		r.Count("evict_cad_ok", res.cadOK)
		if res.wrapped > 0 {
			r.Count("evict_runs_ending_with_wrapped_chain", 1)
		}
		if res.grewTo > 8 {
			r.Count("evict_runs_with_segment_growth", 1)
		}
		r.Max("evict_max_len_minus_capacity", res.lenMax-int64(p.Capacity))
		r.Max("evict_max_writers", int64(p.Writers))
		r.Distinct(fmt.Sprintf("evict/%d", i))
		if i < 2 {
			r.Sample(map[string]any{"phase": "evict", "capacity": p.Capacity, "writers": p.Writers, "readers": p.Readers, "universe": p.Universe, "max_sampled_len": res.lenMax, "final_len": res.finalLen, "reads_judged": res.reads, "evicted_at_quiescence": res.evicted})
		}
		if res.inconc != "" {
			r.Inconclusive(res.inconc)
		}
		if res.fail != nil {
			r.Violation(res.fail.sig, fmt.Sprintf("over-capacity run %d (capacity %d, %d writers, %d readers, %s keys): %s", i, p.Capacity, p.Writers, p.Readers, p.Class, res.fail.what), res.failCase)
			if res.fail.sig == "deadlock/over-capacity-run" {
				lockTrouble = true // every further frozen run would cost the whole window again
			}
		}
		r.Progress("evict #%d", i)
	}
}

// ---------------------------------------------------------------- replay

func replay(c *ctx, raw json.RawMessage) {
	r := c.r
	var head struct {
		Kind string `json:"kind"`
	}
	_ = json.Unmarshal(raw, &head)
	switch head.Kind {
	case "seq":
		var sc seqCase
		if err := json.Unmarshal(raw, &sc); err != nil {
			r.Fatalf("replay: %v", err)
		}
		var st seqStats
		f := runSeqCase(&sc, &st)
		r.Eval(1)
		if f != nil {
			r.Violation(f.sig, fmt.Sprintf("replayed %s script, op %d: %s", sc.Table, f.at, f.what), sc)
		}
	case "lin":
		var lc linCase
		if err := json.Unmarshal(raw, &lc); err != nil {
			r.Fatalf("replay: %v", err)
		}
		// a schedule cannot be re-executed; the recorded history is re-judged
		res := &linResult{params: lc.linParams, ops: lc.Ops}
		v, out := checkLin(res, linTimeout)
		r.Eval(1)
		if v == porcupine.Illegal {
			r.Violation("lin/"+lc.Table+"/not-linearizable", fmt.Sprintf("recorded history re-judged: key %#x not linearizable", out.FailKey), out)
		}
	case "evict":
		var ec evCase
		if err := json.Unmarshal(raw, &ec); err != nil {
			r.Fatalf("replay: %v", err)
		}
		r.Eval(1)
		if ec.Read != nil {
			if kind, what, rd := judgeReads(ec.Read.K, ec.Stores, []evRead{*ec.Read}); kind != "" {
				ec.Read = rd
				r.Violation("evict/"+kind, "recorded read re-judged: "+what, ec)
			}
		} else {
			res := runEvict(c, ec.Index) // same parameters and op scripts, a new schedule
			if res.fail != nil {
				r.Violation(res.fail.sig, res.fail.what, res.failCase)
			}
		}
	case "nolock":
		var nc nolockCase
		if err := json.Unmarshal(raw, &nc); err != nil {
			r.Fatalf("replay: %v", err)
		}
		res := execNoLock(c, r.RandN("nolock", nc.Index), nc)
		r.Eval(1)
		if res.fail != nil {
			r.Violation(res.fail.sig, res.fail.what, res.cs)
		}
	case "nest":
		var nc nestCase
		if err := json.Unmarshal(raw, &nc); err != nil {
			r.Fatalf("replay: %v", err)
		}
		res := execNest(c, nc.Index) // the case is a function of (seed, index)
		r.Eval(1)
		if res.fail != nil {
			r.Violation(res.fail.sig, res.fail.what, res.cs)
		}
	case "tiny":
		var tc tinyCase
		if err := json.Unmarshal(raw, &tc); err != nil {
			r.Fatalf("replay: %v", err)
		}
		for i := 0; i < 5; i++ { // same key scripts, a new schedule each time
			res := runTiny(c, tc.Index)
			r.Eval(1)
			if res.fail != nil {
				r.Violation(res.fail.sig, res.fail.what, res.cs)
				break
			}
		}
	case "clear":
		var cc clearCase
		_ = json.Unmarshal(raw, &cc)
		if cc.Index < 0 {
			if f, cs, _ := runClearForced(c, cc.Table); f != nil {
				r.Violation(f.sig, f.what, cs)
			}
		}
		for i := 0; i < 20 && cc.Index >= 0; i++ { // schedule-dependent: a few attempts
			if f, cs := runConcClear(c, cc.Index); f != nil {
				r.Violation(f.sig, f.what, cs)
				break
			}
		}
		r.Eval(1)
	case "wrap":
		var wc wrapCase
		_ = json.Unmarshal(raw, &wc)
		var st wrapStats
		var f *seqFail
		switch wc.Wrapper {
		case "positive", "negative":
			f = runWrapAnswer(c, wc.Wrapper, wc.Index, &st)
		case "delegation":
			f = runWrapDelegation(c, wc.Index, &st)
		case "failure":
			f = runWrapFailure(c, wc.Index, &st)
		case "limiter":
			f = runWrapLimiter(c, wc.Index, &st)
		}
		r.Eval(1)
		if f != nil {
			r.Violation(f.sig, f.what, wrapCase{"wrap", wc.Wrapper, wc.Index, f.at})
		}
	default:
		r.Fatalf("replay: unknown case kind %q", head.Kind)
	}
}
