package main

// Part (i): forged collisions. Real xxhash64 collisions cannot be found, so an
// entry admitted for question A is filed under the key of a different question
// B through the exported pre-keyed writers (answer cache) or the c03 hooks
// (failure cache, cut wire index), and B is then asked through every route.

import (
	"fmt"
	"math/rand/v2"
	"net/netip"
	"strings"
	"time"

	"github.com/miekg/dns"
	"github.com/semihalev/sdns/internal/dnsutil"
	"github.com/semihalev/sdns/middleware/cache"
)

const baseZone = "c03t."

// ---------------------------------------------------------------- names

func isSpecial(b byte) bool {
	switch b {
	case '.', ' ', '\'', '@', ';', '(', ')', '"', '\\':
		return true
	}
	return false
}

// escapeLabel renders label octets in the presentation form the library's
// unpacker produces.
func escapeLabel(b []byte) string {
	var sb strings.Builder
	for _, c := range b {
		switch {
		case isSpecial(c):
			sb.WriteByte('\\')
			sb.WriteByte(c)
		case c < ' ' || c > '~':
			fmt.Fprintf(&sb, "\\%03d", c)
		default:
			sb.WriteByte(c)
		}
	}
	return sb.String()
}

func isLetter(b byte) bool { return (b >= 'A' && b <= 'Z') || (b >= 'a' && b <= 'z') }

func randLetters(rng *rand.Rand, n int) []byte {
	b := make([]byte, n)
	for i := range b {
		b[i] = 'a' + byte(rng.IntN(26))
		if rng.IntN(4) == 0 {
			b[i] -= 'a' - 'A'
		}
	}
	return b
}

// namePair returns two first labels (presentation form) that differ in the
// way sub says, never by ASCII case alone.
func namePair(rng *rand.Rand, sub string) (string, string) {
	stem := append([]byte{'q'}, randLetters(rng, 2+rng.IntN(5))...)
	pos := 1 + rng.IntN(len(stem)) // insertion point of the distinguishing octet
	with := func(o ...byte) string {
		b := append(append(append([]byte{}, stem[:pos]...), o...), stem[pos:]...)
		return escapeLabel(b)
	}
	switch sub {
	case "letter":
		a := byte('a' + rng.IntN(26))
		b := byte('a' + (int(a-'a')+1+rng.IntN(25))%26)
		if rng.IntN(2) == 0 {
			a -= 'a' - 'A'
		}
		return with(a), with(b)
	case "hi-case":
		o := byte(0x80 + rng.IntN(0x80))
		return with(o), with(o ^ 0x20)
	case "punct-case":
		for {
			o := byte(rng.IntN(0x80))
			if isLetter(o) || isLetter(o^0x20) {
				continue
			}
			return with(o), with(o ^ 0x20)
		}
	case "label-cut":
		// one label "ab.cd" against two labels "ab","cd": same wire length
		l, r := string(randLetters(rng, 2)), string(randLetters(rng, 2))
		return "q" + l + "\\." + r, "q" + l + "." + r
	case "len":
		return with('x'), with('x', 'x')
	case "unicode-fold":
		// raw (unescaped) UTF-8 in a message-born name: KELVIN SIGN folds to
		// 'k' and LONG S to 's' under Unicode simple folding, not under ASCII.
		if rng.IntN(2) == 0 {
			return string(stem[:pos]) + "k" + string(stem[pos:]), string(stem[:pos]) + "K" + string(stem[pos:])
		}
		return string(stem[:pos]) + "s" + string(stem[pos:]), string(stem[:pos]) + "ſ" + string(stem[pos:])
	}
	panic("namePair: " + sub)
}

func flipASCIICase(s string) string {
	b := []byte(s)
	esc := 0
	for i := range b {
		if esc > 0 {
			esc--
			continue
		}
		if b[i] == '\\' {
			esc = 1
			if i+1 < len(b) && b[i+1] >= '0' && b[i+1] <= '9' {
				esc = 3
			}
			continue
		}
		if isLetter(b[i]) {
			b[i] ^= 0x20
		}
	}
	return string(b)
}

// ---------------------------------------------------------------- cases

type forgedCase struct {
	Kind   string `json:"kind"`
	Index  int    `json:"index"`
	Dim    string `json:"dim"`
	Sub    string `json:"sub"`
	Writer string `json:"writer"`
	Route  string `json:"route"`
	Purge  string `json:"purge,omitempty"` // "", "stored", "asked"
	A      ask    `json:"stored"`
	AScope string `json:"stored_scope,omitempty"` // audience of the stored response
	B      ask    `json:"asked"`
}

type subSpec struct{ dim, sub string }

var forgedSubs = []subSpec{
	{"name", "letter"}, {"name", "hi-case"}, {"name", "punct-case"}, {"name", "label-cut"}, {"name", "len"}, {"name", "unicode-fold"},
	{"type", ""}, {"class", ""}, {"cd", ""},
	{"scope", "addr-v4"}, {"scope", "addr-v6"}, {"scope", "bits"}, {"scope", "family"}, {"scope", "scoped-under-shared"},
	{"name", "hi-case"}, {"cd", ""}, {"class", ""}, {"type", ""}, // question/cd dims weigh double
}

var classPool = []uint16{dns.ClassINET, dns.ClassCSNET, dns.ClassCHAOS, dns.ClassHESIOD, dns.ClassNONE, dns.ClassANY}

func pick[T any](rng *rand.Rand, s []T) T { return s[rng.IntN(len(s))] }

func pickOther[T comparable](rng *rand.Rand, s []T, not T) T {
	for {
		if v := pick(rng, s); v != not {
			return v
		}
	}
}

func randV4Scope(rng *rand.Rand) (scope, ecs string) {
	a := fmt.Sprintf("198.%d.%d.0", 18+rng.IntN(2), rng.IntN(256))
	return a + "/24", fmt.Sprintf("%s/%d", strings.TrimSuffix(a, "0")+fmt.Sprint(1+rng.IntN(250)), pick(rng, []int{24, 28, 32}))
}

func randV6Scope(rng *rand.Rand) (scope, ecs string) {
	a := fmt.Sprintf("2001:db8:%x:%x00::", rng.IntN(0x10000), rng.IntN(0x100))
	p := netip.MustParsePrefix(a + "/56")
	return p.Masked().String(), fmt.Sprintf("%s/%d", p.Addr().String(), pick(rng, []int{56, 64, 128}))
}

func genForged(rng *rand.Rand, idx int, v cfgVariant) *forgedCase {
	sp := forgedSubs[idx%len(forgedSubs)]
	fc := &forgedCase{Kind: "forged", Index: idx, Dim: sp.dim, Sub: sp.sub}
	zone := fmt.Sprintf("c%d.%s", idx, baseZone)
	first := "q" + string(randLetters(rng, 4))
	a := ask{Type: pick(rng, markerTypes), Class: dns.ClassINET, CD: rng.IntN(2) == 0, DO: rng.IntN(2) == 0, Client: clientV4}
	if rng.IntN(5) == 0 {
		a.Class = pick(rng, classPool)
	}
	if rng.IntN(3) == 0 {
		a.Client = clientV6
	}
	b := a
	scoped := false // both A and B carry the same audience (question/cd dims only)

	switch sp.dim {
	case "name":
		la, lb := namePair(rng, sp.sub)
		a.Name, b.Name = la+"."+zone, lb+"."+zone
	case "type":
		a.Name = first + "." + zone
		b.Name = a.Name
		b.Type = pickOther(rng, markerTypes, a.Type)
	case "class":
		a.Name = first + "." + zone
		b.Name = a.Name
		b.Class = pickOther(rng, classPool, a.Class)
	case "cd":
		a.Name = first + "." + zone
		b.Name = a.Name
		b.CD = !a.CD
	case "scope":
		sub := sp.sub
		if !v.ECS {
			sub = "scoped-under-shared"
			fc.Sub = sub
		}
		switch sub {
		case "addr-v4":
			zone = "sc-24-56." + zone
			fc.AScope, _ = randV4Scope(rng)
			for {
				s, ecs := randV4Scope(rng)
				if s != fc.AScope {
					b.ECS = ecs
					break
				}
			}
		case "addr-v6":
			zone = "sc-24-56." + zone
			fc.AScope, _ = randV6Scope(rng)
			for {
				s, ecs := randV6Scope(rng)
				if s != fc.AScope {
					b.ECS = ecs
					break
				}
			}
		case "bits":
			// the narrower /24 answer under the key of the wider /22 it sits in
			zone = "sc-22-56." + zone
			o2, o3 := rng.IntN(256), rng.IntN(64)*4
			fc.AScope = fmt.Sprintf("203.%d.%d.0/24", o2, o3+rng.IntN(4))
			b.ECS = fmt.Sprintf("203.%d.%d.0/22", o2, o3)
		case "family":
			// an IPv4 /24 scope against the IPv6 /24 with the same leading octets
			zone = "sc-24-24." + zone
			o := []int{0x20 + rng.IntN(0x10), rng.IntN(256), rng.IntN(256)}
			fc.AScope = fmt.Sprintf("%d.%d.%d.0/24", o[0], o[1], o[2])
			b.ECS = fmt.Sprintf("%02x%02x:%02x00::/24", o[0], o[1], o[2])
		case "scoped-under-shared":
			zone = "sc-24-56." + zone
			if rng.IntN(2) == 0 {
				fc.AScope, _ = randV4Scope(rng)
			} else {
				fc.AScope, _ = randV6Scope(rng)
			}
		}
		a.Name = first + "." + zone
		b.Name = a.Name
	}
	if sp.dim != "scope" && v.ECS && sp.sub != "unicode-fold" && rng.IntN(4) == 0 {
		// same audience on both sides: A and B differ in the one question/cd
		// dimension only, inside one ECS scope
		scoped = true
		tag := "sc-24-56."
		a.Name = insertZoneLabel(a.Name, tag)
		b.Name = insertZoneLabel(b.Name, tag)
		var ecs string
		if rng.IntN(2) == 0 {
			fc.AScope, ecs = randV4Scope(rng)
		} else {
			fc.AScope, ecs = randV6Scope(rng)
		}
		a.ECS, b.ECS = ecs, ecs
	}

	// routes
	routes := []string{rMsg, rWire, rWireTCP, rEngine, rStoreGet, rStoreLookup}
	if b.ECS != "" {
		routes = []string{rMsg, rWire, rEngine}
	}
	if sp.sub == "unicode-fold" {
		routes = []string{rMsg, rStoreGet, rStoreLookup}
	}
	fc.Route = routes[(idx/len(forgedSubs))%len(routes)]

	// writers
	var writers []string
	switch {
	case fc.AScope != "":
		writers = []string{"scoped", "set-entry-scoped"}
		if scoped && sp.dim != "cd" {
			writers = append(writers, "replace")
		}
	case sp.dim == "cd":
		writers = []string{"with-key", "cache-set", "set-entry"}
	default:
		writers = []string{"with-key", "cache-set", "set-entry", "replace"}
	}
	fc.Writer = pick(rng, writers)
	fc.Purge = pick(rng, []string{"", "", "", "stored", "asked"})
	fc.A, fc.B = a, b
	return fc
}

// insertZoneLabel puts label (with trailing dot) after the first label.
func insertZoneLabel(name, label string) string {
	end := firstLabelEnd(name)
	return name[:end+1] + label + name[end+1:]
}

func parseScope(s string) netip.Prefix {
	if s == "" {
		return netip.Prefix{}
	}
	p, err := netip.ParsePrefix(s)
	if err != nil {
		return netip.Prefix{}
	}
	return p
}

// fileForged files resp (admitted for question resp.Question[0], partition
// resp.CheckingDisabled, audience scope) under key.
func (e *env) fileForged(writer string, key uint64, resp *dns.Msg, scope netip.Prefix, expected *cache.CacheEntry) {
	switch writer {
	case "with-key":
		e.store.SetFromResponseWithKey(key, resp, time.Time{}, 0)
	case "scoped":
		e.store.SetFromResponseScoped(key, resp, scope, time.Time{}, 0)
	case "cache-set":
		e.c.Set(key, resp)
	case "set-entry":
		e.store.SetEntryWithKey(key, cache.NewCacheEntry(resp, 300*time.Second, 0), dnsutil.TypeSuccess)
	case "set-entry-scoped":
		e.store.SetEntryWithKey(key, cache.NewScopedCacheEntry(resp, 300*time.Second, 0, scope), dnsutil.TypeSuccess)
	case "replace":
		e.store.ReplaceIfCurrent(key, expected, resp, time.Time{}, 0)
	default:
		panic("writer " + writer)
	}
}

func isWireRoute(route string) bool { return route == rWire || route == rWireTCP || route == rEngine }

func (e *env) runForged(fc *forgedCase) {
	r := e.r
	qA, qB := fc.A.question(), fc.B.question()
	bScope := e.clientScope(fc.B)
	keyB := cache.CacheKey{Question: qB, CD: fc.B.CD, Scope: bScope}.Hash()
	aScope := parseScope(fc.AScope)

	var expected *cache.CacheEntry
	if fc.Writer == "replace" {
		// B is admitted legitimately first; the forged write then takes over
		// B's slot through the compare-and-swap writer.
		o := e.serve(rMsg, fc.B)
		e.judge(fc.Kind, fc, rMsg, fc.B, o, nil)
		expected, _ = e.store.LookupByKey(keyB)
		if expected == nil {
			r.Count("forged_setup_failed", 1)
			return
		}
	}
	respA, _ := e.u.responseFor(qA, fc.A.CD, fc.AScope, true)
	e.fileForged(fc.Writer, keyB, respA, aScope, expected)

	ent, ok := e.store.LookupByKey(keyB)
	iq, icd, iscope := cache.VerifC03EntryIdentity(ent)
	wantScope := ""
	if aScope.IsValid() {
		wantScope = aScope.Masked().String()
	}
	if !ok || iq != qA || icd != fc.A.CD || iscope != wantScope {
		r.Count("forged_not_filed/"+fc.Writer, 1)
		return
	}
	r.Count("forged_entries_filed", 1)

	switch fc.Purge {
	case "stored":
		e.c.Purge(qA)
		r.Count("purges_before_probe", 1)
	case "asked":
		e.c.Purge(qB)
		r.Count("purges_before_probe", 1)
	}

	o := e.serve(fc.Route, fc.B)
	v := e.judge(fc.Kind, fc, fc.Route, fc.B, o, nil)
	route := fc.Route
	r.Count("forged_probe/"+route, 1)
	r.Count("forged_probe_dim/"+fc.Dim, 1)
	r.Count("forged_probe_writer/"+fc.Writer, 1)
	if fc.Purge != "" {
		r.Count("forged_probe/after-purge", 1)
	}
	if fc.Sub != "" {
		r.Count("forged_probe_sub/"+fc.Sub, 1)
	}
	if isWireRoute(route) && o.Strict {
		r.Count("forged_probe_wire_born", 1)
	}
	switch v.Kind {
	case "fresh", "miss":
		r.Count("forged_behaved_as_miss", 1)
		r.Distinct(fmt.Sprintf("forged|%s|%s|%s|%s|%s|%s", e.v.Name, fc.Dim, fc.Sub, fc.Writer, route, fc.Purge))
	default:
		r.Count("forged_probe_other_verdict/"+v.Kind, 1)
	}
	if r.Counter("forged_entries_filed") <= 3 {
		r.Sample(map[string]any{"case": fc, "variant": e.v.Name, "verdict": v.Kind, "stub_calls": o.StubCalls})
	}

	// Control: the same question, legitimately admitted, IS served from cache
	// through the same route (so "never a wrong hit" is not "never a hit").
	if route == rStoreGet || route == rStoreLookup {
		if v.Kind != "miss" {
			return
		}
		o1 := e.serve(rMsg, fc.B)
		if v1 := e.judge(fc.Kind, fc, rMsg, fc.B, o1, nil); v1.Kind != "fresh" && v1.Kind != "hit" {
			return
		}
	}
	o2 := e.serve(route, fc.B)
	v2 := e.judge(fc.Kind, fc, route, fc.B, o2, nil)
	if v2.Kind == "hit" {
		r.Count("legit_hit/"+route, 1)
		if isWireRoute(route) && o2.served("served") {
			r.Count("legit_hit/wire-exact-bytes", 1)
		}
		if bScope.IsValid() && o2.served("ecs_hit_scoped") {
			r.Count("legit_hit/scoped-key", 1)
		}
	}
	// ASCII-case variants share the preimage: a differently-cased ask must be
	// answerable from the same entry, and is judged like any other reply.
	cv := fc.B
	cv.Name = flipASCIICase(cv.Name)
	o3 := e.serve(route, cv)
	if v3 := e.judge(fc.Kind, fc, route, cv, o3, nil); v3.Kind == "hit" && v2.Kind == "hit" &&
		len(v3.Markers) > 0 && len(v2.Markers) > 0 && v3.Markers[0] == v2.Markers[0] {
		r.Count("legit_hit/ascii-case-variant", 1)
	}
}

// ---------------------------------------------------------------- chase

type chaseCase struct {
	Kind    string `json:"kind"`
	Index   int    `json:"index"`
	Dim     string `json:"dim"`
	Route   string `json:"route"`
	Writer  string `json:"writer"`
	Alias   ask    `json:"alias"`
	Target  string `json:"target,omitempty"`
	Foreign ask    `json:"foreign,omitempty"` // question whose response sits under the target's key
}

var chaseTypes = []uint16{dns.TypeA, dns.TypeAAAA, dns.TypeTXT}

func genChase(rng *rand.Rand, idx int) *chaseCase {
	cc := &chaseCase{Kind: "chase", Index: idx}
	cc.Dim = []string{"name", "class", "cd", "name", "cd", "type"}[idx%6]
	cc.Route = []string{rWire, rEngine, rWireTCP, rMsg}[(idx/6)%4]
	cc.Writer = pick(rng, []string{"with-key", "cache-set", "set-entry"})
	cc.Alias = ask{
		Name: fmt.Sprintf("al-%s.h%d.%s", string(randLetters(rng, 4)), idx, baseZone),
		Type: pick(rng, chaseTypes), Class: dns.ClassINET, CD: rng.IntN(2) == 0, DO: rng.IntN(2) == 0, Client: clientV4,
	}
	return cc
}

func (e *env) runChase(cc *chaseCase, rng *rand.Rand) {
	r := e.r
	// 1. admit the alias and (through the internal sub-query) its target
	o1 := e.serve(rMsg, cc.Alias)
	v1 := e.judge(cc.Kind, cc, rMsg, cc.Alias, o1, nil)
	if v1.Kind != "fresh" || o1.Reply == nil || len(o1.Reply.Answer) < 2 {
		r.Count("chase_setup_failed", 1)
		return
	}
	cn, ok := o1.Reply.Answer[0].(*dns.CNAME)
	if !ok {
		r.Count("chase_setup_failed", 1)
		return
	}
	cc.Target = cn.Target
	// 2. control: the cache-contained chain is served
	for _, route := range []string{cc.Route} {
		o := e.serve(route, cc.Alias)
		if v := e.judge(cc.Kind, cc, route, cc.Alias, o, nil); v.Kind == "hit" {
			r.Count("legit_hit/chase-"+route, 1)
			if o.served("chase_served") {
				r.Count("legit_hit/wire-chase-composed", 1)
			}
		}
	}
	// 3. forge: a foreign response under the target's key
	f := ask{Name: cc.Target, Type: cc.Alias.Type, Class: cc.Alias.Class, CD: cc.Alias.CD, Client: clientV4}
	switch cc.Dim {
	case "name":
		// same length, one octet of the parent label differs
		end := firstLabelEnd(f.Name)
		b := []byte(f.Name)
		b[end+1] = 'i' // "h<idx>" -> "i<idx>"
		f.Name = string(b)
	case "class":
		f.Class = pickOther(rng, []uint16{dns.ClassINET, dns.ClassCHAOS, dns.ClassHESIOD}, f.Class)
	case "cd":
		f.CD = !f.CD
	case "type":
		f.Type = pickOther(rng, chaseTypes, f.Type)
	}
	cc.Foreign = f
	keyT := cache.CacheKey{Question: dns.Question{Name: cc.Target, Qtype: cc.Alias.Type, Qclass: cc.Alias.Class}, CD: cc.Alias.CD}.Hash()
	respF, _ := e.u.responseFor(f.question(), f.CD, "", true)
	e.fileForged(cc.Writer, keyT, respF, netip.Prefix{}, nil)
	ent, ok := e.store.LookupByKey(keyT)
	if iq, icd, _ := cache.VerifC03EntryIdentity(ent); !ok || iq != f.question() || icd != f.CD {
		r.Count("forged_not_filed/chase-"+cc.Writer, 1)
		return
	}
	r.Count("forged_entries_filed", 1)
	// 4. probe
	o3 := e.serve(cc.Route, cc.Alias)
	v3 := e.judge(cc.Kind, cc, cc.Route, cc.Alias, o3, nil)
	r.Count("forged_probe/chase-"+cc.Route, 1)
	r.Count("forged_probe_dim/chase-"+cc.Dim, 1)
	if v3.Kind != "fresh" {
		r.Count("forged_probe_other_verdict/chase-"+v3.Kind, 1)
	}
	if v3.Kind == "fresh" {
		r.Count("forged_behaved_as_miss", 1)
		r.Distinct(fmt.Sprintf("chase|%s|%s|%s|%s", e.v.Name, cc.Dim, cc.Writer, cc.Route))
	}
	// 5. control again: the re-admitted target completes the chain from cache
	o4 := e.serve(cc.Route, cc.Alias)
	if v4 := e.judge(cc.Kind, cc, cc.Route, cc.Alias, o4, nil); v4.Kind == "hit" {
		r.Count("legit_hit/chase-"+cc.Route, 1)
		if o4.served("chase_served") {
			r.Count("legit_hit/wire-chase-composed", 1)
		}
	}
}

// ---------------------------------------------------------------- failures

type failureCase struct {
	Kind   string `json:"kind"`
	Index  int    `json:"index"`
	Dim    string `json:"dim"`
	Sub    string `json:"sub,omitempty"`
	Route  string `json:"route"`
	A      ask    `json:"failing"` // the question that really failed
	AScope string `json:"failing_scope,omitempty"`
	B      ask    `json:"asked"` // a healthy question whose hash slot holds A's failure
}

func genFailure(rng *rand.Rand, idx int, v cfgVariant) *failureCase {
	specs := []subSpec{{"name", "letter"}, {"name", "hi-case"}, {"name", "punct-case"}, {"type", ""}, {"class", ""}, {"cd", ""},
		{"scope", "scoped-under-shared"}, {"scope", "addr"}, {"kind", "zone-slot"}, {"cd", ""}, {"scope", "scoped-under-shared"},
		{"name", "label-cut"}}
	sp := specs[idx%len(specs)]
	fc := &failureCase{Kind: "failure", Index: idx, Dim: sp.dim, Sub: sp.sub}
	zone := fmt.Sprintf("f%d.%s", idx, baseZone)
	a := ask{Name: "q" + string(randLetters(rng, 4)) + "." + zone, Type: pick(rng, markerTypes), Class: dns.ClassINET,
		CD: rng.IntN(2) == 0, DO: rng.IntN(2) == 0, Client: clientV4}
	if rng.IntN(5) == 0 {
		a.Class = pick(rng, classPool)
	}
	b := a
	switch sp.dim {
	case "name":
		la, lb := namePair(rng, sp.sub)
		a.Name, b.Name = la+"."+zone, lb+"."+zone
	case "type":
		b.Type = pickOther(rng, markerTypes, a.Type)
	case "class":
		b.Class = pickOther(rng, classPool, a.Class)
	case "cd":
		b.CD = !a.CD
	case "scope":
		if !v.ECS {
			// without the policy nothing is ever recorded under a scope
			fc.Dim, fc.Sub = "cd", ""
			b.CD = !a.CD
			break
		}
		var ecs string
		fc.AScope, ecs = randV4Scope(rng)
		if rng.IntN(2) == 0 {
			fc.AScope, ecs = randV6Scope(rng)
		}
		a.ECS = ecs
		if sp.sub == "addr" {
			for {
				s, e2 := randV4Scope(rng)
				if strings.Contains(fc.AScope, ":") {
					s, e2 = randV6Scope(rng)
				}
				if s != fc.AScope {
					b.ECS = e2
					break
				}
			}
		} else {
			b.ECS = ""
		}
	case "kind":
		// B is a name below A; A's question-kind failure sits in the slot of
		// the ZONE-kind key of B's parent
		b.Name = "x." + a.Name
	}
	routes := []string{rWire, rMsg, rEngine, rStoreGet, rWireTCP}
	if b.ECS != "" {
		routes = []string{rMsg, rWire}
	}
	fc.Route = routes[(idx/len(specs))%len(routes)]
	fc.A, fc.B = a, b
	return fc
}

func (e *env) runFailure(fc *failureCase) {
	r := e.r
	// 1. the stub really fails A; the cache records it under A's preimage
	pa := fc.A.pre()
	e.u.setFailing(pa, true)
	o1 := e.serve(rMsg, fc.A)
	v1 := e.judge(fc.Kind, fc, rMsg, fc.A, o1, nil)
	if v1.Kind != "stub-failure" {
		r.Count("failure_setup_failed", 1)
		return
	}
	// 2. control: A itself is answered from the failure state, by the route
	//    under test (store-get has no audience, so only for unscoped A)
	ctlRoute := fc.Route
	if fc.A.ECS != "" && (ctlRoute == rStoreGet) {
		ctlRoute = rMsg
	}
	o2 := e.serve(ctlRoute, fc.A)
	if v2 := e.judge(fc.Kind, fc, ctlRoute, fc.A, o2, nil); v2.Kind == "cached-failure" {
		r.Count("legit_hit/failure-"+ctlRoute, 1)
		if o2.served("failure_served") {
			r.Count("legit_hit/wire-failure-bytes", 1)
		}
	}
	// 3. forge: A's failure state under B's hash
	aScope := e.clientScope(fc.A)
	ident := cache.FailureQuestionKey{Question: fc.A.question(), CD: fc.A.CD, Scope: aScope}
	var hashB uint64
	if fc.Dim == "kind" {
		hashB = cache.VerifC03FailureZoneHash(cache.FailureZoneKey{Zone: fc.A.Name, Qclass: fc.B.Class})
	} else {
		hashB = cache.VerifC03FailureQuestionHash(cache.FailureQuestionKey{Question: fc.B.question(), CD: fc.B.CD, Scope: e.clientScope(fc.B)})
	}
	if !e.store.VerifC03ForgeFailure(hashB, ident) {
		r.Count("forged_not_filed/failure", 1)
		return
	}
	got, kind, ok := e.store.VerifC03FailureAt(hashB)
	if !ok || kind != cache.FailureKindQuestion || asciiLower(got.Question.Name) != pa.Name || got.Question.Qtype != pa.Type || got.CD != pa.CD {
		r.Count("forged_not_filed/failure", 1)
		return
	}
	r.Count("forged_entries_filed", 1)
	suspect := pa
	if aScope.IsValid() && aScope.Bits() > 0 {
		suspect.Scope = aScope.Masked().String()
	}
	// 4. probe B (the authority is healthy again: whatever failure B is shown
	//    now can only come from cached state)
	e.u.setFailing(pa, false)
	o3 := e.serve(fc.Route, fc.B)
	v3 := e.judge(fc.Kind, fc, fc.Route, fc.B, o3, &suspect)
	r.Count("forged_probe/failure-"+fc.Route, 1)
	r.Count("forged_probe_dim/failure-"+fc.Dim, 1)
	if v3.Kind != "fresh" && v3.Kind != "miss" {
		r.Count("forged_probe_other_verdict/failure-"+v3.Kind, 1)
	}
	if v3.Kind == "fresh" || v3.Kind == "miss" {
		r.Count("forged_behaved_as_miss", 1)
		r.Distinct(fmt.Sprintf("failure|%s|%s|%s|%s", e.v.Name, fc.Dim, fc.Sub, fc.Route))
	}
	if fc.Sub != "" {
		r.Count("forged_probe_sub/failure-"+fc.Sub, 1)
	}
}

// ---------------------------------------------------------------- cuts

type cutCase struct {
	Kind   string `json:"kind"`
	Index  int    `json:"index"`
	Dim    string `json:"dim"`
	Sub    string `json:"sub,omitempty"`
	Route  string `json:"route"`
	Zone   string `json:"zone"`
	Denied string `json:"denied"`
	Class  uint16 `json:"class"`
	Legit  ask    `json:"legit"` // a name under the cut, same class, CD=0
	B      ask    `json:"asked"`
	// the identity whose wire-index slot additionally points at the cut
	SlotName  string `json:"slot_name,omitempty"`
	SlotClass uint16 `json:"slot_class,omitempty"`
}

func genCut(rng *rand.Rand, idx int) *cutCase {
	specs := []subSpec{{"name", "letter"}, {"name", "hi-case"}, {"class", ""}, {"cd", ""}, {"name", "punct-case"}, {"class", ""}}
	sp := specs[idx%len(specs)]
	cc := &cutCase{Kind: "cut", Index: idx, Dim: sp.dim, Sub: sp.sub}
	cc.Route = []string{rWire, rEngine, rMsg, rWireTCP, rStoreGet}[(idx/len(specs))%5]
	cc.Zone = fmt.Sprintf("z%d.%s", idx, baseZone)
	cc.Class = dns.ClassINET
	if rng.IntN(4) == 0 {
		cc.Class = pick(rng, []uint16{dns.ClassCHAOS, dns.ClassHESIOD, dns.ClassCSNET})
	}
	dl, other := namePair(rng, "letter")
	if sp.dim == "name" {
		dl, other = namePair(rng, sp.sub)
	}
	cc.Denied = dl + "." + cc.Zone
	qt := pick(rng, markerTypes)
	leaf := "x" + string(randLetters(rng, 3)) + "."
	if rng.IntN(4) == 0 {
		leaf = "" // the denied name itself
	}
	cc.Legit = ask{Name: leaf + cc.Denied, Type: qt, Class: cc.Class, DO: rng.IntN(2) == 0, Client: clientV4}
	cc.B = cc.Legit
	switch sp.dim {
	case "name":
		cc.SlotName, cc.SlotClass = other+"."+cc.Zone, cc.Class
		cc.B.Name = leaf + cc.SlotName
	case "class":
		cc.SlotName, cc.SlotClass = cc.Denied, pickOther(rng, []uint16{dns.ClassINET, dns.ClassCHAOS, dns.ClassHESIOD, dns.ClassCSNET}, cc.Class)
		cc.B.Class = cc.SlotClass
	case "cd":
		cc.B.CD = true
	}
	return cc
}

func (e *env) runCut(cc *cutCase) {
	r := e.r
	proof, _ := e.u.cutProof(cc.Zone, cc.Denied, cc.Class)
	if !e.store.RecordNXDomainCut(proof, cc.Denied, cc.Zone, time.Time{}) {
		r.Count("cut_record_refused", 1)
		return
	}
	// control: a name under the cut is denied from the cut, by this route
	o1 := e.serve(cc.Route, cc.Legit)
	if v1 := e.judge(cc.Kind, cc, cc.Route, cc.Legit, o1, nil); v1.Kind == "cut" {
		r.Count("legit_hit/cut-"+cc.Route, 1)
		if o1.served("cut_served") {
			r.Count("legit_hit/wire-cut-bytes", 1)
		}
	} else {
		r.Count("cut_control_not_served", 1)
	}
	if cc.SlotName != "" {
		h := cache.VerifC03CutHash(cc.SlotName, cc.SlotClass)
		if !e.store.VerifC03ForgeCut(h, cc.Denied, cc.Class) {
			r.Count("forged_not_filed/cut", 1)
			return
		}
		if dn, _, ok := e.store.VerifC03CutAt(h); !ok || dn != dns.CanonicalName(cc.Denied) {
			r.Count("forged_not_filed/cut", 1)
			return
		}
		r.Count("forged_entries_filed", 1)
	}
	o2 := e.serve(cc.Route, cc.B)
	v2 := e.judge(cc.Kind, cc, cc.Route, cc.B, o2, nil)
	r.Count("forged_probe/cut-"+cc.Route, 1)
	r.Count("forged_probe_dim/cut-"+cc.Dim, 1)
	if v2.Kind != "fresh" && v2.Kind != "miss" {
		r.Count("forged_probe_other_verdict/cut-"+v2.Kind, 1)
	}
	if v2.Kind == "fresh" || v2.Kind == "miss" {
		r.Count("forged_behaved_as_miss", 1)
		r.Distinct(fmt.Sprintf("cut|%s|%s|%s|%s", e.v.Name, cc.Dim, cc.Sub, cc.Route))
	}
	if cc.SlotName != "" {
		e.store.VerifC03UnforgeCut(cache.VerifC03CutHash(cc.SlotName, cc.SlotClass))
	}
}
