package main

// Part (iii): audiences. ECS policy on, the scripted authority tailors answers
// to scopes of both families; clients inside and outside each scope, with and
// without CD, interleave lookups (every route), harness-driven and
// prefetch-driven refreshes, purges and clock advances. Every reply is judged
// by the marker oracle: a scoped marker may only reach a client whose own
// (policy-clamped) ECS source lies inside the marker's audience, and the CD
// partitions never mix.

import (
	"fmt"
	"math/rand/v2"
	"net/netip"
	"time"

	"github.com/miekg/dns"
	"github.com/semihalev/sdns/middleware/cache"
)

type audOp struct {
	Op    string `json:"op"` // ask | advance | purge | refresh
	Route string `json:"route,omitempty"`
	Ask   *ask   `json:"ask,omitempty"`
	Secs  int    `json:"secs,omitempty"`
	// refresh: which stored entry (by dump order) and what the refreshed
	// response's own CD bit says (the key's partition is what counts)
	Pick   int  `json:"pick,omitempty"`
	RespCD bool `json:"resp_cd,omitempty"`
}

type audCase struct {
	Kind  string  `json:"kind"`
	Round int     `json:"round"`
	Ops   []audOp `json:"ops"`
	Upto  int     `json:"upto"` // index of the op that was being executed
}

// the client population: (transport address, ECS option)
type audClient struct {
	addr string
	ecs  string
}

var audClients = []audClient{
	{clientV4, ""},
	{clientV4b, ""},
	{clientOutside, ""},
	// IPv4 sources: two /24 in one /20 (198.51.96.0/20), one elsewhere
	{clientV4, "198.51.100.7/32"},
	{clientV4, "198.51.100.200/24"},
	{clientV4b, "198.51.101.9/32"},
	{clientV4b, "198.51.101.0/25"},
	{clientV4, "198.51.96.0/22"},
	{clientV4, "198.51.96.0/20"},
	{clientV4, "198.51.0.0/16"},
	{clientV4b, "198.51.200.1/32"},
	{clientV4, "203.0.113.5/24"},
	{clientV4, "198.51.100.0/0"},
	// IPv6 sources: two /56 in one /48, one elsewhere
	{clientV6, "2001:db8:100:100::1/128"},
	{clientV6, "2001:db8:100:200::/56"},
	{clientV6, "2001:db8:100::/48"},
	{clientV6, "2001:db8:200::1/64"},
	{clientV4, "2001:db8:100:100::/56"}, // v6 source over a v4 transport
	{clientV6, "198.51.100.9/24"},       // v4 source over a v6 transport
	// a client outside the policy's allow-list: its ECS must be ignored
	{clientOutside, "198.51.100.7/24"},
	{clientOutside, "2001:db8:100:100::1/56"},
}

// scope tags the scripted authority uses (v4 bits - v6 bits)
var audTags = []string{"", "sc-0-0", "sc-24-56", "sc-20-48", "sc-16-32", "sc-28-64", "sc-8-16", "sc-22-52"}

func genAudRound(rng *rand.Rand, round, nops int) *audCase {
	ac := &audCase{Kind: "audience", Round: round}
	var names []string
	for i, tag := range audTags {
		n := fmt.Sprintf("n%d.", i)
		if tag != "" {
			n += tag + "."
		}
		names = append(names, n+fmt.Sprintf("a%d.%s", round, baseZone))
	}
	// keep the working set small so that the same question is asked by many
	// different audiences
	names = append([]string(nil), names[rng.IntN(3):]...)
	if len(names) > 4 {
		rng.Shuffle(len(names), func(i, j int) { names[i], names[j] = names[j], names[i] })
		names = names[:4]
	}
	types := []uint16{dns.TypeA, dns.TypeTXT}
	for i := 0; i < nops; i++ {
		x := rng.IntN(100)
		switch {
		case x < 74:
			cl := pick(rng, audClients)
			a := ask{Name: pick(rng, names), Type: pick(rng, types), Class: dns.ClassINET,
				CD: rng.IntN(3) == 0, DO: rng.IntN(2) == 0, Client: cl.addr, ECS: cl.ecs}
			if rng.IntN(6) == 0 {
				a.Name = flipASCIICase(a.Name)
			}
			route := pick(rng, []string{rMsg, rMsg, rWire, rEngine, rWireTCP, rStoreGet})
			ac.Ops = append(ac.Ops, audOp{Op: "ask", Route: route, Ask: &a})
		case x < 82:
			ac.Ops = append(ac.Ops, audOp{Op: "advance", Secs: pick(rng, []int{1, 20, 100, 160, 200, 400})})
		case x < 89:
			a := ask{Name: pick(rng, names), Type: pick(rng, types), Class: dns.ClassINET}
			ac.Ops = append(ac.Ops, audOp{Op: "purge", Ask: &a})
		default:
			ac.Ops = append(ac.Ops, audOp{Op: "refresh", Pick: rng.IntN(1 << 16), RespCD: rng.IntN(2) == 0})
		}
	}
	return ac
}

func (e *env) runAudRound(ac *audCase) {
	r := e.r
	for i := range ac.Ops {
		op := &ac.Ops[i]
		ac.Upto = i
		switch op.Op {
		case "ask":
			a := *op.Ask
			o := e.serve(op.Route, a)
			v := e.judge(ac.Kind, ac, op.Route, a, o, nil)
			r.Count("audience_probes", 1)
			cs := e.clientScope(a)
			if a.ECS != "" && !cs.IsValid() {
				r.Count("audience_probes_ecs_ignored_by_policy", 1)
			}
			if a.CD {
				r.Count("audience_probes_cd1", 1)
			} else {
				r.Count("audience_probes_cd0", 1)
			}
			if len(v.Markers) > 0 {
				mk, _ := e.u.get(v.Markers[0])
				scoped := mk.Pre.Scope != ""
				switch {
				case v.Kind == "hit" && scoped:
					r.Count("audience_scoped_hits_inside_scope", 1)
					if sp := parseScope(mk.Pre.Scope); sp.Addr().Is6() {
						r.Count("audience_scoped_hits_inside_scope_v6", 1)
					} else {
						r.Count("audience_scoped_hits_inside_scope_v4", 1)
					}
					r.Distinct(fmt.Sprintf("aud-hit|%s|%v|%s", mk.Pre.Scope, a.CD, op.Route))
					// the upstream OPT's shape must not matter: these answers
					// were filed under their scope although other options stood
					// in front of / behind the subnet option, or it came twice
					if mk.OptBefore > 0 {
						r.Count("audience_scoped_hits_upstream_other_option_before_subnet", 1)
					}
					if mk.OptAfter > 0 {
						r.Count("audience_scoped_hits_upstream_other_option_after_subnet", 1)
					}
					if len(mk.Subnets) > 1 {
						r.Count("audience_scoped_hits_upstream_several_subnet_options", 1)
					}
				case v.Kind == "hit":
					r.Count("audience_shared_hits", 1)
					if cs.IsValid() {
						r.Count("audience_shared_hits_by_ecs_clients", 1)
					}
				}
				if v.Kind == "hit" && a.CD {
					r.Count("audience_hits_cd1", 1)
				}
				if v.Kind == "hit" && mk.Kind == "answer" && e.refreshed[mk.ID] {
					r.Count("audience_hits_on_refreshed_entries", 1)
					if e.refreshedFlip[mk.ID] {
						r.Count("audience_hits_on_refreshed_entries_resp_cd_differs", 1)
					}
				}
			}
			if v.Kind == "fresh" {
				// a miss although an entry for this very question exists under
				// another audience / partition: the interesting misses
				if e.otherAudienceExists(a, cs) {
					r.Count("audience_misses_with_foreign_entry_present", 1)
					r.Distinct(fmt.Sprintf("aud-miss|%v|%v|%s", cs, a.CD, op.Route))
				}
			}
		case "advance":
			if !e.st.Quiesce(10 * time.Second) {
				r.Inconclusive("stack did not quiesce before a clock advance")
				return
			}
			e.c.VerifAdvance(time.Duration(op.Secs) * time.Second)
			r.Count("audience_clock_advances", 1)
		case "purge":
			e.c.Purge(op.Ask.question())
			r.Count("audience_purges", 1)
		case "refresh":
			e.refreshOne(op)
		}
	}
}

// otherAudienceExists: does the store hold a live entry for a's name/type/class
// that a must NOT be served (other CD partition, or a scope a is outside of)?
func (e *env) otherAudienceExists(a ask, cs netip.Prefix) bool {
	for _, d := range e.store.VerifDump() {
		if d.Remaining <= 0 || asciiLower(d.Question) != asciiLower(a.Name) || d.Qtype != a.Type || d.Qclass != a.Class {
			continue
		}
		if d.CD != a.CD || !scopeCovers(d.Scope, cs) {
			return true
		}
	}
	return false
}

// refreshOne replaces one live entry through the compare-and-swap writer with
// a fresh response for the SAME preimage and audience (a new generation, so a
// later hit shows whether the replacement is what is served). The response's
// own CD bit is arbitrary: the slot's partition is what identifies the entry.
func (e *env) refreshOne(op *audOp) {
	r := e.r
	dump := e.store.VerifDump()
	var live []cache.VerifEntryInfo
	for _, d := range dump {
		if d.Remaining > 0 && d.Positive && !isAliasName(d.Question) {
			live = append(live, d)
		}
	}
	if len(live) == 0 {
		return
	}
	// dump order follows map iteration: sort for determinism
	sortDump(live)
	d := live[op.Pick%len(live)]
	ent, ok := e.store.LookupByKey(d.Key)
	if !ok {
		return
	}
	q := dns.Question{Name: d.Question, Qtype: d.Qtype, Qclass: d.Qclass}
	resp, id := e.u.responseFor(q, d.CD, d.Scope, false)
	resp.CheckingDisabled = op.RespCD
	if e.store.ReplaceIfCurrent(d.Key, ent, resp, time.Time{}, 0) {
		r.Count("audience_refreshes", 1)
		e.refreshed[id] = true
		if op.RespCD != d.CD {
			e.refreshedFlip[id] = true
			r.Count("audience_refreshes_resp_cd_differs", 1)
		}
		if d.Scope != "" {
			r.Count("audience_refreshes_scoped", 1)
		}
	}
}

func sortDump(d []cache.VerifEntryInfo) {
	for i := 1; i < len(d); i++ {
		for j := i; j > 0 && d[j].Key < d[j-1].Key; j-- {
			d[j], d[j-1] = d[j-1], d[j]
		}
	}
}
