package main

// Driving the real pipeline through every lookup route and judging each
// observed reply with the marker oracle.

import (
	"context"
	"encoding/hex"
	"fmt"
	"net"
	"net/netip"
	"sort"
	"strings"
	"time"

	"github.com/miekg/dns"
	"github.com/semihalev/sdns/middleware"
	"github.com/semihalev/sdns/middleware/cache"
	"github.com/semihalev/sdns/zzverif/replycontract"
	"github.com/semihalev/sdns/zzverif/stack"
	"github.com/semihalev/sdns/zzverif/vlib"
)

// cfgVariant is the slice of sdns configuration a case runs under.
type cfgVariant struct {
	Name     string `json:"name"`
	DNSSEC   bool   `json:"dnssec"` // on: RFC 8020 cut index live; off: shared denial disabled
	ECS      bool   `json:"ecs"`
	Prefetch int    `json:"prefetch,omitempty"`
	// OpenECS: [ecs] client_networks empty — every client (the internal
	// sub-pipeline's writer included) is eligible for ECS forwarding.
	OpenECS bool `json:"open_ecs,omitempty"`
}

var (
	variantMain  = cfgVariant{Name: "dnssec-on+ecs-on", DNSSEC: true, ECS: true}
	variantPlain = cfgVariant{Name: "dnssec-off+ecs-off"}
	variantAud   = cfgVariant{Name: "dnssec-on+ecs-on+prefetch", DNSSEC: true, ECS: true, Prefetch: 50}
	variantOpen  = cfgVariant{Name: "dnssec-on+ecs-open+prefetch", DNSSEC: true, ECS: true, Prefetch: 50, OpenECS: true}
)

const (
	ecsV4Max = 24
	ecsV6Max = 56
)

var ecsClientNetworks = []string{"203.0.113.0/24", "2001:db8:c1::/48"}

const (
	clientV4      = "203.0.113.9:4000"
	clientV4b     = "203.0.113.77:4001"
	clientV6      = "[2001:db8:c1::9]:4000"
	clientOutside = "192.0.2.77:4000" // not in ecsClientNetworks: its ECS is stripped
)

// Routes.
const (
	rMsg         = "msg"          // Server.ServeMsg (decoded entry)
	rWire        = "wire"         // Server.ServeRaw, strict wire-born entry (worker pass)
	rWireTCP     = "wire-tcp"     // same, TCP-flavoured job
	rEngine      = "wire-engine"  // inline pass, then replay on handoff (what the UDP reader does)
	rStoreGet    = "store-get"    // Store.GetWithContext (resolver-internal DS/DNSKEY route)
	rStoreLookup = "store-lookup" // Store.Lookup + CacheEntry.ToMsg
)

type ask struct {
	Name   string `json:"name"` // presentation form as sent (case preserved)
	Type   uint16 `json:"type"`
	Class  uint16 `json:"class"`
	CD     bool   `json:"cd,omitempty"`
	DO     bool   `json:"do,omitempty"`
	NoEDNS bool   `json:"no_edns,omitempty"`
	ECS    string `json:"ecs,omitempty"` // "addr/sourcebits" as the client sends it
	Client string `json:"client"`
}

func (a ask) question() dns.Question {
	return dns.Question{Name: a.Name, Qtype: a.Type, Qclass: a.Class}
}

func (a ask) pre() pre {
	return pre{Name: canonLower(a.Name), Type: a.Type, Class: a.Class, CD: a.CD}
}

func (a ask) msg(id uint16) *dns.Msg {
	q := new(dns.Msg)
	q.Id = id
	q.RecursionDesired = true
	q.CheckingDisabled = a.CD
	q.Question = []dns.Question{a.question()}
	if !a.NoEDNS {
		q.SetEdns0(1232, a.DO)
		if a.ECS != "" {
			if p, err := netip.ParsePrefix(a.ECS); err == nil {
				fam := uint16(1)
				ip := net.IP(p.Addr().AsSlice())
				if p.Addr().Is6() {
					fam = 2
				}
				o := q.IsEdns0()
				o.Option = append(o.Option, &dns.EDNS0_SUBNET{Code: dns.EDNS0SUBNET, Family: fam,
					SourceNetmask: uint8(p.Bits()), Address: ip})
			}
		}
	}
	return q
}

type env struct {
	r     *vlib.Run
	v     cfgVariant
	st    *stack.Stack
	u     *universe
	c     *cache.Cache
	store *cache.Store
	nets  []netip.Prefix
	qid   uint16

	refreshed     map[uint32]bool // marker ids produced by harness-driven refreshes
	refreshedFlip map[uint32]bool // … whose response carried the other CD bit than its slot
}

func newEnv(r *vlib.Run, v cfgVariant) *env {
	cfg := stack.DefaultConfig()
	cfg.Chaos = false
	cfg.CacheSize = 1 << 17
	if v.DNSSEC {
		cfg.DNSSEC = "on"
	}
	cfg.Prefetch = uint32(v.Prefetch)
	if v.ECS {
		cfg.ECS.Enabled = true
		cfg.ECS.ForwardV4Max = ecsV4Max
		cfg.ECS.ForwardV6Max = ecsV6Max
		if !v.OpenECS {
			cfg.ECS.ClientNetworks = ecsClientNetworks
		}
	}
	u := newUniverse()
	u.decorate, u.salt, u.count = true, r.RandN("optshape", 0).Uint64(), r.Count
	st, err := stack.New(stack.Options{Config: cfg, Stub: u.stub})
	if err != nil {
		r.Fatalf("stack.New: %v", err)
	}
	st.Stub().SetLogLimit(0)
	e := &env{r: r, v: v, st: st, u: u, c: st.Cache(), refreshed: map[uint32]bool{}, refreshedFlip: map[uint32]bool{}}
	if e.c == nil {
		r.Fatalf("no cache handler in the stack")
	}
	e.store = e.c.VerifStore()
	if !v.OpenECS {
		for _, s := range ecsClientNetworks {
			e.nets = append(e.nets, netip.MustParsePrefix(s))
		}
	}
	return e
}

func (e *env) close() { e.st.Close() }

// clientScope mirrors what the ECS policy derives for a request: the client's
// own ECS source, clamped to the forwarding ceiling, if the policy is on and
// the client is in the allow-list. Invalid = the request has no audience of
// its own (only global answers may reach it).
func (e *env) clientScope(a ask) netip.Prefix {
	if !e.v.ECS || a.ECS == "" || a.NoEDNS {
		return netip.Prefix{}
	}
	ap, err := netip.ParseAddrPort(a.Client)
	if err != nil {
		return netip.Prefix{}
	}
	allowed := len(e.nets) == 0
	for _, n := range e.nets {
		if n.Contains(ap.Addr().Unmap()) {
			allowed = true
		}
	}
	if !allowed {
		return netip.Prefix{}
	}
	p, err := netip.ParsePrefix(a.ECS)
	if err != nil {
		return netip.Prefix{}
	}
	bits, max := p.Bits(), ecsV4Max
	if p.Addr().Is6() {
		max = ecsV6Max
	}
	if bits > max {
		bits = max
	}
	out, err := p.Addr().Prefix(bits)
	if err != nil {
		return netip.Prefix{}
	}
	return out
}

type obs struct {
	Route     string
	Reply     *dns.Msg
	Miss      bool // store routes: the lookup reported a miss
	StubCalls int
	Wire      map[string]int64 // byte-path counter deltas
	Strict    bool
	Inline    bool
	Query     []byte
	Raw       []byte
	Panic     any
}

func (o *obs) served(kind string) bool { return o.Wire[kind] > 0 }

func (e *env) serve(route string, a ask) *obs {
	e.qid++
	q := a.msg(e.qid)
	o := &obs{Route: route}
	before := e.st.Stub().Total()
	wc := cache.VerifC03WireCounters()
	switch route {
	case rMsg:
		o.Query, _ = q.Pack()
		res := e.st.ServeMsg(a.Client, "udp", q)
		o.Reply, o.Raw, o.Panic = res.Msg, res.Raw, res.Panic
	case rWire, rWireTCP, rEngine:
		pkt, err := q.Pack()
		if err != nil {
			e.r.Inconclusive(fmt.Sprintf("harness: cannot pack %q: %v", a.Name, err))
			return o
		}
		o.Query = pkt
		var res stack.Result
		switch route {
		case rWire:
			res = e.st.ServeRaw(a.Client, "udp", pkt)
		case rWireTCP:
			res = e.st.ServeRaw(a.Client, "tcp", pkt)
		default:
			res, o.Inline = e.st.ServeRawLikeEngine(stack.NewJob(a.Client, "udp"), pkt)
		}
		o.Reply, o.Raw, o.Panic, o.Strict = res.Msg, res.Raw, res.Panic, res.Strict
		if res.Writes > 1 {
			e.r.Count("multiple_writes", 1)
		}
	case rStoreGet, rStoreLookup:
		func() {
			defer func() {
				if p := recover(); p != nil {
					o.Panic = p
				}
			}()
			ctx := context.Background()
			if a.ECS != "" {
				ctx = middleware.MarkClientECS(ctx)
			}
			if route == rStoreGet {
				m, ok := e.store.GetWithContext(ctx, q)
				o.Reply, o.Miss = m, !ok
				return
			}
			ent, ok := e.store.Lookup(q)
			if !ok {
				o.Miss = true
				return
			}
			o.Reply = ent.ToMsg(q)
			o.Miss = o.Reply == nil
		}()
	default:
		panic("unknown route " + route)
	}
	if e.v.Prefetch > 0 {
		if !e.st.Quiesce(10 * time.Second) {
			e.r.Inconclusive("stack did not quiesce after a serve")
		}
	}
	o.StubCalls = int(e.st.Stub().Total() - before)
	after := cache.VerifC03WireCounters()
	o.Wire = map[string]int64{}
	for k, v := range after {
		if d := v - wc[k]; d != 0 {
			o.Wire[k] = d
		}
	}
	if o.Raw != nil && o.Query != nil {
		tr := "udp"
		if route == rWireTCP {
			tr = "tcp"
		}
		host, _, _ := net.SplitHostPort(a.Client)
		for _, b := range replycontract.Check(tr, o.Query, o.Raw, replycontract.Options{ECSEnabled: e.v.ECS, ClientIP: host}) {
			if !b.Info {
				e.r.Count("contract_breaches", 1)
				e.r.DistinctIn("contract_breach_rules", b.Rule)
			}
		}
		e.r.Count("contract_checked", 1)
	}
	return o
}

// ------------------------------------------------------------------ oracle

func scopeCovers(scope string, client netip.Prefix) bool {
	if scope == "" {
		return true
	}
	sp, err := netip.ParsePrefix(scope)
	if err != nil || !client.IsValid() {
		return false
	}
	return sp.Addr().Is4() == client.Addr().Is4() && sp.Bits() <= client.Bits() && sp.Contains(client.Addr())
}

// nameDiffKind says how two different ASCII-lowered names relate under the
// broader foldings a buggy comparison could apply.
func nameDiffKind(a, b string) string {
	switch {
	case strings.EqualFold(a, b):
		return "name(unicode-fold)"
	case strings.ToLower(a) == strings.ToLower(b):
		return "name(tolower)"
	}
	if len(a) == len(b) {
		or := true
		for i := 0; i < len(a); i++ {
			if a[i]|0x20 != b[i]|0x20 {
				or = false
				break
			}
		}
		if or {
			return "name(or-0x20)"
		}
	}
	return "name"
}

// diff lists the dimensions in which a stored preimage differs from the hop
// question it was used for (nil = the use is legal).
func diff(stored, hop pre, client netip.Prefix) []string {
	var d []string
	if stored.Name != hop.Name {
		d = append(d, nameDiffKind(stored.Name, hop.Name))
	}
	if stored.Type != hop.Type {
		d = append(d, "type")
	}
	if stored.Class != hop.Class {
		d = append(d, "class")
	}
	if stored.CD != hop.CD {
		d = append(d, "cd")
	}
	if !scopeCovers(stored.Scope, client) {
		d = append(d, "scope")
	}
	sort.Strings(d)
	return d
}

// sigPrefetchScoped: see FINDINGS.md #1.
const sigPrefetchScoped = "scope/prefetch-refresh-files-scoped-answer-in-shared-slot"

type verdict struct {
	Kind    string   // hit | fresh | cached-failure | stub-failure | cut | miss | none
	Markers []uint32 // ids seen in the reply, in order
}

type violationCase struct {
	Kind    string     `json:"kind"`
	Variant cfgVariant `json:"variant"`
	Case    any        `json:"case"`
	Route   string     `json:"route"`
	Ask     ask        `json:"ask"`
	Query   string     `json:"query_hex,omitempty"`
	Reply   string     `json:"reply_hex,omitempty"`
	ReplyS  string     `json:"reply_text,omitempty"`
	Stored  *pre       `json:"stored_preimage,omitempty"`
	Wire    any        `json:"wire_counters,omitempty"`
}

func (e *env) vcase(kind string, c any, route string, a ask, o *obs, stored *pre) violationCase {
	vc := violationCase{Kind: kind, Variant: e.v, Case: c, Route: route, Ask: a, Stored: stored, Wire: o.Wire}
	vc.Query = hex.EncodeToString(o.Query)
	vc.Reply = hex.EncodeToString(o.Raw)
	if o.Reply != nil {
		vc.ReplyS = o.Reply.String()
	}
	return vc
}

// judge applies the marker oracle to one observation. kind/c describe the
// enclosing case for the replay file. suspect, when set, is the identity of a
// forged failure entry filed under this question's hash (failure replies carry
// no marker, so the attribution of an unexplained cached failure is the case's).
func (e *env) judge(kind string, c any, route string, a ask, o *obs, suspect *pre) verdict {
	r := e.r
	if o.Panic != nil {
		r.Violation(vlib.Sig("panic", route), fmt.Sprintf("serving %v through %s panicked: %v", a, route, o.Panic), e.vcase(kind, c, route, a, o, nil))
		return verdict{Kind: "none"}
	}
	m := o.Reply
	if m == nil {
		if o.Miss {
			r.Count("store_route_misses", 1)
			return verdict{Kind: "miss"}
		}
		r.Count("no_reply", 1)
		return verdict{Kind: "none"}
	}
	r.Eval(1)
	r.Count("replies_judged/"+route, 1)
	client := e.clientScope(a)
	if route == rStoreGet || route == rStoreLookup {
		// the resolver-internal route carries no audience: whatever it hands
		// out must be good for everyone
		client = netip.Prefix{}
	}
	hop := a.pre()

	report := func(dims []string, stored pre, what string) {
		sig := vlib.Sig("cross", route, strings.Join(dims, "+"))
		r.Violation(sig, what, e.vcase(kind, c, route, a, o, &stored))
	}

	switch m.Rcode {
	case dns.RcodeServerFailure:
		if o.StubCalls > 0 {
			return verdict{Kind: "stub-failure"}
		}
		// a cached failure: legal only if the stub really failed this preimage
		for _, f := range e.u.failureRecorded(a.Name, a.Type, a.Class, a.CD) {
			if scopeCovers(f.Pre.Scope, client) {
				return verdict{Kind: "cached-failure"}
			}
		}
		// … or a zone-wide failure was recorded for an ancestor (whole labels)
		// of the name, in this class; zone failures know no CD and no audience
		for _, z := range e.u.zoneFailures() {
			if z.Class == a.Class && nameAtOrBelow(a.Name, z.Name) {
				return verdict{Kind: "cached-failure"}
			}
		}
		stored := pre{Name: "?"}
		dims := []string{"unrecorded"}
		switch {
		case suspect != nil && suspect.Zone:
			stored = *suspect
			dims = nil
			if !nameAtOrBelow(a.Name, stored.Name) {
				dims = append(dims, "zone-not-ancestor")
			}
			if stored.Class != a.Class {
				dims = append(dims, "class")
			}
			if len(dims) == 0 {
				dims = []string{"unrecorded"}
			}
		case suspect != nil:
			stored = *suspect
			if dims = diff(stored, hop, client); len(dims) == 0 {
				dims = []string{"unrecorded"}
			}
		}
		report(append([]string{"failure"}, dims...), stored,
			fmt.Sprintf("%s answered %v with a cached resolution failure although no failure was ever recorded for that preimage/audience (failure state held under its hash belongs to %v)", route, hop, stored))
		return verdict{Kind: "cached-failure"}

	case dns.RcodeNameError:
		var ids []uint32
		for _, rr := range m.Ns {
			soa, ok := rr.(*dns.SOA)
			if !ok {
				continue
			}
			id, ok := parseMarker(soa)
			mk, ok2 := e.u.get(id)
			if !ok || !ok2 || mk.Kind != "cut" {
				continue
			}
			ids = append(ids, id)
			var dims []string
			if !nameAtOrBelow(a.Name, mk.Pre.Name) {
				dims = append(dims, nameDiffKind(mk.Pre.Name, hop.Name))
			}
			if mk.Pre.Class != a.Class {
				dims = append(dims, "class")
			}
			if a.CD {
				dims = append(dims, "cd")
			}
			if len(dims) > 0 {
				sort.Strings(dims)
				report(append([]string{"cut"}, dims...), mk.Pre,
					fmt.Sprintf("%s answered %v from the subtree cut recorded for %v", route, hop, mk.Pre))
			}
		}
		if len(ids) == 0 {
			r.Count("unattributed_replies", 1)
			r.Inconclusive(fmt.Sprintf("harness: NXDOMAIN reply without a cut marker for %v via %s", hop, route))
		}
		return verdict{Kind: "cut", Markers: ids}

	case dns.RcodeSuccess:
		if len(m.Answer) == 0 {
			r.Count("unattributed_replies", 1)
			r.Inconclusive(fmt.Sprintf("harness: empty NOERROR reply for %v via %s", hop, route))
			return verdict{Kind: "none"}
		}
		var ids []uint32
		for _, rr := range m.Answer {
			id, ok := parseMarker(rr)
			mk, ok2 := e.u.get(id)
			if !ok || !ok2 {
				r.Count("unattributed_replies", 1)
				r.Inconclusive(fmt.Sprintf("harness: record without a known marker in reply for %v via %s: %s", hop, route, rr.String()))
				return verdict{Kind: "none"}
			}
			ids = append(ids, id)
			if dims := diff(mk.Pre, hop, client); len(dims) > 0 {
				if mk.Internal && mk.Kind == "answer" && len(dims) == 1 && dims[0] == "scope" {
					// A scoped answer the authority gave to an INTERNAL refresh
					// query: the only internal query that carries ECS is the
					// prefetch of a shared entry triggered by an ECS client.
					// Route-independent signature (FINDINGS.md #1).
					r.Violation(sigPrefetchScoped,
						fmt.Sprintf("%s answered %v (client audience %v) with an answer the authority scoped to %s; it was obtained by an internal prefetch refresh that forwarded the triggering client's ECS and was filed in the shared slot", route, hop, client, mk.Pre.Scope),
						e.vcase(kind, c, route, a, o, &mk.Pre))
					r.Count("finding1_hits", 1)
					continue
				}
				report(dims, mk.Pre, fmt.Sprintf("%s answered the question %v (client audience %v) with a record admitted for %v", route, hop, client, mk.Pre))
			}
			if cn, ok := rr.(*dns.CNAME); ok {
				hop.Name = canonLower(cn.Target)
			}
		}
		if o.StubCalls == 0 {
			return verdict{Kind: "hit", Markers: ids}
		}
		return verdict{Kind: "fresh", Markers: ids}
	}
	r.Count("unexpected_rcode", 1)
	r.Inconclusive(fmt.Sprintf("harness: unexpected rcode %s for %v via %s", dns.RcodeToString[m.Rcode], hop, route))
	return verdict{Kind: "none"}
}
