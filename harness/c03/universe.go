package main

// The marker universe: every record the harness stub (or the harness itself,
// when it builds the payload of a forged entry) produces embeds an id that
// names the FULL preimage the record was produced for — name as asked
// (ASCII-lowered), type, class, CD partition and ECS audience. A reply's
// records therefore say which admission they came from.

import (
	"context"
	"encoding/base64"
	"encoding/binary"
	"encoding/hex"
	"fmt"
	"hash/fnv"
	"math/rand/v2"
	"net"
	"net/netip"
	"strconv"
	"strings"
	"sync"
	"sync/atomic"
	"time"

	"github.com/miekg/dns"
	"github.com/semihalev/sdns/zzverif/stack"
)

// pre is a question preimage plus the audience the answer was tailored to.
type pre struct {
	Name  string `json:"name"` // presentation form, ASCII A-Z lowered, nothing else folded
	Type  uint16 `json:"type"`
	Class uint16 `json:"class"`
	CD    bool   `json:"cd"`
	Scope string `json:"scope,omitempty"` // "" = global audience, else masked prefix
	// Zone: not a question but a zone-wide failure state for Name (covers
	// every name at or below it, any type / CD / audience).
	Zone bool `json:"zone,omitempty"`
}

func (p pre) String() string {
	s := fmt.Sprintf("%q/%s/%s/cd=%v", p.Name, typeName(p.Type), className(p.Class), p.CD)
	if p.Scope != "" {
		s += "/scope=" + p.Scope
	}
	if p.Zone {
		s = fmt.Sprintf("zone %q/%s", p.Name, className(p.Class))
	}
	return s
}

func (p pre) qkey() string {
	return fmt.Sprintf("%s|%d|%d|%v", p.Name, p.Type, p.Class, p.CD)
}

func typeName(t uint16) string {
	if s, ok := dns.TypeToString[t]; ok {
		return s
	}
	return "TYPE" + strconv.Itoa(int(t))
}

func className(c uint16) string {
	if s, ok := dns.ClassToString[c]; ok {
		return s
	}
	return "CLASS" + strconv.Itoa(int(c))
}

// asciiLower lowers A-Z only — the one folding the property allows.
func asciiLower(s string) string {
	for i := 0; i < len(s); i++ {
		if c := s[i]; c >= 'A' && c <= 'Z' {
			b := []byte(s)
			for j := i; j < len(b); j++ {
				if b[j] >= 'A' && b[j] <= 'Z' {
					b[j] += 'a' - 'A'
				}
			}
			return string(b)
		}
	}
	return s
}

type marker struct {
	ID     uint32 `json:"id"`
	Pre    pre    `json:"pre"`
	Kind   string `json:"kind"` // answer | alias | cut
	Target string `json:"target,omitempty"`
	Forged bool   `json:"forged,omitempty"` // payload of a harness-forged entry
	// Internal: produced for an internal sub-query (alias chase, prefetch
	// refresh) rather than for a client request.
	Internal bool `json:"internal,omitempty"`
	// Shape of the OPT record the scripted authority sent with this answer:
	// how many other options stood before / after the client-subnet
	// option(s), and the SCOPE of each subnet option in order.
	OptBefore int   `json:"opt_other_before,omitempty"`
	OptAfter  int   `json:"opt_other_after,omitempty"`
	Subnets   []int `json:"opt_subnet_scopes,omitempty"`
}

type failureRec struct {
	Pre pre // Scope = the client scope the failure was recorded under ("" shared)
}

type universe struct {
	mu      sync.Mutex
	markers []marker // index = id (0 unused)
	failing map[string]bool
	failed  []failureRec
	zfailed []pre // zone-wide failures recorded through Store.RecordZoneFailure

	internalCalls atomic.Int64 // stub invocations made by internal sub-queries (chase, prefetch)

	// decorate: upstream responses carry OPT records of generated shape
	// (other options around the client-subnet option, several subnet
	// options); salt keys the per-response generator, count reports.
	decorate bool
	salt     uint64
	count    func(name string, n int)
}

func newUniverse() *universe {
	return &universe{markers: make([]marker, 1), failing: map[string]bool{}}
}

func (u *universe) alloc(p pre, kind, target string, forged bool) uint32 {
	u.mu.Lock()
	defer u.mu.Unlock()
	id := uint32(len(u.markers))
	u.markers = append(u.markers, marker{ID: id, Pre: p, Kind: kind, Target: target, Forged: forged})
	return id
}

func (u *universe) get(id uint32) (marker, bool) {
	u.mu.Lock()
	defer u.mu.Unlock()
	if id == 0 || int(id) >= len(u.markers) {
		return marker{}, false
	}
	return u.markers[id], true
}

func (u *universe) lastID() uint32 {
	u.mu.Lock()
	defer u.mu.Unlock()
	return uint32(len(u.markers) - 1)
}

func (u *universe) setFailing(p pre, on bool) {
	u.mu.Lock()
	if on {
		u.failing[p.qkey()] = true
	} else {
		delete(u.failing, p.qkey())
	}
	u.mu.Unlock()
}

func (u *universe) addZoneFailure(z pre) {
	u.mu.Lock()
	u.zfailed = append(u.zfailed, z)
	u.mu.Unlock()
}

func (u *universe) zoneFailures() []pre {
	u.mu.Lock()
	defer u.mu.Unlock()
	return u.zfailed
}

func (u *universe) failureRecorded(name string, t, c uint16, cd bool) []failureRec {
	u.mu.Lock()
	defer u.mu.Unlock()
	var out []failureRec
	for _, f := range u.failed {
		if f.Pre.Type == t && f.Pre.Class == c && f.Pre.CD == cd && f.Pre.Name == canonLower(name) {
			out = append(out, f)
		}
	}
	return out
}

// ---------------------------------------------------------------- records

const markerDomain = "mk."

func markerHost(id uint32) string { return fmt.Sprintf("m%d.%s", id, markerDomain) }

// markerTypes are the question types the stub can answer with a record OF
// that type carrying an id.
var markerTypes = []uint16{dns.TypeA, dns.TypeAAAA, dns.TypeTXT, dns.TypeMX, dns.TypeNS, dns.TypeDS, dns.TypeDNSKEY}

func markerRR(owner string, rrtype, class uint16, ttl uint32, id uint32) dns.RR {
	h := dns.RR_Header{Name: owner, Rrtype: rrtype, Class: class, Ttl: ttl}
	var idb [4]byte
	binary.BigEndian.PutUint32(idb[:], id)
	switch rrtype {
	case dns.TypeA:
		return &dns.A{Hdr: h, A: net.IPv4(10, idb[1], idb[2], idb[3]).To4()}
	case dns.TypeAAAA:
		ip := net.ParseIP("2001:db8:c03::")
		copy(ip[12:], idb[:])
		return &dns.AAAA{Hdr: h, AAAA: ip}
	case dns.TypeMX:
		return &dns.MX{Hdr: h, Preference: 10, Mx: markerHost(id)}
	case dns.TypeNS:
		return &dns.NS{Hdr: h, Ns: markerHost(id)}
	case dns.TypeDS:
		d := make([]byte, 32)
		copy(d, idb[:])
		return &dns.DS{Hdr: h, KeyTag: uint16(id), Algorithm: 13, DigestType: 2, Digest: hex.EncodeToString(d)}
	case dns.TypeDNSKEY:
		k := make([]byte, 64)
		copy(k, idb[:])
		return &dns.DNSKEY{Hdr: h, Flags: 256, Protocol: 3, Algorithm: 13, PublicKey: base64.StdEncoding.EncodeToString(k)}
	default:
		h.Rrtype = dns.TypeTXT
		return &dns.TXT{Hdr: h, Txt: []string{"c03m=" + strconv.FormatUint(uint64(id), 10)}}
	}
}

// parseMarker extracts the id a record carries.
func parseMarker(rr dns.RR) (uint32, bool) {
	hostID := func(s string) (uint32, bool) {
		s = strings.ToLower(s)
		if !strings.HasPrefix(s, "m") || !strings.HasSuffix(s, "."+markerDomain) {
			return 0, false
		}
		n, err := strconv.ParseUint(s[1:len(s)-len(markerDomain)-1], 10, 32)
		return uint32(n), err == nil
	}
	switch v := rr.(type) {
	case *dns.A:
		ip := v.A.To4()
		if ip == nil || ip[0] != 10 {
			return 0, false
		}
		return uint32(ip[1])<<16 | uint32(ip[2])<<8 | uint32(ip[3]), true
	case *dns.AAAA:
		ip := v.AAAA.To16()
		want := net.ParseIP("2001:db8:c03::")
		if ip == nil || !ip[:12].Equal(want[:12]) {
			return 0, false
		}
		return binary.BigEndian.Uint32(ip[12:]), true
	case *dns.TXT:
		if len(v.Txt) != 1 || !strings.HasPrefix(v.Txt[0], "c03m=") {
			return 0, false
		}
		n, err := strconv.ParseUint(v.Txt[0][5:], 10, 32)
		return uint32(n), err == nil
	case *dns.MX:
		return hostID(v.Mx)
	case *dns.NS:
		return hostID(v.Ns)
	case *dns.SOA:
		return hostID(v.Ns)
	case *dns.DS:
		b, err := hex.DecodeString(v.Digest)
		if err != nil || len(b) < 4 {
			return 0, false
		}
		return binary.BigEndian.Uint32(b), true
	case *dns.DNSKEY:
		b, err := base64.StdEncoding.DecodeString(v.PublicKey)
		if err != nil || len(b) < 4 {
			return 0, false
		}
		return binary.BigEndian.Uint32(b), true
	case *dns.CNAME:
		// alias target: tg-<id>.<rest>
		t := strings.ToLower(v.Target)
		if !strings.HasPrefix(t, "tg-") {
			return 0, false
		}
		end := strings.IndexByte(t, '.')
		if end < 0 {
			return 0, false
		}
		n, err := strconv.ParseUint(t[3:end], 10, 32)
		return uint32(n), err == nil
	}
	return 0, false
}

// firstLabelEnd returns the offset of the first unescaped '.' of a
// presentation name.
func firstLabelEnd(name string) int {
	for i := 0; i < len(name); i++ {
		switch name[i] {
		case '\\':
			if i+1 < len(name) && name[i+1] >= '0' && name[i+1] <= '9' {
				i += 3
			} else {
				i++
			}
		case '.':
			return i
		}
	}
	return -1
}

func isAliasName(name string) bool {
	return len(name) > 3 && (name[0] == 'a' || name[0] == 'A') && (name[1] == 'l' || name[1] == 'L') && name[2] == '-'
}

// answerFor builds the answer section the universe gives question q in
// partition cd for audience scope, and registers its marker.
func (u *universe) answerFor(q dns.Question, cd bool, scope string, forged bool) ([]dns.RR, uint32) {
	p := pre{Name: canonLower(q.Name), Type: q.Qtype, Class: q.Qclass, CD: cd, Scope: scope}
	if isAliasName(q.Name) && q.Qtype != dns.TypeCNAME {
		end := firstLabelEnd(q.Name)
		rest := "."
		if end >= 0 && end+1 < len(q.Name) {
			rest = q.Name[end+1:]
		}
		// two-step: the id is part of the target, so allocate first
		id := u.alloc(p, "alias", "", forged)
		target := fmt.Sprintf("tg-%d.%s", id, rest)
		u.mu.Lock()
		u.markers[id].Target = target
		u.mu.Unlock()
		return []dns.RR{&dns.CNAME{Hdr: dns.RR_Header{Name: q.Name, Rrtype: dns.TypeCNAME, Class: q.Qclass, Ttl: 300}, Target: target}}, id
	}
	id := u.alloc(p, "answer", "", forged)
	return []dns.RR{markerRR(q.Name, q.Qtype, q.Qclass, 300, id)}, id
}

// scopeTag reads the "sc-<v4bits>-<v6bits>" label of a name: the SCOPE the
// scripted authority returns for an ECS query of that family. ok=false: the
// authority ignores ECS for this name (no option in the response).
func scopeTag(name string, family uint16) (int, bool) {
	l := strings.ToLower(name)
	i := strings.Index(l, "sc-")
	if i < 0 || (i > 0 && l[i-1] != '.') {
		return 0, false
	}
	rest := l[i+3:]
	if j := strings.IndexByte(rest, '.'); j >= 0 {
		rest = rest[:j]
	}
	parts := strings.Split(rest, "-")
	if len(parts) != 2 {
		return 0, false
	}
	k := 0
	if family == 2 {
		k = 1
	}
	n, err := strconv.Atoi(parts[k])
	if err != nil {
		return 0, false
	}
	return n, true
}

func ecsPrefix(e *dns.EDNS0_SUBNET) (netip.Prefix, bool) {
	if e == nil {
		return netip.Prefix{}, false
	}
	var addr netip.Addr
	var ok bool
	if v4 := e.Address.To4(); v4 != nil && e.Family == 1 {
		addr, ok = netip.AddrFromSlice(v4)
	} else if e.Family == 2 {
		addr, ok = netip.AddrFromSlice(e.Address.To16())
	}
	if !ok {
		return netip.Prefix{}, false
	}
	p, err := addr.Prefix(int(e.SourceNetmask))
	if err != nil {
		return netip.Prefix{}, false
	}
	return p, true
}

// audienceOf is the audience of an answer the authority returned with SCOPE
// scopeBits to a query whose ECS source was src: src's address truncated to
// min(scope, source) bits (RFC 7871 §7.3.1: a SCOPE longer than SOURCE is
// treated as SOURCE); 0 bits = everyone.
func audienceOf(src netip.Prefix, scopeBits int) string {
	bits := scopeBits
	if bits > src.Bits() {
		bits = src.Bits()
	}
	if bits <= 0 {
		return ""
	}
	p, err := src.Addr().Prefix(bits)
	if err != nil {
		return ""
	}
	return p.String()
}

// stub is the scripted terminal handler.
func (u *universe) stub(_ context.Context, req *stack.StubRequest) *stack.StubReply {
	q := req.Q
	p := pre{Name: canonLower(q.Name), Type: q.Qtype, Class: q.Qclass, CD: req.CD}
	if req.Internal {
		u.internalCalls.Add(1)
	}

	var src netip.Prefix
	hasSrc := false
	if req.ECS != nil {
		src, hasSrc = ecsPrefix(req.ECS)
	}

	u.mu.Lock()
	fails := u.failing[p.qkey()]
	if fails {
		f := failureRec{Pre: p}
		if hasSrc && src.Bits() > 0 {
			f.Pre.Scope = src.Masked().String()
		}
		u.failed = append(u.failed, f)
	}
	u.mu.Unlock()
	if fails {
		m := new(dns.Msg)
		m.Rcode = dns.RcodeServerFailure
		attachOPT(m, req)
		return &stack.StubReply{Msg: m}
	}

	rep := &stack.StubReply{}
	scope := ""
	var subnets []int // SCOPE of each client-subnet option of the response
	if hasSrc {
		if n, ok := scopeTag(q.Name, req.ECS.Family); ok {
			subnets = []int{n}
			scope = audienceOf(src, n)
		}
	}
	var before, after []dns.EDNS0
	if u.decorate && req.OPT != nil {
		before, after, subnets = u.optShape(req, p, subnets)
		if len(subnets) > 1 {
			// Several subnet options (RFC 7871 allows one): the statement does
			// not say which one scopes the answer, so the audience is the
			// widest any of them names — a reader that takes the first, the
			// last or the narrowest all stay inside it.
			min := subnets[0]
			for _, n := range subnets {
				if n < min {
					min = n
				}
			}
			scope = audienceOf(src, min)
		}
	}
	m := new(dns.Msg)
	var id uint32
	m.Answer, id = u.answerFor(q, req.CD, scope, false)
	u.mu.Lock()
	u.markers[id].Internal = req.Internal
	u.markers[id].OptBefore, u.markers[id].OptAfter, u.markers[id].Subnets = len(before), len(after), subnets
	u.mu.Unlock()
	if opt := attachOPT(m, req); opt != nil {
		opt.Option = append(opt.Option, before...)
		for _, n := range subnets {
			e := *req.ECS
			e.SourceScope = uint8(n)
			opt.Option = append(opt.Option, &e)
		}
		opt.Option = append(opt.Option, after...)
	}
	rep.Msg = m
	return rep
}

// optShape generates the OPT shape of one upstream response: other options
// before and after the client-subnet option(s), and — when the authority
// scopes at all — sometimes a second subnet option (same or another SCOPE).
// A pure function of (salt, question, partition, forwarded source, how often
// this question was asked), so a replayed history sees the same shapes.
func (u *universe) optShape(req *stack.StubRequest, p pre, subnets []int) (before, after []dns.EDNS0, outSubnets []int) {
	src := ""
	if req.ECS != nil {
		src = req.ECS.String()
	}
	h := fnv.New64a()
	fmt.Fprintf(h, "%s|%d|%d|%v|%s|%d", p.Name, p.Type, p.Class, p.CD, src, req.Nth)
	rng := rand.New(rand.NewPCG(u.salt, h.Sum64()))
	count := func(name string) {
		if u.count != nil {
			u.count("upstream_opt/"+name, 1)
		}
	}
	outSubnets = subnets
	if rng.IntN(4) == 0 {
		count("plain")
		return
	}
	nb, na := rng.IntN(4), rng.IntN(3)
	if nb == 0 && na == 0 {
		nb = 1
	}
	for i := 0; i < nb; i++ {
		before = append(before, randOption(rng, count))
	}
	for i := 0; i < na; i++ {
		after = append(after, randOption(rng, count))
	}
	count("decorated")
	if len(subnets) == 1 {
		n := subnets[0]
		switch rng.IntN(10) {
		case 0:
			outSubnets = []int{n, n}
			count("multi_subnet_same_scope")
		case 1:
			n2 := pick(rng, []int{0, n / 2, n - 4, n + 8})
			max := 32
			if req.ECS.Family == 2 {
				max = 128
			}
			if n2 < 0 || n2 == n || n2 > max {
				n2 = 0
			}
			outSubnets = []int{n, n2}
			if rng.IntN(2) == 0 {
				outSubnets = []int{n2, n}
			}
			count("multi_subnet_differing_scopes")
		}
		fam := "v4"
		if req.ECS.Family == 2 {
			fam = "v6"
		}
		kind := "global"
		if n > 0 {
			kind = "scoped"
		}
		if nb > 0 {
			count(kind + "_subnet_after_other_" + fam)
		}
		if na > 0 {
			count(kind + "_subnet_before_other_" + fam)
		}
	} else {
		count("no_subnet_option")
	}
	return
}

// randOption builds one non-subnet EDNS option of the kinds real authorities
// and forwarders send: COOKIE, NSID, EDE, padding, EXPIRE, codes from the
// local/experimental range and an unassigned one.
func randOption(rng *rand.Rand, count func(string)) dns.EDNS0 {
	rb := func(n int) []byte {
		b := make([]byte, n)
		for i := range b {
			b[i] = byte(rng.IntN(256))
		}
		return b
	}
	switch rng.IntN(7) {
	case 0:
		count("option_cookie")
		return &dns.EDNS0_COOKIE{Code: dns.EDNS0COOKIE, Cookie: hex.EncodeToString(rb(8 + pick(rng, []int{8, 16, 32})))}
	case 1:
		count("option_nsid")
		return &dns.EDNS0_NSID{Code: dns.EDNS0NSID, Nsid: hex.EncodeToString([]byte(fmt.Sprintf("auth-%d", rng.IntN(100))))}
	case 2:
		count("option_ede")
		return &dns.EDNS0_EDE{InfoCode: dns.ExtendedErrorCodeOther, ExtraText: fmt.Sprintf("c03-%d", rng.IntN(100))}
	case 3:
		count("option_padding")
		return &dns.EDNS0_PADDING{Padding: make([]byte, rng.IntN(48))}
	case 4:
		count("option_expire")
		return &dns.EDNS0_EXPIRE{Code: dns.EDNS0EXPIRE, Expire: uint32(rng.IntN(100000))}
	case 5:
		count("option_local")
		return &dns.EDNS0_LOCAL{Code: uint16(dns.EDNS0LOCALSTART + rng.IntN(100)), Data: rb(rng.IntN(12))}
	default:
		count("option_unassigned")
		return &dns.EDNS0_LOCAL{Code: uint16(20000 + rng.IntN(1000)), Data: rb(1 + rng.IntN(12))}
	}
}

// attachOPT gives the response a fresh OPT (never the request's: that one
// carries the forwarded ECS option with SCOPE 0).
func attachOPT(m *dns.Msg, req *stack.StubRequest) *dns.OPT {
	if req.OPT == nil {
		return nil
	}
	opt := new(dns.OPT)
	opt.Hdr.Name = "."
	opt.Hdr.Rrtype = dns.TypeOPT
	opt.SetUDPSize(1232)
	opt.SetDo(req.DO)
	m.Extra = append(m.Extra, opt)
	return opt
}

// responseFor builds the complete response message the universe would give
// (q, cd, scope) — used as the payload of forged entries and of harness-driven
// refreshes.
func (u *universe) responseFor(q dns.Question, cd bool, scope string, forged bool) (*dns.Msg, uint32) {
	m := new(dns.Msg)
	m.Response = true
	m.RecursionDesired = true
	m.RecursionAvailable = true
	m.CheckingDisabled = cd
	m.Question = []dns.Question{q}
	var id uint32
	m.Answer, id = u.answerFor(q, cd, scope, forged)
	return m, id
}

// cutProof builds a message Store.RecordNXDomainCut accepts: NXDOMAIN, SOA of
// zone carrying the marker, an in-zone NSEC, both "signed" by zone.
func (u *universe) cutProof(zone, denied string, class uint16) (*dns.Msg, uint32) {
	p := pre{Name: canonLower(dns.CanonicalName(denied)), Type: 0, Class: class, CD: false}
	id := u.alloc(p, "cut", "", false)
	now := time.Now()
	sig := func(owner string, covered uint16, labels int) *dns.RRSIG {
		return &dns.RRSIG{
			Hdr:         dns.RR_Header{Name: owner, Rrtype: dns.TypeRRSIG, Class: class, Ttl: 300},
			TypeCovered: covered, Algorithm: 13, Labels: uint8(labels), OrigTtl: 300,
			Expiration: uint32(now.Add(48 * time.Hour).Unix()), Inception: uint32(now.Add(-48 * time.Hour).Unix()),
			KeyTag: 4711, SignerName: zone, Signature: base64.StdEncoding.EncodeToString(make([]byte, 64)),
		}
	}
	soa := &dns.SOA{Hdr: dns.RR_Header{Name: zone, Rrtype: dns.TypeSOA, Class: class, Ttl: 300},
		Ns: markerHost(id), Mbox: "h." + markerDomain, Serial: id, Refresh: 3600, Retry: 600, Expire: 86400, Minttl: 300}
	nsecOwner := "a." + zone
	nsec := &dns.NSEC{Hdr: dns.RR_Header{Name: nsecOwner, Rrtype: dns.TypeNSEC, Class: class, Ttl: 300},
		NextDomain: "zz." + zone, TypeBitMap: []uint16{dns.TypeA, dns.TypeRRSIG, dns.TypeNSEC}}
	m := new(dns.Msg)
	m.Response = true
	m.Rcode = dns.RcodeNameError
	m.RecursionAvailable = true
	m.AuthenticatedData = true
	m.Question = []dns.Question{{Name: denied, Qtype: dns.TypeA, Qclass: class}}
	m.Ns = []dns.RR{soa, sig(zone, dns.TypeSOA, dns.CountLabel(zone)), nsec, sig(nsecOwner, dns.TypeNSEC, dns.CountLabel(nsecOwner))}
	return m, id
}
