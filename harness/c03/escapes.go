package main

// Part (i-b): whole-label ancestry on the FAILURE and CUT routes for names
// with escaped / non-printable octets.
//
// A zone-kind cached failure (RFC 9520) and a subtree cut (RFC 8020) recorded
// for Z answer names at or below Z — label by label, nothing broader. A name
// whose presentation TEXT ends with Z's text but whose labels do not
// (`x\.example.com.` = labels "x.example","com"; a sibling `xexample.com.`;
// `x.d.r.p.` against Z = `d\.r.p.`) is not below Z and must miss on every
// route: decoded entry, wire entries, Store.GetWithContext, the Store-level
// failure / cut lookups in both their presentation and wire form. A useful
// answer for (or a purge of) such a name must leave Z's state alone.
// Question-kind failures keyed by such names must be found by the wire and by
// the presentation lookup alike and never by the name's label-cut twin.
//
// Nothing is forged here: all state is written through the exported recording
// API (Store.RecordZoneFailure, Store.RecordNXDomainCut) or by the pipeline
// itself (a SERVFAIL the stub really returned).

import (
	"fmt"
	"math/rand/v2"
	"net/netip"
	"strings"
	"time"

	"github.com/miekg/dns"
	"github.com/semihalev/sdns/middleware/cache"
	"github.com/semihalev/sdns/zzverif/vlib"
)

// ---------------------------------------------------------------- label model

func isDigit(b byte) bool { return b >= '0' && b <= '9' }

// decodeLabels splits a presentation name into its labels' octets (escapes
// resolved: `\DDD` is one octet, `\X` is X). The root has no labels.
func decodeLabels(name string) [][]byte {
	var out [][]byte
	var cur []byte
	flush := func() {
		if cur != nil {
			out = append(out, cur)
			cur = nil
		}
	}
	for i := 0; i < len(name); i++ {
		c := name[i]
		switch {
		case c == '\\' && i+3 < len(name) && isDigit(name[i+1]) && isDigit(name[i+2]) && isDigit(name[i+3]):
			cur = append(cur, (name[i+1]-'0')*100+(name[i+2]-'0')*10+(name[i+3]-'0'))
			i += 3
		case c == '\\' && i+1 < len(name):
			cur = append(cur, name[i+1])
			i++
		case c == '.':
			flush()
		default:
			cur = append(cur, c)
		}
	}
	flush()
	return out
}

func lowerOctets(b []byte) []byte {
	out := make([]byte, len(b))
	for i, c := range b {
		if c >= 'A' && c <= 'Z' {
			c += 'a' - 'A'
		}
		out[i] = c
	}
	return out
}

// canonLower is the identity of a name in the marker universe: the library's
// presentation form of its octets, A-Z lowered. For a name that is already in
// the library's form (everything wire-born, everything without a backslash)
// this is asciiLower; only alternative spellings (`\046` for `\.`, `\120` for
// `x`) are rewritten.
func canonLower(name string) string {
	if !strings.Contains(name, "\\") {
		return asciiLower(name)
	}
	labels := decodeLabels(name)
	if len(labels) == 0 {
		return "."
	}
	var sb strings.Builder
	for _, l := range labels {
		sb.WriteString(escapeLabel(l))
		sb.WriteByte('.')
	}
	return asciiLower(sb.String())
}

// nameAtOrBelow: is name equal to or a descendant of anc, label by label on
// octets, ASCII-case-insensitively?
func nameAtOrBelow(name, anc string) bool {
	n, a := decodeLabels(name), decodeLabels(anc)
	if len(a) > len(n) {
		return false
	}
	off := len(n) - len(a)
	for i := range a {
		if string(lowerOctets(n[off+i])) != string(lowerOctets(a[i])) {
			return false
		}
	}
	return true
}

// wireOf is the uncompressed wire form of a presentation name.
func wireOf(name string) []byte {
	var w []byte
	for _, l := range decodeLabels(name) {
		w = append(w, byte(len(l)))
		w = append(w, l...)
	}
	return append(w, 0)
}

// altSpell spells the first label of name with a `\DDD` escape for every
// octet — the same name, a presentation text the library's unpacker never
// produces (only a decoded-path caller can send it).
func altSpell(name string) string {
	labels := decodeLabels(name)
	if len(labels) == 0 {
		return name
	}
	var sb strings.Builder
	for _, c := range labels[0] {
		fmt.Fprintf(&sb, "\\%03d", c)
	}
	sb.WriteByte('.')
	for _, l := range labels[1:] {
		sb.WriteString(escapeLabel(l))
		sb.WriteByte('.')
	}
	return sb.String()
}

// ---------------------------------------------------------------- cases

type escCase struct {
	Kind   string `json:"kind"` // "esc"
	Index  int    `json:"index"`
	Mode   string `json:"mode"` // zone-failure | cut | question-failure
	Shape  string `json:"shape"`
	Route  string `json:"route"`
	Parent string `json:"parent"` // the zone above Z (signer zone of a cut)
	Zone   string `json:"zone"`   // Z: the failing zone / the denied name
	Class  uint16 `json:"class"`
	// Inside is at or below Z label by label: it may be answered from Z's
	// state. Outside is not, although its presentation text ends with Z's.
	// question-failure: Inside is the question that really failed, Outside its
	// label-cut twin.
	Inside  ask    `json:"inside"`
	Outside ask    `json:"outside"`
	Alt     bool   `json:"alt_spelling,omitempty"` // decoded routes send Outside's first label as \DDD escapes
	Rec     string `json:"record_route,omitempty"`
	Purge   bool   `json:"purge,omitempty"`
}

var escShapes = []string{"dot", "dot-deep", "sibling", "zone-dotted", "zone-split", "two-dots"}

// the octet in front of the escaped dot / label boundary
var escOctets = []byte{'a', 'Q', '0', '-', '_', '*', 0x00, 0x07, ' ', ';', '(', '"', '@', '\\', '.', 0x7f, 0x80, 0xe9, 0xff}

func escNames(rng *rand.Rand, shape, parent string) (zone, inside, outside string) {
	rl := string(randLetters(rng, 3+rng.IntN(3)))
	zl := "d" + rl
	pfx := escapeLabel([]byte{'x', pick(rng, escOctets)})
	zone = zl + "." + parent
	inside = pfx + "." + zone
	switch shape {
	case "dot": // x\.dabc.p. : labels "x.dabc", p…
		outside = pfx + "\\." + zone
	case "dot-deep":
		inside = "y." + pfx + "." + zone
		outside = "y." + pfx + "\\." + zone
	case "sibling": // xdabc.p. : a sibling label whose text ends with Z's first label
		outside = pfx + zone
	case "zone-dotted": // Z's own first label holds a dot octet; the query has a real boundary there
		zone = "d\\." + rl + "." + parent
		inside = pfx + "." + zone
		outside = pfx + ".d." + rl + "." + parent
	case "zone-split": // the reverse: Z = d.abc.p., the query's label is "d.abc"
		zone = "d." + rl + "." + parent
		inside = pfx + "." + zone
		outside = pfx + ".d\\." + rl + "." + parent
	case "two-dots": // every separator down to the parent's first label is an octet
		outside = pfx + "\\." + zl + "\\." + parent
	default:
		panic("escNames: " + shape)
	}
	return
}

func genEsc(rng *rand.Rand, idx int, mode string, v cfgVariant) *escCase {
	ec := &escCase{Kind: "esc", Index: idx, Mode: mode}
	ec.Shape = escShapes[idx%len(escShapes)]
	routes := []string{rMsg, rWire, rEngine, rStoreGet, rWireTCP}
	ec.Route = routes[(idx/len(escShapes))%len(routes)]
	ec.Parent = fmt.Sprintf("e%d.%s", idx, baseZone)
	ec.Class = dns.ClassINET
	if rng.IntN(5) == 0 {
		ec.Class = pick(rng, []uint16{dns.ClassCHAOS, dns.ClassHESIOD, dns.ClassCSNET})
	}
	var in, out string
	ec.Zone, in, out = escNames(rng, ec.Shape, ec.Parent)
	a := ask{Type: pick(rng, markerTypes), Class: ec.Class, DO: rng.IntN(2) == 0, Client: clientV4}
	if mode != "cut" {
		a.CD = rng.IntN(2) == 0 // a cut never serves CD=1; failures are CD-partitioned (question) or CD-blind (zone)
	}
	if rng.IntN(3) == 0 {
		a.Client = clientV6
	}
	ec.Inside, ec.Outside = a, a
	ec.Inside.Name, ec.Outside.Name = in, out
	if mode == "question-failure" && rng.IntN(2) == 0 {
		// either twin may be the one that failed
		ec.Inside.Name, ec.Outside.Name = out, in
	}
	if rng.IntN(4) == 0 {
		ec.Inside.Name = flipASCIICase(ec.Inside.Name)
	}
	if rng.IntN(4) == 0 {
		ec.Outside.Name = flipASCIICase(ec.Outside.Name)
	}
	ec.Alt = rng.IntN(2) == 0
	ec.Rec = pick(rng, []string{rMsg, rWire})
	ec.Purge = rng.IntN(2) == 0
	return ec
}

// outsideFor is the Outside ask as sent through route: decoded routes may use
// the alternative spelling (wire routes pack it to the same octets anyway).
func (ec *escCase) outsideFor(route string) ask {
	a := ec.Outside
	if ec.Alt && !isWireRoute(route) {
		a.Name = altSpell(a.Name)
	}
	return a
}

// outsideSpellings: the presentation texts under which decoded callers may
// present Outside.
func (ec *escCase) outsideSpellings() []ask {
	out := []ask{ec.Outside}
	if ec.Alt {
		out = append(out, ec.outsideFor(rMsg))
	}
	return out
}

// ---------------------------------------------------------------- Store-level lookups

type storeLookup struct {
	Pres, Wire bool
	Panic      any
}

func (e *env) storeFailureLookup(a ask) (sl storeLookup) {
	defer func() {
		if p := recover(); p != nil {
			sl.Panic = p
		}
	}()
	_, sl.Pres = e.store.LookupFailure(a.msg(0), netip.Prefix{})
	_, sl.Wire = e.store.LookupFailureWire(wireOf(a.Name), a.Type, a.Class, a.CD)
	return
}

func (e *env) storeCutLookup(a ask) (sl storeLookup) {
	defer func() {
		if p := recover(); p != nil {
			sl.Panic = p
		}
	}()
	_, sl.Pres = e.store.LookupNXDomainCut(a.msg(0))
	_, sl.Wire = e.store.LookupNXDomainCutWire(wireOf(a.Name), a.Class)
	return
}

const (
	rStoreFailPres = "store-failure-lookup"
	rStoreFailWire = "store-failure-lookup-wire"
	rStoreCutPres  = "store-cut-lookup"
	rStoreCutWire  = "store-cut-lookup-wire"
)

// judgeStoreLookups judges the Store-level lookups of one name. below: the
// name may legally be answered from the state `stored` describes.
func (e *env) judgeStoreLookups(ec *escCase, a ask, sl storeLookup, below bool, what string, stored pre, routePres, routeWire string, dims ...string) {
	r := e.r
	if sl.Panic != nil {
		r.Violation(vlib.Sig("panic", routePres), fmt.Sprintf("Store-level %s lookup of %q panicked: %v", what, a.Name, sl.Panic),
			e.vcase(ec.Kind, ec, routePres, a, &obs{}, &stored))
		return
	}
	for _, x := range []struct {
		route string
		hit   bool
	}{{routePres, sl.Pres}, {routeWire, sl.Wire}} {
		r.Eval(1)
		if below {
			if x.hit {
				r.Count("legit_hit/esc-"+ec.Mode+"-"+x.route, 1)
			}
			continue
		}
		r.Count("esc_probe/"+ec.Mode+"/"+x.route, 1)
		if x.hit {
			r.Violation(vlib.Sig("cross", x.route, strings.Join(dims, "+")),
				fmt.Sprintf("%s answered %v from the %s recorded for %v, which is not an ancestor of it (labels %q vs %q)",
					x.route, a.pre(), what, stored, decodeLabels(a.Name), decodeLabels(stored.Name)),
				e.vcase(ec.Kind, ec, x.route, a, &obs{}, &stored))
		} else {
			r.Count("esc_outside_behaved_as_miss", 1)
		}
	}
}

// ---------------------------------------------------------------- runs

func (e *env) runEsc(ec *escCase) {
	e.r.Count("esc_cases/"+ec.Mode, 1)
	switch ec.Mode {
	case "zone-failure":
		e.runEscZone(ec)
	case "cut":
		e.runEscCut(ec)
	case "question-failure":
		e.runEscQuestion(ec)
	default:
		e.r.Inconclusive("harness: unknown esc mode " + ec.Mode)
	}
}

func (e *env) escProbeCounts(ec *escCase, route string, sent ask, v verdict) {
	r := e.r
	r.Count("esc_probe/"+ec.Mode+"/"+route, 1)
	r.Count("esc_probe_shape/"+ec.Shape, 1)
	if sent.Name != ec.Outside.Name {
		r.Count("esc_probe_alt_spelling", 1)
	}
	if nonPrintableOrEscaped(sent.Name) {
		r.Count("esc_probe_names_with_escapes", 1)
	}
	if v.Kind == "fresh" || v.Kind == "miss" {
		r.Count("esc_outside_behaved_as_miss", 1)
		r.Distinct(fmt.Sprintf("esc|%s|%s|%s|%s|%v", e.v.Name, ec.Mode, ec.Shape, route, sent.Name != ec.Outside.Name))
	} else {
		r.Count("esc_probe_other_verdict/"+ec.Mode+"-"+v.Kind, 1)
	}
	if r.Counter("esc_probe/"+ec.Mode+"/"+route) <= 1 && route == rMsg {
		r.Sample(map[string]any{"case": ec, "variant": e.v.Name, "sent": sent.Name, "verdict": v.Kind})
	}
}

func nonPrintableOrEscaped(name string) bool { return strings.Contains(name, "\\") }

func (e *env) runEscZone(ec *escCase) {
	r := e.r
	zk := cache.FailureZoneKey{Zone: ec.Zone, Qclass: ec.Class}
	zh := cache.VerifC03FailureZoneHash(zk)
	pz := pre{Name: canonLower(ec.Zone), Class: ec.Class, Zone: true}
	intact := func() bool {
		_, kind, ok := e.store.VerifC03FailureAt(zh)
		return ok && kind == cache.FailureKindZone
	}
	// the resolver could not reach Z's authorities while working on Inside
	e.store.RecordZoneFailure(ec.Inside.question(), ec.Zone)
	e.u.addZoneFailure(pz)
	if !intact() {
		r.Count("esc_not_recorded/zone-failure", 1)
		return
	}
	// 1. Store-level lookups (pure reads)
	e.judgeStoreLookups(ec, ec.Inside, e.storeFailureLookup(ec.Inside), true, "zone failure", pz, rStoreFailPres, rStoreFailWire)
	for _, a := range ec.outsideSpellings() {
		e.judgeStoreLookups(ec, a, e.storeFailureLookup(a), false, "zone failure", pz, rStoreFailPres, rStoreFailWire, "failure", "zone-not-ancestor")
	}
	// 2. control: a name below Z is answered from Z's failure, by this route
	o1 := e.serve(ec.Route, ec.Inside)
	if v1 := e.judge(ec.Kind, ec, ec.Route, ec.Inside, o1, nil); v1.Kind == "cached-failure" {
		r.Count("legit_hit/esc-zone-failure-"+ec.Route, 1)
		if o1.served("failure_served") {
			r.Count("legit_hit/esc-zone-failure-wire-bytes", 1)
		}
	}
	// 3. probe: the name that is not below Z is resolved upstream
	sent := ec.outsideFor(ec.Route)
	o2 := e.serve(ec.Route, sent)
	v2 := e.judge(ec.Kind, ec, ec.Route, sent, o2, &pz)
	e.escProbeCounts(ec, ec.Route, sent, v2)
	// 4. a useful answer for Outside (ResponseWriter.WriteMsg resets the
	//    failure history that COVERS the answered name) and an operator purge
	//    of Outside leave Z's state alone
	how := "answer"
	if v2.Kind != "fresh" {
		// store routes write nothing: answer Outside through the decoded entry
		sent = ec.outsideFor(rMsg)
		o := e.serve(rMsg, sent)
		if v := e.judge(ec.Kind, ec, rMsg, sent, o, &pz); v.Kind != "fresh" && v.Kind != "hit" {
			how = ""
		}
	}
	if how != "" {
		e.checkIntact(ec, how, sent, intact(), "zone-failure", pz)
	}
	if ec.Purge {
		p := ec.outsideFor(rMsg)
		e.c.Purge(p.question())
		e.checkIntact(ec, "purge", p, intact(), "zone-failure", pz)
	}
	// 5. control again
	o3 := e.serve(ec.Route, ec.Inside)
	if v3 := e.judge(ec.Kind, ec, ec.Route, ec.Inside, o3, nil); v3.Kind == "cached-failure" {
		r.Count("legit_hit/esc-zone-failure-after-reset", 1)
	}
}

// checkIntact: the state recorded for Z survived an operation on a name that
// Z does not cover.
func (e *env) checkIntact(ec *escCase, how string, on ask, intact bool, state string, stored pre) {
	r := e.r
	r.Eval(1)
	r.Count("esc_reset_checks/"+ec.Mode+"-"+how, 1)
	if intact {
		r.Count("esc_state_intact_after_reset", 1)
		return
	}
	op := "a useful answer for"
	if how == "purge" {
		op = "a purge of"
	}
	r.Violation(vlib.Sig("reset", how, "unrelated-"+state+"-removed"),
		fmt.Sprintf("%s %v removed the %s state of %v, which does not cover that name (labels %q vs %q)",
			op, on.pre(), state, stored, decodeLabels(on.Name), decodeLabels(stored.Name)),
		e.vcase(ec.Kind, ec, "reset-"+how, on, &obs{}, &stored))
}

func (e *env) runEscCut(ec *escCase) {
	r := e.r
	proof, id := e.u.cutProof(ec.Parent, ec.Zone, ec.Class)
	mk, _ := e.u.get(id)
	if !e.store.RecordNXDomainCut(proof, ec.Zone, ec.Parent, time.Time{}) {
		r.Count("esc_not_recorded/cut", 1)
		return
	}
	apex := ask{Name: ec.Zone, Type: dns.TypeA, Class: ec.Class, Client: clientV4}
	intact := func() bool {
		_, ok := e.store.LookupNXDomainCut(apex.msg(0))
		return ok
	}
	if !intact() {
		r.Count("esc_not_recorded/cut", 1)
		return
	}
	e.judgeStoreLookups(ec, ec.Inside, e.storeCutLookup(ec.Inside), true, "subtree cut", mk.Pre, rStoreCutPres, rStoreCutWire)
	for _, a := range ec.outsideSpellings() {
		e.judgeStoreLookups(ec, a, e.storeCutLookup(a), false, "subtree cut", mk.Pre, rStoreCutPres, rStoreCutWire, "cut", "name")
	}
	o1 := e.serve(ec.Route, ec.Inside)
	if v1 := e.judge(ec.Kind, ec, ec.Route, ec.Inside, o1, nil); v1.Kind == "cut" {
		r.Count("legit_hit/esc-cut-"+ec.Route, 1)
		if o1.served("cut_served") {
			r.Count("legit_hit/esc-cut-wire-bytes", 1)
		}
	}
	sent := ec.outsideFor(ec.Route)
	o2 := e.serve(ec.Route, sent)
	v2 := e.judge(ec.Kind, ec, ec.Route, sent, o2, nil)
	e.escProbeCounts(ec, ec.Route, sent, v2)
	if ec.Purge {
		p := ec.outsideFor(rMsg)
		e.c.Purge(p.question())
		e.checkIntact(ec, "purge", p, intact(), "cut", mk.Pre)
	}
	o3 := e.serve(ec.Route, ec.Inside)
	if v3 := e.judge(ec.Kind, ec, ec.Route, ec.Inside, o3, nil); v3.Kind == "cut" {
		r.Count("legit_hit/esc-cut-after-reset", 1)
	}
}

func (e *env) runEscQuestion(ec *escCase) {
	r := e.r
	// 1. the stub really fails Inside; the pipeline records a question-kind
	//    failure from the name as it arrived (decoded text or wire labels)
	pa := ec.Inside.pre()
	e.u.setFailing(pa, true)
	defer e.u.setFailing(pa, false)
	o0 := e.serve(ec.Rec, ec.Inside)
	if v0 := e.judge(ec.Kind, ec, ec.Rec, ec.Inside, o0, nil); v0.Kind != "stub-failure" {
		r.Count("esc_not_recorded/question-failure", 1)
		return
	}
	// 2. wire labels and presentation text find the same state …
	sl := e.storeFailureLookup(ec.Inside)
	e.judgeStoreLookups(ec, ec.Inside, sl, true, "question failure", pa, rStoreFailPres, rStoreFailWire)
	if sl.Pres && sl.Wire {
		r.Count("esc_question_failure_wire_and_presentation_agree", 1)
	} else if sl.Panic == nil {
		r.Count("esc_question_failure_lookup_disagrees", 1)
	}
	// … and the label-cut twin finds nothing
	for _, a := range ec.outsideSpellings() {
		e.judgeStoreLookups(ec, a, e.storeFailureLookup(a), false, "question failure", pa, rStoreFailPres, rStoreFailWire, "failure", "name")
	}
	o1 := e.serve(ec.Route, ec.Inside)
	if v1 := e.judge(ec.Kind, ec, ec.Route, ec.Inside, o1, nil); v1.Kind == "cached-failure" {
		r.Count("legit_hit/esc-question-failure-"+ec.Route, 1)
		if ec.Rec == rMsg && isWireRoute(ec.Route) || ec.Rec == rWire && !isWireRoute(ec.Route) {
			r.Count("legit_hit/esc-question-failure-recorded-on-the-other-path", 1)
		}
	}
	// 3. the authority is healthy again; the twin must be resolved upstream,
	//    and neither its useful answer nor a purge of it touches the exact
	//    failure state of the name that failed
	qh := cache.VerifC03FailureQuestionHash(cache.FailureQuestionKey{
		Question: dns.Question{Name: canonPres(ec.Inside.Name), Qtype: ec.Inside.Type, Qclass: ec.Inside.Class}, CD: ec.Inside.CD})
	intact := func() bool {
		_, kind, ok := e.store.VerifC03FailureAt(qh)
		return ok && kind == cache.FailureKindQuestion
	}
	located := intact()
	if !located {
		r.Count("esc_question_failure_slot_not_located", 1)
	}
	e.u.setFailing(pa, false)
	sent := ec.outsideFor(ec.Route)
	o2 := e.serve(ec.Route, sent)
	v2 := e.judge(ec.Kind, ec, ec.Route, sent, o2, &pa)
	e.escProbeCounts(ec, ec.Route, sent, v2)
	if !located {
		return
	}
	if v2.Kind == "fresh" {
		e.checkIntact(ec, "answer", sent, intact(), "question-failure", pa)
	}
	if ec.Purge {
		p := ec.outsideFor(rMsg)
		e.c.Purge(p.question())
		e.checkIntact(ec, "purge", p, intact(), "question-failure", pa)
	}
}

// canonPres is the library's presentation form of name (case preserved).
func canonPres(name string) string {
	if !strings.Contains(name, "\\") {
		return name
	}
	var sb strings.Builder
	for _, l := range decodeLabels(name) {
		sb.WriteString(escapeLabel(l))
		sb.WriteByte('.')
	}
	return sb.String()
}
