// C03 — a cached response only answers the exact question and audience it
// was stored for.
//
// Oracle: provenance markers (universe.go). The stub answers every question
// with a record whose rdata names the full preimage it was produced for, so a
// reply says which admission it came from; a cache hit is legal only if that
// preimage equals the asked one (ASCII-case-insensitive on the name, nothing
// broader) and the client is inside the answer's ECS audience.
//
// Workload: (i) forged collisions on every route (forged.go), (ii) key
// agreement between the wire and presentation key functions (keys.go),
// (iii) interleaved audiences (audience.go).
package main

import (
	"encoding/json"
	"fmt"

	"github.com/semihalev/sdns/zzverif/vlib"
)

const batchSize = 400

func variantFor(batch int) cfgVariant {
	if batch%4 == 3 {
		return variantPlain
	}
	return variantMain
}

// batches runs n cases in batches, each batch on a fresh stack.
func batches(r *vlib.Run, n int, fn func(e *env, idx int)) {
	for start, b := 0, 0; start < n; start, b = start+batchSize, b+1 {
		e := newEnv(r, variantFor(b))
		end := start + batchSize
		if end > n {
			end = n
		}
		for i := start; i < end; i++ {
			fn(e, i)
		}
		e.close()
		r.Progress("%d cases", end)
	}
}

func runForgedAll(r *vlib.Run) {
	batches(r, r.N(7200, 400000), func(e *env, i int) {
		e.runForged(genForged(r.RandN("forged", i), i, e.v))
	})
	batches(r, r.N(1200, 50000), func(e *env, i int) {
		rng := r.RandN("chase", i)
		e.runChase(genChase(rng, i), rng)
	})
	batches(r, r.N(1600, 60000), func(e *env, i int) {
		e.runFailure(genFailure(r.RandN("failure", i), i, e.v))
	})
	n := r.N(1200, 50000)
	for start := 0; start < n; start += batchSize {
		e := newEnv(r, variantMain) // the cut index only exists with DNSSEC on
		for i := start; i < start+batchSize && i < n; i++ {
			e.runCut(genCut(r.RandN("cut", i), i))
		}
		e.close()
	}
}

func runAudiences(r *vlib.Run) {
	rounds := r.N(150, 3000)
	for round := 0; round < rounds; round++ {
		v := variantAud
		switch round % 5 {
		case 4:
			v = variantMain // no prefetch: entries simply age out
		case 2:
			v = variantOpen // every client, the internal writer included, is ECS-eligible
		}
		e := newEnv(r, v)
		e.runAudRound(genAudRound(r.RandN("aud", round), round, 120))
		r.Count("audience_internal_refresh_queries", int(e.u.internalCalls.Load()))
		e.close()
		r.Progress("audience round %d/%d", round+1, rounds)
	}
}

func replay(r *vlib.Run, raw json.RawMessage) {
	var vc struct {
		Kind    string          `json:"kind"`
		Variant cfgVariant      `json:"variant"`
		Case    json.RawMessage `json:"case"`
		Index   int             `json:"index"`
	}
	if err := json.Unmarshal(raw, &vc); err != nil {
		r.Inconclusive("replay: " + err.Error())
		return
	}
	if vc.Kind == "key" || vc.Kind == "key-malformed" {
		var kc keyCase
		if err := json.Unmarshal(raw, &kc); err != nil {
			r.Inconclusive("replay: " + err.Error())
			return
		}
		checkKeyCase(r, &kc, r.RandN("keys", kc.Index))
		return
	}
	e := newEnv(r, vc.Variant)
	defer e.close()
	un := func(v any) bool {
		if err := json.Unmarshal(vc.Case, v); err != nil {
			r.Inconclusive("replay: " + err.Error())
			return false
		}
		return true
	}
	switch vc.Kind {
	case "forged":
		var c forgedCase
		if un(&c) {
			e.runForged(&c)
		}
	case "chase":
		var c chaseCase
		if un(&c) {
			e.runChase(&c, r.RandN("chase", c.Index))
		}
	case "failure":
		var c failureCase
		if un(&c) {
			e.runFailure(&c)
		}
	case "cut":
		var c cutCase
		if un(&c) {
			e.runCut(&c)
		}
	case "audience":
		var c audCase
		if un(&c) {
			c.Ops = c.Ops[:min(len(c.Ops), c.Upto+1)]
			e.runAudRound(&c)
		}
	default:
		r.Inconclusive("replay: unknown case kind " + vc.Kind)
	}
}

func main() {
	r := vlib.Start("C03", "exploration")
	if raw := r.ReplayCase(); raw != nil {
		replay(r, raw)
		r.Finish("replay of one recorded case")
	}
	runKeys(r)
	runForgedAll(r)
	runAudiences(r)

	// every route exercised with a forged entry confirmed in place …
	for _, route := range []string{rMsg, rWire, rWireTCP, rEngine, rStoreGet, rStoreLookup, "after-purge",
		"chase-" + rWire, "chase-" + rEngine, "chase-" + rMsg,
		"failure-" + rWire, "failure-" + rMsg, "failure-" + rStoreGet,
		"cut-" + rWire, "cut-" + rMsg, "cut-" + rStoreGet} {
		r.Require("forged_probe/"+route, 100)
	}
	for _, dim := range []string{"name", "type", "class", "cd", "scope", "chase-name", "chase-class", "chase-cd",
		"failure-name", "failure-type", "failure-class", "failure-cd", "failure-scope", "cut-name", "cut-class", "cut-cd"} {
		r.Require("forged_probe_dim/"+dim, 80)
	}
	for _, sub := range []string{"letter", "hi-case", "punct-case", "label-cut", "unicode-fold", "addr-v4", "addr-v6", "bits", "family", "scoped-under-shared"} {
		r.Require("forged_probe_sub/"+sub, 100)
	}
	for _, w := range []string{"with-key", "scoped", "cache-set", "set-entry", "set-entry-scoped", "replace"} {
		r.Require("forged_probe_writer/"+w, 300)
	}
	r.Require("forged_entries_filed", 9000)
	r.Require("forged_behaved_as_miss", 9000)
	r.Require("forged_probe_wire_born", 2000)
	// … and the same routes DO serve legitimately admitted entries
	for _, route := range []string{rMsg, rWire, rWireTCP, rEngine, rStoreGet, rStoreLookup,
		"wire-exact-bytes", "scoped-key", "ascii-case-variant",
		"chase-" + rWire, "chase-" + rEngine, "chase-" + rMsg, "wire-chase-composed",
		"failure-" + rWire, "failure-" + rMsg, "failure-" + rStoreGet, "wire-failure-bytes",
		"cut-" + rWire, "cut-" + rMsg, "cut-" + rStoreGet, "wire-cut-bytes"} {
		r.Require("legit_hit/"+route, 100)
	}
	r.Require("key_names_checked", 90000)
	r.Require("key_prefix_variants_checked", 30000)
	r.Require("key_ascii_case_variants", 8000)
	r.Require("key_distinct_name_pairs", 40000)
	r.Require("key_distinct_pairs_nonascii_case", 3000)
	r.Require("key_names_presentation_over_pool_buffer", 3000)
	r.Require("key_malformed_names_checked", 3000)
	r.Require("audience_probes", 10000)
	r.Require("audience_scoped_hits_inside_scope_v4", 250)
	r.Require("audience_scoped_hits_inside_scope_v6", 100)
	r.Require("audience_shared_hits_by_ecs_clients", 700)
	r.Require("audience_misses_with_foreign_entry_present", 1500)
	r.Require("audience_hits_cd1", 300)
	r.Require("audience_refreshes", 600)
	r.Require("audience_hits_on_refreshed_entries", 250)
	r.Require("audience_hits_on_refreshed_entries_resp_cd_differs", 120)
	r.Require("audience_purges", 500)
	r.Require("audience_internal_refresh_queries", 100) // prefetch-driven refreshes really ran
	r.Require("contract_checked", 30000)

	r.Assume("the answer cache's exported pre-keyed writers (SetFromResponseWithKey/Scoped, Cache.Set, SetEntryWithKey, ReplaceIfCurrent) and, for the failure cache and the cut wire index, the c03 hooks (record an identity under another identity's hash) stand in for a real 64-bit key collision")
	r.Assume("ReplaceIfCurrent's contract is that the replacement takes over the slot's CD partition and ECS scope: forged writes through it differ from the slot in name/type/class only")
	r.Assume("audience of an answer = the forwarded ECS source truncated to min(SCOPE, SOURCE) bits (RFC 7871 §7.3.1); a client is inside it iff its own policy-clamped source prefix is at least that long and lies within it; [ecs] min_scope equals the forwarding ceiling (the default), so the cardinality cap never widens a scope")
	r.Assume("a cached-failure reply carries no marker: it is attributed to 'some failure the stub really returned for that name/type/class/CD under an audience covering the client'; a subtree-cut reply is attributed through the marker in its SOA")
	r.Finish(fmt.Sprintf("forged (pair, route) probes: an entry admitted for A filed under the key of B (A,B differing in exactly one of name beyond ASCII case / type / class / CD / ECS audience) then B asked through %s, %s, %s, %s, %s, %s, alias chase with a forged target, failure and subtree-cut lookups (wire and decoded), and after Purge; each followed by a same-preimage control that must be served from cache by that route; key agreement over generated wire names; audience histories with interleaved lookups, refreshes, purges and clock advances. A case is distinct non-trivial by (config, dimension, sub-kind, writer, route, purge) when the forged entry was confirmed in place and B was answered from upstream, and by (scope, CD, route) for audience hits/misses",
		rMsg, rWire, rWireTCP, rEngine, rStoreGet, rStoreLookup))
}
