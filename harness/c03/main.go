// C03 — a cached response only answers the exact question and audience it
// was stored for.
//
// Oracle: provenance markers (universe.go). The stub answers every question
// with a record whose rdata names the full preimage it was produced for, so a
// reply says which admission it came from; a cache hit is legal only if that
// preimage equals the asked one (ASCII-case-insensitive on the name, nothing
// broader) and the client is inside the answer's ECS audience.
//
// Workload: (i) forged collisions on every route (forged.go), (i-b) whole-label
// ancestry of zone failures / subtree cuts / exact failures for names with
// escaped and non-printable octets, on every route, the Store-level lookups,
// reset and purge (escapes.go), (ii) key agreement between the wire and
// presentation key functions (keys.go), (iii) interleaved audiences
// (audience.go) under upstream OPT records of generated shape — other options
// before / after the client-subnet option, several subnet options
// (universe.go optShape).
package main

import (
	"encoding/json"
	"fmt"

	"github.com/semihalev/sdns/zzverif/vlib"
)

const batchSize = 400

func variantFor(batch int) cfgVariant {
	if batch%4 == 3 {
		return variantPlain
	}
	return variantMain
}

// batches runs n cases in batches, each batch on a fresh stack.
func batches(r *vlib.Run, n int, fn func(e *env, idx int)) {
	for start, b := 0, 0; start < n; start, b = start+batchSize, b+1 {
		e := newEnv(r, variantFor(b))
		end := start + batchSize
		if end > n {
			end = n
		}
		for i := start; i < end; i++ {
			fn(e, i)
		}
		e.close()
		r.Progress("%d cases", end)
	}
}

func runForgedAll(r *vlib.Run) {
	batches(r, r.N(7200, 400000), func(e *env, i int) {
		e.runForged(genForged(r.RandN("forged", i), i, e.v))
	})
	batches(r, r.N(1200, 50000), func(e *env, i int) {
		rng := r.RandN("chase", i)
		e.runChase(genChase(rng, i), rng)
	})
	batches(r, r.N(1600, 60000), func(e *env, i int) {
		e.runFailure(genFailure(r.RandN("failure", i), i, e.v))
	})
	n := r.N(1200, 50000)
	for start := 0; start < n; start += batchSize {
		e := newEnv(r, variantMain) // the cut index only exists with DNSSEC on
		for i := start; i < start+batchSize && i < n; i++ {
			e.runCut(genCut(r.RandN("cut", i), i))
		}
		e.close()
	}
}

// runEscapes: whole-label ancestry of failure / cut state for names with
// escaped and non-printable octets (escapes.go). Zone failures and exact
// failures run with DNSSEC on (a zone-kind hit materializes on the wire entry)
// and off (it is served from bytes); the cut index only exists with DNSSEC on.
func runEscapes(r *vlib.Run) {
	const size = 300
	run := func(mode string, n int, variants []cfgVariant) {
		for start, b := 0, 0; start < n; start, b = start+size, b+1 {
			e := newEnv(r, variants[b%len(variants)])
			for i := start; i < start+size && i < n; i++ {
				e.runEsc(genEsc(r.RandN("esc-"+mode, i), i, mode, e.v))
			}
			e.close()
			r.Progress("esc %s %d", mode, start)
		}
	}
	run("zone-failure", r.N(900, 40000), []cfgVariant{variantMain, variantPlain, variantMain})
	run("cut", r.N(600, 30000), []cfgVariant{variantMain})
	run("question-failure", r.N(600, 30000), []cfgVariant{variantMain, variantPlain})
}

func runAudiences(r *vlib.Run) {
	rounds := r.N(150, 3000)
	for round := 0; round < rounds; round++ {
		v := variantAud
		switch round % 5 {
		case 4:
			v = variantMain // no prefetch: entries simply age out
		case 2:
			v = variantOpen // every client, the internal writer included, is ECS-eligible
		}
		e := newEnv(r, v)
		e.runAudRound(genAudRound(r.RandN("aud", round), round, 120))
		r.Count("audience_internal_refresh_queries", int(e.u.internalCalls.Load()))
		e.close()
		r.Progress("audience round %d/%d", round+1, rounds)
	}
}

func replay(r *vlib.Run, raw json.RawMessage) {
	var vc struct {
		Kind    string          `json:"kind"`
		Variant cfgVariant      `json:"variant"`
		Case    json.RawMessage `json:"case"`
		Index   int             `json:"index"`
	}
	if err := json.Unmarshal(raw, &vc); err != nil {
		r.Inconclusive("replay: " + err.Error())
		return
	}
	if vc.Kind == "key" || vc.Kind == "key-malformed" {
		var kc keyCase
		if err := json.Unmarshal(raw, &kc); err != nil {
			r.Inconclusive("replay: " + err.Error())
			return
		}
		checkKeyCase(r, &kc, r.RandN("keys", kc.Index))
		return
	}
	e := newEnv(r, vc.Variant)
	defer e.close()
	un := func(v any) bool {
		if err := json.Unmarshal(vc.Case, v); err != nil {
			r.Inconclusive("replay: " + err.Error())
			return false
		}
		return true
	}
	switch vc.Kind {
	case "forged":
		var c forgedCase
		if un(&c) {
			e.runForged(&c)
		}
	case "chase":
		var c chaseCase
		if un(&c) {
			e.runChase(&c, r.RandN("chase", c.Index))
		}
	case "failure":
		var c failureCase
		if un(&c) {
			e.runFailure(&c)
		}
	case "cut":
		var c cutCase
		if un(&c) {
			e.runCut(&c)
		}
	case "esc":
		var c escCase
		if un(&c) {
			e.runEsc(&c)
		}
	case "audience":
		var c audCase
		if un(&c) {
			c.Ops = c.Ops[:min(len(c.Ops), c.Upto+1)]
			e.runAudRound(&c)
		}
	default:
		r.Inconclusive("replay: unknown case kind " + vc.Kind)
	}
}

func main() {
	r := vlib.Start("C03", "exploration")
	if raw := r.ReplayCase(); raw != nil {
		replay(r, raw)
		r.Finish("replay of one recorded case")
	}
	runKeys(r)
	runForgedAll(r)
	runEscapes(r)
	runAudiences(r)

	// every route exercised with a forged entry confirmed in place …
	for _, route := range []string{rMsg, rWire, rWireTCP, rEngine, rStoreGet, rStoreLookup, "after-purge",
		"chase-" + rWire, "chase-" + rEngine, "chase-" + rMsg,
		"failure-" + rWire, "failure-" + rMsg, "failure-" + rStoreGet,
		"cut-" + rWire, "cut-" + rMsg, "cut-" + rStoreGet} {
		r.Require("forged_probe/"+route, 100)
	}
	for _, dim := range []string{"name", "type", "class", "cd", "scope", "chase-name", "chase-class", "chase-cd",
		"failure-name", "failure-type", "failure-class", "failure-cd", "failure-scope", "cut-name", "cut-class", "cut-cd"} {
		r.Require("forged_probe_dim/"+dim, 80)
	}
	for _, sub := range []string{"letter", "hi-case", "punct-case", "label-cut", "unicode-fold", "addr-v4", "addr-v6", "bits", "family", "scoped-under-shared"} {
		r.Require("forged_probe_sub/"+sub, 100)
	}
	for _, w := range []string{"with-key", "scoped", "cache-set", "set-entry", "set-entry-scoped", "replace"} {
		r.Require("forged_probe_writer/"+w, 300)
	}
	r.Require("forged_entries_filed", 9000)
	r.Require("forged_behaved_as_miss", 9000)
	r.Require("forged_probe_wire_born", 2000)
	// … and the same routes DO serve legitimately admitted entries
	for _, route := range []string{rMsg, rWire, rWireTCP, rEngine, rStoreGet, rStoreLookup,
		"wire-exact-bytes", "scoped-key", "ascii-case-variant",
		"chase-" + rWire, "chase-" + rEngine, "chase-" + rMsg, "wire-chase-composed",
		"failure-" + rWire, "failure-" + rMsg, "failure-" + rStoreGet, "wire-failure-bytes",
		"cut-" + rWire, "cut-" + rMsg, "cut-" + rStoreGet, "wire-cut-bytes"} {
		r.Require("legit_hit/"+route, 100)
	}
	// whole-label ancestry of failure / cut state for names with escaped octets
	for _, mode := range []string{"zone-failure", "cut", "question-failure"} {
		for _, route := range []string{rMsg, rWire, rEngine, rWireTCP, rStoreGet} {
			r.Require("esc_probe/"+mode+"/"+route, 60)
			r.Require("legit_hit/esc-"+mode+"-"+route, 60)
		}
		pres, wire := rStoreFailPres, rStoreFailWire
		if mode == "cut" {
			pres, wire = rStoreCutPres, rStoreCutWire
		}
		for _, route := range []string{pres, wire} {
			r.Require("esc_probe/"+mode+"/"+route, 400)
			r.Require("legit_hit/esc-"+mode+"-"+route, 300)
		}
	}
	for _, shape := range escShapes {
		r.Require("esc_probe_shape/"+shape, 150)
	}
	r.Require("esc_probe_alt_spelling", 150)
	r.Require("esc_probe_names_with_escapes", 1000)
	r.Require("esc_outside_behaved_as_miss", 6000)
	r.Require("legit_hit/esc-zone-failure-wire-bytes", 100)
	r.Require("legit_hit/esc-cut-wire-bytes", 100)
	r.Require("legit_hit/esc-zone-failure-after-reset", 500)
	r.Require("legit_hit/esc-cut-after-reset", 300)
	r.Require("legit_hit/esc-question-failure-recorded-on-the-other-path", 100)
	r.Require("esc_question_failure_wire_and_presentation_agree", 400)
	r.Require("esc_reset_checks/zone-failure-answer", 500)
	r.Require("esc_reset_checks/zone-failure-purge", 200)
	r.Require("esc_reset_checks/cut-purge", 150)
	r.Require("esc_reset_checks/question-failure-answer", 250)
	r.Require("esc_reset_checks/question-failure-purge", 150)
	r.Require("esc_state_intact_after_reset", 1500)
	r.Require("forged_probe_sub/failure-label-cut", 60)
	// the upstream OPT's shape: other options around the subnet option(s)
	r.Require("upstream_opt/plain", 2000)
	r.Require("upstream_opt/scoped_subnet_after_other_v4", 800)
	r.Require("upstream_opt/scoped_subnet_after_other_v6", 400)
	r.Require("upstream_opt/scoped_subnet_before_other_v4", 600)
	r.Require("upstream_opt/scoped_subnet_before_other_v6", 300)
	r.Require("upstream_opt/global_subnet_after_other_v4", 50)
	r.Require("upstream_opt/global_subnet_after_other_v6", 20)
	r.Require("upstream_opt/multi_subnet_same_scope", 150)
	r.Require("upstream_opt/multi_subnet_differing_scopes", 150)
	for _, k := range []string{"cookie", "nsid", "ede", "padding", "expire", "local", "unassigned"} {
		r.Require("upstream_opt/option_"+k, 2000)
	}
	r.Require("audience_scoped_hits_upstream_other_option_before_subnet", 150)
	r.Require("audience_scoped_hits_upstream_other_option_after_subnet", 120)
	r.Require("audience_scoped_hits_upstream_several_subnet_options", 25)
	r.Require("key_names_checked", 90000)
	r.Require("key_prefix_variants_checked", 30000)
	r.Require("key_ascii_case_variants", 8000)
	r.Require("key_distinct_name_pairs", 40000)
	r.Require("key_distinct_pairs_nonascii_case", 3000)
	r.Require("key_names_presentation_over_pool_buffer", 3000)
	r.Require("key_malformed_names_checked", 3000)
	r.Require("audience_probes", 10000)
	r.Require("audience_scoped_hits_inside_scope_v4", 250)
	r.Require("audience_scoped_hits_inside_scope_v6", 100)
	r.Require("audience_shared_hits_by_ecs_clients", 700)
	r.Require("audience_misses_with_foreign_entry_present", 1500)
	r.Require("audience_hits_cd1", 300)
	r.Require("audience_refreshes", 600)
	r.Require("audience_hits_on_refreshed_entries", 250)
	r.Require("audience_hits_on_refreshed_entries_resp_cd_differs", 120)
	r.Require("audience_purges", 500)
	r.Require("audience_internal_refresh_queries", 100) // prefetch-driven refreshes really ran
	r.Require("contract_checked", 30000)

	r.Assume("the answer cache's exported pre-keyed writers (SetFromResponseWithKey/Scoped, Cache.Set, SetEntryWithKey, ReplaceIfCurrent) and, for the failure cache and the cut wire index, the c03 hooks (record an identity under another identity's hash) stand in for a real 64-bit key collision")
	r.Assume("ReplaceIfCurrent's contract is that the replacement takes over the slot's CD partition and ECS scope: forged writes through it differ from the slot in name/type/class only")
	r.Assume("audience of an answer = the forwarded ECS source truncated to min(SCOPE, SOURCE) bits (RFC 7871 §7.3.1); a client is inside it iff its own policy-clamped source prefix is at least that long and lies within it; [ecs] min_scope equals the forwarding ceiling (the default), so the cardinality cap never widens a scope")
	r.Assume("a cached-failure reply carries no marker: it is attributed to 'some failure the stub really returned for that name/type/class/CD under an audience covering the client'; a subtree-cut reply is attributed through the marker in its SOA")
	r.Assume("escaped names: a name is below a zone iff the zone's labels are its trailing labels, compared as octets with A-Z folded (`x\\.example.com.` is a child of `com.`, not of `example.com.`); an alternative presentation spelling of the same octets (`\\046` for `\\.`), which only a decoded-path caller can send, is judged for wrong hits only — missing state recorded under the library's spelling is not a use of a cached response")
	r.Assume("an upstream response with several client-subnet options (RFC 7871 allows one) is scoped to the widest audience any of them names: the statement does not say which option counts; all other OPT shapes (other options before / after the subnet option, one subnet option) are judged exactly")
	r.Assume("a useful answer for, or a purge of, a name that a recorded zone failure / subtree cut / exact failure does not cover must leave that state in place (signature prefix reset/): removing it would make the routes disagree about what the state covers")
	r.Finish(fmt.Sprintf("forged (pair, route) probes: an entry admitted for A filed under the key of B (A,B differing in exactly one of name beyond ASCII case / type / class / CD / ECS audience) then B asked through %s, %s, %s, %s, %s, %s, alias chase with a forged target, failure and subtree-cut lookups (wire and decoded), and after Purge; each followed by a same-preimage control that must be served from cache by that route; key agreement over generated wire names; whole-label ancestry probes (zone failure, subtree cut, exact failure recorded through the real recording API for names with escaped / non-printable octets; the look-alike name that is not below it asked through every route and the Store-level lookups in wire and presentation form, then reset and purged); audience histories with interleaved lookups, refreshes, purges and clock advances under upstream OPT records of generated shape. A case is distinct non-trivial by (config, dimension, sub-kind, writer, route, purge) when the forged entry was confirmed in place and B was answered from upstream, and by (scope, CD, route) for audience hits/misses",
		rMsg, rWire, rWireTCP, rEngine, rStoreGet, rStoreLookup))
}
