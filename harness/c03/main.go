package main

import (
	"context"
	"fmt"
	"net"
	"time"

	"github.com/miekg/dns"
	"github.com/semihalev/sdns/middleware/cache"
	"github.com/semihalev/sdns/zzverif/stack"
)

func main() {
	cfg := stack.DefaultConfig()
	cfg.Chaos = false
	cfg.DNSSEC = "on"
	cfg.ECS.Enabled = true
	st, err := stack.New(stack.Options{
		Config: cfg,
		Stub: func(ctx context.Context, req *stack.StubRequest) *stack.StubReply {
			m := new(dns.Msg)
			rr := &dns.TXT{Hdr: dns.RR_Header{Name: req.Q.Name, Rrtype: dns.TypeTXT, Class: req.Q.Qclass, Ttl: 300}, Txt: []string{fmt.Sprintf("seq=%d cd=%v ecs=%v", req.Seq, req.CD, req.ECS)}}
			m.Answer = []dns.RR{rr}
			if req.OPT != nil {
				m.Extra = append(m.Extra, dns.Copy(req.OPT))
			}
			rep := &stack.StubReply{Msg: m}
			if req.ECS != nil {
				rep.HasECSScope = true
				rep.ECSScope = 20
			}
			return rep
		},
	})
	if err != nil {
		panic(err)
	}
	defer st.Close()
	fmt.Println(st.Handlers())
	for _, class := range []uint16{1, 2, 3, 4, 254, 255, 7} {
		q := new(dns.Msg)
		q.SetQuestion("a.c03t.", dns.TypeTXT)
		q.Question[0].Qclass = class
		q.SetEdns0(1232, false)
		pkt, _ := q.Pack()
		r := st.ServeRaw("203.0.113.9:4000", "udp", pkt)
		fmt.Println("class", class, "strict", r.Strict, "handled", r.Handled, "wrote", r.Wrote, msgs(r.Msg))
		r = st.ServeRaw("203.0.113.9:4000", "udp", pkt)
		fmt.Println("   again", r.Strict, msgs(r.Msg), cache.VerifC03WireCounters()["served"])
		r = st.ServeMsg("203.0.113.9:4000", "udp", q.Copy())
		fmt.Println("   msg", msgs(r.Msg), st.Stub().Total())
	}
	// ECS
	for i, cl := range []string{"198.51.100.7", "198.51.101.9", "198.51.200.1"} {
		q := new(dns.Msg)
		q.SetQuestion("e.c03t.", dns.TypeTXT)
		q.SetEdns0(1232, false)
		o := q.IsEdns0()
		o.Option = append(o.Option, &dns.EDNS0_SUBNET{Code: dns.EDNS0SUBNET, Family: 1, SourceNetmask: 32, Address: net.ParseIP(cl).To4()})
		pkt, _ := q.Pack()
		r := st.ServeRaw("203.0.113.9:4000", "udp", pkt)
		fmt.Println("ecs", i, cl, r.Strict, msgs(r.Msg), st.Stub().Total())
	}
	for _, e := range st.Cache().VerifStore().VerifDump() {
		fmt.Printf("%+v\n", e)
	}
	_ = time.Now
}

func msgs(m *dns.Msg) string {
	if m == nil {
		return "<nil>"
	}
	s := dns.RcodeToString[m.Rcode]
	for _, rr := range m.Answer {
		s += " | " + rr.String()
	}
	return s
}
