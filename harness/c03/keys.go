package main

// Part (ii): key agreement. For generated wire names (label octets 0-255,
// escapes, case mixes) the wire-form and presentation-form key functions must
// agree bit for bit, with and without an ECS prefix; the wire/presentation
// comparison helper must agree with the library's unpacker; names that differ
// in anything but ASCII case must get different keys, ASCII-case variants the
// same key.

import (
	"encoding/hex"
	"fmt"
	"math/rand/v2"
	"net/netip"

	"github.com/cespare/xxhash/v2"
	"github.com/miekg/dns"
	icache "github.com/semihalev/sdns/internal/cache"
	"github.com/semihalev/sdns/middleware/cache"
	"github.com/semihalev/sdns/zzverif/vlib"
)

type keyCase struct {
	Kind   string `json:"kind"`
	Index  int    `json:"index"`
	Wire   string `json:"wire_hex"`
	Type   uint16 `json:"type"`
	Class  uint16 `json:"class"`
	CD     bool   `json:"cd"`
	Prefix string `json:"prefix,omitempty"`
	Mut    int    `json:"mutated_offset,omitempty"`
}

// genWireName builds an uncompressed wire name.
func genWireName(rng *rand.Rand) []byte {
	if rng.IntN(60) == 0 {
		return []byte{0}
	}
	budget := 254
	nl := 1 + rng.IntN(6)
	if rng.IntN(8) == 0 {
		nl = 1 + rng.IntN(40)
	}
	var w []byte
	for i := 0; i < nl && budget > 2; i++ {
		max := 12
		switch rng.IntN(10) {
		case 0:
			max = 63
		case 1:
			max = 1
		}
		n := 1 + rng.IntN(max)
		if n > budget-1 {
			n = budget - 1
		}
		w = append(w, byte(n))
		cls := rng.IntN(6)
		for j := 0; j < n; j++ {
			var c byte
			switch cls {
			case 0: // hostname-like, mixed case
				c = "abcdefghijklmnopqrstuvwxyzABCDEFGHIJKLMNOPQRSTUVWXYZ0123456789-_"[rng.IntN(64)]
			case 1: // anything
				c = byte(rng.IntN(256))
			case 2: // specials and their neighbours
				const sp = ". '@;()\"\\`{|}[]^~\x7f\x00\x1f\x20!$*"
				c = sp[rng.IntN(len(sp))]
			case 3: // high octets, Latin-1 "case" pairs
				c = byte(0x80 + rng.IntN(0x80))
			case 4: // digits and backslash-digit look-alikes
				c = "0123456789\\"[rng.IntN(11)]
			default: // mostly letters with a rare exotic octet
				if rng.IntN(5) == 0 {
					c = byte(rng.IntN(256))
				} else {
					c = byte('A' + rng.IntN(26) + 32*rng.IntN(2))
				}
			}
			w = append(w, c)
		}
		budget -= n + 1
	}
	return append(w, 0)
}

func foldWire(w []byte) []byte {
	// length octets are < 'A', so a flat fold is exact
	out := make([]byte, len(w))
	for i, c := range w {
		if c >= 'A' && c <= 'Z' {
			c += 'a' - 'A'
		}
		out[i] = c
	}
	return out
}

// labelOffsets returns, for every octet of w, whether it is label content.
func contentOffsets(w []byte) []int {
	var out []int
	for off := 0; off < len(w); {
		n := int(w[off])
		if n == 0 {
			break
		}
		for j := 1; j <= n; j++ {
			out = append(out, off+j)
		}
		off += n + 1
	}
	return out
}

// refKey is an independent rendering of the documented preimage:
// class(2) type(2) cd(1) folded-presentation-name [family(4|6) bits addr].
func refKey(pres string, t, c uint16, cd bool, p netip.Prefix) uint64 {
	buf := []byte{byte(c >> 8), byte(c), byte(t >> 8), byte(t), 0}
	if cd {
		buf[4] = 1
	}
	buf = append(buf, asciiLower(pres)...)
	if p.IsValid() {
		a := p.Addr().AsSlice()
		if p.Addr().Is4() {
			buf = append(buf, 4)
		} else {
			buf = append(buf, 6)
		}
		buf = append(buf, byte(p.Bits()))
		buf = append(buf, a[:(p.Bits()+7)/8]...)
	}
	return xxhash.Sum64(buf)
}

func randPrefix(rng *rand.Rand) netip.Prefix {
	var a netip.Addr
	bits := 0
	if rng.IntN(2) == 0 {
		var b [4]byte
		for i := range b {
			b[i] = byte(rng.IntN(256))
		}
		a, bits = netip.AddrFrom4(b), rng.IntN(33)
	} else {
		var b [16]byte
		for i := range b {
			b[i] = byte(rng.IntN(256))
		}
		a, bits = netip.AddrFrom16(b), rng.IntN(129)
	}
	p := netip.PrefixFrom(a, bits)
	if rng.IntN(2) == 0 {
		p = p.Masked()
	}
	return p
}

func checkKeyCase(r *vlib.Run, kc *keyCase, rng *rand.Rand) {
	w, err := hex.DecodeString(kc.Wire)
	if err != nil {
		r.Inconclusive("harness: bad key case")
		return
	}
	bad := func(sig, what string) { r.Violation(vlib.Sig("key", sig), what, kc) }
	defer func() {
		if p := recover(); p != nil {
			bad("panic", fmt.Sprintf("key functions panicked on wire name %x: %v", w, p))
		}
	}()
	pres, end, uerr := dns.UnpackDomainName(w, 0)
	if uerr != nil || end != len(w) {
		r.Count("key_names_rejected_by_library", 1)
		return
	}
	r.Eval(1)
	r.Count("key_names_checked", 1)
	if len(pres) > 251 {
		r.Count("key_names_presentation_over_pool_buffer", 1)
	}
	if mine := presOfWire(w); mine != pres {
		r.Inconclusive(fmt.Sprintf("harness: escape model disagrees with library: %q vs %q", mine, pres))
		return
	}
	t, c, cd := kc.Type, kc.Class, kc.CD
	q := dns.Question{Name: pres, Qtype: t, Qclass: c}
	kw, ok := icache.KeyWire(w, t, c, cd)
	k := icache.Key(q, cd)
	ks := icache.KeyString(pres, t, c, cd)
	ref := refKey(pres, t, c, cd, netip.Prefix{})
	if !ok || kw != k || k != ks || k != ref {
		bad("wire-vs-presentation", fmt.Sprintf("name %q (wire %x) %s/%s cd=%v: KeyWire=%x ok=%v Key=%x KeyString=%x documented-preimage=%x",
			pres, w, typeName(t), className(c), cd, kw, ok, k, ks, ref))
	}
	if h := (cache.CacheKey{Question: q, CD: cd}).Hash(); h != k {
		bad("cachekey-hash", fmt.Sprintf("CacheKey.Hash()=%x differs from Key=%x for %q", h, k, pres))
	}
	// ECS-extended variants
	var p netip.Prefix
	if kc.Prefix != "" {
		p, _ = netip.ParsePrefix(kc.Prefix)
	}
	if p.IsValid() {
		r.Count("key_prefix_variants_checked", 1)
		kwp, okp := icache.KeyWireWithPrefix(w, t, c, cd, p)
		kp := icache.KeyWithPrefix(q, cd, p)
		refp := refKey(pres, t, c, cd, p)
		if !okp || kwp != kp || kp != refp {
			bad("prefix-variant", fmt.Sprintf("name %q prefix %v: KeyWireWithPrefix=%x ok=%v KeyWithPrefix=%x documented-preimage=%x", pres, p, kwp, okp, kp, refp))
		}
		h := (cache.CacheKey{Question: q, CD: cd, Scope: p}).Hash()
		want := kp
		if p.Bits() == 0 {
			want = k
		}
		if h != want {
			bad("cachekey-hash", fmt.Sprintf("CacheKey{Scope:%v}.Hash()=%x, want %x for %q", p, h, want, pres))
		}
		if p.Bits() > 0 && kp == k {
			bad("scope-merged", fmt.Sprintf("scoped key equals the shared key for %q scope %v", pres, p))
		}
	}
	kwz, okz := icache.KeyWireWithPrefix(w, t, c, cd, netip.Prefix{})
	if !okz || kwz != k || icache.KeyWithPrefix(q, cd, netip.Prefix{}) != k {
		bad("prefix-variant", fmt.Sprintf("invalid prefix does not collapse to the shared key for %q", pres))
	}
	// the comparison helper against the library's decoding
	if !icache.WireNameEqualsPresentation(w, pres) {
		bad("equals-helper", fmt.Sprintf("WireNameEqualsPresentation(%x, %q) = false for the library's own decoding", w, pres))
	}
	if fl := flipASCIICase(pres); !icache.WireNameEqualsPresentation(w, fl) {
		bad("equals-helper", fmt.Sprintf("WireNameEqualsPresentation(%x, %q) = false for an ASCII-case variant", w, fl))
	}
	// dimension sensitivity
	if icache.Key(q, !cd) == k || icache.Key(dns.Question{Name: pres, Qtype: t ^ 1, Qclass: c}, cd) == k ||
		icache.Key(dns.Question{Name: pres, Qtype: t, Qclass: c ^ 2}, cd) == k {
		bad("dimension-merged", fmt.Sprintf("flipping cd/type/class leaves the key of %q unchanged", pres))
	}

	// one-octet mutants
	offs := contentOffsets(w)
	if len(offs) == 0 {
		return
	}
	off := offs[rng.IntN(len(offs))]
	kc.Mut = off
	w2 := append([]byte(nil), w...)
	if isLetter(w[off]) && rng.IntN(2) == 0 {
		w2[off] ^= 0x20
	} else {
		switch rng.IntN(3) {
		case 0:
			w2[off] ^= 0x20
		case 1:
			w2[off] = byte(rng.IntN(256))
		default:
			w2[off]++
		}
	}
	pres2, end2, err2 := dns.UnpackDomainName(w2, 0)
	if err2 != nil || end2 != len(w2) {
		return
	}
	same := string(foldWire(w)) == string(foldWire(w2))
	k2w, ok2 := icache.KeyWire(w2, t, c, cd)
	k2 := icache.Key(dns.Question{Name: pres2, Qtype: t, Qclass: c}, cd)
	eq := icache.WireNameEqualsPresentation(w, pres2)
	eq2 := icache.WireNameEqualsPresentation(w2, pres)
	switch {
	case same:
		r.Count("key_ascii_case_variants", 1)
		if !ok2 || k2w != k || k2 != k {
			bad("ascii-case-split", fmt.Sprintf("ASCII-case variants %q / %q get different keys (%x %x %x)", pres, pres2, k, k2, k2w))
		}
		if !eq || !eq2 {
			bad("equals-helper", fmt.Sprintf("ASCII-case variants %q / %q compare unequal", pres, pres2))
		}
	default:
		r.Count("key_distinct_name_pairs", 1)
		if w[off]^w2[off] == 0x20 {
			r.Count("key_distinct_pairs_differing_by_bit5_only", 1)
			if w[off] >= 0x80 {
				r.Count("key_distinct_pairs_nonascii_case", 1)
			}
		}
		if k2w == k || k2 == k {
			bad("names-merged", fmt.Sprintf("different names %q / %q get the same key %x", pres, pres2, k))
		}
		if eq || eq2 {
			bad("equals-helper", fmt.Sprintf("different names %q / %q compare equal", pres, pres2))
		}
	}
}

func presOfWire(w []byte) string {
	if len(w) == 1 && w[0] == 0 {
		return "."
	}
	s := ""
	for off := 0; off < len(w); {
		n := int(w[off])
		if n == 0 {
			break
		}
		s += escapeLabel(w[off+1:off+1+n]) + "."
		off += n + 1
	}
	return s
}

// malformed wire names must be refused by both helpers.
func checkMalformed(r *vlib.Run, rng *rand.Rand, idx int) {
	w := genWireName(rng)
	var bad []byte
	switch idx % 5 {
	case 0: // truncated
		if len(w) < 2 {
			return
		}
		bad = w[:len(w)-1-rng.IntN(len(w)-1)]
		if len(bad) > 0 && bad[len(bad)-1] == 0 {
			// still a well-formed shorter name only if the cut fell on a boundary
			if _, end, err := dns.UnpackDomainName(bad, 0); err == nil && end == len(bad) {
				return
			}
		}
	case 1: // trailing bytes
		bad = append(append([]byte(nil), w...), byte(rng.IntN(256)))
	case 2: // compression pointer
		bad = append(append([]byte(nil), w[:len(w)-1]...), 0xC0, 0x0C)
	case 3: // reserved label type
		bad = append([]byte{0x40 | byte(1+rng.IntN(20))}, w...)
	case 4: // over 255 octets
		for len(bad) < 256 {
			bad = append(bad, 63)
			for j := 0; j < 63; j++ {
				bad = append(bad, 'a')
			}
		}
		bad = append(bad, 0)
	}
	r.Eval(1)
	r.Count("key_malformed_names_checked", 1)
	kc := &keyCase{Kind: "key-malformed", Index: idx, Wire: hex.EncodeToString(bad), Type: dns.TypeA, Class: dns.ClassINET}
	defer func() {
		if p := recover(); p != nil {
			r.Violation("key/panic", fmt.Sprintf("key functions panicked on malformed wire name %x: %v", bad, p), kc)
		}
	}()
	if _, ok := icache.KeyWire(bad, dns.TypeA, dns.ClassINET, false); ok {
		r.Violation("key/malformed-accepted", fmt.Sprintf("KeyWire accepts the malformed wire name %x", bad), kc)
	}
	if _, ok := icache.KeyWireWithPrefix(bad, dns.TypeA, dns.ClassINET, false, netip.MustParsePrefix("192.0.2.0/24")); ok {
		r.Violation("key/malformed-accepted", fmt.Sprintf("KeyWireWithPrefix accepts the malformed wire name %x", bad), kc)
	}
	pres, _, _ := dns.UnpackDomainName(w, 0)
	if icache.WireNameEqualsPresentation(bad, pres) {
		r.Violation("key/malformed-accepted", fmt.Sprintf("WireNameEqualsPresentation(%x, %q) = true for a malformed wire name", bad, pres), kc)
	}
}

func runKeys(r *vlib.Run) {
	n := r.N(100000, 8000000)
	for i := 0; i < n; i++ {
		rng := r.RandN("keys", i)
		w := genWireName(rng)
		kc := &keyCase{Kind: "key", Index: i, Wire: hex.EncodeToString(w),
			Type: pick(rng, []uint16{1, 2, 5, 6, 15, 16, 28, 43, 48, 255, 65, 0, 0xFFFF}), Class: pick(rng, []uint16{1, 1, 3, 4, 254, 255, 0}), CD: rng.IntN(2) == 0}
		if rng.IntN(2) == 0 {
			kc.Prefix = randPrefix(rng).String()
		}
		checkKeyCase(r, kc, rng)
		if i%20 == 0 {
			checkMalformed(r, rng, i/20)
		}
	}
}
