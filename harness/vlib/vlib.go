// Package vlib is the shared verdict / evidence / seed machinery of every
// runtime-monitoring check under /verif/harness.
//
// Contract (see DESIGN.md §3.5):
//   - all randomness comes from Run.Rand(stream) — a PCG keyed by
//     (VERIF_SEED, property id, stream name);
//   - monitors report through Run.Violation(signature, what, replayCase);
//     a signature listed as "known" in known_findings.json prints a
//     KNOWN-FINDING line instead and is not counted;
//   - Run.Finish writes evidence/<id>.json and exits 0 (held on what was
//     observed), 1 (violation) or 2 (inconclusive: a required counter stayed
//     below its minimum, a watchdog fired, a harness error occurred).
package vlib

import (
	"encoding/json"
	"flag"
	"fmt"
	"hash/fnv"
	"math/rand/v2"
	"os"
	"path/filepath"
	"sort"
	"strconv"
	"strings"
	"sync"
	"time"
)

// Finding is one entry of /verif/known_findings.json.
type Finding struct {
	Property  string `json:"property"`
	Signature string `json:"signature"`
	Status    string `json:"status"` // "known" | "fixed"
	Commit    string `json:"commit,omitempty"`
	What      string `json:"what"`
}

type violation struct {
	Signature string          `json:"signature"`
	What      string          `json:"what"`
	Replay    string          `json:"replay,omitempty"`
	Case      json.RawMessage `json:"case,omitempty"`
	Count     int             `json:"count"`
}

// Run is one execution of one property's check.
type Run struct {
	ID    string
	Tier  string
	Seed  uint64
	Level string
	Dir   string // /verif

	mu           sync.Mutex
	start        time.Time
	evals        int64
	counters     map[string]int64
	distinct     map[uint64]struct{}
	distinctBy   map[string]map[uint64]struct{}
	samples      []any
	maxSamples   int
	keySamples   []string // first distinct case keys; fallback samples when a harness records none
	violations   map[string]*violation
	known        map[string]*violation
	inconclusive []string
	required     map[string]int64
	maxKeys      map[string]bool
	findings     []Finding
	assumptions  []string
	notes        map[string]any
	replayFile   string
	childOut     string
	lastProgress time.Time
}

// Start initialises a run from the environment (VERIF_ID may be overridden by
// the id argument), parses --replay, and loads known_findings.json.
func Start(id, level string) *Run {
	r := &Run{
		ID:         id,
		Level:      level,
		Tier:       envOr("VERIF_TIER", "quick"),
		Dir:        envOr("VERIF_DIR", "/verif"),
		start:      time.Now(),
		counters:   map[string]int64{},
		distinct:   map[uint64]struct{}{},
		distinctBy: map[string]map[uint64]struct{}{},
		violations: map[string]*violation{},
		known:      map[string]*violation{},
		required:   map[string]int64{},
		maxKeys:    map[string]bool{},
		notes:      map[string]any{},
		maxSamples: 6,
		childOut:   os.Getenv("VERIF_CHILD_OUT"),
	}
	if r.Tier != "quick" && r.Tier != "thorough" {
		r.Tier = "quick"
	}
	seed, err := strconv.ParseInt(envOr("VERIF_SEED", "1"), 10, 64)
	if err != nil {
		seed = 1
	}
	r.Seed = uint64(seed)
	fs := flag.NewFlagSet(id, flag.ContinueOnError)
	fs.StringVar(&r.replayFile, "replay", "", "replay one recorded case")
	_ = fs.Parse(os.Args[1:])
	r.loadFindings()
	return r
}

func envOr(k, d string) string {
	if v := os.Getenv(k); v != "" {
		return v
	}
	return d
}

func (r *Run) loadFindings() {
	b, err := os.ReadFile(filepath.Join(r.Dir, "known_findings.json"))
	if err != nil {
		return
	}
	var f struct {
		Findings []Finding `json:"findings"`
	}
	if json.Unmarshal(b, &f) == nil {
		r.findings = f.Findings
	}
}

// Quick reports whether this is the quick tier.
func (r *Run) Quick() bool { return r.Tier == "quick" }

// N picks a tier-dependent size.
func (r *Run) N(quick, thorough int) int {
	if r.Quick() {
		return quick
	}
	return thorough
}

func hash64(s string) uint64 {
	h := fnv.New64a()
	_, _ = h.Write([]byte(s))
	return h.Sum64()
}

// Rand returns the deterministic PRNG for a named stream.
func (r *Run) Rand(stream string) *rand.Rand {
	return rand.New(rand.NewPCG(r.Seed, hash64(r.ID+"/"+stream)))
}

// RandN is Rand for an indexed stream (case i of stream s).
func (r *Run) RandN(stream string, i int) *rand.Rand {
	return rand.New(rand.NewPCG(r.Seed^(uint64(i)*0x9E3779B97F4A7C15), hash64(r.ID+"/"+stream)))
}

// ReplayCase returns the "case" object of the --replay file, or nil.
func (r *Run) ReplayCase() json.RawMessage {
	if r.replayFile == "" {
		return nil
	}
	b, err := os.ReadFile(r.replayFile)
	if err != nil {
		fmt.Fprintln(os.Stderr, "replay:", err)
		os.Exit(2)
	}
	var v struct {
		Case json.RawMessage `json:"case"`
	}
	if json.Unmarshal(b, &v) != nil || v.Case == nil {
		return json.RawMessage(b)
	}
	return v.Case
}

// Eval counts one generated case / execution judged by an oracle.
func (r *Run) Eval(n int) {
	r.mu.Lock()
	r.evals += int64(n)
	r.mu.Unlock()
}

// Count adds to a named monitor counter (reported in evidence).
func (r *Run) Count(name string, n int) {
	r.mu.Lock()
	r.counters[name] += int64(n)
	r.mu.Unlock()
}

// Counter reads a counter.
func (r *Run) Counter(name string) int64 {
	r.mu.Lock()
	defer r.mu.Unlock()
	return r.counters[name]
}

// Max records the maximum value seen for a named gauge.
func (r *Run) Max(name string, v int64) {
	r.mu.Lock()
	r.maxKeys[name] = true
	if v > r.counters[name] {
		r.counters[name] = v
	}
	r.mu.Unlock()
}

// Distinct records a distinct non-trivial case key (counted once).
func (r *Run) Distinct(key string) {
	h := hash64(key)
	r.mu.Lock()
	if _, seen := r.distinct[h]; !seen && len(r.keySamples) < r.maxSamples {
		r.keySamples = append(r.keySamples, key)
	}
	r.distinct[h] = struct{}{}
	r.mu.Unlock()
}

// DistinctIn records a key in a named class of distinct things (evidence
// reports the size of each class); it does not add to distinct_nontrivial.
func (r *Run) DistinctIn(class, key string) {
	h := hash64(key)
	r.mu.Lock()
	m := r.distinctBy[class]
	if m == nil {
		m = map[uint64]struct{}{}
		r.distinctBy[class] = m
	}
	m[h] = struct{}{}
	r.mu.Unlock()
}

// Sample keeps up to a handful of real cases for the evidence file.
func (r *Run) Sample(v any) {
	r.mu.Lock()
	if len(r.samples) < r.maxSamples {
		r.samples = append(r.samples, v)
	}
	r.mu.Unlock()
}

// Require makes the run inconclusive unless counter >= min at Finish.
func (r *Run) Require(counter string, min int64) {
	r.mu.Lock()
	r.required[counter] = min
	r.mu.Unlock()
}

// Assume records an assumption / trusted-base statement.
func (r *Run) Assume(s string) {
	r.mu.Lock()
	r.assumptions = append(r.assumptions, s)
	r.mu.Unlock()
}

// Note stores an arbitrary extra coverage key.
func (r *Run) Note(k string, v any) {
	r.mu.Lock()
	r.notes[k] = v
	r.mu.Unlock()
}

// Inconclusive records a reason the run cannot give a verdict.
func (r *Run) Inconclusive(reason string) {
	r.mu.Lock()
	if len(r.inconclusive) < 50 {
		r.inconclusive = append(r.inconclusive, reason)
	}
	r.mu.Unlock()
	fmt.Fprintln(os.Stderr, "INCONCLUSIVE:", reason)
}

// Progress prints a progress line to stderr at most every 5 s.
func (r *Run) Progress(format string, a ...any) {
	r.mu.Lock()
	ok := time.Since(r.lastProgress) > 5*time.Second
	if ok {
		r.lastProgress = time.Now()
	}
	r.mu.Unlock()
	if ok {
		fmt.Fprintf(os.Stderr, "[%s %6.1fs] %s\n", r.ID, time.Since(r.start).Seconds(), fmt.Sprintf(format, a...))
	}
}

// Violation reports a refutation. signature must be narrow and stable (it is
// what known_findings.json lists); what is a human sentence; replayCase is the
// serialisable case that reproduces it. Returns true if it counted as a new
// (unlisted) violation signature.
func (r *Run) Violation(signature, what string, replayCase any) bool {
	r.mu.Lock()
	defer r.mu.Unlock()
	for _, f := range r.findings {
		if f.Property == r.ID && f.Status == "known" && f.Signature == signature {
			k := r.known[signature]
			if k == nil {
				k = &violation{Signature: signature, What: f.What}
				r.known[signature] = k
				if r.childOut == "" {
					fmt.Printf("KNOWN-FINDING: property=%s %s — %s\n", r.ID, signature, f.What)
				}
			}
			k.Count++
			return false
		}
	}
	if v := r.violations[signature]; v != nil {
		v.Count++
		return false
	}
	v := &violation{Signature: signature, What: what, Count: 1}
	if replayCase != nil {
		if b, err := json.Marshal(replayCase); err == nil {
			v.Case = b
		} else {
			v.Case, _ = json.Marshal(fmt.Sprintf("%+v", replayCase))
		}
	}
	r.violations[signature] = v
	if r.childOut == "" {
		r.emitViolation(v)
	}
	return true
}

func (r *Run) emitViolation(v *violation) {
	dir := filepath.Join(envOr("VERIF_REPLAY_DIR", filepath.Join(r.Dir, "replays")), r.ID)
	_ = os.MkdirAll(dir, 0o755)
	path := filepath.Join(dir, fmt.Sprintf("%s-%d-%016x.json", r.Tier, r.Seed, hash64(v.Signature)))
	doc := map[string]any{
		"property": r.ID, "signature": v.Signature, "what": v.What,
		"seed": r.Seed, "tier": r.Tier, "case": v.Case,
	}
	b, _ := json.MarshalIndent(doc, "", " ")
	_ = os.WriteFile(path, b, 0o644)
	v.Replay = path
	fmt.Printf("VIOLATION property=%s replay=%s\n", r.ID, path)
	fmt.Printf("  signature: %s\n  what: %s\n", v.Signature, v.What)
}

// Violations returns the number of distinct unlisted violation signatures.
func (r *Run) Violations() int {
	r.mu.Lock()
	defer r.mu.Unlock()
	return len(r.violations)
}

type childState struct {
	Evals        int64               `json:"evals"`
	Counters     map[string]int64    `json:"counters"`
	Distinct     []uint64            `json:"distinct"`
	DistinctBy   map[string][]uint64 `json:"distinct_by"`
	Samples      []any               `json:"samples"`
	Violations   []*violation        `json:"violations"`
	Inconclusive []string            `json:"inconclusive"`
	Assumptions  []string            `json:"assumptions"`
	Notes        map[string]any      `json:"notes"`
	MaxKeys      map[string]bool     `json:"max_keys,omitempty"`
	Required     map[string]int64    `json:"required,omitempty"`
}

// Finish writes the evidence file (or, in a child process, the state file the
// parent merges) and exits with the verdict code.
func (r *Run) Finish(rule string) {
	code := r.finish(rule)
	os.Exit(code)
}

func (r *Run) finish(rule string) int {
	r.mu.Lock()
	defer r.mu.Unlock()
	for k, min := range r.required {
		if r.counters[k] < min {
			msg := fmt.Sprintf("required counter %s=%d < %d", k, r.counters[k], min)
			r.inconclusive = append(r.inconclusive, msg)
			fmt.Fprintln(os.Stderr, "INCONCLUSIVE:", msg)
		}
	}
	if r.childOut == "" && len(r.samples) == 0 && len(r.keySamples) == 0 {
		msg := "no case sample recorded (the run observed nothing it could show)"
		r.inconclusive = append(r.inconclusive, msg)
		fmt.Fprintln(os.Stderr, "INCONCLUSIVE:", msg)
	}
	if r.childOut != "" {
		if len(r.samples) == 0 {
			for _, k := range r.keySamples {
				r.samples = append(r.samples, map[string]any{"distinct_case_key": k})
			}
		}
		st := childState{Evals: r.evals, Counters: r.counters, Samples: r.samples,
			Inconclusive: r.inconclusive, Assumptions: r.assumptions, Notes: r.notes,
			DistinctBy: map[string][]uint64{}, MaxKeys: r.maxKeys}
		for h := range r.distinct {
			st.Distinct = append(st.Distinct, h)
		}
		for c, m := range r.distinctBy {
			for h := range m {
				st.DistinctBy[c] = append(st.DistinctBy[c], h)
			}
		}
		for _, v := range r.violations {
			st.Violations = append(st.Violations, v)
		}
		for _, v := range r.known {
			// re-reported through the parent so the KNOWN-FINDING line is printed once
			st.Violations = append(st.Violations, v)
		}
		b, _ := json.Marshal(st)
		_ = os.WriteFile(r.childOut, b, 0o644)
	} else {
		r.writeEvidence(rule)
	}
	switch {
	case len(r.violations) > 0:
		return 1
	case len(r.inconclusive) > 0:
		if r.childOut == "" {
			fmt.Printf("INCONCLUSIVE property=%s reasons=%d (first: %s)\n", r.ID, len(r.inconclusive), r.inconclusive[0])
		}
		return 2
	}
	if r.childOut == "" {
		fmt.Printf("HELD property=%s tier=%s seed=%d evaluations=%d distinct=%d known_findings=%d wall=%.1fs\n",
			r.ID, r.Tier, r.Seed, r.evals, len(r.distinct), len(r.known), time.Since(r.start).Seconds())
	}
	return 0
}

func (r *Run) writeEvidence(rule string) {
	cov := map[string]any{}
	for k, v := range r.notes {
		cov[k] = v
	}
	cov["evaluations"] = r.evals
	cov["distinct_nontrivial"] = len(r.distinct)
	cov["rule"] = rule
	samples := r.samples
	if len(samples) == 0 {
		// no explicit Sample: fall back to the first distinct case keys seen in this run
		samples = []any{}
		for _, k := range r.keySamples {
			samples = append(samples, map[string]any{"distinct_case_key": k})
		}
	}
	cov["samples"] = samples
	cov["counters"] = r.counters
	dc := map[string]int{}
	for c, m := range r.distinctBy {
		dc[c] = len(m)
	}
	cov["distinct_by_class"] = dc
	var kn []map[string]any
	for _, v := range r.known {
		kn = append(kn, map[string]any{"signature": v.Signature, "what": v.What, "hits": v.Count})
	}
	sort.Slice(kn, func(i, j int) bool { return kn[i]["signature"].(string) < kn[j]["signature"].(string) })
	cov["known_findings_hit"] = kn
	var vs []map[string]any
	for _, v := range r.violations {
		vs = append(vs, map[string]any{"signature": v.Signature, "what": v.What, "hits": v.Count, "replay": v.Replay})
	}
	cov["violation_signatures"] = vs
	cov["inconclusive_reasons"] = r.inconclusive
	verdict := "held-on-observed"
	if len(r.violations) > 0 {
		verdict = "violated"
	} else if len(r.inconclusive) > 0 {
		verdict = "inconclusive"
	}
	cov["verdict"] = verdict
	ev := map[string]any{
		"property_id": r.ID,
		"tier":        r.Tier,
		"seed":        int64(r.Seed),
		"level":       r.Level,
		"coverage":    cov,
		"assumptions": append([]string{}, r.assumptions...),
		"wall_s":      float64(int(time.Since(r.start).Seconds()*10)) / 10,
		"violations":  len(r.violations),
	}
	b, err := json.MarshalIndent(ev, "", " ")
	if err != nil {
		fmt.Fprintln(os.Stderr, "evidence marshal:", err)
		// fall back to samples-free evidence rather than none
		cov["samples"] = []any{fmt.Sprintf("%+v", samples)}
		b, _ = json.MarshalIndent(ev, "", " ")
	}
	dir := envOr("VERIF_EVIDENCE_DIR", filepath.Join(r.Dir, "evidence"))
	_ = os.MkdirAll(dir, 0o755)
	tmp := filepath.Join(dir, "."+r.ID+".json.tmp")
	_ = os.WriteFile(tmp, append(b, '\n'), 0o644)
	_ = os.Rename(tmp, filepath.Join(dir, r.ID+".json"))
}

// Fatalf is for harness errors (not verdicts): inconclusive, exit 2.
func (r *Run) Fatalf(format string, a ...any) {
	r.Inconclusive("harness error: " + fmt.Sprintf(format, a...))
	r.Finish("harness error before completion")
}

// Sig builds a stable signature from parts (joined by '/').
func Sig(parts ...string) string { return strings.Join(parts, "/") }
