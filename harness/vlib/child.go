package vlib

import (
	"bufio"
	"context"
	"encoding/json"
	"fmt"
	"os"
	"os/exec"
	"path/filepath"
	"regexp"
	"strings"
	"time"
)

// ChildResult describes how a child process ended.
type ChildResult struct {
	ExitCode int
	TimedOut bool
	HasState bool   // the child reached Finish and its state was merged
	Output   string // combined stdout+stderr file path
	Err      error
}

// BuildDir is the scratch build directory of this check invocation
// (/verif/build, or a per-worktree directory when VERIF_REPO points elsewhere).
func BuildDir() string { return envOr("VERIF_BUILD_DIR", "/verif/build") }

// RepoDir is the sdns tree this binary was built from.
func RepoDir() string { return envOr("VERIF_REPO", "/repo") }

// BinPath returns the path of a harness binary built by ./check
// (variant "" = plain, "race", "asan").
func BinPath(pkg, variant string) string {
	d := envOr("VERIF_BIN_DIR", "/verif/build/bin")
	if variant == "" || variant == "plain" {
		return filepath.Join(d, pkg)
	}
	return filepath.Join(d, pkg+"."+variant)
}

// Child runs another harness binary (or this one in another mode) as a child
// process, merges the state it reports at Finish into r, and returns how it
// ended. wrap, if non-nil, is prepended to the command line (e.g. strace args).
// The child's stdout/stderr go to a log file under build/logs.
func (r *Run) Child(name string, wrap []string, bin string, args []string, env []string, timeout time.Duration) ChildResult {
	logDir := filepath.Join(BuildDir(), "logs")
	_ = os.MkdirAll(logDir, 0o755)
	stateF, err := os.CreateTemp(logDir, "child-"+r.ID+"-*.state")
	if err != nil {
		return ChildResult{Err: err, ExitCode: -1}
	}
	statePath := stateF.Name()
	stateF.Close()
	os.Remove(statePath)
	defer os.Remove(statePath)
	outPath := filepath.Join(logDir, fmt.Sprintf("child-%s-%s-%d.log", r.ID, sanitize(name), os.Getpid()))
	out, err := os.Create(outPath)
	if err != nil {
		return ChildResult{Err: err, ExitCode: -1}
	}
	defer out.Close()
	ctx, cancel := context.WithTimeout(context.Background(), timeout)
	defer cancel()
	argv := append(append([]string{}, wrap...), bin)
	argv = append(argv, args...)
	cmd := exec.CommandContext(ctx, argv[0], argv[1:]...)
	cmd.Cancel = func() error { return cmd.Process.Signal(sigQuit) }
	cmd.WaitDelay = 15 * time.Second
	cmd.Stdout = out
	cmd.Stderr = out
	cmd.Env = append(os.Environ(),
		"VERIF_CHILD_OUT="+statePath,
		"VERIF_ID="+r.ID, "VERIF_TIER="+r.Tier, fmt.Sprintf("VERIF_SEED=%d", r.Seed))
	cmd.Env = append(cmd.Env, env...)
	err = cmd.Run()
	res := ChildResult{Output: outPath, Err: err}
	if ctx.Err() == context.DeadlineExceeded {
		res.TimedOut = true
	}
	if cmd.ProcessState != nil {
		res.ExitCode = cmd.ProcessState.ExitCode()
	} else {
		res.ExitCode = -1
	}
	if b, e := os.ReadFile(statePath); e == nil {
		var st childState
		if json.Unmarshal(b, &st) == nil {
			r.merge(&st)
			res.HasState = true
		}
	}
	if res.ExitCode == 0 && res.HasState {
		os.Remove(outPath)
	}
	return res
}

func sanitize(s string) string {
	return strings.Map(func(c rune) rune {
		if c >= 'a' && c <= 'z' || c >= 'A' && c <= 'Z' || c >= '0' && c <= '9' || c == '-' || c == '_' {
			return c
		}
		return '_'
	}, s)
}

func (r *Run) merge(st *childState) {
	r.mu.Lock()
	r.evals += st.Evals
	for k, v := range st.Counters {
		if st.MaxKeys[k] {
			r.maxKeys[k] = true
			if v > r.counters[k] {
				r.counters[k] = v
			}
		} else {
			r.counters[k] += v
		}
	}
	for _, h := range st.Distinct {
		r.distinct[h] = struct{}{}
	}
	for c, hs := range st.DistinctBy {
		m := r.distinctBy[c]
		if m == nil {
			m = map[uint64]struct{}{}
			r.distinctBy[c] = m
		}
		for _, h := range hs {
			m[h] = struct{}{}
		}
	}
	for _, s := range st.Samples {
		if len(r.samples) < r.maxSamples {
			r.samples = append(r.samples, s)
		}
	}
	r.inconclusive = append(r.inconclusive, st.Inconclusive...)
	for _, a := range st.Assumptions {
		dup := false
		for _, b := range r.assumptions {
			if a == b {
				dup = true
			}
		}
		if !dup {
			r.assumptions = append(r.assumptions, a)
		}
	}
	for k, v := range st.Notes {
		if _, ok := r.notes[k]; !ok {
			r.notes[k] = v
		}
	}
	vs := st.Violations
	r.mu.Unlock()
	for _, v := range vs {
		var c any
		if v.Case != nil {
			c = v.Case
		}
		for i := 0; i < v.Count || i < 1; i++ {
			r.Violation(v.Signature, v.What, c)
			if i >= 3 {
				break
			}
		}
	}
}

var (
	raceFrameRe = regexp.MustCompile(`^\s+(\S+)\(\)\s*$`)
)

// RaceEnv returns the GORACE setting that logs reports under prefix without
// halting, for exploration runs.
func RaceEnv(prefix string) string {
	return "GORACE=halt_on_error=0 log_path=" + prefix
}

// RacePrefix returns a fresh log prefix under build/race for this run.
func (r *Run) RacePrefix(name string) string {
	d := filepath.Join(BuildDir(), "race")
	_ = os.MkdirAll(d, 0o755)
	return filepath.Join(d, fmt.Sprintf("%s-%s-%d", r.ID, sanitize(name), os.Getpid()))
}

// ScanRaceLogs reads the race-detector logs written under prefix (prefix.<pid>),
// deduplicates reports by the pair of first sdns (non-harness) frames of the two
// conflicting stacks, and reports each as a violation "race/<f1>|<f2>". A report
// with no sdns frame on either stack is a harness race (inconclusive). Returns the
// number of report blocks seen. Log files are removed when they held no report.
func (r *Run) ScanRaceLogs(prefix string) int {
	files, _ := filepath.Glob(prefix + ".*")
	total := 0
	for _, f := range files {
		n := r.scanRaceFile(f)
		total += n
		if n == 0 {
			os.Remove(f)
		}
	}
	r.Count("race_reports", total)
	return total
}

func (r *Run) scanRaceFile(path string) int {
	fh, err := os.Open(path)
	if err != nil {
		return 0
	}
	defer fh.Close()
	sc := bufio.NewScanner(fh)
	sc.Buffer(make([]byte, 1<<20), 1<<22)
	n := 0
	var block []string
	in := false
	flush := func() {
		if len(block) == 0 {
			return
		}
		n++
		r.judgeRaceBlock(block, path)
		block = nil
	}
	for sc.Scan() {
		line := sc.Text()
		if strings.HasPrefix(line, "WARNING: DATA RACE") {
			flush()
			in = true
		}
		if strings.HasPrefix(line, "==================") {
			if in && len(block) > 0 {
				flush()
				in = false
			}
			continue
		}
		if in {
			block = append(block, line)
		}
	}
	flush()
	return n
}

func (r *Run) judgeRaceBlock(block []string, path string) {
	// stacks are separated by blank lines; the first two are the accesses
	var stacks [][]string
	var cur []string
	for _, l := range block {
		if strings.TrimSpace(l) == "" {
			if len(cur) > 0 {
				stacks = append(stacks, cur)
				cur = nil
			}
			continue
		}
		cur = append(cur, l)
	}
	if len(cur) > 0 {
		stacks = append(stacks, cur)
	}
	firstSdns := func(st []string) string {
		for _, l := range st {
			m := raceFrameRe.FindStringSubmatch(l)
			if m == nil {
				continue
			}
			fn := m[1]
			if strings.Contains(fn, "github.com/semihalev/sdns/") && !strings.Contains(fn, "/zzverif/") {
				return strings.TrimPrefix(fn, "github.com/semihalev/sdns/")
			}
		}
		return ""
	}
	var a, b string
	if len(stacks) > 0 {
		a = firstSdns(stacks[0])
	}
	if len(stacks) > 1 {
		b = firstSdns(stacks[1])
	}
	if a == "" && b == "" {
		r.Inconclusive("race report without sdns frames (harness race?) in " + path)
		return
	}
	// The racing ACCESSES are the innermost frames of the two stacks. When both
	// are harness code (…/zzverif/… or package main) the race is the harness's
	// own, whatever sdns frames sit further out on the stacks (a stub handler is
	// always called from Chain.Next): a harness error, never an sdns violation.
	topIsHarness := func(st []string) bool {
		for _, l := range st {
			m := raceFrameRe.FindStringSubmatch(l)
			if m == nil {
				continue
			}
			fn := m[1]
			return strings.HasPrefix(fn, "main.") || strings.Contains(fn, "/zzverif/")
		}
		return false
	}
	if len(stacks) > 1 && topIsHarness(stacks[0]) && topIsHarness(stacks[1]) {
		r.Inconclusive("race between two harness accesses (harness bug, not sdns) in " + path)
		return
	}
	if b < a {
		a, b = b, a
	}
	txt := strings.Join(block, "\n")
	if len(txt) > 6000 {
		txt = txt[:6000]
	}
	r.Violation("race/"+a+"|"+b, "data race reported by the Go race detector between "+a+" and "+b,
		map[string]any{"race_log": path, "report": txt})
}
