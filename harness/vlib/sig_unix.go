package vlib

import "syscall"

var sigQuit = syscall.SIGQUIT
