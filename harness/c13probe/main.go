package main

import (
	"fmt"
	"os"
	"time"

	"github.com/miekg/dns"
	"github.com/semihalev/sdns/config"
	"github.com/semihalev/sdns/zzverif/authsim"
	zm "github.com/semihalev/sdns/zzverif/zonemodel"
)

func ede(m *dns.Msg) string {
	s := ""
	if m == nil {
		return "NOREPLY"
	}
	if o := m.IsEdns0(); o != nil {
		for _, e := range o.Option {
			if x, ok := e.(*dns.EDNS0_EDE); ok {
				s += fmt.Sprintf(" EDE%d(%s)", x.InfoCode, x.ExtraText)
			}
		}
	}
	return dns.RcodeToString[m.Rcode] + s
}

func main() {
	u := authsim.New()
	sr, st := u.AddServer("root"), u.AddServer("tld")
	d1, d2 := u.AddServer("dead1"), u.AddServer("dead2")
	r1, r2 := u.AddServer("ref1"), u.AddServer("ref2")
	h1, h2 := u.AddServer("half1"), u.AddServer("half2")
	ok1 := u.AddServer("ok1")
	root := u.AddZone(zm.Spec{Apex: ".", Signed: true}, sr)
	tld := u.AddZone(zm.Spec{Apex: "test.", Signed: true}, st)
	dead := u.AddZone(zm.Spec{Apex: "dead.test."}, d1, d2)
	ref := u.AddZone(zm.Spec{Apex: "refused.test."}, r1, r2)
	half := u.AddZone(zm.Spec{Apex: "half.test."}, h1, h2)
	okz := u.AddZone(zm.Spec{Apex: "ok.test."}, ok1)
	u.Delegate(root, tld, authsim.DelegOpts{})
	for _, z := range []*zm.Zone{dead, ref, half, okz} {
		u.Delegate(tld, z, authsim.DelegOpts{})
	}
	for _, z := range []*zm.Zone{dead, ref, half, okz} {
		for _, n := range []string{"a", "b", "c", "d"} {
			z.AddMarked(n+"."+z.Apex(), dns.TypeA, 300)
		}
	}
	d1.SetDefault(authsim.Drop())
	d2.SetDefault(authsim.Drop())
	r1.SetDefault(authsim.Rcode(dns.RcodeRefused))
	r2.SetDefault(authsim.Rcode(dns.RcodeRefused))
	h1.SetDefault(authsim.Drop())
	rs, err := u.NewResolverStack(func(c *config.Config) {
		if os.Getenv("ENFORCE") != "" {
			c.RecursionFirewall.Mode = config.RecursionFirewallModeEnforce
			c.RecursionFirewall.MaxOutboundQueries = 1
		}
		if os.Getenv("SHED") != "" {
			c.MaxConcurrentQueries = 1
		}
	})
	if err != nil {
		panic(err)
	}
	defer u.Close()
	defer rs.Close()
	ask := func(client, name string) {
		q := new(dns.Msg)
		q.SetQuestion(name, dns.TypeA)
		q.SetEdns0(1232, false)
		from := u.Log.Len()
		t0 := time.Now()
		r := rs.Query(client, q)
		fmt.Printf("%-22s %-40s packets=%d %dms\n", name, ede(r), u.Log.Len()-from, time.Since(t0).Milliseconds())
		if os.Getenv("V") != "" {
			for _, p := range u.Log.Since(from) {
				fmt.Println("    ", p.String())
			}
		}
		rs.Quiesce(5 * time.Second)
		fmt.Printf("      state: %+v\n", rs.Cache().VerifC13Failures())
	}
	if os.Getenv("SHED") != "" {
		g := authsim.NewGate()
		ok1.On("a.ok.test.", dns.TypeA, authsim.Honest().Gated(g))
		ask("198.51.100.1", "b.ok.test.") // warm delegations
		done := make(chan struct{})
		go func() {
			defer close(done)
			q := new(dns.Msg)
			q.SetQuestion("a.ok.test.", dns.TypeA)
			q.SetEdns0(1232, false)
			r := rs.Query("198.51.100.9", q)
			fmt.Println("A (held) got", ede(r))
		}()
		for g.Waiting() == 0 {
			time.Sleep(time.Millisecond)
		}
		fmt.Println("A is held at the authority; slots:", fmt.Sprint(rs.Handler.VerifSlots()))
		q := new(dns.Msg)
		q.SetQuestion("c.ok.test.", dns.TypeA)
		q.SetEdns0(1232, false)
		from := u.Log.Len()
		r := rs.Query("198.51.100.10", q)
		fmt.Println("B c.ok.test. ->", ede(r), "packets", u.Log.Len()-from)
		fmt.Printf("      state: %+v\n", rs.Cache().VerifC13Failures())
		from = u.Log.Len()
		r = rs.Query("198.51.100.11", q)
		fmt.Println("C c.ok.test. (A still held) ->", ede(r), "packets", u.Log.Len()-from)
		g.Release()
		<-done
		rs.Quiesce(5 * time.Second)
		from = u.Log.Len()
		r = rs.Query("198.51.100.12", q)
		fmt.Println("D c.ok.test. (after release) ->", ede(r), "packets", u.Log.Len()-from)
		fmt.Printf("      state: %+v\n", rs.Cache().VerifC13Failures())
		return
	}
	for _, n := range []string{"a.ok.test.", "a.dead.test.", "b.dead.test.", "a.dead.test.", "b.ok.test.", "nope.test.", "a.refused.test.", "b.refused.test.", "a.half.test.", "b.half.test.", "c.half.test."} {
		ask("198.51.100.1", n)
	}
	rs.Advance(5*time.Second + time.Millisecond)
	fmt.Println("--- after 5s")
	for _, n := range []string{"c.dead.test.", "c.refused.test."} {
		ask("198.51.100.2", n)
	}
}
