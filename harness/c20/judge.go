package main

// The oracle: the property statement applied to one observed
// (configuration, client query, downstream responses) → reply.

import (
	"fmt"
	"net/netip"
	"sort"
	"strings"

	"github.com/miekg/dns"
	"github.com/semihalev/sdns/zzverif/vlib"
)

func parseRRs(ss []string) []dns.RR {
	var out []dns.RR
	for _, s := range ss {
		if rr, err := dns.NewRR(s); err == nil && rr != nil {
			out = append(out, rr)
		}
	}
	return out
}

func aaaaOf(rr dns.RR) (a [16]byte, ok bool) {
	x, isA := rr.(*dns.AAAA)
	if !isA {
		return a, false
	}
	ip := x.AAAA.To16()
	if ip == nil {
		return a, false
	}
	copy(a[:], ip)
	return a, true
}

func aOf(rr dns.RR) (a [4]byte, ok bool) {
	x, isA := rr.(*dns.A)
	if !isA {
		return a, false
	}
	ip := x.A.To4()
	if ip == nil {
		return a, false
	}
	copy(a[:], ip)
	return a, true
}

// pipeVerdict / ptrVerdict summarise one judgement for callers that keep their
// own per-entry counters (the wire part).
type pipeVerdict struct {
	Judged     bool
	Synth      int // synthesised AAAA records in the reply
	SynthAddrs [][16]byte
	Reasons    []string
	Gray       string
	Violations []string
}

type ptrVerdict struct {
	Judged        bool
	Translated    bool
	MustTranslate bool
	Violations    []string
}

var dnssecFailureEDE = map[uint16]bool{5: true, 6: true, 7: true, 8: true, 9: true, 10: true, 11: true, 12: true}

// EDE codes on a SERVFAIL whose classification as "DNSSEC validation failure"
// the statement leaves open: 1, 2, 27 ("unsupported …": the code documents
// them as pass-through) and 25 (signature expired before valid: the code
// synthesises). Either behaviour is accepted and recorded.
var grayEDE = map[uint16]bool{1: true, 2: true, 25: true, 27: true}

func hasEDE(s *respSpec, set map[uint16]bool) (uint16, bool) {
	if !s.EDNS {
		return 0, false
	}
	for _, c := range s.EDE {
		if set[c] {
			return c, true
		}
	}
	return 0, false
}

// aFacts is what the oracle reads off the scripted A response.
type aFacts struct {
	terminal string
	addrs    map[[4]byte]uint32 // address → largest TTL among A records carrying it
	order    [][4]byte
}

func readA(c *pipeCase) aFacts {
	f := aFacts{terminal: c.Qname, addrs: map[[4]byte]uint32{}}
	for _, rr := range parseRRs(c.A.Answer) {
		switch v := rr.(type) {
		case *dns.CNAME:
			if strings.EqualFold(v.Hdr.Name, f.terminal) {
				f.terminal = v.Target
			}
		case *dns.A:
			if a, ok := aOf(v); ok {
				if t, seen := f.addrs[a]; !seen || v.Hdr.Ttl > t {
					f.addrs[a] = v.Hdr.Ttl
				}
				f.order = append(f.order, a)
			}
		}
	}
	return f
}

// forbidReasons lists every clause of the statement under which the reply to
// this case must not be a synthesised one, in a fixed order. gray reports a
// case the statement does not decide.
func forbidReasons(c *pipeCase, m *model, af aFacts) (reasons []string, gray string) {
	add := func(s string) { reasons = append(reasons, s) }
	if c.Qtype != dns.TypeAAAA {
		add("qtype-not-aaaa")
	}
	if !c.RD {
		add("rd0")
	}
	if c.CD {
		add("cd1")
	}
	if !m.eligible(c.Client) {
		add("client-ineligible")
	}
	if m.zoneExcluded(c.Qname) {
		add("zone-excluded")
	}
	s := &c.Resp
	if s.Rcode == dns.RcodeNameError {
		add("nxdomain")
	}
	if s.Rcode == dns.RcodeServerFailure {
		if _, ok := hasEDE(s, dnssecFailureEDE); ok {
			add("dnssec-failure")
		} else if code, ok := hasEDE(s, grayEDE); ok {
			gray = fmt.Sprintf("servfail-ede%d", code)
		}
		if _, ok := hasEDE(s, map[uint16]bool{13: true}); ok {
			add("cached-failure-ede13")
		}
	}
	switch s.Mark {
	case "cached":
		add("cached-failure-marker")
	default:
		if strings.HasPrefix(s.Mark, "local-") {
			add("request-local-failure")
		}
	}
	if s.Rcode == dns.RcodeSuccess {
		for _, rr := range parseRRs(s.Answer) {
			if a, ok := aaaaOf(rr); ok && !m.aaaaExcluded(a) {
				add("native-aaaa")
				break
			}
		}
	}
	// A side
	a := &c.A
	switch {
	case a.NoReply:
		add("a-no-response")
	case strings.HasPrefix(a.Mark, "local-"):
		add("a-request-local-failure")
	case a.Mark == "cached":
		add("a-cached-failure")
	case a.Rcode == dns.RcodeNameError:
		add("a-nxdomain")
	case a.Rcode == dns.RcodeServerFailure:
		add("a-servfail")
	case a.Rcode != dns.RcodeSuccess:
		add("a-other-rcode")
	case len(af.addrs) == 0:
		add("a-nodata")
	default:
		must, open := 0, 0
		for v4 := range af.addrs {
			for _, p := range m.prefixes {
				switch m.skipA(p, v4) {
				case 0:
					must++
				case -1:
					open++
				}
			}
		}
		if must == 0 && open == 0 {
			add("a-all-excluded-under-wkp")
		} else if must == 0 && gray == "" {
			gray = "a-only-open-ranges-under-wkp"
		}
	}
	return reasons, gray
}

// embedReading is one way to read an address: under a configured prefix that
// contains it. Configured prefixes may overlap, so an address can have several
// readings; it is an RFC 6052 embedding under every prefix where conf holds.
type embedReading struct {
	p    refPrefix
	v4   [4]byte
	conf bool
}

// readingsOf lists the readings of a under every legal configured prefix that
// contains it, in configured order.
func readingsOf(m *model, a [16]byte) (out []embedReading) {
	for _, p := range m.prefixes {
		if v4, in, conf := refExtract(p.Addr, p.Bits, a); in {
			out = append(out, embedReading{p, v4, conf})
		}
	}
	return out
}

func judgePipe(r *vlib.Run, e *env, c *pipeCase, o outcome) (v pipeVerdict) {
	m := e.m
	cnt := func(k string, n int) { r.Count(c.Ctr+k, n) }
	viol := func(sig, what string, _ any) {
		v.Violations = append(v.Violations, sig)
		r.Violation(c.SigPrefix+sig, what, c.replayCase())
	}
	if len(o.errs) > 0 {
		r.Inconclusive("harness: stub error: " + o.errs[0])
		return v
	}
	if o.panicV != nil {
		viol("panic/dns64-pipeline", fmt.Sprintf("pipeline panicked: %v", o.panicV), c)
		return v
	}
	r.Eval(1)
	cnt("pipe_triples", 1)
	reply := o.reply
	if reply == nil {
		cnt("pipe_no_reply_written", 1)
		return v
	}
	sent := o.sent["client"]
	type ak struct {
		owner string
		addr  [16]byte
	}
	stub := map[ak][]uint32{}
	if sent != nil {
		for _, rr := range sent.Answer {
			if a, ok := aaaaOf(rr); ok {
				k := ak{strings.ToLower(rr.Header().Name), a}
				stub[k] = append(stub[k], rr.Header().Ttl)
			}
		}
	}
	// AAAA records in the reply the downstream never produced = synthesised
	var synth []*dns.AAAA
	replyHas := map[ak]bool{}
	for _, rr := range reply.Answer {
		a, ok := aaaaOf(rr)
		if !ok {
			continue
		}
		k := ak{strings.ToLower(rr.Header().Name), a}
		replyHas[k] = true
		found := false
		for _, t := range stub[k] {
			if t == rr.Header().Ttl {
				found = true
			}
		}
		if !found {
			synth = append(synth, rr.(*dns.AAAA))
		}
	}
	kept, stripped := 0, 0
	for k := range stub {
		if replyHas[k] {
			kept++
		} else {
			stripped++
		}
	}

	af := readA(c)
	reasons, gray := forbidReasons(c, m, af)
	v.Judged, v.Synth, v.Reasons, v.Gray = true, len(synth), reasons, gray
	if c.Resp.EDNS {
		for _, code := range c.Resp.EDE {
			if c.Resp.Rcode == dns.RcodeServerFailure {
				r.DistinctIn(c.Ctr+"ede_codes_with_servfail", fmt.Sprint(code))
			} else {
				r.DistinctIn(c.Ctr+"ede_codes_with_other_rcode", fmt.Sprint(code))
			}
		}
	}
	aLookups := 0
	for _, cl := range o.calls {
		if cl.Internal && cl.Qtype == dns.TypeA {
			aLookups++
			if !cl.RD {
				cnt("a_lookup_rd0", 1)
			}
		}
	}
	cnt("a_lookups", aLookups)

	// "AAAA-filtered reply never carries AD"
	if stripped > 0 {
		cnt("filtered_replies", 1)
		if kept > 0 {
			cnt("filtered_replies_aaaa_kept", 1)
			if c.Resp.AD {
				cnt("filtered_replies_aaaa_kept_upstream_ad", 1)
			}
		}
		if kept == 0 && len(synth) == 0 && c.Resp.AD {
			// every downstream AAAA stripped, nothing synthesised, upstream
			// had AD=1: split by why synthesis produced nothing
			why := "none"
			if rs, _ := forbidReasons(c, m, readA(c)); len(rs) > 0 {
				why = rs[len(rs)-1]
			}
			cnt("filtered_all_stripped_no_synth_upstream_ad", 1)
			cnt("filtered_all_stripped_no_synth_upstream_ad/"+why, 1)
			if reply.AuthenticatedData {
				cnt("filtered_all_stripped_no_synth_reply_ad/"+why, 1)
			}
		}
		if reply.AuthenticatedData && len(synth) == 0 {
			sig := "ad/set-on-filtered/aaaa-kept"
			if kept == 0 {
				sig = "ad/set-on-filtered/all-stripped-no-synthesis"
			}
			viol(sig, fmt.Sprintf("reply to %s AAAA has %d downstream AAAA record(s) filtered out (%d kept) and still carries AD=1", c.Qname, stripped, kept), c)
		}
	}

	if len(synth) == 0 {
		switch {
		case len(reasons) > 0:
			cnt("nosynth_with_reason", 1)
			for _, rs := range reasons {
				cnt("nosynth_reason_"+rs, 1)
			}
			if len(reasons) == 1 {
				cnt("nosynth_sole_"+reasons[0], 1)
				if reasons[0] == "dnssec-failure" && len(c.Resp.EDE) > 1 && !dnssecFailureEDE[c.Resp.EDE[0]] {
					cnt("nosynth_sole_dnssec-failure_ede_not_first", 1)
				}
				if reasons[0] == "a-all-excluded-under-wkp" && m.defaultedWKP {
					cnt("nosynth_sole_a-all-excluded-under-defaulted-wkp", 1)
				}
				r.Distinct(c.Ctr + "nosynth/" + reasons[0] + "/" + c.Resp.Shape + "/" + c.A.Shape)
			}
			if aLookups > 0 && !strings.HasPrefix(reasons[0], "a-") {
				cnt("a_lookup_issued_although_aaaa_side_forbids", 1)
			}
		case gray != "":
			cnt("nosynth_open_"+gray, 1)
		default:
			// allowed, downstream had translatable A records, yet nothing
			// synthesised: not forbidden by the statement; recorded.
			cnt("nosynth_unexplained", 1)
			r.Sample(map[string]any{"kind": "nosynth-unexplained", "case": c})
		}
		return v
	}

	// ---- a synthesised reply
	cnt("synth_replies", 1)
	if len(reasons) > 0 {
		viol("synth/forbidden/"+reasons[0],
			fmt.Sprintf("%d AAAA record(s) synthesised for %s although: %s", len(synth), c.Qname, strings.Join(reasons, ", ")), c)
		return v
	}
	if gray != "" {
		cnt("synth_open_"+gray, 1)
	}
	if reply.AuthenticatedData {
		viol("ad/set-on-synthesised", fmt.Sprintf("synthesised reply for %s carries AD=1 (downstream AAAA AD=%v, A AD=%v)", c.Qname, c.Resp.AD, c.A.AD), c)
	}
	if c.Resp.AD || c.A.AD {
		cnt("synth_replies_downstream_ad", 1)
	}

	// negative TTL of the AAAA response (RFC 2308 §5): only for a real NODATA
	negKnown, neg, soaTTL, soaMin := false, uint32(0), uint32(0), uint32(0)
	if c.Resp.Rcode == dns.RcodeSuccess && len(stub) == 0 {
		var soas []*dns.SOA
		for _, rr := range parseRRs(c.Resp.Ns) {
			if s, ok := rr.(*dns.SOA); ok {
				soas = append(soas, s)
			}
		}
		if len(soas) == 1 {
			negKnown, soaTTL, soaMin = true, soas[0].Hdr.Ttl, soas[0].Minttl
			neg = min(soaTTL, soaMin)
		}
	}

	type pair struct {
		p  string
		v4 [4]byte
	}
	seen := map[pair]bool{}
	lens := map[int]bool{}
	for _, rr := range synth {
		addr, _ := aaaaOf(rr)
		cnt("synth_records", 1)
		readings := readingsOf(m, addr)
		if len(readings) == 0 {
			viol("synth/aaaa-outside-configured-prefixes",
				fmt.Sprintf("reply for %s contains AAAA %s that the downstream never sent and that lies in no legal configured Pref64 %v", c.Qname, netip.AddrFrom16(addr), m.prefixes), c)
			continue
		}
		// the (prefix, A record) pairs this address is the embedding of; with
		// overlapping prefixes the producing prefix need not be the first one
		// that contains the address
		var match []embedReading
		matchAt := -1
		for i, rd := range readings {
			if _, isA := af.addrs[rd.v4]; rd.conf && isA && refEmbed(rd.p.Addr, rd.p.Bits, rd.v4) == addr {
				if matchAt < 0 {
					matchAt = i
				}
				match = append(match, rd)
			}
		}
		if len(match) == 0 {
			rd := readings[0]
			viol(fmt.Sprintf("embed/pipeline-not-rfc6052/len%d", rd.p.Bits),
				fmt.Sprintf("synthesised %s under %s is not the RFC 6052 embedding of any A record of the target (reads back as %s, conformant=%v; %d configured prefix(es) contain it; A records %v)",
					netip.AddrFrom16(addr), rd.p, v4s(rd.v4), rd.conf, len(readings), addrList(af)), c)
			continue
		}
		v.SynthAddrs = append(v.SynthAddrs, addr)
		allSkipped := true
		aTTL := uint32(0)
		for _, rd := range match {
			if m.skipA(rd.p, rd.v4) != 1 {
				allSkipped = false
			}
			aTTL = max(aTTL, af.addrs[rd.v4])
			seen[pair{rd.p.String(), rd.v4}] = true
			lens[rd.p.Bits] = true
			cnt(fmt.Sprintf("synth_pairs_len%d", rd.p.Bits), 1)
		}
		v4 := match[0].v4
		if allSkipped {
			viol("synth/excluded-ipv4-under-wkp",
				fmt.Sprintf("synthesised %s embeds %s, which is in the IPv4 exclusion set of the well-known prefix", netip.AddrFrom16(addr), v4s(v4)), c)
		}
		if matchAt > 0 {
			// an earlier configured prefix contains the address without being
			// the one it was embedded under
			cnt("synth_records_under_overlapped_prefix", 1)
		}
		if len(match) > 1 {
			cnt("synth_records_ambiguous_overlap", 1)
		}
		if !strings.EqualFold(rr.Hdr.Name, af.terminal) {
			viol("owner/not-terminal-name",
				fmt.Sprintf("synthesised AAAA owned by %q; the queried name after the alias chain is %q", rr.Hdr.Name, af.terminal), c)
		}
		if !strings.EqualFold(af.terminal, c.Qname) {
			cnt("synth_records_behind_alias_chain", 1)
		}
		if rr.Hdr.Ttl > aTTL {
			viol("ttl/exceeds-a-ttl", fmt.Sprintf("synthesised AAAA TTL %d > TTL %d of A %s", rr.Hdr.Ttl, aTTL, v4s(v4)), c)
		}
		if negKnown {
			cnt("synth_records_with_negative_ttl_bound", 1)
			if rr.Hdr.Ttl > neg {
				sig := "ttl/exceeds-negative-ttl"
				switch {
				case soaTTL == 0:
					sig += "/soa-ttl-zero"
				case soaMin == 0:
					sig += "/soa-minimum-zero"
				}
				viol(sig, fmt.Sprintf("synthesised AAAA TTL %d > AAAA negative TTL %d (SOA TTL %d, MINIMUM %d); A TTL %d",
					rr.Hdr.Ttl, neg, soaTTL, soaMin, af.addrs[v4]), c)
			}
		}
	}
	// "into each configured prefix": every (A, prefix) pair that is not
	// excluded must be present
	var missing []string
	for _, v4 := range af.order {
		for _, p := range m.prefixes {
			if m.skipA(p, v4) == 0 && !seen[pair{p.String(), v4}] {
				missing = append(missing, fmt.Sprintf("%s→%s", v4s(v4), p))
			}
			if m.skipA(p, v4) == 1 {
				cnt("synth_pairs_skipped_excluded_under_wkp", 1)
				if m.defaultedWKP {
					cnt("synth_pairs_skipped_excluded_under_defaulted_wkp", 1)
				}
			}
		}
	}
	if len(missing) > 0 {
		sort.Strings(missing)
		viol("synth/missing-a-prefix-pair", fmt.Sprintf("synthesised reply lacks the embedding of: %s", strings.Join(missing, " ")), c)
	}
	for l := range lens {
		cnt(fmt.Sprintf("synth_replies_len%d", l), 1)
	}
	if m.defaultedWKP {
		cnt("synth_replies_defaulted_wkp", 1)
	}
	if len(m.prefixes) > 1 {
		cnt("synth_replies_multi_prefix", 1)
	}
	if len(m.inner) > 0 {
		cnt("synth_replies_overlapping_prefixes", 1)
	}
	r.Distinct(c.Ctr + fmt.Sprintf("synth/%v/%s/%s/%d", sortedLens(lens), c.Resp.Shape, c.A.Shape, len(af.addrs)))
	if r.Counter(c.Ctr+"synth_replies") <= 2 {
		r.Sample(map[string]any{"kind": c.Ctr + "synthesised", "qname": c.Qname, "prefixes": c.Cfg.Prefixes, "a": c.A.Answer, "reply_answer": rrStrings(reply.Answer)})
	}
	return v
}

func sortedLens(m map[int]bool) []int {
	var out []int
	for l := range m {
		out = append(out, l)
	}
	sort.Ints(out)
	return out
}

func addrList(af aFacts) []string {
	var out []string
	for _, a := range af.order {
		out = append(out, v4s(a))
	}
	return out
}

func rrStrings(rrs []dns.RR) []string {
	var out []string
	for _, rr := range rrs {
		out = append(out, strings.ReplaceAll(rr.String(), "\t", " "))
	}
	return out
}

// judgePTR: ip6.arpa PTR queries.
func judgePTR(r *vlib.Run, e *env, c *pipeCase, o outcome) (v ptrVerdict) {
	m := e.m
	cnt := func(k string, n int) { r.Count(c.Ctr+k, n) }
	viol := func(sig, what string, _ any) {
		v.Violations = append(v.Violations, sig)
		r.Violation(c.SigPrefix+sig, what, c.replayCase())
	}
	if len(o.errs) > 0 {
		r.Inconclusive("harness: stub error: " + o.errs[0])
		return v
	}
	if o.panicV != nil {
		viol("panic/dns64-pipeline", fmt.Sprintf("pipeline panicked on PTR %s: %v", c.Qname, o.panicV), c)
		return v
	}
	r.Eval(1)
	cnt("ptr_cases", 1)
	cnt("ptr_gen_"+c.PTRGen, 1)
	reply := o.reply
	if reply == nil {
		cnt("ptr_no_reply_written", 1)
		return v
	}
	v.Judged = true
	addr, wellFormed := refParseIP6Arpa(c.Qname)
	// Readings of the address under every configured prefix that contains it
	// (prefixes may overlap). must = the first reading under which the address
	// is a conformant embedding of an IPv4 address that has to be translated:
	// such an address is one the server synthesises, so its PTR name has to
	// map back, whichever other configured prefix also covers it.
	var readings []embedReading
	if wellFormed {
		readings = readingsOf(m, addr)
	}
	inPrefix := len(readings) > 0
	anyConf, mustAt := false, -1
	for i, rd := range readings {
		anyConf = anyConf || rd.conf
		if rd.conf && mustAt < 0 && m.skipA(rd.p, rd.v4) == 0 {
			mustAt = i
		}
	}
	if len(m.inner) > 0 {
		cnt("ptr_cases_overlapping_prefixes", 1)
	}
	var forbid []string
	if !c.RD {
		forbid = append(forbid, "rd0")
	}
	if c.CD {
		forbid = append(forbid, "cd1")
	}
	if !m.eligible(c.Client) {
		forbid = append(forbid, "client-ineligible")
	}
	// the downstream never emits a CNAME: a CNAME owned by the query name is
	// the translation
	var cname *dns.CNAME
	nPTR := 0
	for _, rr := range reply.Answer {
		switch v := rr.(type) {
		case *dns.CNAME:
			if strings.EqualFold(v.Hdr.Name, c.Qname) && cname == nil {
				cname = v
			}
		case *dns.PTR:
			nPTR++
		}
	}
	if cname == nil {
		mustTranslate := len(forbid) == 0 && mustAt >= 0
		v.MustTranslate = mustTranslate
		switch {
		case mustTranslate && c.Shadowed:
			// an empty zone (as112, RFC 6303) of the pipeline under test owns
			// this ip6.arpa name and answers ahead of dns64
			cnt("ptr_shadowed_by_empty_zone", 1)
		case mustTranslate && c.PTR.Mark == "local-attempt":
			// the in-addr.arpa chase hit the request tree's attempt limit: a
			// marked SERVFAIL instead of an answer is not a mapping error
			cnt("ptr_chase_attempt_limit", 1)
		case mustTranslate:
			rd := readings[mustAt]
			sig, note := "ptr/not-translated", ""
			if mustAt > 0 {
				sig += "/under-overlapped-prefix"
				note = fmt.Sprintf(" (%s, listed earlier, also contains the address but not as a conformant embedding of a translatable address)", readings[0].p)
			}
			viol(sig,
				fmt.Sprintf("PTR %s is the ip6.arpa name of %s = RFC 6052 embedding of %s in %s%s, but the reply has no CNAME to %s",
					c.Qname, netip.AddrFrom16(addr), v4s(rd.v4), rd.p, note, refInAddrArpa(rd.v4)), c)
		default:
			cnt("ptr_passthrough", 1)
			switch {
			case len(forbid) > 0:
				cnt("ptr_passthrough_"+forbid[0], 1)
			case !wellFormed:
				cnt("ptr_passthrough_malformed_name", 1)
			case !inPrefix:
				cnt("ptr_passthrough_outside_prefixes", 1)
			case !anyConf:
				cnt("ptr_passthrough_nonconformant_address", 1)
			default:
				cnt("ptr_passthrough_excluded_or_open_ipv4_under_wkp", 1)
			}
		}
		return v
	}
	cnt("ptr_translated", 1)
	v.Translated = true
	if len(forbid) > 0 {
		viol("ptr/translated-when-forbidden/"+forbid[0], fmt.Sprintf("PTR %s translated although: %s", c.Qname, strings.Join(forbid, ", ")), c)
		return v
	}
	if reply.AuthenticatedData {
		viol("ad/set-on-ptr-translation", fmt.Sprintf("PTR %s answered with a synthesised CNAME and AD=1", c.Qname), c)
	}
	t4, ok := refParseInAddr(cname.Target)
	// the reading the redirect target agrees with (a conformant one preferred)
	hit := -1
	for i, rd := range readings {
		if rd.v4 == t4 && (hit < 0 || (rd.conf && !readings[hit].conf)) {
			hit = i
		}
	}
	switch {
	case !ok:
		viol("ptr/target-not-in-addr-arpa", fmt.Sprintf("PTR %s redirected to %q", c.Qname, cname.Target), c)
	case !wellFormed || !inPrefix:
		viol("ptr/translated-unmappable",
			fmt.Sprintf("PTR %s (well-formed=%v, inside a configured Pref64=%v) redirected to %s", c.Qname, wellFormed, inPrefix, cname.Target), c)
	case hit < 0:
		rd := readings[0]
		if mustAt >= 0 {
			rd = readings[mustAt]
		}
		viol(fmt.Sprintf("ptr/wrong-ipv4/len%d", rd.p.Bits),
			fmt.Sprintf("PTR %s (%s in %s) redirected to %s; the embedded IPv4 address is %s (%d configured prefix(es) contain the address, none reads as the target)",
				c.Qname, netip.AddrFrom16(addr), rd.p, cname.Target, v4s(rd.v4), len(readings)), c)
	case !readings[hit].conf:
		cnt("ptr_translated_nonconformant_address", 1)
	default:
		rd := readings[hit]
		if refEmbed(rd.p.Addr, rd.p.Bits, t4) != addr {
			viol("ptr/roundtrip", "re-embedding the redirect target does not give the queried address", c)
		}
		cnt(fmt.Sprintf("ptr_translated_len%d", rd.p.Bits), 1)
		if m.skipA(rd.p, rd.v4) == 1 {
			cnt("ptr_translated_excluded_ipv4_under_wkp", 1)
		}
		if nPTR > 0 {
			cnt("ptr_translated_with_chased_ptr", 1)
		}
		nConf := 0
		for _, x := range readings {
			if x.conf {
				nConf++
			}
		}
		switch {
		case nConf > 1:
			// a conformant embedding under two overlapping prefixes: either
			// IPv4 address maps back to the queried address
			cnt("ptr_translated_ambiguous_overlap", 1)
		case hit > 0:
			// an earlier configured prefix covers the address without the
			// address being an embedding under it
			cnt("ptr_translated_under_overlapped_prefix", 1)
			cnt(fmt.Sprintf("ptr_translated_under_overlapped_prefix_len%d_in_len%d", rd.p.Bits, readings[0].p.Bits), 1)
		case len(readings) > 1:
			cnt("ptr_translated_under_overlapping_prefix_listed_first", 1)
		}
		r.Distinct(c.Ctr + fmt.Sprintf("ptr/%d/%s/%s", rd.p.Bits, c.PTR.Shape, c.Resp.Shape))
		if len(readings) > 1 {
			r.Distinct(c.Ctr + fmt.Sprintf("ptr-overlap/%d-in-%d/at%d/%s", rd.p.Bits, readings[0].p.Bits, hit, c.PTR.Shape))
		}
	}
	return v
}

// judgeConfig: illegal prefixes refused, legal ones compiled, in order.
func judgeConfig(r *vlib.Run, e *env, c cfgSpec) {
	r.Eval(1)
	r.Count("configs", 1)
	var want, got []netip.Prefix
	for _, p := range e.m.prefixes {
		want = append(want, netip.PrefixFrom(netip.AddrFrom16(p.Addr), p.Bits))
	}
	for _, s := range e.comp.Prefixes {
		p, err := netip.ParsePrefix(s)
		if err != nil {
			r.Violation("config/compiled-prefix-unparsable", fmt.Sprintf("compiled prefix %q", s), map[string]any{"kind": "config", "cfg": c})
			return
		}
		got = append(got, p)
	}
	gotSet := map[netip.Prefix]bool{}
	for _, p := range got {
		gotSet[p] = true
	}
	wantSet := map[netip.Prefix]bool{}
	for _, p := range want {
		wantSet[p] = true
	}
	for _, p := range got {
		if !wantSet[p] {
			why := "not-configured"
			switch {
			case !p.Addr().Is6():
				why = "ipv4"
			case !isLegalLen(p.Bits()):
				why = "length"
			case p.Addr().As16()[8] != 0:
				why = "nonzero-u"
			}
			r.Violation("config/illegal-prefix-accepted/"+why, fmt.Sprintf("compiled prefixes %v contain %s; configured %q, legal per RFC 6052 §2.2: %v", got, p, c.Prefixes, want),
				map[string]any{"kind": "config", "cfg": c})
		}
	}
	for _, p := range want {
		if !gotSet[p] {
			r.Violation("config/legal-prefix-refused", fmt.Sprintf("compiled prefixes %v lack %s; configured %q", got, p, c.Prefixes),
				map[string]any{"kind": "config", "cfg": c})
		}
	}
	if len(got) == len(want) {
		for i := range got {
			if got[i] != want[i] {
				r.Count("config_prefix_order_differs", 1)
				break
			}
		}
	}
	for _, ip := range e.m.illegal {
		r.Count("config_illegal_entries_refused", 1)
		r.Count("config_illegal_refused_"+ip.Why, 1)
	}
	if len(e.m.illegal) > 0 {
		r.Distinct(fmt.Sprintf("cfg-illegal/%q", c.Prefixes))
	}
	for _, p := range e.m.prefixes {
		r.Count(fmt.Sprintf("config_prefixes_len%d", p.Bits), 1)
	}
}
