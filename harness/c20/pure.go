package main

// Layer A — pure embedding differential: the real validatePrefix / embedIPv4 /
// extractIPv4 / parseIP6ArpaName / inAddrArpa (through the verif hook) against
// the reference model of rfc6052.go.

import (
	"fmt"
	"math/rand/v2"
	"net"
	"net/netip"

	"github.com/semihalev/sdns/middleware/dns64"
	"github.com/semihalev/sdns/zzverif/vlib"
)

type pureCase struct {
	Kind   string `json:"kind"` // "pure"
	Prefix string `json:"prefix"`
	Bits   int    `json:"bits"`
	V4     string `json:"v4,omitempty"`
	Addr   string `json:"addr,omitempty"`
	Raw    bool   `json:"raw_ipnet,omitempty"` // prefix handed over unmasked as a net.IPNet
}

var boundary = []byte{0, 1, 127, 128, 255}

func randPrefixBytes(rng *rand.Rand, bits int) [16]byte {
	var p [16]byte
	for i := range p {
		p[i] = byte(rng.UintN(256))
	}
	switch rng.IntN(5) {
	case 0:
		copy(p[:], []byte{0x20, 0x01, 0x0d, 0xb8})
	case 1:
		copy(p[:], []byte{0x00, 0x64, 0xff, 0x9b})
	case 2: // all ones — carries show up immediately
		for i := range p {
			p[i] = 0xff
		}
	}
	for i := bits; i < 128; i++ {
		setBit(p[:], i, 0)
	}
	if bits == 96 {
		p[8] = 0
	}
	return p
}

func ipnet(addr [16]byte, bits int) *net.IPNet {
	ip := make(net.IP, 16)
	copy(ip, addr[:])
	return &net.IPNet{IP: ip, Mask: net.CIDRMask(bits, 128)}
}

func to16(ip net.IP) (a [16]byte, ok bool) {
	x := ip.To16()
	if x == nil || len(ip) != 16 {
		return a, false
	}
	copy(a[:], x)
	return a, true
}

// checkPair judges one (prefix, v4) pair. unmasked!=nil hands the real code an
// IPNet whose IP still has host bits set (validatePrefix accepts it; the
// documented behaviour is that only the prefix octets are used and byte 8 and
// the suffix are written as zero).
func checkPair(r *vlib.Run, pfx [16]byte, bits int, v4 [4]byte, unmasked *[16]byte) {
	n := ipnet(pfx, bits)
	raw := false
	if unmasked != nil {
		n = ipnet(*unmasked, bits)
		raw = true
	}
	pc := func() pureCase {
		return pureCase{Kind: "pure", Prefix: netip.AddrFrom16(pfx).String(), Bits: bits,
			V4: netip.AddrFrom4(v4).String(), Raw: raw}
	}
	want := refEmbed(pfx, bits, v4)
	gotIP := dns64.VerifC20Embed(n, net.IP(v4[:]))
	r.Eval(1)
	r.Count("pure_roundtrips", 1)
	r.Count(fmt.Sprintf("pure_roundtrips_len%d", bits), 1)
	got, ok := to16(gotIP)
	if !ok {
		r.Violation(fmt.Sprintf("embed/not-16-bytes/len%d", bits), fmt.Sprintf("embedIPv4(%s/%d, %v) returned %d bytes", netip.AddrFrom16(pfx), bits, v4, len(gotIP)), pc())
		return
	}
	if got != want {
		r.Violation(fmt.Sprintf("embed/differs-from-rfc6052/len%d", bits),
			fmt.Sprintf("embedIPv4(%s/%d, %s) = %s, RFC 6052 §2.2 embedding is %s", netip.AddrFrom16(pfx), bits, netip.AddrFrom4(v4), netip.AddrFrom16(got), netip.AddrFrom16(want)), pc())
	}
	if got[8] != 0 {
		r.Violation(fmt.Sprintf("embed/reserved-octet-nonzero/len%d", bits),
			fmt.Sprintf("embedIPv4(%s/%d, %s) = %s has bits 64-71 = %#x", netip.AddrFrom16(pfx), bits, netip.AddrFrom4(v4), netip.AddrFrom16(got), got[8]), pc())
	}
	if _, _, conf := refExtract(pfx, bits, got); !conf {
		r.Violation(fmt.Sprintf("embed/suffix-or-u-nonzero/len%d", bits),
			fmt.Sprintf("embedIPv4(%s/%d, %s) = %s is not a conformant IPv4-embedded address", netip.AddrFrom16(pfx), bits, netip.AddrFrom4(v4), netip.AddrFrom16(got)), pc())
	}
	// reversibility through the real inverse, on the real output and on the
	// reference output
	for _, src := range [][16]byte{got, want} {
		back, ok := dns64.VerifC20Extract(n, net.IP(src[:]))
		b4 := back.To4()
		if !ok || b4 == nil || [4]byte{b4[0], b4[1], b4[2], b4[3]} != v4 {
			r.Violation(fmt.Sprintf("extract/roundtrip/len%d", bits),
				fmt.Sprintf("extractIPv4(%s/%d, %s) = (%v,%v), want %s", netip.AddrFrom16(pfx), bits, netip.AddrFrom16(src), back, ok, netip.AddrFrom4(v4)), pc())
		}
		if got == want {
			break
		}
	}
}

func runPure(r *vlib.Run) {
	prefixesPerLen := r.N(24, 600)
	randomPerPrefix := r.N(12000, 60000)
	for li, bits := range legalLens {
		for pi := 0; pi < prefixesPerLen; pi++ {
			rng := r.RandN("pure", li*100000+pi)
			pfx := randPrefixBytes(rng, bits)
			n := ipnet(pfx, bits)
			r.Count("pure_prefixes", 1)
			if err := dns64.VerifC20ValidatePrefix(n); err != nil {
				r.Violation(fmt.Sprintf("validate/legal-prefix-refused/len%d", bits),
					fmt.Sprintf("validatePrefix(%s/%d) = %v for a legal RFC 6052 prefix", netip.AddrFrom16(pfx), bits, err),
					pureCase{Kind: "pure", Prefix: netip.AddrFrom16(pfx).String(), Bits: bits})
			}
			// every octet-boundary combination
			for _, a := range boundary {
				for _, b := range boundary {
					for _, c := range boundary {
						for _, d := range boundary {
							checkPair(r, pfx, bits, [4]byte{a, b, c, d}, nil)
							r.Count("pure_boundary_pairs", 1)
						}
					}
				}
			}
			for k := 0; k < randomPerPrefix; k++ {
				x := rng.Uint32()
				checkPair(r, pfx, bits, [4]byte{byte(x >> 24), byte(x >> 16), byte(x >> 8), byte(x)}, nil)
			}
			// the same prefix handed over with host bits (incl. bits 64-71) set
			if bits < 96 {
				un := pfx
				for i := bits / 8; i < 16; i++ {
					un[i] = byte(rng.UintN(255) + 1)
				}
				for k := 0; k < 200; k++ {
					x := rng.Uint32()
					checkPair(r, pfx, bits, [4]byte{byte(x >> 24), byte(x >> 16), byte(x >> 8), byte(x)}, &un)
					r.Count("pure_unmasked_prefix_pairs", 1)
				}
			}
			// non-conformant addresses inside the prefix: the reference calls
			// them non-conformant; what the real inverse does is recorded (the
			// statement only constrains synthesised addresses).
			res := reservedBits(bits)
			for k := 0; k < 40 && len(res) > 0; k++ {
				x := rng.Uint32()
				addr := refEmbed(pfx, bits, [4]byte{byte(x >> 24), byte(x >> 16), byte(x >> 8), byte(x)})
				setBit(addr[:], res[rng.IntN(len(res))], 1)
				if _, _, conf := refExtract(pfx, bits, addr); conf {
					r.Inconclusive("harness: perturbed address still conformant")
				}
				if _, ok := dns64.VerifC20Extract(n, net.IP(addr[:])); ok {
					r.Count("pure_nonconformant_accepted_by_extract", 1)
				} else {
					r.Count("pure_nonconformant_refused_by_extract", 1)
				}
			}
			// addresses outside the prefix must not extract
			for k := 0; k < 20; k++ {
				addr := refEmbed(pfx, bits, [4]byte{1, 2, 3, 4})
				bit := rng.IntN(bits)
				setBit(addr[:], bit, 1-getBit(addr[:], bit))
				r.Eval(1)
				if v, ok := dns64.VerifC20Extract(n, net.IP(addr[:])); ok {
					r.Violation(fmt.Sprintf("extract/outside-prefix-accepted/len%d", bits),
						fmt.Sprintf("extractIPv4(%s/%d, %s) = %v although the address is outside the prefix", netip.AddrFrom16(pfx), bits, netip.AddrFrom16(addr), v),
						pureCase{Kind: "pure", Prefix: netip.AddrFrom16(pfx).String(), Bits: bits, Addr: netip.AddrFrom16(addr).String()})
				}
				r.Count("pure_outside_prefix_refused", 1)
			}
			r.Distinct(fmt.Sprintf("pure/%d/%x", bits, pfx))
		}
	}
	runIllegal(r)
	runArpaPure(r)
}

// reservedBits lists the bit positions after the prefix that do not carry the
// embedded IPv4 address (the "u" octet and the suffix); empty for /96.
func reservedBits(bits int) []int {
	carries := map[int]bool{}
	pos := bits
	for j := 0; j < 32; j++ {
		for pos >= 64 && pos <= 71 {
			pos++
		}
		carries[pos] = true
		pos++
	}
	var out []int
	for i := bits; i < 128; i++ {
		if !carries[i] {
			out = append(out, i)
		}
	}
	return out
}

// runIllegal: prefixes the validation must refuse.
func runIllegal(r *vlib.Run) {
	rng := r.Rand("illegal")
	refuse := func(kind string, n *net.IPNet, desc string) {
		r.Eval(1)
		var err error
		func() {
			defer func() {
				if p := recover(); p != nil {
					r.Violation("panic/validatePrefix", fmt.Sprintf("validatePrefix(%s) panicked: %v", desc, p), pureCase{Kind: "pure", Prefix: desc})
					err = fmt.Errorf("panic")
				}
			}()
			err = dns64.VerifC20ValidatePrefix(n)
		}()
		if err == nil {
			r.Violation("validate/illegal-prefix-accepted/"+kind, fmt.Sprintf("validatePrefix(%s) accepted an illegal Pref64 (%s)", desc, kind), pureCase{Kind: "pure", Prefix: desc})
			return
		}
		r.Count("illegal_refused_"+kind, 1)
		r.Count("illegal_refused", 1)
	}
	// every IPv6 length that is not one of the six
	for bits := 0; bits <= 128; bits++ {
		if isLegalLen(bits) {
			continue
		}
		for k := 0; k < 4; k++ {
			p := randPrefixBytes(rng, bits)
			if bits >= 72 {
				p[8] = 0 // isolate the length as the only defect
			}
			refuse("length", ipnet(p, bits), fmt.Sprintf("%s/%d", netip.AddrFrom16(p), bits))
		}
	}
	// IPv4 prefixes of every length (4-byte mask)
	for bits := 0; bits <= 32; bits++ {
		ip := net.IPv4(byte(rng.UintN(256)), byte(rng.UintN(256)), byte(rng.UintN(256)), byte(rng.UintN(256))).To4()
		m := net.CIDRMask(bits, 32)
		n := &net.IPNet{IP: ip.Mask(m), Mask: m}
		refuse("ipv4", n, n.String())
	}
	// /96 with a non-zero reserved octet
	for k := 0; k < 300; k++ {
		p := randPrefixBytes(rng, 96)
		p[8] = byte(rng.UintN(255) + 1)
		if k < 8 {
			p[8] = 1 << uint(k)
		}
		refuse("nonzero-u-96", ipnet(p, 96), fmt.Sprintf("%s/96", netip.AddrFrom16(p)))
	}
	refuse("nil", nil, "<nil>")
}

// runArpaPure: name codecs.
func runArpaPure(r *vlib.Run) {
	rng := r.Rand("arpa")
	n := r.N(60000, 600000)
	for i := 0; i < n; i++ {
		var a [16]byte
		for j := range a {
			a[j] = byte(rng.UintN(256))
		}
		if i%3 == 0 { // boundary nibbles
			for j := range a {
				a[j] = []byte{0x00, 0x0f, 0xf0, 0xff, 0x9a, 0xa9}[rng.IntN(6)]
			}
		}
		name := refIP6Arpa(a)
		r.Eval(1)
		got, ok := dns64.VerifC20ParseIP6Arpa(name)
		g, ok16 := to16(got)
		if !ok || !ok16 || g != a {
			r.Violation("arpa/ip6-parse-mismatch", fmt.Sprintf("parseIP6ArpaName(%s) = (%v,%v), want %s", name, got, ok, netip.AddrFrom16(a)),
				map[string]any{"kind": "arpa", "name": name})
		}
		v4 := [4]byte{a[0], a[5], a[10], a[15]}
		if s := dns64.VerifC20InAddrArpa(net.IP(v4[:])); s != refInAddrArpa(v4) {
			r.Violation("arpa/in-addr-name-mismatch", fmt.Sprintf("inAddrArpa(%v) = %q, want %q", v4, s, refInAddrArpa(v4)),
				map[string]any{"kind": "arpa", "v4": netip.AddrFrom4(v4).String()})
		}
		r.Count("pure_arpa_roundtrips", 1)
	}
}

func replayPure(r *vlib.Run, pc pureCase) {
	a, err := netip.ParseAddr(pc.Prefix)
	if err != nil || !isLegalLen(pc.Bits) || pc.V4 == "" {
		// illegal-prefix cases carry a CIDR string
		if p, perr := netip.ParsePrefix(pc.Prefix); perr == nil {
			var n *net.IPNet
			if p.Addr().Is4() {
				b := p.Addr().As4()
				n = &net.IPNet{IP: net.IP(b[:]), Mask: net.CIDRMask(p.Bits(), 32)}
			} else {
				n = ipnet(p.Addr().As16(), p.Bits())
			}
			r.Eval(1)
			if dns64.VerifC20ValidatePrefix(n) == nil && !parseRefPrefix(pc.Prefix).Legal {
				r.Violation("validate/illegal-prefix-accepted/replay", "validatePrefix accepted "+pc.Prefix, pc)
			}
			return
		}
		r.Inconclusive("replay: cannot parse pure case")
		return
	}
	v, err := netip.ParseAddr(pc.V4)
	if err != nil || !v.Is4() {
		r.Inconclusive("replay: bad v4")
		return
	}
	checkPair(r, a.As16(), pc.Bits, v.As4(), nil)
}
