package main

// Deterministic generators: configurations, client queries, downstream shapes.

import (
	"fmt"
	"math/rand/v2"
	"net/netip"
	"strings"

	"github.com/miekg/dns"
)

func pick[T any](rng *rand.Rand, xs []T) T { return xs[rng.IntN(len(xs))] }

type wchoice struct {
	name string
	w    int
}

func weighted(rng *rand.Rand, cs []wchoice) string {
	tot := 0
	for _, c := range cs {
		tot += c.w
	}
	x := rng.IntN(tot)
	for _, c := range cs {
		if x < c.w {
			return c.name
		}
		x -= c.w
	}
	return cs[0].name
}

var illegalPool = []string{
	"2001:db8::/33", "2001:db8::/31", "2001:db8:1::/47", "2001:db8:1:2::/63", "2001:db8:1:2::/65",
	"2001:db8:1:2::/72", "2001:db8:1:2::/80", "2001:db8:1:2:0:3::/95", "2001:db8:1:2:0:3::/97",
	"2001:db8::1/128", "::/0", "2001:db8::/24", "2001:db8::/16",
	"192.0.2.0/24", "10.0.0.0/8", "100.64.0.0/32", "0.0.0.0/0",
	"2001:db8:0:0:100::/96", "2001:db8:0:0:ff00::/96", "64:ff9b:0:0:8000::/96",
	"garbage", "", "2001:db8::", "2001:db8::/", "2001:db8::/96/96",
}

// genLegalPrefix: a legal prefix whose first four octets are unique within the
// configuration (slot), so the prefixes drawn here never nest; overlapping
// prefixes are added deliberately by nestPrefixes.
func genLegalPrefix(rng *rand.Rand, bits, slot int) string {
	var p [16]byte
	for i := range p {
		p[i] = byte(rng.UintN(256))
	}
	p[0] = pick(rng, []byte{0x20, 0x26, 0x2a, 0xfd})
	p[1] = byte(rng.UintN(256))
	p[3] = byte(slot<<4) | byte(rng.UintN(16))
	if rng.IntN(3) == 0 {
		copy(p[:3], []byte{0x20, 0x01, 0x0d})
	}
	if rng.IntN(12) == 0 && bits == 48 { // RFC 8215 local-use prefix
		copy(p[:6], []byte{0x00, 0x64, 0xff, 0x9b, 0x00, 0x01})
	}
	keepHost := rng.IntN(4) == 0 && bits < 96 // host bits (incl. bits 64-71) left set in the string
	if !keepHost {
		for i := bits; i < 128; i++ {
			setBit(p[:], i, 0)
		}
	}
	if bits == 96 {
		p[8] = 0
	}
	s := fmt.Sprintf("%s/%d", netip.AddrFrom16(p), bits)
	switch rng.IntN(8) {
	case 0:
		s = strings.ToUpper(s)
	case 1:
		s = " " + s + " "
	}
	return s
}

// nestPrefixes makes the configured prefixes OVERLAP: one legal operator
// prefix shorter than /96 (the broader one) gets a longer legal prefix inside
// it, listed before or after it. Every address embedded under the narrower
// prefix is then also inside the broader one (where it is, in general, not a
// conformant embedding), and the base address of the narrower prefix may read
// as a conformant embedding under both.
func nestPrefixes(rng *rand.Rand, c *cfgSpec) {
	var broadAt []int
	legal := 0
	for i, s := range c.Prefixes {
		if p := parseRefPrefix(s); p.Legal {
			legal++
			if !p.WKP && p.Bits < 96 {
				broadAt = append(broadAt, i)
			}
		}
	}
	if len(broadAt) == 0 {
		return
	}
	bi := pick(rng, broadAt)
	b := parseRefPrefix(c.Prefixes[bi])
	var longer []int
	for _, l := range legalLens {
		if l > b.Bits {
			longer = append(longer, l)
		}
	}
	inner := func() string {
		bits := pick(rng, longer)
		a := b.Addr
		for i := b.Bits; i < bits; i++ {
			setBit(a[:], i, byte(rng.UintN(2)))
		}
		if rng.IntN(4) == 0 { // sparse: most of the added bits zero
			for i := b.Bits + 8; i < bits; i++ {
				setBit(a[:], i, 0)
			}
		}
		a[8] = 0
		return fmt.Sprintf("%s/%d", netip.AddrFrom16(a), bits)
	}
	n := 1
	if rng.IntN(4) == 0 {
		n = 2
	}
	for k := 0; k < n; k++ {
		s := inner()
		switch {
		case legal >= 3 && len(c.Prefixes) > 1:
			// keep the list short: take the place of another legal entry
			at := -1
			for i, x := range c.Prefixes {
				if i != bi && parseRefPrefix(x).Legal {
					at = i
					if rng.IntN(2) == 0 {
						break
					}
				}
			}
			if at < 0 {
				return
			}
			c.Prefixes[at] = s
		case rng.IntN(5) < 3: // after the broader prefix
			at := bi + 1 + rng.IntN(len(c.Prefixes)-bi)
			c.Prefixes = append(c.Prefixes[:at], append([]string{s}, c.Prefixes[at:]...)...)
			legal++
		default: // before it
			at := rng.IntN(bi + 1)
			c.Prefixes = append(c.Prefixes[:at], append([]string{s}, c.Prefixes[at:]...)...)
			bi++
			legal++
		}
	}
}

func genCfg(rng *rand.Rand, ci int) (c cfgSpec) {
	mode := rng.IntN(20)
	switch {
	case mode == 0: // field omitted → WKP default
	case mode <= 2: // only illegal entries → WKP default
		for i := 0; i < 1+rng.IntN(3); i++ {
			c.Prefixes = append(c.Prefixes, pick(rng, illegalPool))
		}
	default:
		n := 1 + rng.IntN(3)
		wkpAt := -1
		if rng.IntN(100) < 35 {
			wkpAt = rng.IntN(n)
		}
		for i := 0; i < n; i++ {
			bits := legalLens[(ci+i*5)%6] // config ci leads with length ci%6
			if i > 0 && rng.IntN(2) == 0 {
				bits = pick(rng, legalLens)
			}
			if i == wkpAt {
				c.Prefixes = append(c.Prefixes, "64:ff9b::/96")
				continue
			}
			c.Prefixes = append(c.Prefixes, genLegalPrefix(rng, bits, i+1))
		}
		if rng.IntN(100) < 30 {
			for k := 0; k < 1+rng.IntN(2); k++ {
				at := rng.IntN(len(c.Prefixes) + 1)
				c.Prefixes = append(c.Prefixes[:at], append([]string{pick(rng, illegalPool)}, c.Prefixes[at:]...)...)
			}
		}
	}
	if rng.IntN(2) == 0 {
		nets := []string{"10.0.0.0/8", "192.168.0.0/16", "2001:db8:c11e::/48", "fd00::/8", "203.0.113.0/24", "10.1.2.0/24", "2001:db8:c11e:1::/64"}
		for i := 0; i < 1+rng.IntN(2); i++ {
			c.ClientNetworks = append(c.ClientNetworks, pick(rng, nets))
		}
	}
	if rng.IntN(100) < 45 {
		zs := []string{"excluded.test", "Corp.Example.", "no64.example.org.", " deep.sub.excluded.example "}
		for i := 0; i < 1+rng.IntN(2); i++ {
			c.ExcludeZones = append(c.ExcludeZones, pick(rng, zs))
		}
	}
	switch x := rng.IntN(100); {
	case x < 40:
	case x < 55:
		c.ExcludeA = &[]string{}
	default:
		pool := []string{"10.0.0.0/8", "192.168.0.0/16", "127.0.0.0/8", "198.51.100.0/24", "93.184.216.0/24", "8.8.8.0/24", "128.0.0.0/1", "1.1.1.1/32"}
		var l []string
		for i := 0; i < 1+rng.IntN(3); i++ {
			l = append(l, pick(rng, pool))
		}
		c.ExcludeA = &l
	}
	switch x := rng.IntN(100); {
	case x < 60:
	case x < 70:
		c.ExcludeAAAA = &[]string{}
	default:
		pool := []string{"::ffff:0:0/96", "2001:db8:bad::/48", "fc00::/7", "2001:db8:aaaa:1::/64"}
		var l []string
		for i := 0; i < 1+rng.IntN(2); i++ {
			l = append(l, pick(rng, pool))
		}
		c.ExcludeAAAA = &l
	}
	// drawn last: every other field is the same with or without nesting
	if rng.IntN(100) < 18 {
		nestPrefixes(rng, &c)
	}
	return c
}

var clientPool = []string{"10.1.2.3", "10.200.0.9", "192.168.7.7", "2001:db8:c11e::5", "2001:db8:c11e:1::77",
	"fd12::1", "203.0.113.9", "198.51.100.77", "2001:db8:ffff::9", "127.0.0.1", "::1", "172.20.1.1"}

func genClient(rng *rand.Rand, m *model, wantEligible bool) string {
	for try := 0; try < 40; try++ {
		ip := pick(rng, clientPool)
		a := netip.MustParseAddr(ip)
		s := netip.AddrPortFrom(a, uint16(1024+rng.IntN(60000))).String()
		if m.eligible(s) == wantEligible {
			return s
		}
	}
	return netip.AddrPortFrom(netip.MustParseAddr("10.1.2.3"), 5353).String()
}

var qnamePool = []string{"www.example.org.", "host.dual.example.", "a.b.c.deep.example.net.", "svc-1.example.com.",
	"badexcluded.test.", "xno64.example.org.", "corp.example.com."}

func genQname(rng *rand.Rand, m *model, excluded bool) string {
	var q string
	if excluded && len(m.zones) > 0 {
		z := pick(rng, m.zones)
		switch rng.IntN(3) {
		case 0:
			q = z
		case 1:
			q = "www." + z
		default:
			q = "a.b." + z
		}
	} else {
		for {
			q = pick(rng, qnamePool)
			if !m.zoneExcluded(q) {
				break
			}
		}
	}
	if rng.IntN(6) == 0 {
		b := []byte(q)
		for i := range b {
			if rng.IntN(2) == 0 && b[i] >= 'a' && b[i] <= 'z' {
				b[i] -= 32
			}
		}
		q = string(b)
	}
	return q
}

var ttlPool = []uint32{0, 1, 2, 30, 59, 60, 299, 300, 599, 600, 601, 3600, 86400, 604800, 1<<31 - 1}
var soaMinPool = []uint32{0, 0, 1, 5, 60, 300, 600, 900, 3600, 86400, 1<<31 - 1, 1<<32 - 1}
var soaTTLPool = []uint32{0, 1, 30, 300, 600, 900, 3600, 100000, 1<<31 - 1}

func soaRR(zone string, ttl, min uint32) string {
	return fmt.Sprintf("%s %d IN SOA ns.%s hostmaster.%s 2024010101 7200 3600 604800 %d", zone, ttl, zone, zone, min)
}

func zoneOf(qname string) string {
	labels := dns.SplitDomainName(qname)
	if len(labels) <= 2 {
		return dns.Fqdn(strings.ToLower(qname))
	}
	return strings.ToLower(strings.Join(labels[len(labels)-2:], ".") + ".")
}

// genV4: A-record addresses — global, octet-boundary, special-purpose, range
// edges and addresses inside the configured exclude list.
func genV4(rng *rand.Rand, m *model) [4]byte {
	switch rng.IntN(10) {
	case 0, 1, 2, 3:
		first := pick(rng, []byte{1, 8, 23, 45, 64, 93, 104, 128, 151, 185, 193, 199, 208, 216})
		return [4]byte{first, byte(rng.UintN(256)), byte(rng.UintN(256)), byte(rng.UintN(256))}
	case 4:
		return [4]byte{pick(rng, boundary), pick(rng, boundary), pick(rng, boundary), pick(rng, boundary)}
	case 5:
		sp := []string{"10.0.0.1", "10.255.255.255", "192.168.1.1", "172.16.0.0", "172.31.255.255", "127.0.0.1",
			"169.254.1.1", "100.64.0.0", "100.127.255.255", "192.0.2.7", "198.18.0.1", "198.19.255.255",
			"198.51.100.3", "203.0.113.200", "240.0.0.1", "255.255.255.255", "0.0.0.0", "0.1.2.3"}
		return netip.MustParseAddr(pick(rng, sp)).As4()
	case 6: // just outside the special ranges
		ed := []string{"9.255.255.255", "11.0.0.0", "100.63.255.255", "100.128.0.0", "126.255.255.255", "128.0.0.0",
			"169.253.255.255", "169.255.0.0", "172.15.255.255", "172.32.0.0", "192.0.1.255", "192.0.3.0",
			"192.167.255.255", "192.169.0.0", "198.17.255.255", "198.20.0.0", "198.51.99.255", "198.51.101.0",
			"203.0.112.255", "203.0.114.0", "223.255.255.255", "1.0.0.0"}
		return netip.MustParseAddr(pick(rng, ed)).As4()
	case 7: // open-treatment ranges
		gr := []string{"192.88.99.1", "192.0.0.9", "224.0.0.251", "239.255.255.255", "192.0.0.170"}
		return netip.MustParseAddr(pick(rng, gr)).As4()
	case 8:
		if len(m.exclA) > 0 {
			p := pick(rng, m.exclA)
			b := p.Addr().As4()
			for i := p.Bits(); i < 32; i++ {
				setBit(b[:], i, byte(rng.UintN(2)))
			}
			return b
		}
	}
	x := rng.Uint32()
	return [4]byte{byte(x >> 24), byte(x >> 16), byte(x >> 8), byte(x)}
}

func v4s(a [4]byte) string { return netip.AddrFrom4(a).String() }

// genAResp scripts the reply to the internal A query for qname.
func genAResp(rng *rand.Rand, m *model, qname string) respSpec {
	shape := weighted(rng, []wchoice{{"a", 45}, {"cname-a", 12}, {"dname-a", 5}, {"a-stray", 3}, {"nodata", 5},
		{"cname-nodata", 3}, {"nxdomain", 5}, {"servfail", 5}, {"refused", 2}, {"servfail-ede13", 3},
		{"marked-cached", 3}, {"marked-local-attempt", 3}, {"marked-local-deadline", 3}, {"noreply", 3}})
	s := respSpec{Shape: shape, RA: true, AD: rng.IntN(4) == 0, EDNS: rng.IntN(2) == 0}
	zone := zoneOf(qname)
	addAs := func(owner string) {
		n := 1 + rng.IntN(4)
		if rng.IntN(3) == 0 {
			n = 1
		}
		seen := map[[4]byte]bool{}
		base := pick(rng, ttlPool)
		for i := 0; i < n; i++ {
			v := genV4(rng, m)
			if seen[v] {
				continue
			}
			seen[v] = true
			ttl := base
			if rng.IntN(3) == 0 {
				ttl = pick(rng, ttlPool)
			}
			s.Answer = append(s.Answer, fmt.Sprintf("%s %d IN A %s", owner, ttl, v4s(v)))
		}
	}
	chain := func() string {
		cur := qname
		n := 1 + rng.IntN(3)
		for i := 0; i < n; i++ {
			next := fmt.Sprintf("alias%d.cdn-%d.example.net.", i, rng.IntN(50))
			s.Answer = append(s.Answer, fmt.Sprintf("%s %d IN CNAME %s", cur, pick(rng, ttlPool), next))
			cur = next
		}
		return cur
	}
	switch shape {
	case "a":
		addAs(qname)
	case "cname-a":
		addAs(chain())
	case "dname-a":
		labels := dns.SplitDomainName(qname)
		if len(labels) < 2 {
			addAs(qname)
			break
		}
		owner := strings.Join(labels[1:], ".") + "."
		target := "moved-" + strings.ToLower(labels[len(labels)-1]) + ".example."
		newName := labels[0] + "." + target
		s.Answer = append(s.Answer, fmt.Sprintf("%s %d IN DNAME %s", owner, pick(rng, ttlPool), target))
		s.Answer = append(s.Answer, fmt.Sprintf("%s 0 IN CNAME %s", qname, newName))
		addAs(newName)
	case "a-stray":
		s.Answer = append(s.Answer, fmt.Sprintf("%s 300 IN AAAA 2001:db8:5742::1", qname))
		addAs(qname)
		s.Answer = append(s.Answer, fmt.Sprintf("%s 300 IN TXT \"stray\"", qname))
		s.Extra = append(s.Extra, fmt.Sprintf("ns.%s 300 IN A 192.0.2.53", zone))
	case "nodata":
		s.Ns = []string{soaRR(zone, pick(rng, soaTTLPool), pick(rng, soaMinPool))}
	case "cname-nodata":
		chain()
		s.Ns = []string{soaRR("example.net.", pick(rng, soaTTLPool), pick(rng, soaMinPool))}
	case "nxdomain":
		s.Rcode = dns.RcodeNameError
		s.Ns = []string{soaRR(zone, 300, 300)}
		if rng.IntN(4) == 0 {
			addAs(qname)
		}
	case "servfail":
		s.Rcode = dns.RcodeServerFailure
		if rng.IntN(2) == 0 {
			s.EDNS = true
			s.EDE = []uint16{uint16(rng.IntN(31))}
		}
		if rng.IntN(4) == 0 {
			addAs(qname)
		}
	case "refused":
		s.Rcode = dns.RcodeRefused
		if rng.IntN(4) == 0 {
			addAs(qname)
		}
	case "servfail-ede13":
		s.Rcode = dns.RcodeServerFailure
		s.EDNS = true
		s.EDE = []uint16{dns.ExtendedErrorCodeCachedError}
	case "marked-cached":
		s.Rcode = dns.RcodeServerFailure
		s.Mark = "cached"
	case "marked-local-attempt", "marked-local-deadline":
		s.Rcode = dns.RcodeServerFailure
		s.Mark = strings.TrimPrefix(shape, "marked-")
		if rng.IntN(4) == 0 { // provenance, not rcode, defines a request-local failure
			s.Rcode = dns.RcodeSuccess
			addAs(qname)
		}
	case "noreply":
		s.NoReply = true
	}
	return s
}

// genAAAAResp scripts the reply to the client's AAAA query. k selects the EDE
// code deterministically so every code is visited with and without SERVFAIL.
func genAAAAResp(rng *rand.Rand, m *model, qname string, k int) respSpec {
	shape := weighted(rng, []wchoice{{"nodata-soa", 30}, {"nodata-nosoa", 6}, {"nodata-cname-soa", 6}, {"native", 6},
		{"native-in-prefix", 2}, {"excluded-only", 8}, {"mixed", 6}, {"nxdomain", 6}, {"servfail-plain", 4},
		{"servfail-ede", 12}, {"rcode-other", 5}, {"noerror-ede", 4}, {"servfail-multi-ede", 5}, {"marked-cached", 4},
		{"marked-local-attempt", 2}, {"marked-local-deadline", 2}})
	s := respSpec{Shape: shape, RA: rng.IntN(8) != 0, AD: rng.IntN(3) == 0, EDNS: rng.IntN(4) != 0}
	zone := zoneOf(qname)
	code := uint16(k % 31)
	owner := qname
	maybeChain := func() {
		if rng.IntN(4) == 0 {
			next := fmt.Sprintf("v6alias.cdn-%d.example.net.", rng.IntN(50))
			s.Answer = append(s.Answer, fmt.Sprintf("%s %d IN CNAME %s", owner, pick(rng, ttlPool), next))
			owner = next
		}
	}
	native := func(i int) string {
		return fmt.Sprintf("%s %d IN AAAA 2001:db8:aaaa:%x::%x", owner, pick(rng, ttlPool), 2+rng.IntN(6), 1+i)
	}
	excluded := func(i int) (string, bool) {
		if len(m.exclAAAA) == 0 {
			return "", false
		}
		p := pick(rng, m.exclAAAA)
		b := p.Addr().As16()
		for j := p.Bits(); j < 128; j++ {
			setBit(b[:], j, byte(rng.UintN(2)))
		}
		b[15] = byte(i + 1)
		return fmt.Sprintf("%s %d IN AAAA %s", owner, pick(rng, ttlPool), netip.AddrFrom16(b).StringExpanded()), true
	}
	switch shape {
	case "nodata-soa":
		s.Ns = []string{soaRR(zone, pick(rng, soaTTLPool), pick(rng, soaMinPool))}
	case "nodata-nosoa":
	case "nodata-cname-soa":
		next := fmt.Sprintf("v6alias.cdn-%d.example.net.", rng.IntN(50))
		s.Answer = []string{fmt.Sprintf("%s %d IN CNAME %s", qname, pick(rng, ttlPool), next)}
		s.Ns = []string{soaRR("example.net.", pick(rng, soaTTLPool), pick(rng, soaMinPool))}
	case "native":
		maybeChain()
		for i := 0; i < 1+rng.IntN(3); i++ {
			s.Answer = append(s.Answer, native(i))
		}
	case "native-in-prefix":
		// a real AAAA that happens to sit inside a configured Pref64
		p := pick(rng, m.prefixes)
		a := refEmbed(p.Addr, p.Bits, [4]byte{8, 8, byte(rng.UintN(256)), 8})
		s.Answer = []string{fmt.Sprintf("%s %d IN AAAA %s", owner, pick(rng, ttlPool), netip.AddrFrom16(a).StringExpanded())}
	case "excluded-only":
		s.AD = rng.IntN(2) == 0
		ok := false
		for i := 0; i < 1+rng.IntN(2); i++ {
			if rr, y := excluded(i); y {
				s.Answer = append(s.Answer, rr)
				ok = true
			}
		}
		if !ok {
			s.Shape = "nodata-nosoa"
		}
	case "mixed":
		s.AD = rng.IntN(3) != 0
		maybeChain()
		rr, y := excluded(0)
		if y {
			s.Answer = append(s.Answer, rr)
		} else {
			s.Shape = "native"
		}
		for i := 0; i < 1+rng.IntN(2); i++ {
			s.Answer = append(s.Answer, native(i))
		}
		if y && rng.IntN(2) == 0 {
			if rr2, _ := excluded(7); rr2 != "" {
				s.Answer = append(s.Answer, rr2)
			}
		}
	case "nxdomain":
		s.Rcode = dns.RcodeNameError
		s.Ns = []string{soaRR(zone, pick(rng, soaTTLPool), pick(rng, soaMinPool))}
		if rng.IntN(3) == 0 {
			s.EDNS = true
			s.EDE = []uint16{code}
		}
	case "servfail-plain":
		s.Rcode = dns.RcodeServerFailure
	case "servfail-ede":
		s.Rcode = dns.RcodeServerFailure
		s.EDNS = true
		s.EDE = []uint16{code}
	case "rcode-other":
		s.Rcode = pick(rng, []int{dns.RcodeFormatError, dns.RcodeNotImplemented, dns.RcodeRefused, dns.RcodeYXDomain,
			dns.RcodeYXRrset, dns.RcodeNXRrset, dns.RcodeNotAuth, dns.RcodeNotZone})
		if rng.IntN(2) == 0 {
			s.EDNS = true
			s.EDE = []uint16{code}
		}
	case "noerror-ede":
		s.EDNS = true
		s.EDE = []uint16{code}
		if rng.IntN(2) == 0 {
			s.Ns = []string{soaRR(zone, pick(rng, soaTTLPool), pick(rng, soaMinPool))}
		}
	case "servfail-multi-ede":
		s.Rcode = dns.RcodeServerFailure
		s.EDNS = true
		// the decisive code is never the first option
		neutrals := []uint16{0, 3, 14, 22, 23, 4, 15, 20}
		s.EDE = []uint16{pick(rng, neutrals)}
		if rng.IntN(2) == 0 {
			s.EDE = append(s.EDE, pick(rng, neutrals))
		}
		s.EDE = append(s.EDE, code)
		if rng.IntN(3) == 0 {
			s.EDE = append(s.EDE, pick(rng, neutrals))
		}
	case "marked-cached":
		s.Rcode = dns.RcodeServerFailure
		s.Mark = "cached"
		s.EDNS = rng.IntN(2) == 0
	case "marked-local-attempt", "marked-local-deadline":
		s.Rcode = dns.RcodeServerFailure
		s.Mark = strings.TrimPrefix(shape, "marked-")
	}
	return s
}

// genPipeCase: one AAAA-side triple. Gates are closed one at a time most of
// the time so each "must not synthesise" reason is observed in isolation.
func genPipeCase(rng *rand.Rand, e *env, cfg cfgSpec, idx int) *pipeCase {
	return genPipeCaseUnder(rng, e, cfg, idx, "")
}

// genPipeCaseUnder is genPipeCase with the query name put under an extra
// leading label (the wire part's per-execution tag); the random stream is
// consumed identically for any prefix.
func genPipeCaseUnder(rng *rand.Rand, e *env, cfg cfgSpec, idx int, prefix string) *pipeCase {
	m := e.m
	c := &pipeCase{Kind: "pipe", Index: idx, Cfg: cfg, Proto: pick(rng, []string{"udp", "tcp"}),
		Qtype: dns.TypeAAAA, RD: true}
	gate := rng.IntN(100)
	c.RD = !(gate < 5)
	c.CD = gate >= 5 && gate < 10
	wantEligible := !(gate >= 10 && gate < 17)
	wantExcludedZone := gate >= 17 && gate < 24
	if gate >= 24 && gate < 30 {
		c.Qtype = pick(rng, []uint16{dns.TypeA, dns.TypeMX, dns.TypeANY, dns.TypeHTTPS, dns.TypeTXT, dns.TypeCNAME})
	}
	if gate >= 97 { // several gates closed at once
		c.RD = rng.IntN(2) == 0
		c.CD = rng.IntN(2) == 0
		wantEligible = rng.IntN(2) == 0
	}
	c.Client = genClient(rng, m, wantEligible)
	c.Qname = prefix + genQname(rng, m, wantExcludedZone)
	c.AD = rng.IntN(3) == 0
	c.EDNS = rng.IntN(4) != 0
	c.DO = c.EDNS && rng.IntN(2) == 0
	c.Resp = genAAAAResp(rng, m, c.Qname, idx)
	c.A = genAResp(rng, m, c.Qname)
	c.PTR = respSpec{Shape: "unused", Rcode: dns.RcodeRefused}
	return c
}

// genPTRCase: one ip6.arpa PTR query.
func genPTRCase(rng *rand.Rand, e *env, cfg cfgSpec, idx int) *pipeCase {
	m := e.m
	c := &pipeCase{Kind: "ptr", Index: idx, Cfg: cfg, Proto: pick(rng, []string{"udp", "tcp"}),
		Qtype: dns.TypePTR, RD: true}
	gate := rng.IntN(100)
	c.RD = !(gate < 5)
	c.CD = gate >= 5 && gate < 10
	c.Client = genClient(rng, m, !(gate >= 10 && gate < 16))
	c.AD = rng.IntN(3) == 0
	c.EDNS = rng.IntN(4) != 0
	c.DO = c.EDNS && rng.IntN(2) == 0

	p := pick(rng, m.prefixes)
	choices := []wchoice{{"valid", 50}, {"nonconformant-u", 7}, {"nonconformant-suffix", 7}, {"outside", 10},
		{"nibbles-31", 4}, {"nibbles-33", 4}, {"wide-label", 4}, {"non-hex", 4}, {"short", 3}, {"in-addr", 3}, {"illegal-prefix", 4}}
	if len(m.inner) > 0 {
		// overlapping prefixes: lean towards the covered one
		if rng.IntN(2) == 0 {
			p = pick(rng, m.inner)
		}
		choices = append(choices, wchoice{"inner-base", 8})
	}
	v4 := genV4(rng, m)
	addr := refEmbed(p.Addr, p.Bits, v4)
	gen := weighted(rng, choices)
	name := ""
	switch gen {
	case "valid":
	case "inner-base":
		// the base address of a covered prefix (0.0.0.0 under it; possibly a
		// conformant embedding of another address under the covering prefix),
		// or a few low bits above it
		p = pick(rng, m.inner)
		v4 = [4]byte{}
		if rng.IntN(2) == 0 {
			v4[3] = byte(rng.UintN(4))
		}
		addr = refEmbed(p.Addr, p.Bits, v4)
	case "nonconformant-u":
		if p.Bits == 96 {
			gen = "valid"
		} else {
			addr[8] = byte(1 + rng.IntN(255))
		}
	case "nonconformant-suffix":
		res := reservedBits(p.Bits)
		var suf []int
		for _, b := range res {
			if b > 71 {
				suf = append(suf, b)
			}
		}
		if len(suf) == 0 {
			gen = "valid"
		} else {
			setBit(addr[:], pick(rng, suf), 1)
		}
	case "outside":
		for {
			for i := range addr {
				addr[i] = byte(rng.UintN(256))
			}
			in := false
			for _, q := range m.prefixes {
				in = in || q.contains(addr)
			}
			if !in {
				break
			}
		}
	case "illegal-prefix":
		// an address "embedded" under a refused prefix length
		bits := pick(rng, []int{24, 33, 72, 80, 88, 104, 128})
		var q [16]byte
		copy(q[:], []byte{0x20, 0x01, 0x0d, 0xb8, 0x0f, 0xf0})
		for i := range addr {
			addr[i] = 0
		}
		copy(addr[:], q[:])
		off := bits / 8
		if off > 12 {
			off = 12
		}
		copy(addr[off:], v4[:])
		in := false
		for _, q := range m.prefixes {
			in = in || q.contains(addr)
		}
		if in {
			gen = "valid"
			addr = refEmbed(p.Addr, p.Bits, v4)
		}
	}
	name = refIP6Arpa(addr)
	switch gen {
	case "nibbles-31":
		name = name[2:]
	case "nibbles-33":
		name = "0." + name
	case "wide-label":
		i := 2 * rng.IntN(32)
		name = name[:i] + "a" + name[i:]
	case "non-hex":
		i := 2 * rng.IntN(32)
		name = name[:i] + pick(rng, []string{"g", "x", "-", "_"}) + name[i+1:]
	case "short":
		name = name[2*(4+rng.IntN(24)):]
	case "in-addr":
		name = refInAddrArpa(v4)
	}
	if rng.IntN(5) == 0 {
		name = strings.ToUpper(name)
	}
	c.PTRGen = gen
	c.Qname = name
	// what a real ip6.arpa zone would say to the client-pass query
	c.Resp = respSpec{Shape: "ptr-nxdomain", Rcode: dns.RcodeNameError, RA: true, AD: rng.IntN(3) == 0, EDNS: rng.IntN(2) == 0,
		Ns: []string{soaRR("ip6.arpa.", 3600, 3600)}}
	if rng.IntN(3) == 0 {
		c.Resp = respSpec{Shape: "ptr-native", RA: true, AD: rng.IntN(3) == 0,
			Answer: []string{fmt.Sprintf("%s 300 IN PTR native-host.example.", name)}}
	}
	shape := weighted(rng, []wchoice{{"ptr", 55}, {"ptr-2", 10}, {"nxdomain", 12}, {"servfail", 6}, {"noreply", 5},
		{"marked-local-attempt", 4}, {"marked-local-deadline", 4}, {"marked-cached", 4}})
	in := refInAddrArpa(v4)
	c.PTR = respSpec{Shape: shape, RA: true, AD: rng.IntN(3) == 0}
	switch shape {
	case "ptr":
		c.PTR.Answer = []string{fmt.Sprintf("%s %d IN PTR host-%d.example.com.", in, pick(rng, ttlPool), rng.IntN(100))}
	case "ptr-2":
		c.PTR.Answer = []string{fmt.Sprintf("%s 300 IN PTR a.example.com.", in), fmt.Sprintf("%s 300 IN PTR b.example.com.", in)}
	case "nxdomain":
		c.PTR.Rcode = dns.RcodeNameError
	case "servfail":
		c.PTR.Rcode = dns.RcodeServerFailure
	case "noreply":
		c.PTR.NoReply = true
	default:
		c.PTR.Rcode = dns.RcodeServerFailure
		c.PTR.Mark = strings.TrimPrefix(shape, "marked-")
	}
	c.A = respSpec{Shape: "unused", Rcode: dns.RcodeRefused}
	return c
}
