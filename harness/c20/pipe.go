package main

// Layer B plumbing: case types, the oracle's model of a configuration, the
// scripted stub handler and the real pipeline ([dns64, stub] built and wired by
// middleware.Setup, so the secondary A / in-addr.arpa PTR lookups run through
// the real PipelineQueryer and its internal sub-pipeline).

import (
	"context"
	"fmt"
	"net/netip"
	"strings"

	"github.com/miekg/dns"
	"github.com/semihalev/sdns/config"
	"github.com/semihalev/sdns/internal/mock"
	"github.com/semihalev/sdns/middleware"
	"github.com/semihalev/sdns/middleware/dns64"
)

type cfgSpec struct {
	Prefixes       []string  `json:"prefixes"`
	ClientNetworks []string  `json:"client_networks"`
	ExcludeZones   []string  `json:"exclude_zones"`
	ExcludeA       *[]string `json:"exclude_a_networks"`    // nil = field omitted
	ExcludeAAAA    *[]string `json:"exclude_aaaa_networks"` // nil = field omitted
}

// respSpec scripts one downstream response (RRs in presentation format).
type respSpec struct {
	Shape   string   `json:"shape"`
	Rcode   int      `json:"rcode"`
	AD      bool     `json:"ad,omitempty"`
	RA      bool     `json:"ra,omitempty"`
	Answer  []string `json:"answer,omitempty"`
	Ns      []string `json:"ns,omitempty"`
	Extra   []string `json:"extra,omitempty"`
	EDNS    bool     `json:"edns,omitempty"`
	EDE     []uint16 `json:"ede,omitempty"`
	Mark    string   `json:"mark,omitempty"` // "", cached, local-attempt, local-deadline
	NoReply bool     `json:"no_reply,omitempty"`
}

type pipeCase struct {
	Kind   string   `json:"kind"` // "pipe" | "ptr"
	Index  int      `json:"index"`
	Cfg    cfgSpec  `json:"cfg"`
	Client string   `json:"client"` // ip:port
	Proto  string   `json:"proto"`
	Qname  string   `json:"qname"`
	Qtype  uint16   `json:"qtype"`
	RD     bool     `json:"rd"`
	CD     bool     `json:"cd"`
	AD     bool     `json:"ad"`
	EDNS   bool     `json:"edns"`
	DO     bool     `json:"do"`
	Resp   respSpec `json:"resp"`     // stub's reply to the client-pass query
	A      respSpec `json:"a_resp"`   // stub's reply to the internal A query
	PTR    respSpec `json:"ptr_resp"` // stub's reply to the internal in-addr.arpa PTR query
	PTRGen string   `json:"ptr_gen,omitempty"`

	// Set by the wire part (wire.go): counter / signature prefix, the case a
	// violation should carry for --replay, and whether an empty zone of the
	// pipeline under test answers this PTR name ahead of dns64.
	Ctr       string `json:"-"`
	SigPrefix string `json:"-"`
	Shadowed  bool   `json:"shadowed_by_empty_zone,omitempty"`
	replay    any
}

func (c *pipeCase) replayCase() any {
	if c.replay != nil {
		return c.replay
	}
	return c
}

// ---------------------------------------------------------------- model

type model struct {
	prefixes     []refPrefix // legal ones in configured order, or the WKP default
	illegal      []refPrefix
	clientNet    []netip.Prefix
	zones        []string
	defaultedWKP bool // prefixes omitted / all refused → 64:ff9b::/96 by default
	// inner: configured prefixes that lie inside another (shorter) configured
	// prefix; innerAfter: those of them listed AFTER a prefix that covers them
	inner      []refPrefix
	innerAfter []refPrefix
	exclADef   bool // default list in force (field omitted)
	exclA      []netip.Prefix
	exclAAAA   []netip.Prefix
}

func mustPrefixes(ss ...string) []netip.Prefix {
	out := make([]netip.Prefix, len(ss))
	for i, s := range ss {
		out[i] = netip.MustParsePrefix(s)
	}
	return out
}

// IANA IPv4 Special-Purpose Address Registry entries with "Globally Reachable:
// False" (RFC 6890), which RFC 6052 §3.1 forbids under the well-known prefix.
var defMustSkip = mustPrefixes("0.0.0.0/8", "10.0.0.0/8", "100.64.0.0/10", "127.0.0.0/8",
	"169.254.0.0/16", "172.16.0.0/12", "192.0.2.0/24", "192.168.0.0/16", "198.18.0.0/15",
	"198.51.100.0/24", "203.0.113.0/24", "240.0.0.0/4", "255.255.255.255/32")

// Ranges whose treatment under the default list the statement leaves open
// (partly globally reachable in the registry / multicast / deprecated 6to4):
// the oracle accepts them skipped or translated.
var defGray = mustPrefixes("192.0.0.0/24", "192.88.99.0/24", "224.0.0.0/4")

func inAny(ps []netip.Prefix, a netip.Addr) bool {
	for _, p := range ps {
		if p.Contains(a) {
			return true
		}
	}
	return false
}

func newModel(c cfgSpec) *model {
	m := &model{}
	for _, s := range c.Prefixes {
		p := parseRefPrefix(s)
		if p.Legal {
			m.prefixes = append(m.prefixes, p)
		} else {
			m.illegal = append(m.illegal, p)
		}
	}
	if len(m.prefixes) == 0 {
		// RFC 6147 §5.2 default when no usable prefix is configured
		m.prefixes = []refPrefix{parseRefPrefix("64:ff9b::/96")}
		m.defaultedWKP = true
	}
	for i, p := range m.prefixes {
		covered, after := false, false
		for j, q := range m.prefixes {
			if i != j && q.Bits < p.Bits && q.contains(p.Addr) {
				covered = true
				after = after || j < i
			}
		}
		if covered {
			m.inner = append(m.inner, p)
		}
		if after {
			m.innerAfter = append(m.innerAfter, p)
		}
	}
	for _, s := range c.ClientNetworks {
		m.clientNet = append(m.clientNet, netip.MustParsePrefix(s).Masked())
	}
	for _, z := range c.ExcludeZones {
		m.zones = append(m.zones, strings.ToLower(dns.Fqdn(strings.TrimSpace(z))))
	}
	hasWKP := false
	for _, p := range m.prefixes {
		hasWKP = hasWKP || p.WKP
	}
	if hasWKP {
		if c.ExcludeA == nil {
			m.exclADef = true
		} else {
			for _, s := range *c.ExcludeA {
				m.exclA = append(m.exclA, netip.MustParsePrefix(s).Masked())
			}
		}
	}
	if c.ExcludeAAAA == nil {
		m.exclAAAA = mustPrefixes("::ffff:0:0/96")
	} else {
		for _, s := range *c.ExcludeAAAA {
			m.exclAAAA = append(m.exclAAAA, netip.MustParsePrefix(s).Masked())
		}
	}
	return m
}

func (m *model) eligible(client string) bool {
	if len(m.clientNet) == 0 {
		return true
	}
	ap, err := netip.ParseAddrPort(client)
	if err != nil {
		return false
	}
	return inAny(m.clientNet, ap.Addr().Unmap())
}

func (m *model) zoneExcluded(qname string) bool {
	q := strings.ToLower(dns.Fqdn(qname))
	for _, z := range m.zones {
		if q == z || strings.HasSuffix(q, "."+z) {
			return true
		}
	}
	return false
}

// skipA: 1 = must be skipped under the WKP, 0 = must be translated, -1 = either.
func (m *model) skipA(p refPrefix, v4 [4]byte) int {
	if !p.WKP {
		return 0
	}
	a := netip.AddrFrom4(v4)
	if m.exclADef {
		if inAny(defMustSkip, a) {
			return 1
		}
		if inAny(defGray, a) {
			return -1
		}
		return 0
	}
	if inAny(m.exclA, a) {
		return 1
	}
	return 0
}

func (m *model) aaaaExcluded(a [16]byte) bool {
	// netip: a 16-byte address (4in6 included) matches only IPv6-form prefixes,
	// compared over all 128 bits — ::ffff:0:0/96 therefore covers exactly the
	// IPv4-mapped block.
	return inAny(m.exclAAAA, netip.AddrFrom16(a))
}

// ---------------------------------------------------------------- stub

type scriptKeyT struct{}

var scriptKey = &scriptKeyT{}

type stubCall struct {
	Qname    string
	Qtype    uint16
	Internal bool
	RD, CD   bool
}

type script struct {
	c     *pipeCase
	calls []stubCall
	sent  map[string]*dns.Msg // "client" | "a" | "ptr" → copy of what the stub wrote
	err   []string
}

type stubHandler struct{}

func (stubHandler) Name() string { return "stub" }

func buildResp(spec *respSpec, req *dns.Msg) (*dns.Msg, error) {
	m := new(dns.Msg)
	m.SetReply(req)
	m.Rcode = spec.Rcode
	m.AuthenticatedData = spec.AD
	m.RecursionAvailable = spec.RA
	for _, sec := range []struct {
		src []string
		dst *[]dns.RR
	}{{spec.Answer, &m.Answer}, {spec.Ns, &m.Ns}, {spec.Extra, &m.Extra}} {
		for _, s := range sec.src {
			rr, err := dns.NewRR(s)
			if err != nil || rr == nil {
				return nil, fmt.Errorf("bad RR %q: %v", s, err)
			}
			*sec.dst = append(*sec.dst, rr)
		}
	}
	if spec.EDNS {
		opt := &dns.OPT{Hdr: dns.RR_Header{Name: ".", Rrtype: dns.TypeOPT}}
		opt.SetUDPSize(1232)
		for _, code := range spec.EDE {
			opt.Option = append(opt.Option, &dns.EDNS0_EDE{InfoCode: code, ExtraText: "scripted"})
		}
		m.Extra = append(m.Extra, opt)
	}
	return m, nil
}

func (stubHandler) ServeDNS(ctx context.Context, ch *middleware.Chain) {
	sc, _ := ctx.Value(scriptKey).(*script)
	req := ch.Request.Msg()
	if sc == nil || req == nil || len(req.Question) != 1 {
		ch.CancelWithRcode(dns.RcodeRefused, false)
		return
	}
	q := req.Question[0]
	internal := ch.Writer.Internal()
	sc.calls = append(sc.calls, stubCall{Qname: q.Name, Qtype: q.Qtype, Internal: internal,
		RD: req.RecursionDesired, CD: req.CheckingDisabled})
	var spec *respSpec
	var slot string
	switch {
	case !internal:
		spec, slot = &sc.c.Resp, "client"
	case q.Qtype == dns.TypeA:
		spec, slot = &sc.c.A, "a"
	case q.Qtype == dns.TypePTR:
		spec, slot = &sc.c.PTR, "ptr"
	default:
		sc.err = append(sc.err, fmt.Sprintf("unexpected internal query %s type %d", q.Name, q.Qtype))
		ch.CancelWithRcode(dns.RcodeRefused, false)
		return
	}
	if spec.NoReply {
		ch.Cancel()
		return
	}
	m, err := buildResp(spec, req)
	if err != nil {
		sc.err = append(sc.err, err.Error())
		ch.Cancel()
		return
	}
	sc.sent[slot] = m.Copy()
	switch spec.Mark {
	case "cached":
		// exactly what cache.handleFailureHit does around its WriteMsg
		if meta := middleware.ResponseMetaFrom(ctx); meta != nil {
			release := meta.MarkCachedFailureResponse(m)
			defer release()
		} else {
			sc.err = append(sc.err, "no ResponseMeta in ctx for cached-failure mark")
		}
	case "local-attempt", "local-deadline":
		var lerr error = context.DeadlineExceeded
		if spec.Mark == "local-attempt" {
			lerr = &middleware.ResolutionAttemptLimitError{Question: q, Endpoint: "192.0.2.53:53", Transport: "udp"}
		}
		gctx, _ := middleware.EnsureResolutionAttemptGuard(ctx)
		middleware.MarkRequestLocalFailureResponse(gctx, m, lerr)
		if middleware.RequestLocalFailureForResponse(gctx, m) == nil {
			sc.err = append(sc.err, "request-local mark did not stick")
		}
	}
	_ = ch.Writer.WriteMsg(m)
	ch.Cancel()
}

// ---------------------------------------------------------------- env

type env struct {
	p    *middleware.Pipeline
	d    *dns64.DNS64
	m    *model
	comp *dns64.VerifC20Compiled
}

// buildEnv constructs the real pipeline for one configuration. Not safe for
// concurrent use (middleware.Setup publishes a process-global pipeline); the
// returned pipeline stays valid after the next buildEnv.
func buildEnv(c cfgSpec) (*env, error) {
	cfg := &config.Config{}
	cfg.DNS64.Enabled = true
	cfg.DNS64.Prefixes = c.Prefixes
	cfg.DNS64.ClientNetworks = c.ClientNetworks
	cfg.DNS64.ExcludeZones = c.ExcludeZones
	if c.ExcludeA != nil {
		cfg.DNS64.ExcludeANetworks = append([]string{}, (*c.ExcludeA)...)
	}
	if c.ExcludeAAAA != nil {
		cfg.DNS64.ExcludeAAAANetworks = append([]string{}, (*c.ExcludeAAAA)...)
	}
	middleware.Reset()
	middleware.Register("dns64", func(cfg *config.Config) middleware.Handler { return dns64.New(cfg) })
	middleware.Register("stub", func(*config.Config) middleware.Handler { return stubHandler{} })
	middleware.Setup(cfg)
	p := middleware.GlobalPipeline()
	d, _ := p.Get("dns64").(*dns64.DNS64)
	if d == nil {
		return nil, fmt.Errorf("dns64 handler missing from the pipeline (enabled config)")
	}
	hs := p.Handlers()
	if len(hs) != 2 || hs[0].Name() != "dns64" || hs[1].Name() != "stub" {
		return nil, fmt.Errorf("unexpected pipeline shape")
	}
	return &env{p: p, d: d, m: newModel(c), comp: dns64.VerifC20Config(d)}, nil
}

type outcome struct {
	reply  *dns.Msg
	calls  []stubCall
	sent   map[string]*dns.Msg
	errs   []string
	panicV any
}

func (e *env) run(c *pipeCase) (o outcome) {
	sc := &script{c: c, sent: map[string]*dns.Msg{}}
	req := new(dns.Msg)
	req.Id = uint16(c.Index*7 + 11)
	req.Question = []dns.Question{{Name: c.Qname, Qtype: c.Qtype, Qclass: dns.ClassINET}}
	req.RecursionDesired = c.RD
	req.CheckingDisabled = c.CD
	req.AuthenticatedData = c.AD
	if c.EDNS {
		req.SetEdns0(1232, c.DO)
	}
	mw := mock.NewWriter(c.Proto, c.Client)
	ctx := context.WithValue(context.Background(), scriptKey, sc)
	ch := e.p.NewChain()
	func() {
		defer func() {
			if p := recover(); p != nil {
				o.panicV = p
			}
		}()
		ch.Reset(mw, req)
		ch.Next(ctx)
	}()
	if o.panicV == nil {
		if rm := mw.Msg(); rm != nil {
			o.reply = rm.Copy()
		}
		e.p.PutChain(ch)
	}
	o.calls, o.sent, o.errs = sc.calls, sc.sent, sc.err
	return o
}
