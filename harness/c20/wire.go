package main

// Layer C — the wire-born ingress of dns64.
//
// Layer B enters `[dns64, stub]` with message-born requests (Chain.Reset). In
// production a query arrives as packet bytes (Chain.ResetWire through
// Server.ServeRaw*), reaches dns64 still undecoded, and dns64's
// Chain.Materialize is the one-way transition onto a DETACHED context; the
// handlers below it (cache, failover, resolver) record failure provenance on
// that detached request tree. This layer drives the real pipeline
//
//	prod: recovery … edns … as112, [pre], dns64, [tap], cache, stub   (stack.New, production order)
//	bare:                          [pre], dns64, [tap], cache, stub   (no edns: a client without
//	                                      OPT stays without OPT, so a failure-cache hit carries
//	                                      no EDE 13 and the ResponseMeta marker is the only signal)
//
// through the strict-job wire entries (ServeRaw UDP/TCP, the UDP reader's
// inline pass + replay) and through the decoded entry (ServeMsg), with the
// same generated case under distinct names, judges every reply with the rules
// of judge.go, and compares the entries against each other.
//
// [pre] and [tap] are harness observers: pre records whether the client pass
// reached dns64 undecoded; tap sits directly below dns64 (also in the internal
// sub-pipeline) and records the exact message — and its failure provenance on
// the context dns64 handed down — that dns64 receives for the client pass and
// for its secondary A / in-addr.arpa PTR lookups. The oracle's "downstream
// response" is therefore what dns64 really saw, whatever the real cache did
// (alias chase, failure cache, hits).

import (
	"context"
	"encoding/hex"
	"encoding/json"
	"errors"
	"fmt"
	"math/rand/v2"
	"sort"
	"strings"

	"github.com/miekg/dns"
	"github.com/semihalev/sdns/config"
	"github.com/semihalev/sdns/middleware"
	"github.com/semihalev/sdns/middleware/cache"
	"github.com/semihalev/sdns/middleware/dns64"
	"github.com/semihalev/sdns/zzverif/stack"
	"github.com/semihalev/sdns/zzverif/vlib"
)

const (
	tagToken     = "zqtagqz"
	preName      = "c20-pre"
	tapName      = "c20-tap"
	wireStubName = "c20-wire-stub"
)

type wireStep2 struct {
	Client string `json:"client"`
	EDNS   bool   `json:"edns"`
	DO     bool   `json:"do"`
	AD     bool   `json:"ad"`
}

// wireCase is one generated case of layer C. Names inside Case carry tagToken
// where the per-execution tag goes.
type wireCase struct {
	Kind    string     `json:"kind"` // "wire" | "wire-ptr"
	Index   int        `json:"index"`
	Variant string     `json:"variant"` // prod | bare
	Flow    string     `json:"flow"`    // single | cached-failure | request-local | ptr
	Cfg     cfgSpec    `json:"cfg"`
	Case    pipeCase   `json:"case"`
	Step2   *wireStep2 `json:"step2,omitempty"`

	// filled in when a violation is reported
	Entry    string    `json:"entry,omitempty"`
	Step     int       `json:"step,omitempty"`
	QueryHex string    `json:"query_hex,omitempty"`
	ReplyHex string    `json:"reply_hex,omitempty"`
	Observed *pipeCase `json:"observed,omitempty"`
}

// ---------------------------------------------------------------- observers

type tapRec struct {
	q        dns.Question
	internal bool
	rd, cd   bool
	msg      *dns.Msg // copy of the last response that passed the tap (nil: none)
	writes   int
	local    error // request-local provenance visible on the context dns64 handed down
	cached   bool  // failure-cache marker visible there
}

type wireRun struct {
	c          *pipeCase // scripted case, tag substituted
	pre        int       // client passes seen by the pre observer
	undecoded  bool      // … the last of them reached dns64 undecoded
	recs       []*tapRec
	calls      []stubCall
	sent       map[string]*dns.Msg
	clientStub int // stub invocations for the client pass
	errs       []string
}

type wireEnv struct {
	variant string
	st      *stack.Stack
	m       *model
	cfg     cfgSpec
	cur     *wireRun // executions are strictly sequential
}

type preObserver struct{ we *wireEnv }

func (p *preObserver) Name() string     { return preName }
func (p *preObserver) ClientOnly() bool { return true }
func (p *preObserver) ServeDNS(ctx context.Context, ch *middleware.Chain) {
	if run := p.we.cur; run != nil && !ch.Writer.Internal() {
		run.pre++
		run.undecoded = ch.Request.Undecoded()
	}
	ch.Next(ctx)
}

type tapObserver struct{ we *wireEnv }

type tapWriter struct {
	middleware.ResponseWriter
	ctx context.Context
	rec *tapRec
}

func (w *tapWriter) WriteMsg(m *dns.Msg) error {
	if m != nil {
		w.rec.writes++
		w.rec.msg = m.Copy()
		w.rec.local = middleware.RequestLocalFailureForResponse(w.ctx, m)
		if meta := middleware.ResponseMetaFrom(w.ctx); meta != nil {
			w.rec.cached = meta.IsCachedFailureResponse(m)
		}
	}
	return w.ResponseWriter.WriteMsg(m)
}

func (t *tapObserver) Name() string { return tapName }
func (t *tapObserver) ServeDNS(ctx context.Context, ch *middleware.Chain) {
	run := t.we.cur
	// An undecoded request was not a synthesis candidate (dns64 materializes
	// those): stay out of the way of the cache's wire ladder.
	if run == nil || ch.Request.Undecoded() {
		ch.Next(ctx)
		return
	}
	req := ch.Request.Msg()
	if req == nil || len(req.Question) != 1 {
		ch.Next(ctx)
		return
	}
	rec := &tapRec{q: req.Question[0], internal: ch.Writer.Internal(), rd: req.RecursionDesired, cd: req.CheckingDisabled}
	run.recs = append(run.recs, rec)
	w := ch.Writer
	ch.Writer = &tapWriter{ResponseWriter: w, ctx: ctx, rec: rec}
	defer func() { ch.Writer = w }()
	ch.Next(ctx)
}

// ---------------------------------------------------------------- scripted stub

func localErrFor(mark string, q dns.Question) error {
	switch mark {
	case "local-attempt":
		return &middleware.ResolutionAttemptLimitError{Question: q, Endpoint: "192.0.2.53:53", Transport: "udp"}
	case "local-maxrec":
		return middleware.ErrMaxRecursion
	case "local-work":
		return &middleware.RecursionWorkLimitError{Kind: middleware.RecursionWorkOutboundQuery, Limit: 1}
	case "local-shed":
		return fmt.Errorf("lookup: %w", middleware.ErrResolutionShed)
	case "local-probe":
		return middleware.ErrFailureProbeLimit
	case "local-canceled":
		return context.Canceled
	}
	return fmt.Errorf("upstream exchange: %w", context.DeadlineExceeded) // local-deadline
}

func localKind(err error) string {
	switch {
	case errors.Is(err, middleware.ErrResolutionAttemptLimit):
		return "local-attempt"
	case errors.Is(err, middleware.ErrRecursionWorkLimit):
		return "local-work"
	case errors.Is(err, middleware.ErrMaxRecursion):
		return "local-maxrec"
	case errors.Is(err, middleware.ErrResolutionShed):
		return "local-shed"
	case errors.Is(err, middleware.ErrFailureProbeLimit):
		return "local-probe"
	case errors.Is(err, context.Canceled):
		return "local-canceled"
	}
	return "local-deadline"
}

// answer scripts the terminal handler for one request: the client pass, the
// secondary A lookup for the case's name, the in-addr.arpa PTR chase, or a
// lookup the real cache started on its own (alias chase → NODATA).
func (we *wireEnv) answer(req *dns.Msg, internal bool) (resp *dns.Msg, mark func(context.Context, *dns.Msg), drop bool) {
	run := we.cur
	if run == nil || req == nil || len(req.Question) != 1 {
		m := new(dns.Msg)
		if req != nil {
			m.SetRcode(req, dns.RcodeRefused)
		}
		return m, nil, false
	}
	q := req.Question[0]
	run.calls = append(run.calls, stubCall{Qname: q.Name, Qtype: q.Qtype, Internal: internal, RD: req.RecursionDesired, CD: req.CheckingDisabled})
	var spec *respSpec
	slot := ""
	switch {
	case !internal:
		spec, slot = &run.c.Resp, "client"
		run.clientStub++
	case q.Qtype == dns.TypeA && strings.EqualFold(q.Name, run.c.Qname):
		spec, slot = &run.c.A, "a"
	case q.Qtype == dns.TypePTR && strings.HasSuffix(strings.ToLower(q.Name), ".in-addr.arpa."):
		spec, slot = &run.c.PTR, "ptr"
	default:
		zone := zoneOf(q.Name)
		spec, slot = &respSpec{Shape: "chase-nodata", RA: true, Ns: []string{soaRR(zone, 300, 300)}}, "chase"
	}
	if spec.NoReply {
		return nil, nil, true
	}
	m, err := buildResp(spec, req)
	if err != nil {
		run.errs = append(run.errs, err.Error())
		return nil, nil, true
	}
	if slot != "chase" {
		run.sent[slot] = m.Copy()
	}
	if strings.HasPrefix(spec.Mark, "local-") {
		lerr := localErrFor(spec.Mark, q)
		mark = func(ctx context.Context, out *dns.Msg) {
			// what resolver/handler.go, failover and the cache do with a
			// terminal request-local error
			gctx, _ := middleware.EnsureResolutionAttemptGuard(ctx)
			middleware.MarkRequestLocalFailureResponse(gctx, out, lerr)
			if middleware.RequestLocalFailureForResponse(gctx, out) == nil {
				run.errs = append(run.errs, "request-local mark did not stick")
			}
		}
	}
	return m, mark, false
}

func (we *wireEnv) stackStub(_ context.Context, sr *stack.StubRequest) *stack.StubReply {
	resp, mark, drop := we.answer(sr.Msg, sr.Internal)
	if drop {
		return &stack.StubReply{Drop: true}
	}
	return &stack.StubReply{Msg: resp, Verbatim: true, After: mark}
}

// wireStub is the terminal handler of the bare variant (the stack's own stub
// is not reachable there because the chain is re-registered).
type wireStub struct{ we *wireEnv }

func (s *wireStub) Name() string { return wireStubName }
func (s *wireStub) ServeDNS(ctx context.Context, ch *middleware.Chain) {
	ctx, req := ch.Materialize(ctx)
	if req == nil {
		return
	}
	resp, mark, drop := s.we.answer(req.Copy(), ch.Writer.Internal())
	if drop {
		ch.Cancel()
		return
	}
	if mark != nil {
		mark(ctx, resp)
	}
	_ = ch.Writer.WriteMsg(resp)
	ch.Cancel()
}

// ---------------------------------------------------------------- environment

func buildWireEnv(c cfgSpec, variant string) (*wireEnv, error) {
	cfg := stack.DefaultConfig()
	cfg.DNS64.Enabled = true
	cfg.DNS64.Prefixes = c.Prefixes
	cfg.DNS64.ClientNetworks = c.ClientNetworks
	cfg.DNS64.ExcludeZones = c.ExcludeZones
	if c.ExcludeA != nil {
		cfg.DNS64.ExcludeANetworks = append([]string{}, (*c.ExcludeA)...)
	}
	if c.ExcludeAAAA != nil {
		cfg.DNS64.ExcludeAAAANetworks = append([]string{}, (*c.ExcludeAAAA)...)
	}
	we := &wireEnv{variant: variant, m: newModel(c), cfg: c}
	opts := stack.Options{Config: cfg, Stub: we.stackStub}
	opts.Before = func() {
		if variant == "bare" {
			middleware.Reset()
			middleware.Register("dns64", func(cfg *config.Config) middleware.Handler { return dns64.New(cfg) })
			middleware.Register("cache", func(cfg *config.Config) middleware.Handler { return cache.New(cfg) })
			middleware.Register(wireStubName, func(*config.Config) middleware.Handler { return &wireStub{we} })
		}
		middleware.RegisterBefore(preName, func(*config.Config) middleware.Handler { return &preObserver{we} }, "dns64")
		middleware.RegisterBefore(tapName, func(*config.Config) middleware.Handler { return &tapObserver{we} }, "cache")
	}
	st, err := stack.New(opts)
	if err != nil {
		return nil, err
	}
	we.st = st
	hs := st.Handlers()
	at := func(n string) int {
		for i, h := range hs {
			if h == n {
				return i
			}
		}
		return -1
	}
	ip, id, it, ic := at(preName), at("dns64"), at(tapName), at("cache")
	ok := ip >= 0 && id == ip+1 && it == id+1 && ic == it+1 && ic == len(hs)-2
	if variant == "prod" {
		ok = ok && at("edns") >= 0 && at("edns") < ip && at("as112") >= 0 && hs[len(hs)-1] == stack.StubName
	} else {
		ok = ok && len(hs) == 5 && hs[4] == wireStubName
	}
	if !ok {
		st.Close()
		return nil, fmt.Errorf("unexpected %s pipeline shape %v", variant, hs)
	}
	if d, _ := st.Handler("dns64").(*dns64.DNS64); d == nil {
		st.Close()
		return nil, fmt.Errorf("dns64 handler missing from the %s pipeline", variant)
	}
	return we, nil
}

func (we *wireEnv) close() { we.st.Close() }

func safeBuildWireEnv(r *vlib.Run, c cfgSpec, variant string) (we *wireEnv) {
	defer func() {
		if p := recover(); p != nil {
			r.Violation("panic/dns64-new", fmt.Sprintf("building the %s pipeline panicked: %v", variant, p), map[string]any{"kind": "config", "cfg": c})
			we = nil
		}
	}()
	we, err := buildWireEnv(c, variant)
	if err != nil {
		r.Inconclusive("harness: " + err.Error())
		return nil
	}
	return we
}

// ---------------------------------------------------------------- one execution

type wireFlags struct {
	Client, Proto        string
	RD, CD, AD, EDNS, DO bool
}

type wireOut struct {
	res    stack.Result
	run    *wireRun
	pkt    []byte
	inline bool
}

func buildWireQuery(c *pipeCase, f wireFlags, seq int) *dns.Msg {
	req := new(dns.Msg)
	req.Id = uint16(c.Index*7 + 11 + seq)
	req.Question = []dns.Question{{Name: c.Qname, Qtype: c.Qtype, Qclass: dns.ClassINET}}
	req.RecursionDesired = f.RD
	req.CheckingDisabled = f.CD
	req.AuthenticatedData = f.AD
	if f.EDNS {
		req.SetEdns0(1232, f.DO)
	}
	return req
}

func (we *wireEnv) serve(c *pipeCase, f wireFlags, entry string, seq int) (o wireOut) {
	run := &wireRun{c: c, sent: map[string]*dns.Msg{}}
	o.run = run
	req := buildWireQuery(c, f, seq)
	pkt, err := req.Pack()
	if err != nil {
		run.errs = append(run.errs, "pack: "+err.Error())
		return o
	}
	o.pkt = pkt
	we.cur = run
	defer func() { we.cur = nil }()
	switch entry {
	case "msg":
		o.res = we.st.ServeMsg(f.Client, f.Proto, req)
	case "engine":
		o.res, o.inline = we.st.ServeRawLikeEngine(stack.NewJob(f.Client, f.Proto), pkt)
	default: // raw
		o.res = we.st.ServeRaw(f.Client, f.Proto, pkt)
	}
	return o
}

func withTag(c *pipeCase, tag string) *pipeCase {
	out := *c
	sub := func(s string) string { return strings.ReplaceAll(s, tagToken, tag) }
	subs := func(ss []string) []string {
		if ss == nil {
			return nil
		}
		o := make([]string, len(ss))
		for i, s := range ss {
			o[i] = sub(s)
		}
		return o
	}
	spec := func(s respSpec) respSpec {
		s.Answer, s.Ns, s.Extra = subs(s.Answer), subs(s.Ns), subs(s.Extra)
		s.EDE = append([]uint16(nil), s.EDE...)
		return s
	}
	out.Qname = sub(c.Qname)
	out.Resp, out.A, out.PTR = spec(c.Resp), spec(c.A), spec(c.PTR)
	return &out
}

func specFromMsg(m *dns.Msg, shape, mark string) respSpec {
	s := respSpec{Shape: shape, Rcode: m.Rcode, AD: m.AuthenticatedData, RA: m.RecursionAvailable, Mark: mark}
	for _, rr := range m.Answer {
		s.Answer = append(s.Answer, rr.String())
	}
	for _, rr := range m.Ns {
		s.Ns = append(s.Ns, rr.String())
	}
	if opt := m.IsEdns0(); opt != nil {
		s.EDNS = true
		for _, o := range opt.Option {
			if e, ok := o.(*dns.EDNS0_EDE); ok {
				s.EDE = append(s.EDE, e.InfoCode)
			}
		}
	}
	return s
}

func msgHasEDE(m *dns.Msg, code uint16) bool {
	if m == nil {
		return false
	}
	opt := m.IsEdns0()
	if opt == nil {
		return false
	}
	for _, o := range opt.Option {
		if e, ok := o.(*dns.EDNS0_EDE); ok && e.InfoCode == code {
			return true
		}
	}
	return false
}

func recMark(rec *tapRec) string {
	switch {
	case rec.cached:
		return "cached"
	case rec.local != nil:
		return localKind(rec.local)
	}
	return ""
}

// observe rebuilds the case as dns64 saw it: the downstream responses are the
// ones recorded directly below dns64; where dns64 never asked (or the request
// passed undecoded), the scripted ones stand.
func (we *wireEnv) observe(c *pipeCase, f wireFlags, o wireOut, step int) (obs *pipeCase, out outcome, clientRec *tapRec) {
	cp := *c
	obs = &cp
	obs.Client, obs.Proto, obs.RD, obs.CD, obs.AD, obs.EDNS, obs.DO = f.Client, f.Proto, f.RD, f.CD, f.AD, f.EDNS, f.DO
	run := o.run
	var aRec, ptrRec *tapRec
	for _, rec := range run.recs {
		switch {
		case !rec.internal:
			clientRec = rec // the replay pass after an inline handoff is the later one
		case rec.q.Qtype == dns.TypeA && strings.EqualFold(rec.q.Name, c.Qname) && aRec == nil:
			aRec = rec
		case rec.q.Qtype == dns.TypePTR && ptrRec == nil:
			ptrRec = rec
		}
		if rec.internal {
			out.calls = append(out.calls, stubCall{Qname: rec.q.Name, Qtype: rec.q.Qtype, Internal: true, RD: rec.rd, CD: rec.cd})
		}
	}
	out.sent = map[string]*dns.Msg{}
	shape := c.Resp.Shape
	if step == 2 {
		shape = "again/" + shape
	}
	switch {
	case clientRec != nil && clientRec.msg != nil:
		mark := recMark(clientRec)
		if mark == "" && step == 2 && run.clientStub == 0 && clientRec.msg.Rcode == dns.RcodeServerFailure {
			// answered below dns64 without consulting the stub: the failure cache
			mark = "cached"
		}
		obs.Resp = specFromMsg(clientRec.msg, shape, mark)
		out.sent["client"] = clientRec.msg
	case clientRec != nil:
		obs.Resp = respSpec{Shape: shape + "/nothing-written", NoReply: true, Rcode: dns.RcodeServerFailure}
	case run.sent["client"] != nil:
		// the request passed dns64 undecoded: what the stub sent is what came back
		mark := ""
		if strings.HasPrefix(c.Resp.Mark, "local-") {
			mark = c.Resp.Mark // put on by the stub itself
		}
		obs.Resp = specFromMsg(run.sent["client"], shape, mark)
		sent := run.sent["client"].Copy()
		if o.res.Msg != nil {
			// a cache in between may only have aged the records
			for _, srr := range sent.Answer {
				for _, rrr := range o.res.Msg.Answer {
					if srr.Header().Rrtype == dns.TypeAAAA && rrr.Header().Rrtype == dns.TypeAAAA &&
						strings.EqualFold(srr.Header().Name, rrr.Header().Name) &&
						srr.(*dns.AAAA).AAAA.Equal(rrr.(*dns.AAAA).AAAA) && rrr.Header().Ttl <= srr.Header().Ttl {
						srr.Header().Ttl = rrr.Header().Ttl
					}
				}
			}
		}
		out.sent["client"] = sent
	default:
		rc := dns.RcodeServerFailure
		if o.res.Msg != nil {
			rc = o.res.Msg.Rcode
		}
		obs.Resp = respSpec{Shape: shape + "/answered-above-the-stub", Rcode: rc}
		if step == 2 && rc == dns.RcodeServerFailure && c.Resp.Rcode != dns.RcodeSuccess {
			obs.Resp.Mark = "cached" // the cache's wire ladder served the recorded failure
		}
	}
	if aRec != nil {
		if aRec.msg == nil {
			obs.A = respSpec{Shape: c.A.Shape, NoReply: true}
		} else {
			mark := recMark(aRec)
			if mark == "" && msgHasEDE(aRec.msg, dns.ExtendedErrorCodeCachedError) && aRec.msg.Rcode == dns.RcodeServerFailure {
				mark = "cached"
			}
			obs.A = specFromMsg(aRec.msg, c.A.Shape, mark)
		}
	}
	if ptrRec != nil && ptrRec.msg != nil {
		if mk := recMark(ptrRec); mk != "" {
			obs.PTR.Mark = mk
		}
	}
	out.reply = o.res.Msg
	out.errs = run.errs
	out.panicV = o.res.Panic
	return obs, out, clientRec
}

// ---------------------------------------------------------------- projection for the differential

type wireProj struct {
	basis  string // what the execution was answered from below dns64
	ok     bool
	rcode  int
	ad, tc bool
	answer []string
	cname  string // PTR: target of the redirect owned by the query name
}

func project(o wireOut, c *pipeCase, tag string, ptr, maskTTL bool) (p wireProj) {
	m := o.res.Msg
	if m == nil || o.res.Panic != nil {
		return p
	}
	p.ok, p.rcode, p.ad, p.tc = true, m.Rcode, m.AuthenticatedData, m.Truncated
	for _, rr := range m.Answer {
		if ptr {
			if cn, ok := rr.(*dns.CNAME); ok && strings.EqualFold(cn.Hdr.Name, c.Qname) && p.cname == "" {
				p.cname = strings.ToLower(cn.Target)
			}
			continue // chased PTR records come from a cache shared between executions
		}
		fs := strings.Fields(strings.ReplaceAll(strings.ToLower(rr.String()), tag, "<tag>"))
		if maskTTL && len(fs) > 1 {
			fs[1] = "-" // a repeated question may be answered from aged cache entries
		}
		p.answer = append(p.answer, strings.Join(fs, " "))
	}
	sort.Strings(p.answer)
	return p
}

func (p wireProj) diff(q wireProj, ptr bool) string {
	if ptr && p.cname == "" && q.cname == "" {
		// a PTR query dns64 passed on: the name is shared between the
		// executions, so the later one is answered by the cache
		return ""
	}
	switch {
	case p.basis != q.basis:
		// e.g. one execution was held up past the failure cache's hold time
		return "-"
	case p.rcode != q.rcode:
		return "rcode"
	case p.ad != q.ad:
		return "ad"
	case p.cname != q.cname:
		return "ptr-redirect"
	case strings.Join(p.answer, "\n") != strings.Join(q.answer, "\n"):
		return "answer"
	}
	return ""
}

// ---------------------------------------------------------------- generators

var neutralEDE = []uint16{0, 3, 14, 20, 22, 23}

var localMarks = []string{"local-attempt", "local-deadline", "local-maxrec", "local-work", "local-shed", "local-probe", "local-canceled"}

// genTranslatableA: an A response with at least one address that must be
// translated under some configured prefix (so a wrongly opened gate shows).
func genTranslatableA(rng *rand.Rand, m *model, qname string) respSpec {
	s := respSpec{Shape: "a", RA: true, AD: rng.IntN(4) == 0, EDNS: rng.IntN(2) == 0}
	owner := qname
	if rng.IntN(4) == 0 {
		s.Shape = "cname-a"
		owner = fmt.Sprintf("alias0.cdn-%d.example.net.", rng.IntN(50))
		s.Answer = append(s.Answer, fmt.Sprintf("%s %d IN CNAME %s", qname, pick(rng, ttlPool), owner))
	}
	seen := map[[4]byte]bool{}
	add := func(v [4]byte) {
		if !seen[v] {
			seen[v] = true
			s.Answer = append(s.Answer, fmt.Sprintf("%s %d IN A %s", owner, pick(rng, ttlPool), v4s(v)))
		}
	}
	for i, n := 0, rng.IntN(3); i < n; i++ {
		add(genV4(rng, m))
	}
	for try := 0; ; try++ {
		v := [4]byte{pick(rng, []byte{23, 45, 64, 104, 151, 185, 199, 208}), byte(rng.UintN(256)), byte(rng.UintN(256)), byte(1 + rng.UintN(250))}
		must := false
		for _, p := range m.prefixes {
			must = must || m.skipA(p, v) == 0
		}
		if must || try > 50 {
			add(v)
			break
		}
	}
	return s
}

func tagAliases(ss []string) []string {
	for i, s := range ss {
		ss[i] = strings.ReplaceAll(s, ".cdn-", ".cdn-"+tagToken+"-")
	}
	return ss
}

// genWireCase: one AAAA-side case. Alias targets and the query name carry the
// tag token, so every execution of the case lives in its own namespace and no
// cache entry is shared between executions.
func genWireCase(rng *rand.Rand, m *model, cfg cfgSpec, idx int, variant string) *wireCase {
	e := &env{m: m}
	wc := &wireCase{Kind: "wire", Index: idx, Variant: variant, Cfg: cfg, Flow: "single"}
	switch x := rng.IntN(100); {
	case x < 45:
	case x < 75:
		wc.Flow = "cached-failure"
	default:
		wc.Flow = "request-local"
	}
	c := genPipeCaseUnder(rng, e, cfg, idx, tagToken+".")
	if wc.Flow != "single" && rng.IntN(8) != 0 {
		// gates open: the failure provenance is the only thing between the
		// downstream response and a synthesised answer
		c.RD, c.CD, c.Qtype = true, false, dns.TypeAAAA
		c.Client = genClient(rng, m, true)
		if m.zoneExcluded(c.Qname) {
			c.Qname = tagToken + "." + genQname(rng, m, false)
		}
	}
	// the failure cache is real here, never scripted
	plainFail := func(s *respSpec) {
		if s.Mark == "cached" {
			s.Mark, s.Shape, s.Rcode = "", "servfail-plain", dns.RcodeServerFailure
		}
	}
	switch wc.Flow {
	case "cached-failure":
		s := respSpec{RA: true, Rcode: dns.RcodeServerFailure, EDNS: rng.IntN(2) == 0}
		switch rng.IntN(5) {
		case 0, 1:
			s.Shape = "servfail-plain"
		case 2:
			s.Shape, s.EDNS, s.EDE = "servfail-ede-neutral", true, []uint16{pick(rng, neutralEDE)}
		case 3:
			s.Shape, s.EDNS, s.EDE = "servfail-ede-dnssec", true, []uint16{uint16(5 + rng.IntN(8))}
		default:
			s.Shape, s.Rcode = "rcode-other", pick(rng, []int{dns.RcodeRefused, dns.RcodeNotImplemented, dns.RcodeFormatError, dns.RcodeNotAuth})
		}
		c.Resp = s
		c.A = genTranslatableA(rng, m, c.Qname)
		wc.Step2 = &wireStep2{Client: genClient(rng, m, true), EDNS: idx%2 == 0, AD: rng.IntN(3) == 0}
		wc.Step2.DO = wc.Step2.EDNS && rng.IntN(2) == 0
	case "request-local":
		s := respSpec{RA: true, Rcode: dns.RcodeServerFailure, EDNS: rng.IntN(2) == 0, Mark: localMarks[idx%len(localMarks)]}
		s.Shape = "marked-" + s.Mark
		if rng.IntN(3) == 0 {
			s.EDNS, s.EDE = true, []uint16{pick(rng, neutralEDE)}
		}
		if rng.IntN(6) == 0 { // provenance, not rcode, defines a request-local failure
			s.Rcode = dns.RcodeSuccess
		}
		c.Resp = s
		c.A = genTranslatableA(rng, m, c.Qname)
	}
	plainFail(&c.Resp)
	plainFail(&c.A)
	c.Resp.Answer, c.Resp.Ns = tagAliases(c.Resp.Answer), tagAliases(c.Resp.Ns)
	c.A.Answer, c.A.Ns = tagAliases(c.A.Answer), tagAliases(c.A.Ns)
	c.Cfg = cfgSpec{} // carried once, by the wireCase
	wc.Case = *c
	return wc
}

func genWirePTRCase(rng *rand.Rand, m *model, cfg cfgSpec, idx int, variant string) *wireCase {
	c := genPTRCase(rng, &env{m: m}, cfg, idx)
	switch c.PTR.Mark {
	case "cached": // the failure cache is real here
		c.PTR.Mark, c.PTR.Shape = "", "servfail"
	}
	c.Cfg = cfgSpec{}
	return &wireCase{Kind: "wire-ptr", Index: idx, Variant: variant, Cfg: cfg, Flow: "ptr", Case: *c}
}

// RFC 6303 ip6.arpa empty zones the as112 handler serves by default, ahead
// of dns64 in the production chain.
var emptyIP6Zones = []string{
	"0.0.0.0.0.0.0.0.0.0.0.0.0.0.0.0.0.0.0.0.0.0.0.0.0.0.0.0.0.0.0.0.ip6.arpa.",
	"1.0.0.0.0.0.0.0.0.0.0.0.0.0.0.0.0.0.0.0.0.0.0.0.0.0.0.0.0.0.0.0.ip6.arpa.",
	"d.f.ip6.arpa.", "8.e.f.ip6.arpa.", "9.e.f.ip6.arpa.", "a.e.f.ip6.arpa.", "b.e.f.ip6.arpa.",
	"8.b.d.0.1.0.0.2.ip6.arpa.",
}

func underEmptyZone(qname string) bool {
	q := strings.ToLower(qname)
	for _, z := range emptyIP6Zones {
		if q == z || strings.HasSuffix(q, "."+z) {
			return true
		}
	}
	return false
}

// ---------------------------------------------------------------- running and judging

func entriesFor(proto string) []string {
	if proto == "udp" {
		return []string{"msg", "raw", "engine"}
	}
	return []string{"msg", "raw"}
}

func caseFlags(c *pipeCase) wireFlags {
	return wireFlags{Client: c.Client, Proto: c.Proto, RD: c.RD, CD: c.CD, AD: c.AD, EDNS: c.EDNS, DO: c.DO}
}

func (we *wireEnv) gatesOpen(c *pipeCase, f wireFlags) bool {
	return c.Qtype == dns.TypeAAAA && f.RD && !f.CD && we.m.eligible(f.Client) && !we.m.zoneExcluded(c.Qname)
}

// judgeWire judges one execution (one entry, one step) of a case.
func (we *wireEnv) judgeWire(r *vlib.Run, wc *wireCase, c *pipeCase, f wireFlags, entry string, step int, o wireOut, verbose bool) (basis string) {
	born := "decoded"
	if entry != "msg" {
		born = "wireborn"
	}
	r.Count(born+"_executions", 1)
	r.Count(born+"_executions_"+we.variant, 1)
	if entry != "msg" {
		r.Count("wireborn_entry_"+entry+"_"+f.Proto, 1)
		if !o.res.Strict {
			// the packet took the decoded fallback of the raw entry
			r.Count("wireborn_not_strict", 1)
			born = "rawfallback"
		}
		if o.inline {
			r.Count("wireborn_answered_on_inline_pass", 1)
		}
	}
	if o.res.Writes > 1 {
		r.Count(born+"_multiple_writes", 1)
	}
	obs, out, clientRec := we.observe(c, f, o, step)
	basis = fmt.Sprintf("stub=%d mark=%s a=%s", o.run.clientStub, obs.Resp.Mark, obs.A.Mark)
	if verbose && out.reply != nil {
		fmt.Printf("--- %s/%s step %d (strict=%v undecoded-at-dns64=%v stub-calls=%d)\n%s\n", we.variant, entry, step, o.res.Strict, o.run.undecoded, len(o.run.calls), out.reply.String())
	}
	if out.reply != nil && out.reply.Truncated {
		// a truncated reply is a retry signal with the content removed
		r.Count(born+"_truncated_replies", 1)
		return
	}
	rep := *wc
	rep.Entry, rep.Step, rep.Observed = entry, step, obs
	rep.QueryHex, rep.ReplyHex = hex.EncodeToString(o.pkt), hex.EncodeToString(o.res.Raw)
	obs.replay = &rep
	switch born {
	case "wireborn":
		obs.Ctr, obs.SigPrefix = "wire_", "wire/"
	case "decoded":
		obs.Ctr, obs.SigPrefix = "wdec_", "full/"
	default:
		obs.Ctr, obs.SigPrefix = "wfall_", "full/"
	}
	env := &env{m: we.m}
	if wc.Kind == "wire-ptr" {
		// excused only when the query really never reached dns64
		obs.Shadowed = we.variant == "prod" && underEmptyZone(c.Qname) && o.run.pre == 0
		v := judgePTR(r, env, obs, out)
		if born == "wireborn" && v.Judged {
			if o.run.pre > 0 && o.run.undecoded {
				r.Count("wireborn_ptr_undecoded_at_dns64", 1)
			}
			if v.Translated && len(v.Violations) == 0 {
				r.Count("wireborn_ptr_redirections", 1)
				r.Count("wireborn_ptr_redirections_"+entry+"_"+f.Proto, 1)
				r.Count("wireborn_ptr_redirections_"+we.variant, 1)
			}
		}
		return
	}
	v := judgePipe(r, env, obs, out)
	if !v.Judged {
		return
	}
	open := we.gatesOpen(c, f)
	if born == "wireborn" && o.run.pre > 0 && o.run.undecoded {
		r.Count("wireborn_undecoded_at_dns64", 1)
		if open {
			r.Count("wireborn_candidates_undecoded_at_dns64", 1)
		}
	}
	if v.Synth > 0 && len(v.Violations) == 0 {
		r.Count(born+"_aaaa_synthesised", 1)
		r.Count(born+"_aaaa_synthesised_"+we.variant, 1)
		if entry != "msg" {
			r.Count(born+"_aaaa_synthesised_"+entry+"_"+f.Proto, 1)
		}
	}
	if clientRec == nil || clientRec.msg == nil || !open {
		return
	}
	switch mark := obs.Resp.Mark; {
	case mark == "cached" && o.run.clientStub == 0:
		fl := "nonedns"
		if f.EDNS {
			fl = "edns"
		}
		r.Count(born+"_cached_failure_"+fl, 1)
		r.Count(born+"_cached_failure_"+fl+"_"+we.variant, 1)
		r.Count(born+"_cached_failure_first_was_"+strings.TrimPrefix(obs.Resp.Shape, "again/"), 1)
		if !msgHasEDE(clientRec.msg, dns.ExtendedErrorCodeCachedError) {
			// no EDE 13 in the message dns64 saw: the marker is the only signal
			r.Count(born+"_cached_failure_marker_only", 1)
		}
		if !clientRec.cached {
			r.Count(born+"_cached_failure_without_marker", 1)
		}
	case strings.HasPrefix(mark, "local-"):
		r.Count(born+"_request_local_failure", 1)
		r.Count(born+"_request_local_failure_"+we.variant, 1)
		r.Count(born+"_request_local_failure_"+mark, 1)
	}
	return basis
}

// runCase executes a case through every entry (each under its own names) and
// compares the wire entries with the decoded one.
func (we *wireEnv) runCase(r *vlib.Run, wc *wireCase, verbose bool) {
	ptr := wc.Kind == "wire-ptr"
	type stepProj struct {
		p   wireProj
		hex string
	}
	projs := map[string][]stepProj{}
	entries := entriesFor(wc.Case.Proto)
	for ei, entry := range entries {
		tag := fmt.Sprintf("w%dk%d%s", wc.Index, ei, we.variant[:1])
		c := withTag(&wc.Case, tag)
		c.Cfg = wc.Cfg
		f := caseFlags(c)
		o := we.serve(c, f, entry, 0)
		p1 := project(o, c, tag, ptr, false)
		p1.basis = we.judgeWire(r, wc, c, f, entry, 1, o, verbose)
		projs[entry] = append(projs[entry], stepProj{p1, hex.EncodeToString(o.res.Raw)})
		if wc.Step2 != nil {
			f2 := wireFlags{Client: wc.Step2.Client, Proto: c.Proto, RD: true, EDNS: wc.Step2.EDNS, DO: wc.Step2.DO, AD: wc.Step2.AD}
			o2 := we.serve(c, f2, entry, 1)
			p2 := project(o2, c, tag, ptr, true)
			p2.basis = we.judgeWire(r, wc, c, f2, entry, 2, o2, verbose)
			projs[entry] = append(projs[entry], stepProj{p2, hex.EncodeToString(o2.res.Raw)})
		}
	}
	for _, entry := range entries[1:] {
		for si := range projs[entry] {
			d, w := projs["msg"][si], projs[entry][si]
			if !d.p.ok || !w.p.ok {
				r.Count("entries_not_compared_no_reply", 1)
				continue
			}
			if d.p.tc || w.p.tc {
				r.Count("entries_not_compared_truncated", 1)
				continue
			}
			what := w.p.diff(d.p, ptr)
			if what == "-" {
				r.Count("entries_not_compared_different_basis", 1)
				continue
			}
			r.Eval(1)
			r.Count("entries_compared", 1)
			r.Count("entries_compared_"+entry, 1)
			if what != "" {
				rep := *wc
				rep.Entry, rep.Step, rep.ReplyHex = entry, si+1, w.hex
				r.Violation("wire/differs-from-decoded/"+what,
					fmt.Sprintf("%s pipeline, %s %s step %d: the reply through the %s %s wire entry differs from the reply through the decoded entry in %s (wire: rcode=%d ad=%v %v %q; decoded: rcode=%d ad=%v %v %q)",
						we.variant, wc.Case.Qname, dns.TypeToString[wc.Case.Qtype], si+1, entry, wc.Case.Proto, what,
						w.p.rcode, w.p.ad, w.p.answer, w.p.cname, d.p.rcode, d.p.ad, d.p.answer, d.p.cname), &rep)
			}
		}
	}
}

func runWire(r *vlib.Run) {
	nCfg := r.N(150, 6000)
	const perCfgAAAA, perCfgPTR = 14, 5
	for ci := 0; ci < nCfg; ci++ {
		cfg := genCfg(r.RandN("wcfg", ci), ci)
		for vi, variant := range []string{"prod", "bare"} {
			we := safeBuildWireEnv(r, cfg, variant)
			if we == nil {
				continue
			}
			r.Count("wire_stacks_"+variant, 1)
			for k := 0; k < perCfgAAAA; k++ {
				idx := (ci*2+vi)*100 + k
				we.runCase(r, genWireCase(r.RandN("wcase", idx), we.m, cfg, idx, variant), false)
			}
			for k := 0; k < perCfgPTR; k++ {
				idx := (ci*2+vi)*100 + 50 + k
				we.runCase(r, genWirePTRCase(r.RandN("wptr", idx), we.m, cfg, idx, variant), false)
			}
			we.close()
		}
		r.Progress("wire configs %d/%d", ci+1, nCfg)
	}
}

func replayWire(r *vlib.Run, raw json.RawMessage) {
	var wc wireCase
	if err := json.Unmarshal(raw, &wc); err != nil {
		r.Inconclusive("replay: " + err.Error())
		return
	}
	wc.Entry, wc.Step, wc.Observed, wc.QueryHex, wc.ReplyHex = "", 0, nil, "", ""
	if wc.Variant != "bare" {
		wc.Variant = "prod"
	}
	we := safeBuildWireEnv(r, wc.Cfg, wc.Variant)
	if we == nil {
		return
	}
	defer we.close()
	r.Sample(map[string]any{"kind": "wire-replay", "variant": wc.Variant, "flow": wc.Flow, "qname": wc.Case.Qname, "prefixes": wc.Cfg.Prefixes})
	we.runCase(r, &wc, true)
}

func requireWire(r *vlib.Run) {
	r.Require("wireborn_executions_prod", 1500)
	r.Require("wireborn_executions_bare", 1500)
	r.Require("wireborn_candidates_undecoded_at_dns64", 1000)
	r.Require("wireborn_aaaa_synthesised", 300)
	r.Require("wireborn_aaaa_synthesised_prod", 100)
	r.Require("wireborn_aaaa_synthesised_bare", 100)
	for _, e := range []string{"raw_udp", "raw_tcp", "engine_udp"} {
		r.Require("wireborn_aaaa_synthesised_"+e, 50)
	}
	r.Require("wireborn_cached_failure_edns", 100)
	r.Require("wireborn_cached_failure_nonedns", 100)
	r.Require("wireborn_cached_failure_nonedns_bare", 40)
	r.Require("wireborn_cached_failure_marker_only", 40)
	r.Require("wireborn_request_local_failure", 200)
	r.Require("wireborn_request_local_failure_prod", 80)
	r.Require("wireborn_request_local_failure_bare", 80)
	for _, mk := range localMarks {
		r.Require("wireborn_request_local_failure_"+mk, 10)
	}
	r.Require("wireborn_ptr_redirections", 100)
	r.Require("wireborn_ptr_redirections_prod", 30)
	r.Require("wireborn_ptr_redirections_bare", 30)
	r.Require("wireborn_ptr_undecoded_at_dns64", 100)
	// overlapping configured prefixes through the wire entries
	r.Require("wire_synth_records_under_overlapped_prefix", 20)
	r.Require("wire_ptr_translated_under_overlapped_prefix", 5)
	r.Require("decoded_aaaa_synthesised", 100)
	r.Require("decoded_cached_failure_nonedns", 40)
	r.Require("decoded_request_local_failure", 80)
	r.Require("entries_compared", 3000)
	for _, reason := range []string{"rd0", "cd1", "client-ineligible", "zone-excluded", "nxdomain", "dnssec-failure", "native-aaaa"} {
		r.Require("wire_nosynth_sole_"+reason, 5)
	}
}
