// C20 — DNS64 synthesises only RFC 6052 addresses, only when allowed, never
// with AD.
//
// Layer A (pure.go): the real validatePrefix/embedIPv4/extractIPv4 and the
// ip6.arpa / in-addr.arpa codecs against an independent RFC 6052 model.
// Layer B (pipe.go, gen.go, judge.go): the real pipeline [dns64, stub] wired
// by middleware.Setup; generated (configuration, client query, downstream
// responses) triples judged against the property statement.
// Layer C (wire.go): the full pipeline in production order (stack.New: … edns …
// as112, dns64, cache, stub) and a bare [dns64, cache, stub] one, entered through
// the strict-job WIRE entries (Server.ServeRaw UDP/TCP, inline pass + replay) and
// through Server.ServeMsg with the same generated cases; the real failure cache
// and request-local provenance sit below dns64; every reply judged with the
// rules of layer B and the wire entries compared with the decoded entry.
package main

import (
	"encoding/json"
	"fmt"
	"io"

	"github.com/miekg/dns"

	"github.com/semihalev/sdns/zzverif/vlib"
	"github.com/semihalev/zlog/v2"
)

func safeBuildEnv(r *vlib.Run, c cfgSpec) (e *env) {
	defer func() {
		if p := recover(); p != nil {
			r.Violation("panic/dns64-new", fmt.Sprintf("building the pipeline panicked: %v", p), map[string]any{"kind": "config", "cfg": c})
			e = nil
		}
	}()
	e, err := buildEnv(c)
	if err != nil {
		r.Inconclusive("harness: " + err.Error())
		return nil
	}
	return e
}

func runPipeline(r *vlib.Run) {
	nCfg := r.N(3000, 250000)
	const perCfgAAAA, perCfgPTR = 40, 12
	for ci := 0; ci < nCfg; ci++ {
		cfg := genCfg(r.RandN("cfg", ci), ci)
		e := safeBuildEnv(r, cfg)
		if e == nil {
			continue
		}
		judgeConfig(r, e, cfg)
		for k := 0; k < perCfgAAAA; k++ {
			idx := ci*1000 + k
			c := genPipeCase(r.RandN("case", idx), e, cfg, idx)
			v := judgePipe(r, e, c, e.run(c))
			if v.Synth > 0 && len(v.Violations) == 0 {
				roundTrip(r, e, c, v.SynthAddrs)
			}
		}
		for k := 0; k < perCfgPTR; k++ {
			idx := ci*1000 + 500 + k
			c := genPTRCase(r.RandN("ptr", idx), e, cfg, idx)
			judgePTR(r, e, c, e.run(c))
		}
		r.Progress("configs %d/%d", ci+1, nCfg)
	}
}

// roundTrip: the reverse lookup of addresses the server has just handed out.
// For up to two of the AAAA records synthesised for c (rotating through the
// reply, so records of every configured prefix are visited) the same client
// asks for the ip6.arpa PTR name; judged by judgePTR like any other PTR case.
func roundTrip(r *vlib.Run, e *env, c *pipeCase, addrs [][16]byte) {
	if len(addrs) == 0 {
		return
	}
	at := []int{c.Index % len(addrs)}
	if len(addrs) > 1 {
		at = append(at, (c.Index+1+(c.Index/7)%(len(addrs)-1))%len(addrs))
	}
	for k, i := range at {
		if k > 0 && i == at[0] {
			continue
		}
		rng := r.RandN("roundtrip", c.Index*4+k)
		addr := addrs[i]
		name := refIP6Arpa(addr)
		pc := &pipeCase{Kind: "ptr", Index: c.Index, Cfg: c.Cfg, Client: c.Client, Proto: c.Proto, Qname: name,
			Qtype: dns.TypePTR, RD: true, AD: rng.IntN(3) == 0, EDNS: c.EDNS, DO: c.DO, PTRGen: "roundtrip-of-synthesised",
			Resp: respSpec{Shape: "ptr-nxdomain", Rcode: dns.RcodeNameError, RA: true, AD: rng.IntN(3) == 0, EDNS: rng.IntN(2) == 0,
				Ns: []string{soaRR("ip6.arpa.", 3600, 3600)}},
			A: respSpec{Shape: "unused", Rcode: dns.RcodeRefused}}
		// the in-addr.arpa zone answers for whichever name is asked
		pc.PTR = respSpec{Shape: "ptr", RA: true, AD: rng.IntN(3) == 0}
		if rng.IntN(4) == 0 {
			pc.PTR = respSpec{Shape: "nxdomain", RA: true, Rcode: dns.RcodeNameError}
		} else if rds := readingsOf(e.m, addr); len(rds) > 0 {
			for _, rd := range rds {
				if rd.conf {
					pc.PTR.Answer = append(pc.PTR.Answer, fmt.Sprintf("%s %d IN PTR host-%d.example.com.", refInAddrArpa(rd.v4), pick(rng, ttlPool), rng.IntN(100)))
					break
				}
			}
		}
		v := judgePTR(r, e, pc, e.run(pc))
		r.Count("ptr_roundtrips_of_synthesised", 1)
		if v.Translated && len(v.Violations) == 0 {
			r.Count("ptr_roundtrips_of_synthesised_translated", 1)
			if len(e.m.prefixes) > 1 {
				r.Count("ptr_roundtrips_of_synthesised_translated_multi_prefix", 1)
			}
			if len(e.m.inner) > 0 {
				r.Count("ptr_roundtrips_of_synthesised_translated_overlapping_prefixes", 1)
			}
		}
	}
}

func replay(r *vlib.Run, raw json.RawMessage) {
	var head struct {
		Kind string  `json:"kind"`
		Cfg  cfgSpec `json:"cfg"`
	}
	if err := json.Unmarshal(raw, &head); err != nil {
		r.Inconclusive("replay: " + err.Error())
		return
	}
	switch head.Kind {
	case "pipe", "ptr":
		var c pipeCase
		if err := json.Unmarshal(raw, &c); err != nil {
			r.Inconclusive("replay: " + err.Error())
			return
		}
		e := safeBuildEnv(r, c.Cfg)
		if e == nil {
			return
		}
		judgeConfig(r, e, c.Cfg)
		o := e.run(&c)
		if o.reply != nil {
			fmt.Printf("reply:\n%s\n", o.reply.String())
		}
		if head.Kind == "pipe" {
			judgePipe(r, e, &c, o)
		} else {
			judgePTR(r, e, &c, o)
		}
	case "wire", "wire-ptr":
		replayWire(r, raw)
	case "config":
		if e := safeBuildEnv(r, head.Cfg); e != nil {
			judgeConfig(r, e, head.Cfg)
		}
	case "pure":
		var pc pureCase
		if err := json.Unmarshal(raw, &pc); err != nil {
			r.Inconclusive("replay: " + err.Error())
			return
		}
		replayPure(r, pc)
	default:
		r.Inconclusive("replay: unknown case kind " + head.Kind)
	}
}

func main() {
	zlog.SetWriter(io.Discard)
	r := vlib.Start("C20", "exploration")
	if err := selfTest(); err != nil {
		r.Inconclusive("harness: " + err.Error())
		r.Finish("reference model self-test failed")
	}
	if raw := r.ReplayCase(); raw != nil {
		replay(r, raw)
		r.Finish("replay of one recorded case")
	}
	runPure(r)
	runPipeline(r)
	runWire(r)
	requireWire(r)

	r.Require("pure_roundtrips", 1000000)
	r.Require("pure_boundary_pairs", 6*625)
	r.Require("illegal_refused_length", 100)
	r.Require("illegal_refused_ipv4", 30)
	r.Require("illegal_refused_nonzero-u-96", 100)
	r.Require("config_illegal_entries_refused", 50)
	r.Require("pipe_triples", 10000)
	for _, l := range legalLens {
		r.Require(fmt.Sprintf("pure_roundtrips_len%d", l), 100000)
		r.Require(fmt.Sprintf("synth_replies_len%d", l), 100)
		r.Require(fmt.Sprintf("ptr_translated_len%d", l), 20)
	}
	r.Require("synth_replies_multi_prefix", 100)
	r.Require("synth_replies_downstream_ad", 50)
	r.Require("synth_records_behind_alias_chain", 50)
	r.Require("synth_records_with_negative_ttl_bound", 100)
	r.Require("synth_pairs_skipped_excluded_under_wkp", 10)
	r.Require("filtered_replies_aaaa_kept_upstream_ad", 10)
	for _, reason := range []string{"qtype-not-aaaa", "rd0", "cd1", "client-ineligible", "zone-excluded", "nxdomain",
		"dnssec-failure", "cached-failure-ede13", "cached-failure-marker", "request-local-failure", "native-aaaa",
		"a-no-response", "a-request-local-failure", "a-cached-failure", "a-nxdomain", "a-servfail", "a-nodata",
		"a-all-excluded-under-wkp"} {
		r.Require("nosynth_sole_"+reason, 10)
	}
	r.Require("nosynth_sole_dnssec-failure_ede_not_first", 20)
	r.Require("nosynth_sole_a-all-excluded-under-defaulted-wkp", 10)
	r.Require("synth_pairs_skipped_excluded_under_defaulted_wkp", 10)
	r.Require("synth_replies_defaulted_wkp", 50)
	r.Require("filtered_all_stripped_no_synth_upstream_ad", 20)
	r.Require("filtered_all_stripped_no_synth_upstream_ad/a-all-excluded-under-wkp", 3)
	// overlapping configured prefixes (a longer prefix inside a shorter one,
	// either order) and reverse lookups of addresses just handed out
	r.Require("synth_replies_overlapping_prefixes", 100)
	r.Require("synth_records_under_overlapped_prefix", 50)
	r.Require("ptr_cases_overlapping_prefixes", 200)
	r.Require("ptr_translated_under_overlapped_prefix", 40)
	r.Require("ptr_translated_under_overlapping_prefix_listed_first", 40)
	r.Require("ptr_roundtrips_of_synthesised_translated", 500)
	r.Require("ptr_roundtrips_of_synthesised_translated_multi_prefix", 200)
	r.Require("ptr_roundtrips_of_synthesised_translated_overlapping_prefixes", 50)
	r.Require("ptr_passthrough_malformed_name", 20)
	r.Require("ptr_passthrough_outside_prefixes", 20)

	r.Assume("reference = bit-wise RFC 6052 §2.2 embedding (positions PL..PL+31 skipping bits 64-71, all other non-prefix bits zero), cross-checked at start-up against the RFC's octet table")
	r.Assume("a reply AAAA record is 'synthesised' iff the scripted downstream did not send it (owner, address, TTL)")
	r.Assume("AAAA negative TTL = min(SOA TTL, SOA MINIMUM) of the single SOA in the authority section of a NOERROR AAAA response without AAAA records; no bound is applied otherwise")
	r.Assume("SERVFAIL with EDE 5-12 is a DNSSEC validation failure; SERVFAIL with only EDE 1, 2, 25 or 27 is left undecided (either behaviour accepted, counted as *_open_*)")
	r.Assume("layer C: the downstream response the oracle judges against is the message recorded by a harness observer directly below dns64 (client pass and secondary A / in-addr.arpa lookups, with the failure provenance visible on the context dns64 handed down); where a request passed dns64 undecoded, the scripted stub's reply stands")
	r.Assume("layer C: a cached failure is a SERVFAIL served below dns64 for a repeated question without consulting the stub (the real RFC 9520 failure cache; first query fails and is recorded); a request-local failure is a stub reply marked with middleware.MarkRequestLocalFailureResponse for an attempt-limit, deadline, max-recursion, work-limit, shed, probe-limit or cancellation error")
	r.Assume("layer C: truncated replies (TC=1, content removed by edns) are counted, not judged; a PTR name under an RFC 6303 empty zone that as112 answers ahead of dns64 (production order, query never reached dns64) is counted as ptr_shadowed_by_empty_zone, not as a missing translation; wire and decoded entries are compared on rcode, AD and answer section (TTL ignored on a repeated question) only when both were answered from the same basis below dns64")
	r.Assume("configured prefixes may overlap: an address is 'an RFC 6052 embedding' when it is a conformant embedding under ANY legal configured prefix that contains it; its ip6.arpa name must be redirected when some such reading is of an IPv4 address that is not excluded, and a redirect is correct when its target is the IPv4 address of one of the readings (an address conformant under two overlapping prefixes may map back to either)")
	r.Assume("default WKP IPv4 exclusions: IANA special-purpose entries with Globally Reachable=False must be skipped; 192.0.0.0/24, 192.88.99.0/24, 224.0.0.0/4 may be skipped or translated")
	r.Finish("pure: every octet-boundary IPv4 (0,1,127,128,255 per octet) plus random addresses x generated prefixes of each legal length, illegal lengths/IPv4//96-with-nonzero-u refused; pipeline: generated configs (1-3 prefixes, illegal entries, client networks, excluded zones, A/AAAA exclusions) x AAAA-response shapes x A-response shapes x client flags/addresses, and ip6.arpa PTR names (valid, non-conformant, outside, malformed), with 18% of the configurations given OVERLAPPING prefixes (a longer legal prefix inside a shorter operator prefix, listed before or after it), and after every cleanly synthesised reply the reverse lookup of up to two of the addresses just handed out; layer C: the same generators plus real failure-cache (EDNS / non-EDNS second client) and request-local-failure flows through [… edns … dns64, cache, stub] and [dns64, cache, stub], each case through ServeMsg, ServeRaw (udp|tcp strict job) and, for udp, the reader's inline pass + replay, under per-execution names; a case is distinct non-trivial by (prefix lengths, AAAA shape, A shape, #A) when synthesised, by (sole reason, shapes) when suppressed, by (length, chase shape) for PTR")
}
