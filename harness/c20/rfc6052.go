package main

// Independent reference model of RFC 6052 §2.2 (IPv4-embedded IPv6 addresses),
// RFC 3596 §2.5 (ip6.arpa names) and RFC 1035 §3.5 (in-addr.arpa names).
//
// Two formulations are kept and cross-checked at start-up (selfTest):
//   - bit-wise, straight from the RFC text: "the IPv4 address is encoded in
//     positions PL to PL+31, skipping over bits 64 to 71" with every other
//     non-prefix bit zero;
//   - the octet table of the RFC's figure.
// Neither shares code with middleware/dns64/synth.go.

import (
	"fmt"
	"net/netip"
	"strings"
)

var legalLens = []int{32, 40, 48, 56, 64, 96}

func isLegalLen(b int) bool {
	for _, l := range legalLens {
		if l == b {
			return true
		}
	}
	return false
}

// figure of RFC 6052 §2.2: octet index of each IPv4 octet per prefix length.
var octetTable = map[int][4]int{
	32: {4, 5, 6, 7},
	40: {5, 6, 7, 9},
	48: {6, 7, 9, 10},
	56: {7, 9, 10, 11},
	64: {9, 10, 11, 12},
	96: {12, 13, 14, 15},
}

func getBit(b []byte, i int) byte { return (b[i/8] >> (7 - uint(i%8))) & 1 }
func setBit(b []byte, i int, v byte) {
	if v != 0 {
		b[i/8] |= 1 << (7 - uint(i%8))
	} else {
		b[i/8] &^= 1 << (7 - uint(i%8))
	}
}

// refEmbedBits is the bit-wise definition.
func refEmbedBits(pfx [16]byte, bits int, v4 [4]byte) [16]byte {
	var out [16]byte
	for i := 0; i < bits; i++ {
		setBit(out[:], i, getBit(pfx[:], i))
	}
	pos := bits
	for i := 0; i < 32; i++ {
		for pos >= 64 && pos <= 71 {
			pos++
		}
		setBit(out[:], pos, getBit(v4[:], i))
		pos++
	}
	return out
}

// refEmbedTable is the octet-table definition.
func refEmbedTable(pfx [16]byte, bits int, v4 [4]byte) [16]byte {
	var out [16]byte
	copy(out[:bits/8], pfx[:bits/8])
	for i, p := range octetTable[bits] {
		out[p] = v4[i]
	}
	return out
}

func refEmbed(pfx [16]byte, bits int, v4 [4]byte) [16]byte { return refEmbedBits(pfx, bits, v4) }

// refExtract: inPrefix = the first `bits` bits of addr equal pfx; v4 = the 32
// bits read from PL.. skipping 64..71; conformant = bits 64..71 zero and every
// bit after the embedded address zero.
func refExtract(pfx [16]byte, bits int, addr [16]byte) (v4 [4]byte, inPrefix, conformant bool) {
	inPrefix = true
	for i := 0; i < bits; i++ {
		if getBit(pfx[:], i) != getBit(addr[:], i) {
			inPrefix = false
			break
		}
	}
	used := make([]bool, 128)
	for i := 0; i < bits; i++ {
		used[i] = true
	}
	pos := bits
	for i := 0; i < 32; i++ {
		for pos >= 64 && pos <= 71 {
			pos++
		}
		setBit(v4[:], i, getBit(addr[:], pos))
		used[pos] = true
		pos++
	}
	conformant = true
	for i := 64; i <= 71; i++ {
		if getBit(addr[:], i) != 0 {
			conformant = false
		}
	}
	for i := 0; i < 128; i++ {
		if !used[i] && getBit(addr[:], i) != 0 {
			conformant = false
		}
	}
	return
}

// refIP6Arpa: 32 nibbles, least significant first.
func refIP6Arpa(a [16]byte) string {
	const hexd = "0123456789abcdef"
	var sb strings.Builder
	for i := 15; i >= 0; i-- {
		sb.WriteByte(hexd[a[i]&0xf])
		sb.WriteByte('.')
		sb.WriteByte(hexd[a[i]>>4])
		sb.WriteByte('.')
	}
	sb.WriteString("ip6.arpa.")
	return sb.String()
}

// refParseIP6Arpa is the inverse; ok=false unless exactly 32 one-hex-digit
// labels precede ip6.arpa.
func refParseIP6Arpa(name string) (a [16]byte, ok bool) {
	n := strings.ToLower(name)
	if !strings.HasSuffix(n, ".") {
		n += "."
	}
	if !strings.HasSuffix(n, ".ip6.arpa.") {
		return a, false
	}
	labels := strings.Split(strings.TrimSuffix(n, ".ip6.arpa."), ".")
	if len(labels) != 32 {
		return a, false
	}
	for i, l := range labels {
		if len(l) != 1 {
			return a, false
		}
		var v byte
		switch c := l[0]; {
		case c >= '0' && c <= '9':
			v = c - '0'
		case c >= 'a' && c <= 'f':
			v = c - 'a' + 10
		default:
			return a, false
		}
		nib := 31 - i // nibble index from the most significant
		if nib%2 == 0 {
			a[nib/2] |= v << 4
		} else {
			a[nib/2] |= v
		}
	}
	return a, true
}

func refInAddrArpa(v4 [4]byte) string {
	return fmt.Sprintf("%d.%d.%d.%d.in-addr.arpa.", v4[3], v4[2], v4[1], v4[0])
}

// refParseInAddr parses d.c.b.a.in-addr.arpa. back to a.b.c.d.
func refParseInAddr(name string) (v4 [4]byte, ok bool) {
	n := strings.ToLower(name)
	if !strings.HasSuffix(n, ".in-addr.arpa.") {
		return v4, false
	}
	labels := strings.Split(strings.TrimSuffix(n, ".in-addr.arpa."), ".")
	if len(labels) != 4 {
		return v4, false
	}
	for i, l := range labels {
		if l == "" || len(l) > 3 || (len(l) > 1 && l[0] == '0') {
			return v4, false
		}
		x := 0
		for _, c := range l {
			if c < '0' || c > '9' {
				return v4, false
			}
			x = x*10 + int(c-'0')
		}
		if x > 255 {
			return v4, false
		}
		v4[3-i] = byte(x)
	}
	return v4, true
}

// refPrefix is the oracle's reading of one configured prefix string.
type refPrefix struct {
	Addr  [16]byte // masked
	Bits  int
	WKP   bool
	Legal bool
	Why   string // reason when illegal
}

var wkpAddr = netip.MustParseAddr("64:ff9b::").As16()

// parseRefPrefix classifies a configured prefix string per RFC 6052 §2.2 and
// the documented validation: IPv6, length in {32,40,48,56,64,96}, bits 64..71
// zero (only expressible for /96; for shorter prefixes they are host bits and
// masked away by CIDR parsing).
func parseRefPrefix(s string) refPrefix {
	p, err := netip.ParsePrefix(strings.TrimSpace(s))
	if err != nil {
		return refPrefix{Why: "unparsable"}
	}
	if !p.Addr().Is6() {
		return refPrefix{Why: "ipv4"}
	}
	if !isLegalLen(p.Bits()) {
		return refPrefix{Why: "length", Bits: p.Bits()}
	}
	m := p.Masked().Addr().As16()
	if m[8] != 0 {
		return refPrefix{Why: "nonzero-u", Bits: p.Bits()}
	}
	return refPrefix{Addr: m, Bits: p.Bits(), Legal: true, WKP: p.Bits() == 96 && m == wkpAddr}
}

func (p refPrefix) String() string {
	return fmt.Sprintf("%s/%d", netip.AddrFrom16(p.Addr), p.Bits)
}

func (p refPrefix) contains(a [16]byte) bool {
	_, in, _ := refExtract(p.Addr, p.Bits, a)
	return in
}

// selfTest cross-checks the two formulations and the inverse on a fixed grid.
func selfTest() error {
	vals := []byte{0, 1, 127, 128, 255, 0x5a}
	var pfx [16]byte
	for i := range pfx {
		pfx[i] = byte(0xa0 + i)
	}
	for _, bits := range legalLens {
		p := pfx
		for i := bits; i < 128; i++ {
			setBit(p[:], i, 0)
		}
		if bits == 96 {
			p[8] = 0
		}
		for _, a := range vals {
			for _, b := range vals {
				for _, c := range vals {
					for _, d := range vals {
						v4 := [4]byte{a, b, c, d}
						x, y := refEmbedBits(p, bits, v4), refEmbedTable(p, bits, v4)
						if x != y {
							return fmt.Errorf("reference formulations disagree at /%d %v", bits, v4)
						}
						back, in, conf := refExtract(p, bits, x)
						if !in || !conf || back != v4 {
							return fmt.Errorf("reference inverse fails at /%d %v", bits, v4)
						}
						nm := refIP6Arpa(x)
						if z, ok := refParseIP6Arpa(nm); !ok || z != x {
							return fmt.Errorf("reference ip6.arpa inverse fails for %s", nm)
						}
						if z, ok := refParseInAddr(refInAddrArpa(v4)); !ok || z != v4 {
							return fmt.Errorf("reference in-addr.arpa inverse fails for %v", v4)
						}
					}
				}
			}
		}
	}
	return nil
}
