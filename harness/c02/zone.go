// Reference zone model: content, ground truth (RFC 1034 §4.3.2, RFC 4592,
// RFC 6672, RFC 6840 §4.1) and the complete NSEC / NSEC3 chains (RFC 4034 §4,
// RFC 5155 §7.1) of a generated signed zone.
package main

import (
	"bytes"
	"crypto/sha1" //nolint:gosec // RFC 5155 hash
	"encoding/base32"
	"encoding/hex"
	"math/rand/v2"
	"sort"
	"strings"

	"github.com/miekg/dns"
)

// ---------------------------------------------------------------- spec

// OwnerSpec is one owner name of a zone (serialisable; replay rebuilds the
// model from it).
type OwnerSpec struct {
	Name       string   `json:"name"`
	Types      []uint16 `json:"types"`
	Deleg      bool     `json:"deleg,omitempty"`
	ChildTypes []uint16 `json:"child_types,omitempty"` // types at the child apex (truth on the other side of the cut)
	DNAME      string   `json:"dname,omitempty"`       // DNAME target
	OptedOut   bool     `json:"opted_out,omitempty"`   // insecure delegation left out of the NSEC3 chain
}

// ZoneSpec describes one signed zone.
type ZoneSpec struct {
	Apex      string      `json:"apex"`
	Owners    []OwnerSpec `json:"owners"`
	Salt      string      `json:"salt"`
	Iter      uint16      `json:"iter"`
	OptOut    bool        `json:"opt_out,omitempty"`
	FlagAll   bool        `json:"flag_all,omitempty"` // opt-out flag on every NSEC3 (else only where required + FlagSeed picks)
	FlagSeed  uint64      `json:"flag_seed,omitempty"`
	Salt2     string      `json:"salt2"` // second, parallel NSEC3 chain (parameter mixing)
	Iter2     uint16      `json:"iter2"`
	UpperHash bool        `json:"upper_hash,omitempty"`
	TTL       uint32      `json:"ttl"`
}

// ---------------------------------------------------------------- model

type Node struct {
	Name       Name
	Types      map[uint16]bool
	Deleg      bool
	DS         bool
	ChildTypes map[uint16]bool
	DNAME      *Name
	OptedOut   bool
}

type n3rec struct {
	Hash    []byte
	Name    Name // original name (for diagnostics)
	Types   []uint16
	OptOut  bool
	NextIdx int
}

type Zone struct {
	Spec  ZoneSpec
	Apex  Name
	Class uint16
	Nodes map[string]*Node
	ENTs  map[string]Name

	nsecOwners []*Node // canonical order
	// NSEC3 view
	hashed     map[string]bool // K of names present in the NSEC3 chain
	omittedENT map[string]bool
	salt       []byte
	chain3     []n3rec // sorted by hash
	salt2      []byte
	chain3b    []n3rec
}

func typeSet(ts []uint16) map[uint16]bool {
	m := map[uint16]bool{}
	for _, t := range ts {
		m[t] = true
	}
	return m
}

func sortedTypes(m map[uint16]bool, extra ...uint16) []uint16 {
	s := map[uint16]bool{}
	for t, ok := range m {
		if ok {
			s[t] = true
		}
	}
	for _, t := range extra {
		s[t] = true
	}
	out := make([]uint16, 0, len(s))
	for t := range s {
		out = append(out, t)
	}
	sort.Slice(out, func(i, j int) bool { return out[i] < out[j] })
	return out
}

// buildZone derives the model from a spec. It panics on an inconsistent spec
// (names below a cut, missing apex) — specs only come from genZone / replay.
func buildZone(spec ZoneSpec) *Zone {
	z := &Zone{Spec: spec, Apex: mustName(spec.Apex), Class: dns.ClassINET,
		Nodes: map[string]*Node{}, ENTs: map[string]Name{}}
	for _, o := range spec.Owners {
		n := mustName(o.Name)
		nd := &Node{Name: n, Types: typeSet(o.Types), Deleg: o.Deleg, OptedOut: o.OptedOut}
		if o.Deleg {
			nd.DS = nd.Types[dns.TypeDS]
			nd.ChildTypes = typeSet(o.ChildTypes)
		}
		if o.DNAME != "" {
			t := mustName(o.DNAME)
			nd.DNAME = &t
		}
		z.Nodes[n.K] = nd
	}
	if z.Nodes[z.Apex.K] == nil {
		panic("c02: zone without apex node")
	}
	for _, nd := range z.Nodes {
		for a := nd.Name; a.NumLabels() > z.Apex.NumLabels(); {
			a = a.Parent()
			if z.Nodes[a.K] == nil && a.NumLabels() > z.Apex.NumLabels() {
				z.ENTs[a.K] = a
			}
		}
	}
	for _, nd := range z.Nodes {
		z.nsecOwners = append(z.nsecOwners, nd)
	}
	sort.Slice(z.nsecOwners, func(i, j int) bool { return canonCmp(z.nsecOwners[i].Name, z.nsecOwners[j].Name) < 0 })
	z.buildNSEC3()
	return z
}

func (z *Zone) Exists(n Name) bool {
	if z.Nodes[n.K] != nil {
		return true
	}
	_, ok := z.ENTs[n.K]
	return ok
}

// ---------------------------------------------------------------- truth

type Kind int

const (
	KOut        Kind = iota // not in this zone
	KExists                 // an owner name with authoritative data (incl. parent side of a cut for DS)
	KENT                    // empty non-terminal
	KWild                   // does not exist itself; answered from a wildcard
	KNX                     // NXDOMAIN
	KAtDeleg                // the delegation point itself, any type but DS
	KBelowDeleg             // strictly below a delegation point
	KBelowDNAME             // strictly below a DNAME owner
)

func (k Kind) String() string {
	return [...]string{"out", "exists", "ent", "wildcard", "nxdomain", "at-delegation", "below-delegation", "below-dname"}[k]
}

type Data int

const (
	DNone   Data = iota
	DType        // the queried type is present
	DCNAME       // a CNAME is present (and qtype != CNAME)
	DNoData      // name (or wildcard source) has neither
)

func (d Data) String() string { return [...]string{"-", "type-present", "cname-present", "nodata"}[d] }

type Truth struct {
	Kind   Kind
	Data   Data
	Cut    *Node // delegation / DNAME owner for the cut kinds
	Source *Node // wildcard source node (nil when the source is an ENT)
	CE     Name  // closest encloser (KWild, KNX)
}

// NameDenied reports whether "this name does not exist and nothing is
// synthesised for it" is true.
func (t Truth) NameDenied() bool { return t.Kind == KNX }

// NoData reports whether "the name exists (or is wildcard-matched) but has
// neither the type nor a CNAME" is true for the authoritative view of this zone.
func (t Truth) NoData() bool {
	switch t.Kind {
	case KExists, KWild:
		return t.Data == DNoData
	case KENT:
		return true
	}
	return false
}

func dataAt(types map[uint16]bool, qtype uint16) Data {
	if types[qtype] {
		return DType
	}
	if types[dns.TypeCNAME] && qtype != dns.TypeCNAME {
		return DCNAME
	}
	return DNoData
}

// visibleTypes is what a signed authoritative server would report present at
// an owner: its data plus the DNSSEC types that accompany it.
func (z *Zone) visibleTypes(nd *Node) map[uint16]bool {
	m := map[uint16]bool{}
	for t := range nd.Types {
		m[t] = true
	}
	return m
}

func (z *Zone) TruthOf(q Name, qtype uint16) Truth {
	if !q.IsSubOf(z.Apex) {
		return Truth{Kind: KOut}
	}
	// walk from just below the apex towards q looking for a cut
	for k := z.Apex.NumLabels() + 1; k <= q.NumLabels(); k++ {
		a := q.Suffix(k)
		nd := z.Nodes[a.K]
		if nd == nil {
			continue
		}
		if nd.Deleg {
			if k < q.NumLabels() {
				return Truth{Kind: KBelowDeleg, Cut: nd}
			}
			if qtype == dns.TypeDS {
				return Truth{Kind: KExists, Data: dataAt(nd.Types, qtype), Cut: nd}
			}
			d := DNoData
			if nd.ChildTypes[qtype] {
				d = DType
			} else if nd.ChildTypes[dns.TypeCNAME] && qtype != dns.TypeCNAME {
				d = DCNAME
			}
			return Truth{Kind: KAtDeleg, Data: d, Cut: nd}
		}
		if nd.DNAME != nil && k < q.NumLabels() {
			return Truth{Kind: KBelowDNAME, Cut: nd}
		}
	}
	if nd := z.Nodes[q.K]; nd != nil {
		return Truth{Kind: KExists, Data: dataAt(z.visibleTypes(nd), qtype)}
	}
	if _, ok := z.ENTs[q.K]; ok {
		return Truth{Kind: KENT, Data: DNoData}
	}
	ce := q.Parent()
	for !z.Exists(ce) {
		ce = ce.Parent()
	}
	w := ce.Child([]byte{'*'})
	if nd := z.Nodes[w.K]; nd != nil {
		return Truth{Kind: KWild, Data: dataAt(z.visibleTypes(nd), qtype), Source: nd, CE: ce}
	}
	if _, ok := z.ENTs[w.K]; ok {
		return Truth{Kind: KWild, Data: DNoData, CE: ce}
	}
	return Truth{Kind: KNX, CE: ce}
}

// InsecureTerritory reports whether n is, or lies below, a delegation without DS.
func (z *Zone) InsecureTerritory(n Name) bool {
	for k := z.Apex.NumLabels() + 1; k <= n.NumLabels(); k++ {
		if nd := z.Nodes[n.Suffix(k).K]; nd != nil && nd.Deleg {
			return !nd.DS
		}
	}
	return false
}

// ---------------------------------------------------------------- NSEC chain

// NSECChain returns the complete NSEC chain in canonical order.
func (z *Zone) NSECChain() []*dns.NSEC {
	out := make([]*dns.NSEC, 0, len(z.nsecOwners))
	for i, nd := range z.nsecOwners {
		next := z.nsecOwners[(i+1)%len(z.nsecOwners)]
		// every NSEC owner has at least the NSEC itself and its RRSIG; the
		// parent side of a cut lists NS (and DS if any), never SOA
		bm := sortedTypes(nd.Types, dns.TypeRRSIG, dns.TypeNSEC)
		out = append(out, &dns.NSEC{
			Hdr:        dns.RR_Header{Name: nd.Name.P, Rrtype: dns.TypeNSEC, Class: z.Class, Ttl: z.Spec.TTL},
			NextDomain: next.Name.P,
			TypeBitMap: bm,
		})
	}
	return out
}

// ---------------------------------------------------------------- NSEC3 chain

var b32 = base32.HexEncoding.WithPadding(base32.NoPadding)

// nsec3Hash is RFC 5155 §5 computed on the canonical wire form.
func nsec3Hash(n Name, salt []byte, iter uint16) []byte {
	h := sha1.New() //nolint:gosec
	h.Write(n.Wire())
	h.Write(salt)
	v := h.Sum(nil)
	for i := 0; i < int(iter); i++ {
		h.Reset()
		h.Write(v)
		h.Write(salt)
		v = h.Sum(nil)
	}
	return v
}

func (z *Zone) buildNSEC3() {
	z.salt, _ = hex.DecodeString(z.Spec.Salt)
	z.salt2, _ = hex.DecodeString(z.Spec.Salt2)
	z.hashed = map[string]bool{}
	z.omittedENT = map[string]bool{}
	// names in the chain: every node except opted-out insecure delegations,
	// plus every ENT that still has a chained descendant
	for k, nd := range z.Nodes {
		if z.Spec.OptOut && nd.Deleg && !nd.DS && nd.OptedOut {
			continue
		}
		z.hashed[k] = true
	}
	for k, e := range z.ENTs {
		keep := false
		for _, nd := range z.Nodes {
			if z.hashed[nd.Name.K] && nd.Name.IsStrictSubOf(e) {
				keep = true
				break
			}
		}
		if keep {
			z.hashed[k] = true
		} else {
			z.omittedENT[k] = true
		}
	}
	z.chain3 = z.mkChain3(z.salt, z.Spec.Iter)
	z.chain3b = z.mkChain3(z.salt2, z.Spec.Iter2)
}

func (z *Zone) mkChain3(salt []byte, iter uint16) []n3rec {
	var recs []n3rec
	for k := range z.hashed {
		var nm Name
		var types []uint16
		if nd := z.Nodes[k]; nd != nil {
			nm = nd.Name
			switch {
			case nd.Deleg && nd.DS:
				types = sortedTypes(nd.Types, dns.TypeRRSIG)
			case nd.Deleg:
				types = sortedTypes(nd.Types)
			default:
				extra := []uint16{dns.TypeRRSIG}
				if nm.Equal(z.Apex) {
					extra = append(extra, dns.TypeNSEC3PARAM)
				}
				types = sortedTypes(nd.Types, extra...)
			}
		} else {
			nm = z.ENTs[k]
		}
		recs = append(recs, n3rec{Hash: nsec3Hash(nm, salt, iter), Name: nm, Types: types})
	}
	sort.Slice(recs, func(i, j int) bool { return bytes.Compare(recs[i].Hash, recs[j].Hash) < 0 })
	for i := range recs {
		recs[i].NextIdx = (i + 1) % len(recs)
	}
	if z.Spec.OptOut {
		// every span that hides an omitted name MUST carry the flag
		var omitted [][]byte
		for _, nd := range z.Nodes {
			if !z.hashed[nd.Name.K] {
				omitted = append(omitted, nsec3Hash(nd.Name, salt, iter))
			}
		}
		for k := range z.omittedENT {
			omitted = append(omitted, nsec3Hash(z.ENTs[k], salt, iter))
		}
		rng := rand.New(rand.NewPCG(z.Spec.FlagSeed, 0xC02))
		for i := range recs {
			must := false
			for _, h := range omitted {
				if hashCovered(recs[i].Hash, recs[recs[i].NextIdx].Hash, h) {
					must = true
				}
			}
			recs[i].OptOut = must || z.Spec.FlagAll || rng.IntN(3) == 0
		}
	}
	return recs
}

// hashCovered: owner < h < next on the hash ring (strict).
func hashCovered(owner, next, h []byte) bool {
	on := bytes.Compare(owner, next)
	ho := bytes.Compare(h, owner)
	hn := bytes.Compare(h, next)
	switch {
	case on == 0:
		return ho != 0
	case on < 0:
		return ho > 0 && hn < 0
	default:
		return ho > 0 || hn < 0
	}
}

func (z *Zone) hashLabel(h []byte) string {
	s := b32.EncodeToString(h)
	if !z.Spec.UpperHash {
		s = strings.ToLower(s)
	}
	return s
}

func (z *Zone) rrFromChain3(recs []n3rec, salt string, iter uint16) []*dns.NSEC3 {
	out := make([]*dns.NSEC3, 0, len(recs))
	for _, r := range recs {
		flags := uint8(0)
		if r.OptOut {
			flags = 1
		}
		sl := uint8(len(salt) / 2)
		s := strings.ToUpper(salt)
		out = append(out, &dns.NSEC3{
			Hdr:        dns.RR_Header{Name: z.hashLabel(r.Hash) + "." + z.Apex.P, Rrtype: dns.TypeNSEC3, Class: z.Class, Ttl: z.Spec.TTL},
			Hash:       dns.SHA1,
			Flags:      flags,
			Iterations: iter,
			SaltLength: sl,
			Salt:       s,
			HashLength: 20,
			NextDomain: z.hashLabel(recs[r.NextIdx].Hash),
			TypeBitMap: append([]uint16(nil), r.Types...),
		})
	}
	return out
}

// NSEC3Chain returns the complete primary NSEC3 chain (sorted by hash).
func (z *Zone) NSEC3Chain() []*dns.NSEC3 { return z.rrFromChain3(z.chain3, z.Spec.Salt, z.Spec.Iter) }

// NSEC3Chain2 returns the parallel chain with the second parameter tuple.
func (z *Zone) NSEC3Chain2() []*dns.NSEC3 {
	return z.rrFromChain3(z.chain3b, z.Spec.Salt2, z.Spec.Iter2)
}

// hashedCE is the closest encloser in the hashed name space (longest
// ancestor-or-self of q that has an NSEC3 in the complete primary chain) and
// the next closer name towards q ("" when q itself is chained).
func (z *Zone) hashedCE(q Name) (ce Name, nc Name, exact bool) {
	if z.hashed[q.K] {
		return q, Name{}, true
	}
	prev := q
	for a := q.Parent(); ; a = a.Parent() {
		if z.hashed[a.K] {
			return a, prev, false
		}
		if a.NumLabels() <= z.Apex.NumLabels() {
			return z.Apex, prev, false
		}
		prev = a
	}
}

// coverOptOut reports whether the record of the complete primary chain that
// covers H(n) carries the Opt-Out flag (false when n is matched, not covered).
func (z *Zone) coverOptOut(n Name) (covered, optout bool) {
	h := nsec3Hash(n, z.salt, z.Spec.Iter)
	for i := range z.chain3 {
		r := &z.chain3[i]
		if hashCovered(r.Hash, z.chain3[r.NextIdx].Hash, h) {
			return true, r.OptOut
		}
	}
	return false, false
}

// hiddenByOptOut: the name is not part of the hashed chain because it is (or
// is below, or is an ENT leading only to) an opted-out insecure delegation.
func (z *Zone) hiddenByOptOut(n Name) bool {
	if !z.Spec.OptOut {
		return false
	}
	if z.omittedENT[n.K] {
		return true
	}
	for k := z.Apex.NumLabels() + 1; k <= n.NumLabels(); k++ {
		a := n.Suffix(k)
		if nd := z.Nodes[a.K]; nd != nil && nd.Deleg && !nd.DS && nd.OptedOut {
			return true
		}
	}
	return false
}

// ---------------------------------------------------------------- chain lookups (honest-server view)

type nsecView struct {
	rrs    []*dns.NSEC
	owners []Name
	nexts  []Name
}

func (z *Zone) nsecView() *nsecView {
	v := &nsecView{rrs: z.NSECChain()}
	for _, r := range v.rrs {
		v.owners = append(v.owners, mustName(r.Hdr.Name))
		v.nexts = append(v.nexts, mustName(r.NextDomain))
	}
	return v
}

func (v *nsecView) covers(i int, q Name) bool {
	o, n := v.owners[i], v.nexts[i]
	on := canonCmp(o, n)
	qo, qn := canonCmp(q, o), canonCmp(q, n)
	switch {
	case on == 0:
		return qo != 0
	case on < 0:
		return qo > 0 && qn < 0
	}
	return qo > 0 || qn < 0
}

func (v *nsecView) ownerIdx(q Name) int {
	for i := range v.owners {
		if v.owners[i].Equal(q) {
			return i
		}
	}
	return -1
}

func (v *nsecView) coverIdx(q Name) int {
	for i := range v.owners {
		if v.covers(i, q) {
			return i
		}
	}
	return -1
}

// n3Match / n3Cover: index into the primary NSEC3 chain of the record that
// matches / covers H(n), or -1.
func (z *Zone) n3Match(n Name) int {
	h := nsec3Hash(n, z.salt, z.Spec.Iter)
	for i := range z.chain3 {
		if bytes.Equal(z.chain3[i].Hash, h) {
			return i
		}
	}
	return -1
}

func (z *Zone) n3Cover(n Name) int {
	h := nsec3Hash(n, z.salt, z.Spec.Iter)
	for i := range z.chain3 {
		r := &z.chain3[i]
		if hashCovered(r.Hash, z.chain3[r.NextIdx].Hash, h) {
			return i
		}
	}
	return -1
}
