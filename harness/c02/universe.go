// The bounded universe of query names tried against every record subset.
package main

import (
	"math/rand/v2"

	"github.com/miekg/dns"
)

// QName is one query name. When Dname is set the message handed to the
// evaluators carries that DNAME in its answer section, and the name whose
// denial is being proven (Eff) is the RFC 6672 substitution of N.
type QName struct {
	N     Name
	Eff   Name
	Dname *dns.DNAME
}

func universe(z *Zone, rng *rand.Rand, limit int) []QName {
	seen := map[string]bool{}
	var must, opt []Name
	addTo := func(dst *[]Name, n Name) {
		if !n.IsSubOf(z.Apex) || len(n.K) > 230 {
			return
		}
		for _, l := range n.L {
			if len(l) > 63 {
				return
			}
		}
		if seen[n.K] {
			return
		}
		seen[n.K] = true
		*dst = append(*dst, n)
	}
	lab := func(s string) []byte { return []byte(s) }
	fresh := [][]byte{lab("x"), lab("n0"), lab("zz"), lab("m"), {0}, {0xff}, lab("*"), lab("A0")}

	addTo(&must, z.Apex)
	for _, nd := range z.nsecOwners {
		addTo(&must, nd.Name)
	}
	for _, e := range z.ENTs {
		addTo(&must, e)
	}
	var last Name = z.Apex
	if n := len(z.nsecOwners); n > 0 {
		last = z.nsecOwners[n-1].Name
	}
	for _, nd := range z.nsecOwners {
		n := nd.Name
		if nd.Deleg || nd.DNAME != nil {
			addTo(&must, n.Child(lab("x")))
			addTo(&must, n.Child(lab("*")))
			addTo(&opt, n.Child([]byte{0}))
			addTo(&opt, n.Child(lab("a")).Child(lab("b")))
			addTo(&opt, n.Child([]byte{0xff}))
		}
		if len(n.L) > 0 && len(n.L[0]) == 1 && n.L[0][0] == '*' && n.NumLabels() > z.Apex.NumLabels() {
			ce := n.Parent()
			addTo(&must, ce.Child(lab("x")))
			addTo(&opt, ce.Child(lab("y")).Child(lab("x")))
			addTo(&opt, n.Child(lab("sub")))
			addTo(&opt, ce.Child(lab("zz")))
		}
		if n.NumLabels() > z.Apex.NumLabels() {
			l0 := n.L[0]
			p := n.Parent()
			// canonical neighbours and label-boundary near misses
			addTo(&opt, p.Child(append(append([]byte(nil), l0...), 0)))   // immediate successor among siblings
			addTo(&opt, p.Child(append(append([]byte(nil), l0...), '0'))) // label + "0"
			addTo(&opt, n.Child([]byte{0}))                               // immediate successor overall
			if len(l0) > 1 {
				addTo(&opt, p.Child(l0[:len(l0)-1]))
				addTo(&opt, p.Child(l0[1:]))
			}
			if n.NumLabels() >= z.Apex.NumLabels()+2 {
				// merge the two leftmost labels into one label containing a dot
				merged := append(append(append([]byte(nil), n.L[0]...), '.'), n.L[1]...)
				if len(merged) <= 63 {
					addTo(&opt, p.Parent().Child(merged))
				}
			}
			if i := indexByte(l0, '.'); i > 0 && i < len(l0)-1 {
				// split a dotted label into two labels
				addTo(&opt, p.Child(l0[i+1:]).Child(l0[:i]))
			}
			for _, f := range fresh[:3] {
				addTo(&opt, n.Child(f))
			}
		}
	}
	for _, e := range z.ENTs {
		addTo(&must, e.Child(lab("x")))
		addTo(&opt, e.Child([]byte{0}))
	}
	// before the first / after the last owner
	addTo(&must, z.Apex.Child([]byte{0}))
	addTo(&must, z.Apex.Child([]byte{0xff}))
	addTo(&must, last.Child([]byte{0xff}))
	addTo(&opt, last.Child(lab("x")).Child(lab("y")))
	addTo(&opt, z.Apex.Child([]byte{0xff, 0xff}))
	addTo(&opt, z.Apex.Child(lab("*")))
	for _, f := range fresh {
		addTo(&opt, z.Apex.Child(f))
	}
	// random names from the alphabet
	for i := 0; i < 24; i++ {
		n := z.Apex
		for d := 1 + rng.IntN(3); d > 0; d-- {
			n = n.Child(labelPool[rng.IntN(len(labelPool))])
		}
		addTo(&opt, n)
	}
	rng.Shuffle(len(opt), func(i, j int) { opt[i], opt[j] = opt[j], opt[i] })
	names := must
	for _, n := range opt {
		if len(names) >= limit {
			break
		}
		names = append(names, n)
	}
	out := make([]QName, 0, len(names)+4)
	for _, n := range names {
		q := n
		if rng.IntN(3) == 0 {
			q = caseMix(n, rng)
		}
		out = append(out, QName{N: q, Eff: q})
		// DNAME substitution variant for names below an in-zone-target DNAME
		t := z.TruthOf(n, dns.TypeA)
		if t.Kind == KBelowDNAME && t.Cut.DNAME != nil && t.Cut.DNAME.IsSubOf(z.Apex) {
			k := n.NumLabels() - t.Cut.Name.NumLabels()
			ls := append([][]byte{}, q.L[:k]...)
			ls = append(ls, t.Cut.DNAME.L...)
			eff := mkName(ls)
			if len(eff.K) < 240 {
				out = append(out, QName{N: q, Eff: eff, Dname: &dns.DNAME{
					Hdr:    dns.RR_Header{Name: t.Cut.Name.P, Rrtype: dns.TypeDNAME, Class: z.Class, Ttl: z.Spec.TTL},
					Target: t.Cut.DNAME.P,
				}})
			}
		}
	}
	return out
}

func indexByte(b []byte, c byte) int {
	for i, x := range b {
		if x == c {
			return i
		}
	}
	return -1
}

// qtypesFor picks the query types tried at a name: A, DS, one type that is
// present at the name (or at the wildcard that would answer it, or at the
// child apex for a delegation point), and SOA at delegation points.
func qtypesFor(z *Zone, q Name) []uint16 {
	out := []uint16{dns.TypeA, dns.TypeDS}
	add := func(t uint16) {
		for _, x := range out {
			if x == t {
				return
			}
		}
		out = append(out, t)
	}
	t := z.TruthOf(q, dns.TypeA)
	pick := func(m map[uint16]bool, skip ...uint16) {
		for _, c := range []uint16{dns.TypeMX, dns.TypeTXT, dns.TypeAAAA, dns.TypeCNAME, dns.TypeDNAME, dns.TypeNS, dns.TypeSOA} {
			if m[c] {
				ok := true
				for _, s := range skip {
					if s == c {
						ok = false
					}
				}
				if ok {
					add(c)
					return
				}
			}
		}
	}
	switch t.Kind {
	case KExists:
		if nd := z.Nodes[q.K]; nd != nil {
			pick(nd.Types)
		}
	case KWild:
		if t.Source != nil {
			pick(t.Source.Types)
		}
	case KAtDeleg:
		add(dns.TypeSOA)
		pick(t.Cut.ChildTypes, dns.TypeNS, dns.TypeSOA)
	}
	if len(out) < 3 {
		add(dns.TypeMX)
	}
	return out
}
