// Layer B — admission to and synthesis from the negative caches
// (middleware/cache: RFC 8020 subtree cuts, RFC 8198 aggressive proofs).
//
// A real cache.Cache is driven through its middleware entry (Cache.ServeDNS →
// ResponseWriter.WriteMsg) with a stub "resolver" behind it that answers from
// the reference model and reproduces the semantic step of Resolver.authority
// (real evaluators decide AD / provenance / aggressive eligibility), and
// through the exported Store API. Clock advance is virtual (hook
// VerifC02Advance). Every synthesised answer, every admission decision and the
// CD / ECS gates are judged against the model.
package main

import (
	"context"
	"fmt"
	"math/rand/v2"
	"net"
	"sort"
	"time"

	"github.com/miekg/dns"
	"github.com/semihalev/sdns/config"
	"github.com/semihalev/sdns/internal/dnsutil"
	"github.com/semihalev/sdns/internal/mock"
	"github.com/semihalev/sdns/middleware"
	"github.com/semihalev/sdns/middleware/cache"
	"github.com/semihalev/sdns/middleware/resolver/dnssec"
	"github.com/semihalev/sdns/zzverif/vlib"
)

// CaseB identifies one Layer B case; it is regenerated from (Seed, Index).
type CaseB struct {
	Layer  string   `json:"layer"`
	Seed   uint64   `json:"seed"`
	Index  int      `json:"index"`
	Tier   string   `json:"tier"`
	OpNo   int      `json:"op_no"`
	Op     string   `json:"op"`
	Detail string   `json:"detail"`
	Trace  []string `json:"trace,omitempty"`
}

const expireCfg = 600 // config.Expire (seconds): NegativeTTL → cut / proof max TTL

type zoneB struct {
	z    *Zone
	mode string // "nsec" | "nsec3"
	nv   *nsecView
	n3   []*dns.NSEC3
}

type caseB struct {
	r     *vlib.Run
	cb    CaseB
	rng   *rand.Rand
	zones []*zoneB
	c     *cache.Cache
	store *cache.Store
	vnow  time.Duration // virtual time advanced so far
	trace []string
	opNo  int
	op    string

	// model of what may legitimately be in the caches: virtual expiry per record
	expProof map[string]time.Duration // zoneK|type|ownerK → latest virtual expiry
	expCut   map[string]time.Duration // deniedK|zoneK
	// stub control for the next pipeline query
	stubMode  string
	stubCalls int
	stubNote  string
	cutIn     time.Duration // deadline the stub folds into ResponseMeta (0 = none)
	lastAdmit *admitInfo

	uni []uniB
	t   *tally
}

type uniB struct {
	n     Name
	types []uint16
}

type admitInfo struct {
	marked     bool
	aggressive bool
	optout     bool // the proof rests on an Opt-Out span (model)
	rcode      int
	zone       *zoneB
	subject    Name
	resp       *dns.Msg
	cutUntil   time.Time
}

func caseRng(seed uint64, idx int) *rand.Rand {
	return rand.New(rand.NewPCG(seed, 0xC02B000000000000+uint64(idx)))
}

func (cs *caseB) tracef(format string, a ...any) {
	if len(cs.trace) < 400 {
		cs.trace = append(cs.trace, fmt.Sprintf("#%d ", cs.opNo)+fmt.Sprintf(format, a...))
	}
}

func (cs *caseB) violation(sig, what string) {
	cs.t.add("contradicted/"+sig, 1)
	if cs.t.viol[sig] != nil {
		return
	}
	c := cs.cb
	c.OpNo, c.Op, c.Detail = cs.opNo, cs.op, what
	tr := cs.trace
	if len(tr) > 60 {
		tr = tr[len(tr)-60:]
	}
	c.Trace = append([]string(nil), tr...)
	cs.t.viol[sig] = &found{key: fmt.Sprintf("B%06d/%05d", cs.cb.Index, cs.opNo), what: what}
	cs.t.violB = append(cs.t.violB, violB{sig: sig, what: what, c: c})
}

// ---------------------------------------------------------------- world view

func (cs *caseB) zoneFor(n Name, qtype uint16) *zoneB {
	var best *zoneB
	for _, zb := range cs.zones {
		if !n.IsSubOf(zb.z.Apex) {
			continue
		}
		if n.Equal(zb.z.Apex) && qtype == dns.TypeDS {
			continue // DS lives in the parent
		}
		if best == nil || zb.z.Apex.NumLabels() > best.z.Apex.NumLabels() {
			best = zb
		}
	}
	return best
}

func (cs *caseB) zoneByApex(apex string) *zoneB {
	a, err := parseName(apex)
	if err != nil {
		return nil
	}
	for _, zb := range cs.zones {
		if zb.z.Apex.Equal(a) {
			return zb
		}
	}
	return nil
}

// ---------------------------------------------------------------- honest authoritative responses

type ttlPlan struct {
	soaTTL, minTTL, recTTL uint32
	sigLife                time.Duration
}

func (cs *caseB) plan() ttlPlan {
	pick := func() uint32 { return []uint32{40, 90, 300, 900}[cs.rng.IntN(4)] }
	return ttlPlan{soaTTL: pick(), minTTL: pick(), recTTL: pick(),
		sigLife: []time.Duration{50 * time.Second, 200 * time.Second, time.Hour}[cs.rng.IntN(3)]}
}

func fakeSig(owner string, covered uint16, ttl uint32, signer string, now time.Time, life time.Duration) *dns.RRSIG {
	labels := dns.CountLabel(owner)
	if len(owner) > 1 && owner[0] == '*' && owner[1] == '.' {
		labels--
	}
	return &dns.RRSIG{
		Hdr:         dns.RR_Header{Name: owner, Rrtype: dns.TypeRRSIG, Class: dns.ClassINET, Ttl: ttl},
		TypeCovered: covered, Algorithm: dns.ECDSAP256SHA256, Labels: uint8(labels), OrigTtl: ttl,
		Expiration: uint32(now.Add(life).Unix()), Inception: uint32(now.Add(-time.Hour).Unix()),
		KeyTag: 4242, SignerName: signer, Signature: "AA==",
	}
}

// denial builds the honest negative response of zone zb for (q, qtype), or nil
// when the model's answer is not a denial this zone can prove.
func (cs *caseB) denial(zb *zoneB, q Name, qtype uint16, p ttlPlan, now time.Time) (resp *dns.Msg, optout bool) {
	z := zb.z
	t := z.TruthOf(q, qtype)
	rcode := -1
	switch {
	case t.Kind == KNX:
		rcode = dns.RcodeNameError
	case t.NoData():
		rcode = dns.RcodeSuccess
	default:
		return nil, false
	}
	var proof []dns.RR
	if zb.mode == "nsec" {
		add := func(i int) {
			if i < 0 {
				return
			}
			for _, r := range proof {
				if r == dns.RR(zb.nv.rrs[i]) {
					return
				}
			}
			proof = append(proof, zb.nv.rrs[i])
		}
		switch {
		case t.Kind == KNX:
			add(zb.nv.coverIdx(q))
			add(zb.nv.coverIdx(t.CE.Child([]byte{'*'})))
		case t.Kind == KExists:
			add(zb.nv.ownerIdx(q))
		case t.Kind == KENT:
			add(zb.nv.coverIdx(q))
		case t.Kind == KWild:
			add(zb.nv.coverIdx(q))
			w := t.CE.Child([]byte{'*'})
			if i := zb.nv.ownerIdx(w); i >= 0 {
				add(i)
			} else {
				add(zb.nv.coverIdx(w))
			}
		}
	} else {
		add := func(i int) bool {
			if i < 0 {
				return false
			}
			for _, r := range proof {
				if r == dns.RR(zb.n3[i]) {
					return true
				}
			}
			proof = append(proof, zb.n3[i])
			return true
		}
		ce, nc, exact := z.hashedCE(q)
		_, ncOpt, wcOpt := z.optOutFacts(q)
		w := ce.Child([]byte{'*'})
		switch {
		case exact:
			if rcode != dns.RcodeSuccess || !add(z.n3Match(q)) {
				return nil, false
			}
		case t.Kind == KNX:
			if z.hashed[w.K] || !add(z.n3Match(ce)) || !add(z.n3Cover(nc)) || !add(z.n3Cover(w)) {
				return nil, false
			}
			optout = ncOpt || wcOpt
		case t.Kind == KWild && z.hashed[w.K]:
			if !add(z.n3Match(ce)) || !add(z.n3Cover(nc)) || !add(z.n3Match(w)) {
				return nil, false
			}
			optout = ncOpt
		case qtype == dns.TypeDS && ncOpt:
			// DS at an opted-out insecure delegation (RFC 5155 §7.2.4)
			if !add(z.n3Match(ce)) || !add(z.n3Cover(nc)) {
				return nil, false
			}
			optout = true
		default:
			return nil, false
		}
	}
	if len(proof) == 0 {
		return nil, false
	}
	resp = new(dns.Msg)
	resp.SetQuestion(q.P, qtype)
	resp.Response, resp.Rcode, resp.RecursionAvailable = true, rcode, true
	apex := z.Apex.P
	resp.Ns = append(resp.Ns, &dns.SOA{Hdr: dns.RR_Header{Name: apex, Rrtype: dns.TypeSOA, Class: dns.ClassINET, Ttl: p.soaTTL},
		Ns: "ns." + apex, Mbox: "h." + apex, Serial: 1, Refresh: 3600, Retry: 600, Expire: 86400, Minttl: p.minTTL},
		fakeSig(apex, dns.TypeSOA, p.soaTTL, apex, now, p.sigLife))
	for _, rr := range proof {
		c := dns.Copy(rr)
		c.Header().Ttl = p.recTTL
		resp.Ns = append(resp.Ns, c, fakeSig(c.Header().Name, c.Header().Rrtype, p.recTTL, apex, now, p.sigLife))
	}
	return resp, optout
}

func positive(q Name, qtype uint16) *dns.Msg {
	m := new(dns.Msg)
	m.SetQuestion(q.P, qtype)
	m.Response, m.RecursionAvailable = true, true
	m.Answer = []dns.RR{&dns.TXT{Hdr: dns.RR_Header{Name: q.P, Rrtype: dns.TypeTXT, Class: dns.ClassINET, Ttl: 60}, Txt: []string{"c02"}}}
	if qtype != dns.TypeTXT {
		m.Answer = []dns.RR{&dns.RFC3597{Hdr: dns.RR_Header{Name: q.P, Rrtype: qtype, Class: dns.ClassINET, Ttl: 60}, Rdata: "00"}}
	}
	return m
}

// emulateAuthority reproduces the semantic part of Resolver.authority
// (middleware/resolver/resolver.go, "Require denial-of-existence proof…"):
// the real evaluators decide acceptance, AD and aggressive eligibility; the
// provenance mark is attached exactly under the resolver's conditions.
// Returns false when the resolver would have failed the response (SERVFAIL).
func emulateAuthority(ctx context.Context, req, resp *dns.Msg, signer string) (ok bool, marked, aggressive bool) {
	q := req.Question[0]
	nsec3Set := dnsutil.FilterRRsToZone(dnsutil.ExtractRRSet(resp.Ns, "", dns.TypeNSEC3), signer)
	nsecSet := dnsutil.FilterRRsToZone(dnsutil.ExtractRRSet(resp.Ns, "", dns.TypeNSEC), signer)
	isNegative := resp.Rcode == dns.RcodeNameError || (resp.Rcode == dns.RcodeSuccess && len(resp.Answer) == 0)
	kind := middleware.ValidatedNegativeProofUnknown
	denialSecure := true
	proofQuestion := q
	if !isNegative {
		return true, false, false
	}
	switch {
	case len(nsec3Set) > 0:
		kind = middleware.ValidatedNegativeProofNSEC3
		var err error
		if resp.Rcode == dns.RcodeNameError {
			denialSecure, err = dnssec.VerifyNameErrorForZoneWithWork(resp, nsec3Set, signer, nil)
		} else {
			denialSecure, err = dnssec.VerifyNODATAForZoneWithWork(resp, nsec3Set, signer, nil)
		}
		if err != nil {
			return false, false, false
		}
		if denialSecure {
			result, err := dnssec.EvaluateAggressiveNSEC3(proofQuestion, signer, nsec3Set, nil)
			aggressive = err == nil && result.Rcode == resp.Rcode
		}
	case len(nsecSet) > 0:
		kind = middleware.ValidatedNegativeProofNSEC
		var err error
		if resp.Rcode == dns.RcodeNameError {
			err = dnssec.VerifyNameErrorNSEC(resp, nsecSet)
		} else {
			err = dnssec.VerifyNODATANSEC(resp, nsecSet)
		}
		if err != nil {
			return false, false, false
		}
		result, err := dnssec.EvaluateAggressiveNSEC(proofQuestion, signer, nsecSet)
		aggressive = err == nil && result.Rcode == resp.Rcode
	default:
		return false, false, false
	}
	if !req.CheckingDisabled {
		resp.AuthenticatedData = denialSecure
	}
	if !req.CheckingDisabled && denialSecure {
		middleware.MarkValidatedNegativeProofResponse(ctx, resp, middleware.ValidatedNegativeProof{
			Subject: proofQuestion.Name, Zone: signer, Kind: kind, Aggressive: aggressive})
		marked = true
	}
	return true, marked, aggressive
}

// ServeDNS / Name make caseB the terminal handler behind the cache.
func (cs *caseB) Name() string { return "c02stub" }

func (cs *caseB) ServeDNS(ctx context.Context, ch *middleware.Chain) {
	cs.stubCalls++
	req := ch.Request.Msg()
	qn, err := parseName(req.Question[0].Name)
	qtype := req.Question[0].Qtype
	fail := func() {
		m := new(dns.Msg)
		m.SetRcode(req, dns.RcodeRefused)
		_ = ch.Writer.WriteMsg(m)
		ch.Cancel()
	}
	if err != nil {
		fail()
		return
	}
	zb := cs.zoneFor(qn, qtype)
	if zb == nil {
		fail()
		return
	}
	now := time.Now()
	resp, optout := cs.denial(zb, qn, qtype, cs.plan(), now)
	if resp == nil {
		resp = positive(qn, qtype)
		resp.Id = req.Id
		_ = ch.Writer.WriteMsg(resp)
		ch.Cancel()
		return
	}
	resp.Id = req.Id
	resp.Question = req.Question
	resp.CheckingDisabled = req.CheckingDisabled
	info := &admitInfo{optout: optout, rcode: resp.Rcode, zone: zb, subject: qn, resp: resp}
	if cs.cutIn > 0 {
		info.cutUntil = now.Add(cs.cutIn)
		middleware.ResponseMetaFrom(ctx).BoundCutFor(info.cutUntil, 1)
	}
	signer := zb.z.Apex.P
	switch cs.stubMode {
	case "validated":
		ok, marked, agg := emulateAuthority(ctx, req, resp, signer)
		if !ok {
			cs.stubNote = "resolver-would-servfail"
			fail()
			return
		}
		info.marked, info.aggressive = marked, agg
	case "unvalidated":
		// a forwarder / plugin answer: AD on the wire, no local provenance
		resp.AuthenticatedData = true
	case "forcemark":
		// a handler that marks provenance although the request tree is CD / ECS
		kind := middleware.ValidatedNegativeProofNSEC
		if zb.mode == "nsec3" {
			kind = middleware.ValidatedNegativeProofNSEC3
		}
		resp.AuthenticatedData = true
		middleware.MarkValidatedNegativeProofResponse(ctx, resp, middleware.ValidatedNegativeProof{
			Subject: qn.P, Zone: signer, Kind: kind, Aggressive: true})
		info.marked, info.aggressive = true, true
	}
	cs.lastAdmit = info
	_ = ch.Writer.WriteMsg(resp)
	ch.Cancel()
}

// ---------------------------------------------------------------- requests

func mkReq(n Name, qtype uint16, flavor string) *dns.Msg {
	req := new(dns.Msg)
	req.SetQuestion(n.P, qtype)
	req.RecursionDesired = true
	req.SetEdns0(1232, true)
	switch flavor {
	case "cd":
		req.CheckingDisabled = true
	case "ecs":
		req.IsEdns0().Option = append(req.IsEdns0().Option, &dns.EDNS0_SUBNET{Code: dns.EDNS0SUBNET, Family: 1,
			SourceNetmask: 24, Address: net.IPv4(192, 0, 2, 0).To4()})
	}
	return req
}

func (cs *caseB) exchange(ctx context.Context, req *dns.Msg) *dns.Msg {
	w := mock.NewWriter("udp", "127.0.0.1:4053")
	ch := middleware.NewChain([]middleware.Handler{cs.c, cs})
	ch.Reset(w, req)
	ch.Next(ctx)
	if !w.Written() {
		return nil
	}
	return w.Msg()
}

// ---------------------------------------------------------------- model of admissions

func minDur(a time.Duration, bs ...time.Duration) time.Duration {
	for _, b := range bs {
		if b < a {
			a = b
		}
	}
	return a
}

func rrLife(rr dns.RR, now time.Time) time.Duration {
	l := time.Duration(rr.Header().Ttl) * time.Second
	switch x := rr.(type) {
	case *dns.SOA:
		l = minDur(l, time.Duration(x.Minttl)*time.Second)
	case *dns.RRSIG:
		l = minDur(l, time.Duration(x.OrigTtl)*time.Second, time.Unix(int64(x.Expiration), 0).Sub(now))
	}
	return l
}

func sigCovers(sig *dns.RRSIG, rr dns.RR) bool {
	a, e1 := parseName(sig.Hdr.Name)
	b, e2 := parseName(rr.Header().Name)
	return e1 == nil && e2 == nil && a.Equal(b) && sig.TypeCovered == rr.Header().Rrtype
}

func proofKey(zone Name, rr dns.RR) string {
	o, _ := parseName(rr.Header().Name)
	return zone.K + "|" + dns.TypeToString[rr.Header().Rrtype] + "|" + o.K
}

// modelAdmit records the virtual expiry the caches may at most give each
// record of an admitted response (upper bounds: a later re-admission only
// raises them, so the model never expires something the cache may still hold).
func (cs *caseB) modelAdmit(zb *zoneB, subject Name, resp *dns.Msg, cutUntil time.Time, now time.Time, proof, cut bool) {
	common := expireCfg * time.Second
	if !cutUntil.IsZero() {
		common = minDur(common, cutUntil.Sub(now))
	}
	var soa dns.RR
	for _, rr := range resp.Ns {
		if rr.Header().Rrtype == dns.TypeSOA {
			soa = rr
			common = minDur(common, rrLife(rr, now))
		}
	}
	for _, rr := range resp.Ns {
		if s, ok := rr.(*dns.RRSIG); ok && soa != nil && sigCovers(s, soa) {
			common = minDur(common, rrLife(rr, now))
		}
	}
	all := common
	set := func(m map[string]time.Duration, k string, life time.Duration) {
		if e := cs.vnow + life; e > m[k] {
			m[k] = e
		}
	}
	for _, rr := range resp.Ns {
		t := rr.Header().Rrtype
		if t != dns.TypeNSEC && t != dns.TypeNSEC3 {
			continue
		}
		life := minDur(common, rrLife(rr, now))
		for _, s := range resp.Ns {
			if sg, ok := s.(*dns.RRSIG); ok && sigCovers(sg, rr) {
				life = minDur(life, rrLife(s, now))
			}
		}
		all = minDur(all, life)
		if proof {
			set(cs.expProof, proofKey(zb.z.Apex, rr), life)
		}
	}
	if proof && soa != nil {
		set(cs.expProof, proofKey(zb.z.Apex, soa), common)
	}
	if cut {
		set(cs.expCut, subject.K, all)
	}
}

type storeState struct {
	proofLen, cutLen int
	seq              uint64
	cutStamp         int64
}

func (cs *caseB) state() storeState {
	_, stamp := cache.VerifC02Cuts(cs.store)
	return storeState{cs.store.DenialProofLen(), cs.store.NXDomainCutLen(), cache.VerifC02ProofSeq(cs.store), stamp}
}

func (a storeState) admitted(b storeState) bool { return b.seq != a.seq || b.cutStamp != a.cutStamp }

// ---------------------------------------------------------------- judging a synthesised answer

func (cs *caseB) work() dnssec.NSEC3Work { return nullWork{} }

// judgeSynth checks one answer that did not come from an exact cache entry or
// from the stub. path is "cut", "proof", "get", "pipeline".
func (cs *caseB) judgeSynth(path string, n Name, qtype uint16, flavor string, m *dns.Msg, cutHit bool) {
	if !isNegativeMsg(m) {
		cs.t.add("non_denial_cache_answers/"+dns.RcodeToString[m.Rcode], 1) // RFC 9520 failure cache etc.
		return
	}
	cs.t.add("evals", 1)
	cs.t.add("synth/"+path+"/"+flavor, 1)
	if flavor != "plain" {
		cs.violation(vlib.Sig("cache", "synthesis-for-"+flavor, path),
			fmt.Sprintf("%s request for %s/%s was answered from shared denial state (%s): rcode %s", flavor, n.P, dns.TypeToString[qtype], path, dns.RcodeToString[m.Rcode]))
		return
	}
	var zb *zoneB
	for _, rr := range m.Ns {
		if rr.Header().Rrtype == dns.TypeSOA {
			zb = cs.zoneByApex(rr.Header().Name)
		}
	}
	if zb == nil {
		cs.violation(vlib.Sig("cache", "synthesis-without-known-soa", path), fmt.Sprintf("synthesised answer for %s carries no SOA of a modelled zone", n.P))
		return
	}
	z := zb.z
	t := z.TruthOf(n, qtype)
	cs.t.distinct("B|" + path + "|" + t.Kind.String() + "|" + t.Data.String() + "|" + dns.RcodeToString[m.Rcode] + "|" + zb.mode + "|" + shapeOf(n, z.Apex))
	cs.t.in("name_shapes", shapeOf(n, z.Apex)+"|"+t.Kind.String())
	switch {
	case m.Rcode == dns.RcodeNameError:
		cs.t.add("synth_nxdomain", 1)
		if t.Kind != KNX {
			cs.violation(vlib.Sig("cache", "synthesised-nxdomain", t.Kind.String()),
				fmt.Sprintf("cache synthesised NXDOMAIN (%s, zone %s) for %s but the model says %s", path, z.Apex.P, n.P, t.Kind))
			return
		}
	case m.Rcode == dns.RcodeSuccess && len(m.Answer) == 0:
		cs.t.add("synth_nodata", 1)
		if !t.NoData() {
			cs.violation(vlib.Sig("cache", "synthesised-nodata", t.Kind.String()+"-"+t.Data.String()),
				fmt.Sprintf("cache synthesised NODATA (%s, zone %s) for %s/%s but the model says %s/%s", path, z.Apex.P, n.P, dns.TypeToString[qtype], t.Kind, t.Data))
			return
		}
	default:
		cs.violation(vlib.Sig("cache", "synthesised-other"), fmt.Sprintf("unexpected synthesised answer for %s: rcode %s, %d answers", n.P, dns.RcodeToString[m.Rcode], len(m.Answer)))
		return
	}
	if zb.mode == "nsec3" {
		_, ncOpt, wcOpt := z.optOutFacts(n)
		if (m.Rcode == dns.RcodeNameError && (ncOpt || wcOpt)) || (m.Rcode == dns.RcodeSuccess && t.Kind == KWild && ncOpt) {
			cs.violation(vlib.Sig("cache", "synthesis-rests-on-optout"), fmt.Sprintf("cache synthesised %s for %s from an Opt-Out span", dns.RcodeToString[m.Rcode], n.P))
			return
		}
	}
	// expiry / provenance of the material
	const slack = 3 * time.Second
	if cutHit {
		live := false
		known := false
		for a := n; a.IsSubOf(z.Apex); a = a.Parent() {
			if e, ok := cs.expCut[a.K]; ok {
				known = true
				if cs.vnow <= e+slack {
					live = true
				}
			}
			if a.IsRoot() {
				break
			}
		}
		if !known {
			cs.violation(vlib.Sig("cache", "cut-without-admission"), fmt.Sprintf("a cut covers %s although the model admitted none", n.P))
		} else if !live {
			cs.violation(vlib.Sig("cache", "synthesis-after-expiry", "cut"), fmt.Sprintf("cut-based NXDOMAIN for %s at virtual +%s after every covering cut expired", n.P, cs.vnow))
		}
		return
	}
	for _, rr := range m.Ns {
		ty := rr.Header().Rrtype
		if ty != dns.TypeNSEC && ty != dns.TypeNSEC3 && ty != dns.TypeSOA {
			continue
		}
		e, ok := cs.expProof[proofKey(z.Apex, rr)]
		if !ok {
			cs.violation(vlib.Sig("cache", "synthesis-from-unadmitted-record"), fmt.Sprintf("answer for %s uses %s %s which the model never admitted", n.P, dns.TypeToString[ty], rr.Header().Name))
			return
		}
		if cs.vnow > e+slack {
			cs.violation(vlib.Sig("cache", "synthesis-after-expiry", "proof"), fmt.Sprintf("answer for %s at virtual +%s uses %s %s expired at +%s", n.P, cs.vnow, dns.TypeToString[ty], rr.Header().Name, e))
			return
		}
	}
}

func isNegativeMsg(m *dns.Msg) bool {
	return m != nil && (m.Rcode == dns.RcodeNameError || (m.Rcode == dns.RcodeSuccess && len(m.Answer) == 0))
}

// sweepOne looks (n, qtype) up through the store API in every flavour.
func (cs *caseB) sweepOne(n Name, qtype uint16, pipeline bool) {
	for _, flavor := range []string{"plain", "cd", "ecs"} {
		req := mkReq(n, qtype, flavor)
		_, hasExact := cs.store.Lookup(req)
		cs.t.add("lookups/"+flavor, 1)
		if flavor != "ecs" {
			_, cutHit := cs.store.LookupNXDomainCut(req)
			pm, _, _, pok := cs.store.LookupDenialProof(req, cs.work())
			if cutHit {
				// the cut entry itself is opaque here; its answer is observed via GetWithContext below
				cs.t.add("cut_hits/"+flavor, 1)
				if flavor != "plain" {
					cs.violation(vlib.Sig("cache", "synthesis-for-"+flavor, "cut-lookup"), fmt.Sprintf("LookupNXDomainCut hit for a %s request (%s)", flavor, n.P))
				}
			}
			if pok {
				cs.judgeSynth("proof", n, qtype, flavor, pm, false)
			}
			ctx := dnssec.EnsureNSEC3HashMemo(context.Background())
			if gm, gok := cs.store.GetWithContext(ctx, req); gok && !hasExact {
				cs.judgeSynth("get", n, qtype, flavor, gm, cutHit)
			}
		} else {
			ctx := dnssec.EnsureNSEC3HashMemo(context.Background())
			if gm, gok := cs.store.GetWithContext(ctx, req); gok && !hasExact {
				cs.judgeSynth("get", n, qtype, "ecs", gm, false)
			}
			// plain message, ECS / bypass carried by the request tree only
			plain := mkReq(n, qtype, "plain")
			if _, ex := cs.store.Lookup(plain); !ex {
				if gm, gok := cs.store.GetWithContext(middleware.MarkClientECS(dnssec.EnsureNSEC3HashMemo(context.Background())), plain); gok {
					cs.judgeSynth("get-ctx-ecs", n, qtype, "ecs", gm, false)
				}
				if gm, gok := cs.store.GetWithContext(cache.VerifC02BypassContext(dnssec.EnsureNSEC3HashMemo(context.Background())), plain); gok {
					cs.judgeSynth("get-ctx-bypass", n, qtype, "cd", gm, false)
				}
			}
		}
		if pipeline {
			cs.pipelineQuery(n, qtype, flavor, "validated", 0)
		}
	}
	if pipeline {
		cs.pipelineQuery(n, qtype, "ecsctx", "validated", 0)
	}
}

// pipelineQuery sends one request through Cache.ServeDNS with the stub behind it.
func (cs *caseB) pipelineQuery(n Name, qtype uint16, flavor, mode string, cutIn time.Duration) {
	req := mkReq(n, qtype, flavor)
	_, hasExact := cs.store.Lookup(req)
	_, cutHit := cs.store.LookupNXDomainCut(mkReq(n, qtype, "plain"))
	cs.stubMode, cs.stubCalls, cs.lastAdmit, cs.cutIn, cs.stubNote = mode, 0, nil, cutIn, ""
	before := cs.state()
	now := time.Now()
	ctx := context.Background()
	if flavor == "ecsctx" {
		// what middleware/edns leaves behind after stripping a client's ECS option:
		// a plain message in a request tree marked as ECS
		ctx = middleware.MarkClientECS(ctx)
	}
	resp := cs.exchange(ctx, req)
	after := cs.state()
	cs.t.add("pipeline_queries/"+flavor+"/"+mode, 1)
	cs.tracef("query %s/%s %s stub=%s calls=%d exact=%v → %s admitted=%v", n.P, dns.TypeToString[qtype], flavor, mode, cs.stubCalls, hasExact, rcodeOf(resp), before.admitted(after))
	if resp == nil {
		cs.r.Inconclusive("layer B: pipeline wrote no response")
		return
	}
	if cs.stubCalls == 0 {
		if !hasExact && isNegativeMsg(resp) {
			fl := flavor
			if fl == "ecsctx" {
				fl = "ecs"
			}
			cs.judgeSynth("pipeline", n, qtype, fl, resp, cutHit && flavor == "plain")
		}
		if before.admitted(after) {
			cs.violation(vlib.Sig("cache", "admission-without-resolution"), fmt.Sprintf("cache state changed on a query (%s) that never reached the resolver", n.P))
		}
		return
	}
	cs.t.add("handed_to_resolution/"+flavor, 1)
	info := cs.lastAdmit
	admitted := before.admitted(after)
	cs.t.add("evals", 1)
	legit := info != nil && info.marked && info.aggressive && mode == "validated" && flavor == "plain"
	switch {
	case admitted && !legit:
		reason := "no-provenance"
		switch {
		case flavor != "plain":
			reason = flavor + "-request"
		case info != nil && info.marked && !info.aggressive:
			reason = "not-aggressive-eligible"
		}
		cs.violation(vlib.Sig("cache", "admission", reason), fmt.Sprintf("shared denial state was admitted from a %s response to a %s request for %s/%s (%s)", mode, flavor, n.P, dns.TypeToString[qtype], reason))
	case admitted && info.optout:
		cs.violation(vlib.Sig("cache", "admission", "optout-proof"), fmt.Sprintf("shared denial state was admitted from a proof resting on an Opt-Out span (%s/%s)", n.P, dns.TypeToString[qtype]))
	case admitted:
		cs.t.add("admissions/pipeline", 1)
		if after.cutLen > before.cutLen || after.cutStamp != before.cutStamp {
			cs.t.add("admissions/cut", 1)
		}
	}
	if legit {
		// upper bound on lifetimes, whether or not the cache took it (limits may refuse)
		cs.modelAdmit(info.zone, info.subject, info.resp, info.cutUntil, now, true, info.rcode == dns.RcodeNameError && !info.optout)
		if !admitted {
			cs.t.add("legit_not_admitted", 1)
		}
	}
	if mode != "validated" || flavor != "plain" {
		cs.t.add("refused_admissions/"+flavor+"/"+mode, 1)
	}
}

func rcodeOf(m *dns.Msg) string {
	if m == nil {
		return "none"
	}
	return dns.RcodeToString[m.Rcode]
}

// directOp exercises Store.RecordDenialProof / RecordNXDomainCut.
func (cs *caseB) directOp() {
	rng := cs.rng
	// find a name with an NXDOMAIN truth
	var zb *zoneB
	var n Name
	for tries := 0; tries < 40; tries++ {
		u := cs.uni[rng.IntN(len(cs.uni))]
		z := cs.zoneFor(u.n, dns.TypeA)
		if z != nil && z.z.TruthOf(u.n, dns.TypeA).Kind == KNX {
			zb, n = z, u.n
			break
		}
	}
	if zb == nil {
		return
	}
	now := time.Now()
	resp, optout := cs.denial(zb, n, dns.TypeA, cs.plan(), now)
	if resp == nil {
		return
	}
	kind := middleware.ValidatedNegativeProofNSEC
	if zb.mode == "nsec3" {
		kind = middleware.ValidatedNegativeProofNSEC3
	}
	apex := zb.z.Apex.P
	var cutUntil time.Time
	if rng.IntN(3) == 0 {
		cutUntil = now.Add([]time.Duration{25 * time.Second, 70 * time.Second, 10 * time.Minute}[rng.IntN(3)])
	}
	variant := []string{"valid", "valid", "valid", "apex-denied", "cd-proof", "outside-zone", "kind-mismatch", "root-denied"}[rng.IntN(8)]
	if optout {
		variant = "optout-proof"
	}
	before := cs.state()
	var okP, okC bool
	switch variant {
	case "valid":
		// what the resolver would have required before marking: the strict evaluator agrees
		q := dns.Question{Name: n.P, Qtype: dns.TypeA, Qclass: dns.ClassINET}
		var err error
		if zb.mode == "nsec3" {
			_, err = dnssec.EvaluateAggressiveNSEC3(q, apex, dnsutil.ExtractRRSet(resp.Ns, "", dns.TypeNSEC3), nil)
		} else {
			_, err = dnssec.EvaluateAggressiveNSEC(q, apex, dnsutil.ExtractRRSet(resp.Ns, "", dns.TypeNSEC))
		}
		if err != nil {
			cs.t.add("direct/skipped-not-aggressive", 1)
			return
		}
		okP = cs.store.RecordDenialProof(resp, apex, kind, cutUntil)
		okC = cs.store.RecordNXDomainCut(resp, n.P, apex, cutUntil)
		if okP {
			cs.modelAdmit(zb, n, resp, cutUntil, now, true, false)
		}
		if okC {
			cs.modelAdmit(zb, n, resp, cutUntil, now, false, true)
		}
		cs.t.add("admissions/direct", 1)
	case "apex-denied":
		okC = cs.store.RecordNXDomainCut(resp, apex, apex, cutUntil)
	case "root-denied":
		okC = cs.store.RecordNXDomainCut(resp, ".", apex, cutUntil)
	case "cd-proof":
		resp.CheckingDisabled = true
		okP = cs.store.RecordDenialProof(resp, apex, kind, cutUntil)
		okC = cs.store.RecordNXDomainCut(resp, n.P, apex, cutUntil)
	case "outside-zone":
		other := "outside.invalid."
		okC = cs.store.RecordNXDomainCut(resp, other, apex, cutUntil)
		m := resp.Copy()
		m.Question[0].Name = other
		okP = cs.store.RecordDenialProof(m, apex, kind, cutUntil)
	case "kind-mismatch":
		wrong := middleware.ValidatedNegativeProofNSEC3
		if zb.mode == "nsec3" {
			wrong = middleware.ValidatedNegativeProofNSEC
		}
		okP = cs.store.RecordDenialProof(resp, apex, wrong, cutUntil)
	case "optout-proof":
		// RFC 8020 cut from an Opt-Out proof must be refused by the cut index itself
		okC = cs.store.RecordNXDomainCut(resp, n.P, apex, cutUntil)
	}
	after := cs.state()
	cs.t.add("direct/"+variant, 1)
	cs.t.add("evals", 1)
	cs.tracef("direct %s %s zone %s → proof=%v cut=%v", variant, n.P, apex, okP, okC)
	if variant != "valid" && (okP || okC || before.admitted(after)) {
		cs.violation(vlib.Sig("cache", "admission", variant), fmt.Sprintf("Store admitted shared denial state for the %s variant (%s, zone %s): proof=%v cut=%v", variant, n.P, apex, okP, okC))
	}
}

// ---------------------------------------------------------------- one case

func runCaseB(r *vlib.Run, seed uint64, idx int, quick bool) *tally {
	rng := caseRng(seed, idx)
	cs := &caseB{r: r, rng: rng, t: newTally(), expProof: map[string]time.Duration{}, expCut: map[string]time.Duration{},
		cb: CaseB{Layer: "B", Seed: seed, Index: idx, Tier: map[bool]string{true: "quick", false: "thorough"}[quick]}}
	ws := genWorld(rng, idx%3 != 2)
	w := buildWorld(ws)
	for _, z := range []*Zone{w.P, w.C, w.S} {
		zb := &zoneB{z: z, mode: "nsec"}
		if rng.IntN(2) == 0 {
			zb.mode = "nsec3"
			zb.n3 = z.NSEC3Chain()
		} else {
			zb.nv = z.nsecView()
		}
		cs.zones = append(cs.zones, zb)
		for _, q := range universe(z, rng, 36) {
			if q.Dname == nil {
				cs.uni = append(cs.uni, uniB{n: q.N, types: qtypesFor(z, q.N)})
			}
		}
		cs.t.add("zonesB/"+zb.mode, 1)
	}
	cs.c = cache.New(&config.Config{CacheSize: 16384, Expire: expireCfg})
	defer cs.c.Stop()
	cs.c.SetDNSSECCryptoLimiter(dnssec.NewCryptoLimiter(4))
	st, ok := cs.c.Store().(*cache.Store)
	if !ok {
		r.Fatalf("layer B: Cache.Store() is not *cache.Store")
	}
	cs.store = st

	// names whose honest answer is a denial, to bias the query ops
	var denials []uniB
	for _, u := range cs.uni {
		zb := cs.zoneFor(u.n, dns.TypeA)
		if zb != nil {
			if t := zb.z.TruthOf(u.n, dns.TypeA); t.Kind == KNX || t.NoData() {
				denials = append(denials, u)
			}
		}
	}
	nOps := 70
	for cs.opNo = 1; cs.opNo <= nOps; cs.opNo++ {
		d := rng.IntN(100)
		switch {
		case d < 56:
			cs.op = "query"
			u := cs.uni[rng.IntN(len(cs.uni))]
			if len(denials) > 0 && rng.IntN(4) != 0 {
				u = denials[rng.IntN(len(denials))]
			}
			qt := u.types[rng.IntN(len(u.types))]
			flavor, mode := "plain", "validated"
			switch f := rng.IntN(20); {
			case f < 3:
				flavor, mode = "cd", "forcemark"
			case f < 5:
				flavor, mode = "ecs", "forcemark"
			case f < 7:
				flavor, mode = "ecsctx", "forcemark"
			case f < 9:
				mode = "unvalidated"
			}
			var cutIn time.Duration
			if rng.IntN(4) == 0 {
				cutIn = []time.Duration{25 * time.Second, 70 * time.Second, 20 * time.Minute}[rng.IntN(3)]
			}
			cs.pipelineQuery(u.n, qt, flavor, mode, cutIn)
		case d < 66:
			cs.op = "direct"
			cs.directOp()
		case d < 76:
			cs.op = "advance"
			dd := []time.Duration{20 * time.Second, 45 * time.Second, 100 * time.Second, 400 * time.Second}[rng.IntN(4)]
			cache.VerifC02Advance(cs.store, dd)
			cs.vnow += dd
			cs.tracef("advance %s → +%s", dd, cs.vnow)
			cs.t.add("advances", 1)
		case d < 80:
			cs.op = "purge"
			u := cs.uni[rng.IntN(len(cs.uni))]
			cs.store.Purge(dns.Question{Name: u.n.P, Qtype: dns.TypeA, Qclass: dns.ClassINET})
			cs.tracef("purge %s", u.n.P)
			cs.t.add("purges", 1)
		default:
			cs.op = "sweep-some"
			for k := 0; k < 6; k++ {
				u := cs.uni[rng.IntN(len(cs.uni))]
				cs.sweepOne(u.n, u.types[rng.IntN(len(u.types))], k == 0)
			}
		}
	}
	cs.op = "sweep-all"
	cs.opNo = nOps + 1
	for _, u := range cs.uni {
		for _, qt := range u.types {
			cs.sweepOne(u.n, qt, false)
		}
	}
	// everything expires within the configured negative TTL (and 3 h at most)
	cs.op = "sweep-after-expiry"
	cs.opNo = nOps + 2
	cache.VerifC02Advance(cs.store, 4*time.Hour)
	cs.vnow += 4 * time.Hour
	for _, u := range cs.uni {
		cs.sweepOne(u.n, u.types[0], false)
	}
	cs.t.add("casesB", 1)
	return cs.t
}

func layerB(r *vlib.Run, nCases int) {
	col := &collector{viol: map[string]*found{}}
	// cases share process-global cache metrics only; run them on a few workers
	jobs := make(chan int, nCases)
	out := make(chan *tally, 8)
	workers := 6
	for w := 0; w < workers; w++ {
		go func() {
			for i := range jobs {
				out <- runCaseB(r, r.Seed, i, r.Quick())
			}
		}()
	}
	for i := 0; i < nCases; i++ {
		jobs <- i
	}
	close(jobs)
	var vb []violB
	for i := 0; i < nCases; i++ {
		t := <-out
		vb = append(vb, t.violB...)
		for k, v := range t.c {
			if k == "evals" {
				r.Eval(int(v))
				delete(t.c, k)
			}
		}
		t.viol = map[string]*found{}
		col.merge(r, t)
		r.Progress("layer B: %d/%d cases", i+1, nCases)
	}
	sort.Slice(vb, func(i, j int) bool {
		if vb[i].sig != vb[j].sig {
			return vb[i].sig < vb[j].sig
		}
		if vb[i].c.Index != vb[j].c.Index {
			return vb[i].c.Index < vb[j].c.Index
		}
		return vb[i].c.OpNo < vb[j].c.OpNo
	})
	for _, v := range vb {
		r.Violation(v.sig, v.what, v.c)
	}
}

func replayB(r *vlib.Run, c CaseB) {
	t := runCaseB(r, c.Seed, c.Index, c.Tier != "thorough")
	for k, v := range t.c {
		if k == "evals" {
			r.Eval(int(v))
		} else {
			r.Count(k, int(v))
		}
	}
	for _, v := range t.violB {
		r.Violation(v.sig, v.what, v.c)
	}
}

func requireB(r *vlib.Run) {
	r.Require("casesB", 10)
	r.Require("admissions/pipeline", 100)
	r.Require("admissions/cut", 20)
	r.Require("admissions/direct", 20)
	r.Require("synth_nxdomain", 200)
	r.Require("synth_nodata", 100)
	r.Require("synth/proof/plain", 100)
	r.Require("cut_hits/plain", 50)
	r.Require("refused_admissions/cd/forcemark", 10)
	r.Require("refused_admissions/ecs/forcemark", 10)
	r.Require("refused_admissions/ecsctx/forcemark", 10)
	r.Require("pipeline_queries/ecsctx/validated", 50)
	r.Require("refused_admissions/plain/unvalidated", 10)
	r.Require("lookups/cd", 1000)
	r.Require("lookups/ecs", 1000)
	r.Require("advances", 20)
	r.Require("zonesB/nsec", 5)
	r.Require("zonesB/nsec3", 5)
}
