package main

import "github.com/semihalev/sdns/zzverif/vlib"

type CaseB struct {
	Layer string `json:"layer"`
}

func layerB(r *vlib.Run, n int)     {}
func replayB(r *vlib.Run, c CaseB) {}
func requireB(r *vlib.Run)          {}
