// Domain-name model of the C02 monitor: names are label lists of raw
// octets; everything the oracle decides (ordering, ancestry, equality) is
// computed on the octets, independently of any sdns / miekg string routine.
package main

import (
	"bytes"
	"fmt"
	"math/rand/v2"
	"strings"

	"github.com/miekg/dns"
)

// Name is an absolute domain name. L holds the labels leftmost-first with the
// octets exactly as they appear on the wire (case preserved); P is the
// presentation form miekg/dns produces when it unpacks that wire name (the
// only presentation form sdns ever sees for a name taken off the wire); K is
// the canonical key: the wire form with ASCII letters lowered.
type Name struct {
	L [][]byte
	P string
	K string
}

func lowerByte(b byte) byte {
	if b >= 'A' && b <= 'Z' {
		return b + 32
	}
	return b
}

func mkName(labels [][]byte) Name {
	wire := make([]byte, 0, 64)
	key := make([]byte, 0, 64)
	for _, l := range labels {
		if len(l) == 0 || len(l) > 63 {
			panic(fmt.Sprintf("c02: bad label length %d", len(l)))
		}
		wire = append(wire, byte(len(l)))
		wire = append(wire, l...)
		key = append(key, byte(len(l)))
		for _, b := range l {
			key = append(key, lowerByte(b))
		}
	}
	wire = append(wire, 0)
	key = append(key, 0)
	if len(wire) > 255 {
		panic("c02: name too long")
	}
	p, _, err := dns.UnpackDomainName(wire, 0)
	if err != nil {
		panic("c02: unpack: " + err.Error())
	}
	cp := make([][]byte, len(labels))
	for i, l := range labels {
		cp[i] = append([]byte(nil), l...)
	}
	return Name{L: cp, P: p, K: string(key)}
}

// parseName turns a presentation name back into a Name (replay files).
func parseName(s string) (Name, error) {
	buf := make([]byte, 256)
	n, err := dns.PackDomainName(dns.Fqdn(s), buf, 0, nil, false)
	if err != nil {
		return Name{}, err
	}
	var labels [][]byte
	for off := 0; off < n; {
		l := int(buf[off])
		off++
		if l == 0 {
			break
		}
		labels = append(labels, append([]byte(nil), buf[off:off+l]...))
		off += l
	}
	return mkName(labels), nil
}

func mustName(s string) Name {
	n, err := parseName(s)
	if err != nil {
		panic("c02: parseName(" + s + "): " + err.Error())
	}
	return n
}

func (n Name) NumLabels() int { return len(n.L) }
func (n Name) IsRoot() bool   { return len(n.L) == 0 }

// Wire returns the canonical (lower-cased) wire form.
func (n Name) Wire() []byte { return []byte(n.K) }

func (n Name) Parent() Name {
	if len(n.L) == 0 {
		return n
	}
	return mkName(n.L[1:])
}

func (n Name) Child(label []byte) Name {
	ls := make([][]byte, 0, len(n.L)+1)
	ls = append(ls, label)
	ls = append(ls, n.L...)
	return mkName(ls)
}

// Suffix returns the name made of the last k labels.
func (n Name) Suffix(k int) Name {
	if k >= len(n.L) {
		return n
	}
	return mkName(n.L[len(n.L)-k:])
}

func labelEq(a, b []byte) bool {
	if len(a) != len(b) {
		return false
	}
	for i := range a {
		if lowerByte(a[i]) != lowerByte(b[i]) {
			return false
		}
	}
	return true
}

func labelCmp(a, b []byte) int {
	n := len(a)
	if len(b) < n {
		n = len(b)
	}
	for i := 0; i < n; i++ {
		x, y := lowerByte(a[i]), lowerByte(b[i])
		if x != y {
			if x < y {
				return -1
			}
			return 1
		}
	}
	switch {
	case len(a) < len(b):
		return -1
	case len(a) > len(b):
		return 1
	}
	return 0
}

func (n Name) Equal(o Name) bool { return n.K == o.K }

// IsSubOf reports n == a or n below a (label-wise, case-insensitively).
func (n Name) IsSubOf(a Name) bool {
	if len(n.L) < len(a.L) {
		return false
	}
	off := len(n.L) - len(a.L)
	for i := range a.L {
		if !labelEq(n.L[off+i], a.L[i]) {
			return false
		}
	}
	return true
}

func (n Name) IsStrictSubOf(a Name) bool { return len(n.L) > len(a.L) && n.IsSubOf(a) }

// canonCmp is RFC 4034 §6.1 canonical ordering: compare label by label from
// the rightmost, each label as a lower-cased octet string; a name that is a
// proper suffix of the other sorts first.
func canonCmp(a, b Name) int {
	i, j := len(a.L)-1, len(b.L)-1
	for i >= 0 && j >= 0 {
		if c := labelCmp(a.L[i], b.L[j]); c != 0 {
			return c
		}
		i--
		j--
	}
	switch {
	case len(a.L) < len(b.L):
		return -1
	case len(a.L) > len(b.L):
		return 1
	}
	return 0
}

// caseMix returns the same name with ASCII letters randomly re-cased.
func caseMix(n Name, rng *rand.Rand) Name {
	ls := make([][]byte, len(n.L))
	for i, l := range n.L {
		c := append([]byte(nil), l...)
		for k, b := range c {
			if (b >= 'a' && b <= 'z') || (b >= 'A' && b <= 'Z') {
				if rng.IntN(2) == 0 {
					c[k] = b ^ 0x20
				}
			}
		}
		ls[i] = c
	}
	return mkName(ls)
}

// shapeOf is the "name shape" class used for the evidence counters.
func shapeOf(n, apex Name) string {
	var f []string
	f = append(f, fmt.Sprintf("d%d", len(n.L)-len(apex.L)))
	esc, bin, up, star := false, false, false, false
	for _, l := range n.L[:max(0, len(n.L)-len(apex.L))] {
		if bytes.IndexByte(l, '.') >= 0 {
			esc = true
		}
		if len(l) == 1 && l[0] == '*' {
			star = true
		}
		for _, b := range l {
			if b < 0x21 || b > 0x7e {
				bin = true
			}
			if b >= 'A' && b <= 'Z' {
				up = true
			}
		}
	}
	if esc {
		f = append(f, "escdot")
	}
	if bin {
		f = append(f, "bin")
	}
	if up {
		f = append(f, "upper")
	}
	if star {
		f = append(f, "star")
	}
	return strings.Join(f, "+")
}
