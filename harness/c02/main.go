// C02 — denial of existence is accepted or synthesised only when actually
// proven. Layer A (layera.go): every exported NSEC/NSEC3 evaluator against a
// reference zone model over subsets of genuine denial chains. Layer B
// (layerb.go): admission to and synthesis from the RFC 8020 / RFC 8198
// negative caches. See FINDINGS.md for what fires on the pinned tree.
package main

import (
	"encoding/json"
	"os"
	"runtime/pprof"

	"github.com/semihalev/sdns/zzverif/vlib"
)

func main() {
	r := vlib.Start("C02", "exploration")
	r.Assume("records handed to the evaluators are genuine records of the generated zones: RRSIG validation (out of scope here) is what excludes forged or re-signed records")
	r.Assume("NSEC records of a delegated child zone are not mixed into the parent's NSEC set: they are indistinguishable by name and are excluded upstream by RRSIG signer binding (dnssec.usableSignatureCandidate)")
	r.Assume("SHA-1 collisions between distinct generated names do not occur")

	if raw := r.ReplayCase(); raw != nil {
		var probe struct {
			Layer string `json:"layer"`
		}
		_ = json.Unmarshal(raw, &probe)
		switch probe.Layer {
		case "A":
			var c CaseA
			if err := json.Unmarshal(raw, &c); err != nil {
				r.Fatalf("replay: %v", err)
			}
			replayA(r, c)
		case "B":
			var c CaseB
			if err := json.Unmarshal(raw, &c); err != nil {
				r.Fatalf("replay: %v", err)
			}
			replayB(r, c)
		default:
			r.Fatalf("replay: unknown layer %q", probe.Layer)
		}
		r.Finish("replay of one recorded case")
		return
	}

	if pf := os.Getenv("C02_PROF"); pf != "" {
		f, _ := os.Create(pf)
		_ = pprof.StartCPUProfile(f)
		defer pprof.StopCPUProfile()
	}
	selfTest(r)
	if os.Getenv("C02_SKIP_A") == "" {
		layerA(r, r.N(16, 240), r.N(100, 400), r.N(44, 100))
	}
	if os.Getenv("C02_SKIP_B") == "" {
		layerB(r, r.N(120, 1500))
	}

	for e := 0; e < nEntries; e++ {
		min := int64(50)
		if e == eDelegNSEC || e == eDelegN3 || e == eDelegN3Legacy || e == eWildN3Legacy {
			min = 10
		}
		if os.Getenv("C02_SKIP_A") == "" {
			r.Require("accept/"+entryName[e], min)
		}
	}
	if os.Getenv("C02_SKIP_A") == "" {
		r.Require("exhaustive_zones/nsec", 10)
		r.Require("exhaustive_zones/nsec3", 10)
		r.Require("accept/EvaluateAggressiveNSEC/rcode3", 20)
		r.Require("accept/EvaluateAggressiveNSEC/rcode0", 20)
		r.Require("accept/EvaluateAggressiveNSEC3/rcode3", 20)
		r.Require("accept/EvaluateAggressiveNSEC3/rcode0", 20)
		r.Require("accept_insecure/VerifyNameErrorForZoneWithWork", 5)
	}
	if os.Getenv("C02_SKIP_B") == "" {
		requireB(r)
	}
	pprof.StopCPUProfile()
	r.Finish("distinct = (entry point, model truth kind/data, rcode, secure flag, qname shape, |record set|) of ACCEPTED evaluator verdicts, plus (path, truth kind, request flavour) of cache syntheses; every accepted verdict / synthesis / admission decision is one evaluation")
}
