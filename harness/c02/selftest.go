// Sanity checks of the reference model against the RFC's own examples. A
// failure is a harness error (inconclusive), never a verdict.
package main

import (
	"encoding/hex"
	"sort"
	"strings"

	"github.com/miekg/dns"
	"github.com/semihalev/sdns/zzverif/vlib"
)

func selfTest(r *vlib.Run) {
	// RFC 4034 §6.1 example order
	want := []string{"example.", "a.example.", "yljkjljk.a.example.", "Z.a.example.", "zABC.a.EXAMPLE.", "z.example.", `\001.z.example.`, "*.z.example.", `\200.z.example.`}
	got := make([]Name, len(want))
	for i, s := range want {
		got[len(want)-1-i] = mustName(s)
	}
	sort.SliceStable(got, func(i, j int) bool { return canonCmp(got[i], got[j]) < 0 })
	for i := range want {
		if !got[i].Equal(mustName(want[i])) {
			r.Fatalf("selftest: canonical order position %d: got %s want %s", i, got[i].P, want[i])
		}
	}
	// RFC 5155 Appendix A: H(example) with salt aabbccdd, 12 iterations
	salt, _ := hex.DecodeString("aabbccdd")
	for name, h := range map[string]string{
		"example.":       "0p9mhaveqvm6t7vbl5lop2u3t2rp3tom",
		"a.example.":     "35mthgpgcu1qg68fab165klnsnk3dpvl",
		"*.w.example.":   "r53bq7cc2uvmubfu5ocmm6pers9tk9en",
		"x.y.w.example.": "2vptu5timamqttgl4luu9kg21e0aor3s",
	} {
		if g := strings.ToLower(b32.EncodeToString(nsec3Hash(mustName(name), salt, 12))); g != h {
			r.Fatalf("selftest: NSEC3 hash of %s = %s want %s", name, g, h)
		}
	}
	// agreement with the library hash on escaped / binary labels
	for _, s := range []string{`a\.b.Example.`, `\000.test.`, `\255\255.x.`, `A\ b.c.`, `*.E.`} {
		n := mustName(s)
		lib := dns.HashName(n.P, dns.SHA1, 3, "AB")
		own := b32.EncodeToString(nsec3Hash(n, []byte{0xab}, 3))
		if !strings.EqualFold(lib, own) {
			r.Fatalf("selftest: hash of %s: model %s library %s", s, own, lib)
		}
	}
	// ground truth on the RFC 4592 §2.2.1 example zone
	z := buildZone(ZoneSpec{Apex: "example.", TTL: 300, Salt: "", Salt2: "AB", Owners: []OwnerSpec{
		{Name: "example.", Types: []uint16{dns.TypeSOA, dns.TypeNS}},
		{Name: "*.example.", Types: []uint16{dns.TypeTXT, dns.TypeMX}},
		{Name: "sub.*.example.", Types: []uint16{dns.TypeTXT}},
		{Name: "host1.example.", Types: []uint16{dns.TypeA}},
		{Name: "_ssh._tcp.host1.example.", Types: []uint16{dns.TypeSRV}},
		{Name: "_ssh._tcp.host2.example.", Types: []uint16{dns.TypeSRV}},
		{Name: "subdel.example.", Types: []uint16{dns.TypeNS}, Deleg: true, ChildTypes: []uint16{dns.TypeNS, dns.TypeSOA}},
	}})
	type tc struct {
		q    string
		t    uint16
		kind Kind
		data Data
	}
	for _, c := range []tc{
		{"host3.example.", dns.TypeMX, KWild, DType},
		{"host3.example.", dns.TypeA, KWild, DNoData},
		{"foo.bar.example.", dns.TypeTXT, KWild, DType},
		{"host1.example.", dns.TypeMX, KExists, DNoData},
		{"sub.*.example.", dns.TypeMX, KExists, DNoData},
		{"_telnet._tcp.host1.example.", dns.TypeSRV, KNX, DNone},
		{"host.subdel.example.", dns.TypeA, KBelowDeleg, DNone},
		{"ghost.*.example.", dns.TypeMX, KNX, DNone},
		{"_tcp.host1.example.", dns.TypeA, KENT, DNoData},
		{"host2.example.", dns.TypeA, KENT, DNoData},
		{"subdel.example.", dns.TypeDS, KExists, DNoData},
		{"subdel.example.", dns.TypeSOA, KAtDeleg, DType},
	} {
		got := z.TruthOf(mustName(c.q), c.t)
		if got.Kind != c.kind || (c.data != DNone && got.Data != c.data) {
			r.Fatalf("selftest: truth(%s,%d) = %s/%s want %s/%s", c.q, c.t, got.Kind, got.Data, c.kind, c.data)
		}
	}
	if len(z.NSECChain()) != 7 || len(z.NSEC3Chain()) != 7+3 {
		r.Fatalf("selftest: chain sizes %d / %d", len(z.NSECChain()), len(z.NSEC3Chain()))
	}
	r.Count("selftest_ok", 1)
}
