// Zone / world generator. Everything is a function of the PRNG handed in.
package main

import (
	"math/rand/v2"
	"sort"

	"github.com/miekg/dns"
)

// World is a parent zone P with a secure delegation to a generated child C,
// plus a sibling S whose apex is a label-boundary near miss of P's apex.
type World struct {
	P, C, S *Zone
}

type WorldSpec struct {
	P ZoneSpec `json:"p"`
	C ZoneSpec `json:"c"`
	S ZoneSpec `json:"s"`
}

func buildWorld(ws WorldSpec) *World {
	return &World{P: buildZone(ws.P), C: buildZone(ws.C), S: buildZone(ws.S)}
}

// the bounded label alphabet: plain, mixed case, leading/trailing hyphen and
// underscore (sort around letters differently before/after case folding),
// digits, an escaped dot inside a label, NUL, 0xFF, a two-octet UTF-8
// sequence, a space.
var labelPool = [][]byte{
	[]byte("a"), []byte("b"), []byte("c"), []byte("ab"), []byte("a-b"), []byte("A"), []byte("B"),
	[]byte("z"), []byte("Z"), []byte("_x"), []byte("0"), []byte("1"), []byte("a.b"), []byte("b.c"),
	{0}, {'a', 0}, {0xff}, {0xc3, 0xa9}, []byte("a b"), []byte("-"), []byte("www"), []byte("Www"),
	[]byte("a0"), []byte("ba"), []byte("["), []byte("`"), []byte("{"), []byte("@"),
}

var apexPool = []string{"example.", "zone.test.", "Ex-Ample.Test.", `e\.x.test.`, "a.", "b.a.test.", "z.example.net.", `\000.test.`, "xn--p1ai.test."}

var dataTypes = []uint16{dns.TypeA, dns.TypeAAAA, dns.TypeMX, dns.TypeTXT}

func pickTypes(rng *rand.Rand) []uint16 {
	if rng.IntN(7) == 0 {
		return []uint16{dns.TypeCNAME}
	}
	var out []uint16
	for _, t := range dataTypes {
		if rng.IntN(3) == 0 {
			out = append(out, t)
		}
	}
	if len(out) == 0 {
		out = append(out, dataTypes[rng.IntN(len(dataTypes))])
	}
	return out
}

var salts = []string{"", "AB", "DEADBEEF", "00", "0123456789ABCDEF"}

type forcedDeleg struct {
	name Name
	ds   bool
	ct   []uint16
}

// genZoneSpec generates a zone below apex with about size extra owners.
func genZoneSpec(rng *rand.Rand, apex Name, size int, forced []forcedDeleg) ZoneSpec {
	spec := ZoneSpec{Apex: apex.P, TTL: 300}
	// per-zone sub-pool so that labels repeat at several depths
	pool := make([][]byte, 0, 8)
	for len(pool) < 4+rng.IntN(5) {
		pool = append(pool, labelPool[rng.IntN(len(labelPool))])
	}
	type gnode struct {
		n     Name
		spec  OwnerSpec
		cut   bool // delegation or DNAME: nothing below
		wild  bool
		fixed bool
	}
	nodes := map[string]*gnode{}
	add := func(g *gnode) { nodes[g.n.K] = g }
	apexTypes := []uint16{dns.TypeSOA, dns.TypeNS, dns.TypeDNSKEY}
	if rng.IntN(2) == 0 {
		apexTypes = append(apexTypes, dns.TypeA)
	}
	if rng.IntN(3) == 0 {
		apexTypes = append(apexTypes, dns.TypeMX)
	}
	add(&gnode{n: apex, spec: OwnerSpec{Name: apex.P, Types: apexTypes}, fixed: true})
	for _, f := range forced {
		ts := []uint16{dns.TypeNS}
		if f.ds {
			ts = append(ts, dns.TypeDS)
		}
		add(&gnode{n: f.name, spec: OwnerSpec{Name: f.name.P, Types: ts, Deleg: true, ChildTypes: f.ct}, cut: true, fixed: true})
	}
	underCut := func(n Name) bool {
		for _, g := range nodes {
			if g.cut && n.IsStrictSubOf(g.n) {
				return true
			}
		}
		return false
	}
	hasDesc := func(n Name) bool {
		for _, g := range nodes {
			if g.n.IsStrictSubOf(n) {
				return true
			}
		}
		return false
	}
	keys := func() []string {
		ks := make([]string, 0, len(nodes))
		for k := range nodes {
			ks = append(ks, k)
		}
		sort.Strings(ks)
		return ks
	}
	for tries := 0; len(nodes) < 1+len(forced)+size && tries < size*20+20; tries++ {
		ks := keys()
		parent := nodes[ks[rng.IntN(len(ks))]]
		if rng.IntN(3) == 0 {
			parent = nodes[apex.K]
		}
		if parent.cut {
			continue
		}
		n := parent.n
		depth := 1
		if rng.IntN(4) == 0 {
			depth = 2 // creates an empty non-terminal
		}
		if n.NumLabels()-apex.NumLabels()+depth > 4 {
			continue
		}
		kindDice := rng.IntN(20)
		for d := 0; d < depth; d++ {
			lab := pool[rng.IntN(len(pool))]
			if d == depth-1 && kindDice < 3 {
				lab = []byte{'*'}
			}
			n = n.Child(lab)
		}
		if nodes[n.K] != nil || underCut(n) || len(n.K) > 200 {
			continue
		}
		g := &gnode{n: n}
		switch {
		case kindDice < 3: // wildcard
			g.wild = true
			g.spec = OwnerSpec{Name: n.P, Types: pickTypes(rng)}
		case kindDice < 6: // delegation
			if hasDesc(n) {
				continue
			}
			ts := []uint16{dns.TypeNS}
			if rng.IntN(2) == 0 {
				ts = append(ts, dns.TypeDS)
			}
			ct := []uint16{dns.TypeNS, dns.TypeSOA}
			for _, t := range dataTypes {
				if rng.IntN(2) == 0 {
					ct = append(ct, t)
				}
			}
			g.cut = true
			g.spec = OwnerSpec{Name: n.P, Types: ts, Deleg: true, ChildTypes: ct}
		case kindDice < 8: // DNAME
			if hasDesc(n) {
				continue
			}
			tgt := apex.Child(pool[rng.IntN(len(pool))])
			if rng.IntN(3) == 0 {
				tgt = mustName("target.invalid.")
			}
			if tgt.IsSubOf(n) {
				continue
			}
			ts := []uint16{dns.TypeDNAME}
			if rng.IntN(3) == 0 {
				ts = append(ts, dns.TypeA)
			}
			g.cut = true
			g.spec = OwnerSpec{Name: n.P, Types: ts, DNAME: tgt.P}
		default:
			g.spec = OwnerSpec{Name: n.P, Types: pickTypes(rng)}
		}
		add(g)
	}
	// NSEC3 parameters
	spec.Salt = salts[rng.IntN(len(salts))]
	spec.Iter = []uint16{0, 0, 1, 5, 12}[rng.IntN(5)]
	for {
		spec.Salt2 = salts[rng.IntN(len(salts))]
		spec.Iter2 = []uint16{0, 1, 3}[rng.IntN(3)]
		if spec.Salt2 != spec.Salt || spec.Iter2 != spec.Iter {
			break
		}
	}
	spec.UpperHash = rng.IntN(2) == 0
	spec.OptOut = rng.IntN(3) == 0
	spec.FlagAll = rng.IntN(2) == 0
	spec.FlagSeed = rng.Uint64()
	for _, k := range keys() {
		g := nodes[k]
		if spec.OptOut && g.spec.Deleg && !hasType(g.spec.Types, dns.TypeDS) && rng.IntN(4) != 0 {
			g.spec.OptedOut = true
		}
		spec.Owners = append(spec.Owners, g.spec)
	}
	return spec
}

func hasType(ts []uint16, t uint16) bool {
	for _, x := range ts {
		if x == t {
			return true
		}
	}
	return false
}

// nearMissApex returns a sibling apex that is a label-boundary near miss of a.
func nearMissApex(rng *rand.Rand, a Name) Name {
	first := a.L[0]
	rest := a.L[1:]
	var lab []byte
	switch rng.IntN(5) {
	case 0: // x + label  ("xexample" ends with the text of "example")
		lab = append([]byte{'x'}, first...)
	case 1: // escaped dot: one label "q.<label>" — its text ends with ".<apex>"
		lab = append([]byte{'q', '.'}, first...)
	case 2: // label + "0"
		lab = append(append([]byte(nil), first...), '0')
	case 3: // drop first octet
		if len(first) > 1 {
			lab = append([]byte(nil), first[1:]...)
		} else {
			lab = append([]byte{'y'}, first...)
		}
	default:
		lab = []byte("sibling")
	}
	ls := append([][]byte{lab}, rest...)
	n := mkName(ls)
	if n.Equal(a) {
		return mkName(append([][]byte{[]byte("sibling")}, rest...))
	}
	return n
}

// genWorld: small==true keeps chains within the exhaustive bound most of the time.
func genWorld(rng *rand.Rand, small bool) WorldSpec {
	apexP := mustName(apexPool[rng.IntN(len(apexPool))])
	if rng.IntN(3) == 0 {
		apexP = caseMix(apexP, rng)
	}
	childLab := labelPool[rng.IntN(len(labelPool))]
	if rng.IntN(2) == 0 {
		childLab = []byte("sub")
	}
	apexC := apexP.Child(childLab)
	sz := func() int {
		if small {
			return 1 + rng.IntN(6)
		}
		return 9 + rng.IntN(18)
	}
	c := genZoneSpec(rng, apexC, sz(), nil)
	var ct []uint16
	for _, o := range c.Owners {
		if mustName(o.Name).Equal(apexC) {
			ct = o.Types
		}
	}
	p := genZoneSpec(rng, apexP, sz(), []forcedDeleg{{name: apexC, ds: true, ct: ct}})
	s := genZoneSpec(rng, nearMissApex(rng, apexP), 2+rng.IntN(4), nil)
	return WorldSpec{P: p, C: c, S: s}
}
