// Layer A — evaluator soundness. Every exported NSEC / NSEC3 evaluator of
// middleware/resolver/dnssec is called with subsets (all of them for short
// chains) of a generated zone's genuine denial chain, optionally polluted,
// for every name of the bounded universe; every ACCEPT is judged against the
// reference model. Rejections are never judged.
package main

import (
	"fmt"
	"math/rand/v2"
	"runtime"
	"sort"
	"strconv"
	"strings"
	"sync"
	"sync/atomic"

	"github.com/miekg/dns"
	"github.com/semihalev/sdns/internal/dnsutil"
	"github.com/semihalev/sdns/middleware/resolver/dnssec"
	"github.com/semihalev/sdns/zzverif/vlib"
)

const exhaustiveMax = 10

// entry points
const (
	eNameErrNSEC = iota
	eNodataNSEC
	eDelegNSEC
	eWildNSEC
	eAggNSEC
	eAggNSECPrepared
	eAggNSECSet
	eNameErrN3
	eNodataN3
	eDelegN3
	eWildN3
	eAggN3
	eNameErrN3Legacy
	eNodataN3Legacy
	eDelegN3Legacy
	eWildN3Legacy
	nEntries
)

// entryName labels the counters; sigFunc is the function a violation is
// attributed to (the signer-less wrappers share their ForZone implementation).
var entryName = [nEntries]string{
	"VerifyNameErrorNSEC", "VerifyNODATANSEC", "VerifyDelegationNSEC", "VerifyWildcardAnswerForZoneWithWork.NSEC",
	"EvaluateAggressiveNSEC", "EvaluateAggressiveNSECPrepared", "EvaluateAggressiveNSECSet",
	"VerifyNameErrorForZoneWithWork", "VerifyNODATAForZoneWithWork", "VerifyDelegationForZoneWithWork",
	"VerifyWildcardAnswerForZoneWithWork.NSEC3", "EvaluateAggressiveNSEC3",
	"VerifyNameError", "VerifyNODATA", "VerifyDelegation", "VerifyWildcardAnswer.NSEC3",
}

var sigFunc = [nEntries]string{
	"VerifyNameErrorNSEC", "VerifyNODATANSEC", "VerifyDelegationNSEC", "VerifyWildcardAnswer.NSEC",
	"EvaluateAggressiveNSEC", "EvaluateAggressiveNSECPrepared", "EvaluateAggressiveNSECSet",
	"VerifyNameErrorForZoneWithWork", "VerifyNODATAForZoneWithWork", "VerifyDelegationForZoneWithWork",
	"VerifyWildcardAnswer.NSEC3", "EvaluateAggressiveNSEC3",
	"VerifyNameErrorForZoneWithWork", "VerifyNODATAForZoneWithWork", "VerifyDelegationForZoneWithWork", "VerifyWildcardAnswer.NSEC3",
}

func entryIndex(name string) int {
	for i, n := range entryName {
		if n == name {
			return i
		}
	}
	return -1
}

func isNSEC3Entry(e int) bool { return e >= eNameErrN3 }

func family(e int) string {
	switch {
	case e == eAggNSEC || e == eAggNSECPrepared || e == eAggNSECSet:
		return "nsec-aggressive"
	case e == eAggN3:
		return "nsec3-aggressive"
	case isNSEC3Entry(e):
		return "nsec3-exact"
	}
	return "nsec-exact"
}

// CaseA is the serialisable replay case of one Layer A call.
type CaseA struct {
	Layer     string    `json:"layer"`
	World     WorldSpec `json:"world"`
	Primary   string    `json:"primary"`
	Entry     string    `json:"entry"`
	Signer    string    `json:"signer"`
	Records   []string  `json:"records"`
	Mix       string    `json:"mix,omitempty"`
	QName     string    `json:"qname"`
	QType     uint16    `json:"qtype"`
	DnameRR   string    `json:"dname_rr,omitempty"`
	EffName   string    `json:"eff_name"`
	WildLabel int       `json:"wild_labels,omitempty"`
	Verdict   string    `json:"verdict,omitempty"`
	Truth     string    `json:"truth,omitempty"`
	Where     string    `json:"where,omitempty"`
}

// qinfo caches what the model says about one universe name.
type qinfo struct {
	q         QName
	types     []uint16
	msgs      []*dns.Msg
	tA        Truth
	tQ        []Truth
	shape     string
	insecTerr bool // q.N is at/below an insecure delegation
	ncOpt     bool // the complete chain's cover of the next closer of Eff has Opt-Out
	wcOpt     bool // ... of the wildcard at the hashed closest encloser
	excuse    bool // an insecure (Opt-Out) denial of Eff is legitimate under RFC 5155 §6 / §12.2
	dlgExcuse bool // same for q.N as the subject of VerifyDelegation
}

func mkMsg(q QName, qtype uint16) *dns.Msg {
	m := new(dns.Msg)
	m.SetQuestion(q.N.P, qtype)
	m.Response = true
	if q.Dname != nil {
		m.Answer = []dns.RR{q.Dname}
	}
	return m
}

func mkQinfo(z *Zone, q QName, types []uint16) *qinfo {
	qi := &qinfo{q: q, types: types, shape: shapeOf(q.Eff, z.Apex)}
	qi.tA = z.TruthOf(q.Eff, dns.TypeA)
	for _, t := range types {
		qi.tQ = append(qi.tQ, z.TruthOf(q.Eff, t))
		qi.msgs = append(qi.msgs, mkMsg(q, t))
	}
	qi.insecTerr = z.InsecureTerritory(q.N)
	qi.excuse, qi.ncOpt, qi.wcOpt = z.optOutFacts(q.Eff)
	qi.dlgExcuse, _, _ = z.optOutFacts(q.N)
	return qi
}

// optOutFacts: for a name that is not part of the hashed chain, whether the
// complete chain's cover of its next closer name (and of the wildcard at the
// hashed closest encloser) carries Opt-Out. excuse additionally requires that
// the hashed closest encloser is not a zone cut: then "there may be an
// unsigned delegation here" cannot be refuted from the signed zone, which is
// the documented Opt-Out trade-off (RFC 5155 §12.2), and an INSECURE verdict
// resting on that span is legitimate.
func (z *Zone) optOutFacts(n Name) (excuse, ncOpt, wcOpt bool) {
	if !z.Spec.OptOut || !n.IsSubOf(z.Apex) {
		return
	}
	ce, next, exact := z.hashedCE(n)
	if exact {
		return
	}
	_, ncOpt = z.coverOptOut(next)
	w := ce.Child([]byte{'*'})
	if !z.hashed[w.K] {
		_, wcOpt = z.coverOptOut(w)
	}
	cut := false
	if nd := z.Nodes[ce.K]; nd != nil && (nd.Deleg || nd.DNAME != nil) {
		cut = true
	}
	excuse = ncOpt && !cut
	return
}

type wildCase struct {
	qi      int
	L       int
	rtype   uint16
	nc      Name
	ncT     Truth
	ncCovOO bool // complete chain's cover of nc has Opt-Out
	ncExc   bool
}

func mkWildCase(z *Zone, q Name, qi, L int, rtype uint16) wildCase {
	wc := wildCase{qi: qi, L: L, rtype: rtype, nc: q.Suffix(L + 1)}
	wc.ncT = z.TruthOf(wc.nc, dns.TypeA)
	if z.Spec.OptOut && !z.hashed[wc.nc.K] {
		_, wc.ncCovOO = z.coverOptOut(wc.nc)
		wc.ncExc = wc.ncCovOO
	}
	return wc
}

// callIn is everything one evaluator call needs.
type callIn struct {
	z       *Zone
	signer  string
	recs    []dns.RR // NSEC or NSEC3 records exactly as handed to the evaluator
	mix     string   // "", "zone", "class", "params": how the unfiltered set was polluted
	qi      *qinfo
	ti      int
	wc      *wildCase
	wildMsg *dns.Msg
	prep    []dnssec.PreparedNSEC
	set     *dnssec.AggressiveNSECSet
}

func (in *callIn) qtype() uint16 {
	if in.wc != nil {
		return in.wc.rtype
	}
	return in.qi.types[in.ti]
}

type callOut struct {
	accepted bool
	secure   bool
	rcode    int
	proof    []dns.RR
	panicked any
}

type nullWork struct{}

func (nullWork) BeginNSEC3Hash() (func(), error) { return nil, nil }

func doCall(e int, in *callIn) (out callOut) {
	defer func() {
		if p := recover(); p != nil {
			out = callOut{panicked: p}
		}
	}()
	var err error
	q := in.qi.q
	var msg *dns.Msg
	if in.wc == nil {
		msg = in.qi.msgs[in.ti]
	}
	question := func() dns.Question {
		return dns.Question{Name: q.Eff.P, Qtype: in.qtype(), Qclass: dns.ClassINET}
	}
	switch e {
	case eNameErrNSEC:
		err = dnssec.VerifyNameErrorNSEC(msg, in.recs)
		out.secure = true
	case eNodataNSEC:
		err = dnssec.VerifyNODATANSEC(msg, in.recs)
		out.secure = true
	case eDelegNSEC:
		err = dnssec.VerifyDelegationNSEC(q.N.P, in.recs)
	case eWildNSEC, eWildN3:
		out.secure, err = dnssec.VerifyWildcardAnswerForZoneWithWork(in.wildMsg, in.signer, nil)
	case eWildN3Legacy:
		err = dnssec.VerifyWildcardAnswer(in.wildMsg)
	case eAggNSEC:
		var r dnssec.AggressiveNegativeResult
		r, err = dnssec.EvaluateAggressiveNSEC(question(), in.signer, in.recs)
		out.rcode, out.proof = r.Rcode, r.Proof
	case eAggNSECPrepared:
		var r dnssec.AggressiveNegativeResult
		r, err = dnssec.EvaluateAggressiveNSECPrepared(question(), in.signer, in.prep)
		out.rcode, out.proof = r.Rcode, r.Proof
	case eAggNSECSet:
		var r dnssec.AggressiveNegativeResult
		r, err = dnssec.EvaluateAggressiveNSECSet(question(), in.set)
		out.rcode, out.proof = r.Rcode, r.Proof
	case eNameErrN3:
		out.secure, err = dnssec.VerifyNameErrorForZoneWithWork(msg, in.recs, in.signer, nullWork{})
	case eNodataN3:
		out.secure, err = dnssec.VerifyNODATAForZoneWithWork(msg, in.recs, in.signer, nullWork{})
	case eDelegN3:
		err = dnssec.VerifyDelegationForZoneWithWork(q.N.P, in.signer, in.recs, nil)
	case eAggN3:
		var r dnssec.AggressiveNegativeResult
		r, err = dnssec.EvaluateAggressiveNSEC3(question(), in.signer, in.recs, nil)
		out.rcode, out.proof = r.Rcode, r.Proof
	case eNameErrN3Legacy:
		err = dnssec.VerifyNameError(msg, in.recs)
	case eNodataN3Legacy:
		err = dnssec.VerifyNODATA(msg, in.recs)
	case eDelegN3Legacy:
		err = dnssec.VerifyDelegation(q.N.P, in.recs)
	}
	out.accepted = err == nil
	return out
}

// judge returns ("", "", "") when the accepted verdict is consistent with the
// model, else a violation signature and a sentence. tolerated != "" names an
// accepted verdict that is unsound in general but true in this model, or an
// insecure verdict excused by Opt-Out.
func judge(e int, in *callIn, out callOut) (sig, what, tolerated string) {
	z := in.z
	name := entryName[e]
	fam := family(e)
	bad := func(reason, format string, a ...any) (string, string, string) {
		return vlib.Sig(fam, sigFunc[e], reason), fmt.Sprintf(format, a...), ""
	}
	eff := in.qi.q.Eff
	if in.mix != "" && fam != "nsec-exact" {
		return bad("mixed-set-accepted-"+in.mix, "%s accepted a record set mixing %s (signer %s, qname %s)", name, in.mix, in.signer, eff.P)
	}
	n3 := isNSEC3Entry(e)
	legacy := e == eNameErrN3Legacy || e == eNodataN3Legacy || e == eWildN3Legacy
	// insecureOK: the verdict did not claim to be secure (or, for the signer-less
	// wrappers, does not say)
	insecureOK := legacy || (n3 && !out.secure && (e == eNameErrN3 || e == eNodataN3 || e == eWildN3))

	nameErr := func(t Truth) (string, string, string) {
		if t.Kind == KNX {
			return "", "", ""
		}
		if insecureOK && in.qi.excuse {
			return "", "", "optout-insecure-denial"
		}
		reason := map[Kind]string{KExists: "existing-name-denied", KENT: "empty-non-terminal-denied", KWild: "wildcard-covered-name-denied",
			KAtDeleg: "delegation-point-denied", KBelowDeleg: "name-below-delegation-denied", KBelowDNAME: "name-below-dname-denied", KOut: "out-of-zone"}[t.Kind]
		if fam == "nsec-exact" && (t.Kind == KBelowDeleg || t.Kind == KBelowDNAME) && hasOwner(in.recs, t.Cut.Name) {
			reason = "covering-owner-is-ancestor-cut"
		}
		return bad(reason, "%s accepted NXDOMAIN for %s but the model says %s (zone %s)", name, eff.P, t.Kind, z.Apex.P)
	}
	noData := func(t Truth) (string, string, string) {
		if t.NoData() {
			return "", "", ""
		}
		if insecureOK && in.qi.excuse {
			return "", "", "optout-insecure-denial"
		}
		qt := dns.TypeToString[in.qtype()]
		switch t.Kind {
		case KAtDeleg:
			if t.Data == DNoData {
				return "", "", "nodata-at-delegation-child-lacks-type"
			}
			return bad("nodata-at-delegation-type-in-child", "%s accepted NODATA for %s/%s from the parent-side denial record of a delegation; the child apex has that type (RFC 6840 §4.1)", name, eff.P, qt)
		case KExists, KWild:
			r := "type-present-denied"
			if t.Data == DCNAME {
				r = "cname-present-denied"
			}
			if t.Kind == KWild {
				r = "wildcard-" + r
			}
			return bad(r, "%s accepted NODATA for %s/%s but the model says %s/%s", name, eff.P, qt, t.Kind, t.Data)
		case KBelowDeleg, KBelowDNAME:
			r := "nodata-below-cut"
			if fam == "nsec-exact" && hasOwner(in.recs, t.Cut.Name) {
				r = "covering-owner-is-ancestor-cut"
			}
			return bad(r, "%s accepted NODATA for %s which lies %s %s", name, eff.P, t.Kind, t.Cut.Name.P)
		case KNX:
			return bad("nodata-for-nonexistent-name", "%s accepted NODATA for %s/%s but the name does not exist and no wildcard matches", name, eff.P, qt)
		}
		return bad("nodata-"+t.Kind.String(), "%s accepted NODATA for %s (%s)", name, eff.P, t.Kind)
	}

	switch e {
	case eNameErrNSEC:
		return nameErr(in.qi.tA)
	case eNodataNSEC:
		return noData(in.qi.tQ[in.ti])
	case eNameErrN3, eNameErrN3Legacy:
		if s, w, t := nameErr(in.qi.tA); s != "" || t != "" {
			return s, w, t
		}
		if e == eNameErrN3 && out.secure && in.qi.ncOpt {
			return bad("optout-span-secure", "%s returned secure=true for %s although the next-closer cover has Opt-Out set", name, eff.P)
		}
		return "", "", ""
	case eNodataN3, eNodataN3Legacy:
		t := in.qi.tQ[in.ti]
		if s, w, tol := noData(t); s != "" || tol != "" {
			return s, w, tol
		}
		if e == eNodataN3 && out.secure && t.Kind == KWild && in.qi.ncOpt {
			return bad("optout-span-secure", "%s returned secure=true for wildcard NODATA %s although the next-closer cover has Opt-Out set", name, eff.P)
		}
		return "", "", ""
	case eDelegNSEC, eDelegN3, eDelegN3Legacy:
		q := in.qi.q.N
		nd := z.Nodes[q.K]
		if (nd != nil && nd.Deleg && !nd.DS) || in.qi.insecTerr {
			return "", "", ""
		}
		if n3 && in.qi.dlgExcuse && !(nd != nil && nd.DS) {
			return "", "", "optout-insecure-delegation" // RFC 5155 §6: an unsigned delegation may hide in the span
		}
		reason := "not-a-delegation"
		if nd != nil && nd.DS {
			reason = "ds-exists"
		}
		return bad("insecure-delegation-"+reason, "%s accepted 'insecure delegation / no DS' for %s (%s)", name, q.P, reason)
	case eWildNSEC, eWildN3, eWildN3Legacy:
		wc := in.wc
		exists := wc.ncT.Kind != KNX && wc.ncT.Kind != KWild
		if exists {
			if insecureOK && wc.ncExc {
				return "", "", "optout-insecure-denial"
			}
			return bad("next-closer-exists-"+wc.ncT.Kind.String(), "%s accepted a wildcard expansion for %s (RRSIG labels %d) although next closer %s is %s", name, in.qi.q.N.P, wc.L, wc.nc.P, wc.ncT.Kind)
		}
		if e == eWildN3 && out.secure && wc.ncCovOO {
			return bad("optout-span-secure", "%s returned secure=true for %s although the cover of %s has Opt-Out set", name, in.qi.q.N.P, wc.nc.P)
		}
		return "", "", ""
	case eAggNSEC, eAggNSECPrepared, eAggNSECSet, eAggN3:
		for _, p := range out.proof {
			found := false
			for _, r := range in.recs {
				if r == p {
					found = true
					break
				}
			}
			if !found {
				return bad("proof-not-from-input", "%s returned a proof record that was not in its input", name)
			}
		}
		t := in.qi.tQ[in.ti]
		switch out.rcode {
		case dns.RcodeNameError:
			if s, w, tol := nameErr(t); s != "" || tol != "" {
				return s, w, tol
			}
			if e == eAggN3 && (in.qi.ncOpt || in.qi.wcOpt) {
				return bad("optout-span-synthesis", "%s synthesised NXDOMAIN for %s resting on an Opt-Out span", name, eff.P)
			}
		case dns.RcodeSuccess:
			if s, w, tol := noData(t); s != "" || tol != "" {
				return s, w, tol
			}
			if e == eAggN3 && t.Kind == KWild && in.qi.ncOpt {
				return bad("optout-span-synthesis", "%s synthesised wildcard NODATA for %s resting on an Opt-Out span", name, eff.P)
			}
		default:
			return bad("bad-rcode", "%s returned rcode %d", name, out.rcode)
		}
	}
	return "", "", ""
}

func hasOwner(recs []dns.RR, n Name) bool {
	for _, r := range recs {
		if o, err := parseName(r.Header().Name); err == nil && o.Equal(n) {
			return true
		}
	}
	return false
}

// ---------------------------------------------------------------- tallies

type found struct {
	key  string // deterministic order key of the case
	what string
	c    CaseA
}

type tally struct {
	calls, accept, reject [nEntries]int64
	c                     map[string]int64
	dist                  map[string]struct{}
	cls                   map[string]map[string]struct{}
	viol                  map[string]*found
	violB                 []violB
}

type violB struct {
	sig, what string
	c         CaseB
}

func newTally() *tally {
	return &tally{c: map[string]int64{}, dist: map[string]struct{}{}, cls: map[string]map[string]struct{}{}, viol: map[string]*found{}}
}
func (t *tally) add(k string, n int64) { t.c[k] += n }
func (t *tally) distinct(k string)     { t.dist[k] = struct{}{} }
func (t *tally) in(class, k string) {
	m := t.cls[class]
	if m == nil {
		m = map[string]struct{}{}
		t.cls[class] = m
	}
	m[k] = struct{}{}
}

// collector merges chunk tallies; violations are reported once all chunks are
// done, each signature with the case of the smallest order key, so the output
// does not depend on goroutine scheduling.
type collector struct {
	mu   sync.Mutex
	viol map[string]*found
}

func (c *collector) merge(r *vlib.Run, t *tally) {
	for e := 0; e < nEntries; e++ {
		if t.calls[e] != 0 {
			r.Count("calls/"+entryName[e], int(t.calls[e]))
			r.Count("accept/"+entryName[e], int(t.accept[e]))
			r.Count("reject/"+entryName[e], int(t.reject[e]))
			r.Eval(int(t.accept[e]))
		}
	}
	for k, v := range t.c {
		r.Count(k, int(v))
	}
	for k := range t.dist {
		r.Distinct(k)
	}
	for cl, m := range t.cls {
		for k := range m {
			r.DistinctIn(cl, k)
		}
	}
	c.mu.Lock()
	for sig, f := range t.viol {
		if old := c.viol[sig]; old == nil || f.key < old.key {
			c.viol[sig] = f
		}
	}
	c.mu.Unlock()
}

func (c *collector) report(r *vlib.Run) {
	sigs := make([]string, 0, len(c.viol))
	for s := range c.viol {
		sigs = append(sigs, s)
	}
	sort.Strings(sigs)
	for _, s := range sigs {
		f := c.viol[s]
		r.Violation(s, f.what, f.c)
	}
}

// ---------------------------------------------------------------- per-zone state (read-only once built)

type zoneRun struct {
	ws      WorldSpec
	w       *World
	wi      int
	primary string
	z       *Zone
	foreign []*Zone
	signer  string
	Q       []*qinfo
	wildQ   []wildCase
	// chains
	nsec   []dns.RR
	nOwner []Name
	nNext  []Name
	n3     []dns.RR
	n3b    []dns.RR
}

func newZoneRun(ws WorldSpec, w *World, wi int, primary string, rng *rand.Rand, ulimit int) *zoneRun {
	zr := &zoneRun{ws: ws, w: w, wi: wi, primary: primary}
	switch primary {
	case "P":
		zr.z, zr.foreign = w.P, []*Zone{w.S, w.C}
	case "C":
		zr.z, zr.foreign = w.C, []*Zone{w.P, w.S}
	default:
		zr.z, zr.foreign = w.S, []*Zone{w.P}
	}
	z := zr.z
	zr.signer = strings.ToLower(z.Apex.P)
	if rng.IntN(3) == 0 {
		zr.signer = z.Apex.P
	}
	for i, q := range universe(z, rng, ulimit) {
		zr.Q = append(zr.Q, mkQinfo(z, q, qtypesFor(z, q.Eff)))
		if q.Dname != nil {
			continue
		}
		// wildcard-answer cases: a genuine wildcard *.ce of the zone with q strictly below ce
		for _, nd := range z.nsecOwners {
			if len(nd.Name.L) == 0 || len(nd.Name.L[0]) != 1 || nd.Name.L[0][0] != '*' || nd.Name.Equal(z.Apex) {
				continue
			}
			ce := nd.Name.Parent()
			if !q.N.IsStrictSubOf(ce) || q.N.Equal(nd.Name) {
				continue
			}
			zr.wildQ = append(zr.wildQ, mkWildCase(z, q.N, i, ce.NumLabels(), sortedTypes(nd.Types)[0]))
		}
	}
	for _, r := range z.NSECChain() {
		zr.nsec = append(zr.nsec, r)
		zr.nOwner = append(zr.nOwner, mustName(r.Hdr.Name))
		zr.nNext = append(zr.nNext, mustName(r.NextDomain))
	}
	for _, r := range z.NSEC3Chain() {
		zr.n3 = append(zr.n3, r)
	}
	for _, r := range z.NSEC3Chain2() {
		zr.n3b = append(zr.n3b, r)
	}
	return zr
}

func wildMsg(q QName, wc *wildCase, ns []dns.RR) *dns.Msg {
	m := new(dns.Msg)
	m.SetQuestion(q.N.P, wc.rtype)
	m.Response = true
	m.Answer = []dns.RR{
		&dns.RFC3597{Hdr: dns.RR_Header{Name: q.N.P, Rrtype: wc.rtype, Class: dns.ClassINET, Ttl: 300}, Rdata: "00"},
		&dns.RRSIG{Hdr: dns.RR_Header{Name: q.N.P, Rrtype: dns.TypeRRSIG, Class: dns.ClassINET, Ttl: 300},
			TypeCovered: wc.rtype, Algorithm: dns.ECDSAP256SHA256, Labels: uint8(wc.L), OrigTtl: 300, SignerName: "invalid."},
	}
	m.Ns = ns
	return m
}

func (zr *zoneRun) nsecCovers(i int, q Name) bool {
	o, n := zr.nOwner[i], zr.nNext[i]
	on := canonCmp(o, n)
	qo, qn := canonCmp(q, o), canonCmp(q, n)
	switch {
	case on == 0:
		return qo != 0
	case on < 0:
		return qo > 0 && qn < 0
	}
	return qo > 0 || qn < 0
}

// proofIdx: indices of the chain records an honest server would use for q
// (matches and covers of q's ancestors and of the wildcards at them).
func (zr *zoneRun) proofIdx(nsec3 bool, q Name) []int {
	z := zr.z
	var idx []int
	for a := q; a.NumLabels() >= z.Apex.NumLabels(); a = a.Parent() {
		for _, n := range []Name{a, a.Child([]byte{'*'})} {
			if nsec3 {
				h := nsec3Hash(n, z.salt, z.Spec.Iter)
				for i := range z.chain3 {
					r := &z.chain3[i]
					if string(r.Hash) == string(h) || hashCovered(r.Hash, z.chain3[r.NextIdx].Hash, h) {
						idx = append(idx, i)
					}
				}
			} else {
				for i := range zr.nsec {
					if zr.nOwner[i].Equal(n) || zr.nsecCovers(i, n) {
						idx = append(idx, i)
					}
				}
			}
		}
		if a.IsRoot() {
			break
		}
	}
	sort.Ints(idx)
	return uniqInts(idx)
}

func (zr *zoneRun) masks(rng *rand.Rand, nsec3 bool, nRandom int) (masks [][]int, exhaustive bool) {
	n := len(zr.nsec)
	if nsec3 {
		n = len(zr.n3)
	}
	if n <= exhaustiveMax {
		for m := 1; m < 1<<n; m++ {
			var idx []int
			for i := 0; i < n; i++ {
				if m&(1<<i) != 0 {
					idx = append(idx, i)
				}
			}
			masks = append(masks, idx)
		}
		return masks, true
	}
	for k := 0; k < nRandom; k++ {
		var idx []int
		switch d := rng.IntN(20); {
		case d < 7: // small
			idx = append(idx, rng.Perm(n)[:1+rng.IntN(4)]...)
		case d < 10: // all but one
			skip := rng.IntN(n)
			for i := 0; i < n; i++ {
				if i != skip {
					idx = append(idx, i)
				}
			}
		case d < 11: // all
			for i := 0; i < n; i++ {
				idx = append(idx, i)
			}
		case d < 16: // what an honest proof for some universe name uses, minus / plus one
			idx = zr.proofIdx(nsec3, zr.Q[rng.IntN(len(zr.Q))].q.Eff)
			if len(idx) > 1 && rng.IntN(3) == 0 {
				drop := rng.IntN(len(idx))
				idx = append(idx[:drop:drop], idx[drop+1:]...)
			}
			if rng.IntN(2) == 0 {
				idx = append(idx, rng.IntN(n))
			}
		default: // random density
			p := 1 + rng.IntN(9)
			for i := 0; i < n; i++ {
				if rng.IntN(10) < p {
					idx = append(idx, i)
				}
			}
		}
		sort.Ints(idx)
		idx = uniqInts(idx)
		if len(idx) > 0 {
			masks = append(masks, idx)
		}
	}
	return masks, false
}

func uniqInts(s []int) []int {
	out := s[:0]
	for i, v := range s {
		if i == 0 || v != s[i-1] {
			out = append(out, v)
		}
	}
	return out
}

// ---------------------------------------------------------------- one chunk of subsets

type chunk struct {
	zr    *zoneRun
	nsec3 bool
	first int // index of the first mask (order key)
	masks [][]int
	rng   *rand.Rand
	t     *tally
	r     *vlib.Run
	seq   int
	// child-zone pollution of the current subset (aggressive evaluators only):
	// genuine NSEC records of a delegated CHILD of the zone under test. By name
	// they lie inside the parent, so no in-zone admission filter can tell them
	// apart; the exact verifiers never see them (RRSIG signer validation
	// upstream), the RFC 8198 evaluators must still never deny a parent name.
	childExtra map[dns.RR]struct{}
	childApex  Name
	childOn    bool
}

func (ck *chunk) caseOf(e int, in *callIn, out callOut, truth string) CaseA {
	zr := ck.zr
	c := CaseA{Layer: "A", World: zr.ws, Primary: zr.primary, Entry: entryName[e], Signer: in.signer, Mix: in.mix,
		QName: in.qi.q.N.P, QType: in.qtype(), EffName: in.qi.q.Eff.P, Truth: truth}
	if in.wc != nil {
		c.WildLabel = in.wc.L
	}
	for _, rr := range in.recs {
		c.Records = append(c.Records, rr.String())
	}
	if in.qi.q.Dname != nil {
		c.DnameRR = in.qi.q.Dname.String()
	}
	c.Verdict = fmt.Sprintf("accepted secure=%v rcode=%d", out.secure, out.rcode)
	return c
}

// sampledEntry[e] is set once an accepted verdict of entry point e was written to the evidence samples.
var sampledEntry [64]atomic.Bool

func (ck *chunk) observe(e int, in *callIn) {
	out := doCall(e, in)
	t := ck.t
	t.calls[e]++
	ck.seq++
	if out.panicked != nil {
		sig := vlib.Sig("panic", sigFunc[e])
		if t.viol[sig] == nil {
			t.viol[sig] = &found{key: ck.orderKey(), what: fmt.Sprintf("%s panicked: %v", entryName[e], out.panicked), c: ck.caseOf(e, in, out, "")}
		}
		return
	}
	if !out.accepted {
		t.reject[e]++
		return
	}
	t.accept[e]++
	name := entryName[e]
	var tr Truth
	if in.wc != nil {
		tr = in.wc.ncT
	} else {
		tr = in.qi.tQ[in.ti]
	}
	if e == eAggNSEC || e == eAggNSECPrepared || e == eAggNSECSet || e == eAggN3 {
		t.add("accept/"+name+"/rcode"+strconv.Itoa(out.rcode), 1)
	}
	if !out.secure && (e == eNameErrN3 || e == eNodataN3 || e == eWildN3) {
		t.add("accept_insecure/"+name, 1)
	}
	sec := "s"
	if !out.secure {
		sec = "i"
	}
	t.distinct(name + "|" + tr.Kind.String() + "|" + tr.Data.String() + "|" + strconv.Itoa(out.rcode) + sec + "|" + in.qi.shape + "|" + strconv.Itoa(len(in.recs)))
	t.in("name_shapes", in.qi.shape+"|"+tr.Kind.String())
	sig, what, tol := judge(e, in, out)
	if tol != "" {
		t.add("tolerated/"+name+"/"+tol, 1)
	}
	if sig == "" {
		// evidence: a few accepted-and-judged verdicts, written out (one per entry
		// point at most; the first six reach the evidence file)
		if sampledEntry[e].CompareAndSwap(false, true) {
			ck.r.Sample(ck.caseOf(e, in, out, tr.Kind.String()+"/"+tr.Data.String()))
		}
		return
	}
	t.add("contradicted/"+sig, 1)
	if t.viol[sig] == nil {
		c := ck.caseOf(e, in, out, tr.Kind.String()+"/"+tr.Data.String())
		c.Where = ck.orderKey()
		t.viol[sig] = &found{key: c.Where, what: what, c: c}
	}
}

func (ck *chunk) orderKey() string {
	fam := "nsec"
	if ck.nsec3 {
		fam = "nsec3"
	}
	return fmt.Sprintf("w%05d/%s/%s/m%07d/c%07d", ck.zr.wi, ck.zr.primary, fam, ck.first, ck.seq)
}

// pollute adds foreign / conflicting records to a subset. Returns the new set
// and the mix kind ("" when the addition is benign).
func (ck *chunk) pollute(set []dns.RR) ([]dns.RR, string) {
	rng, zr := ck.rng, ck.zr
	chain := zr.nsec
	kinds := []string{"zone", "zone", "class", "dup"}
	if ck.nsec3 {
		chain = zr.n3
		kinds = append(kinds, "params", "params", "unusable")
	}
	switch kinds[rng.IntN(len(kinds))] {
	case "zone":
		f := zr.foreign[rng.IntN(len(zr.foreign))]
		var src []dns.RR
		if ck.nsec3 {
			for _, r := range f.NSEC3Chain() {
				src = append(src, r)
			}
		} else {
			// a child's NSEC records are indistinguishable by name from the parent's
			// own and are excluded by RRSIG signer validation upstream of the
			// evaluators (dnssec.usableSignatureCandidate); see FINDINGS.md "Scope".
			if f.Apex.IsStrictSubOf(zr.z.Apex) {
				chain := f.NSECChain()
				if len(chain) == 0 {
					return set, ""
				}
				ck.childExtra, ck.childApex, ck.childOn = map[dns.RR]struct{}{}, f.Apex, true
				for k := 1 + rng.IntN(3); k > 0; k-- {
					idx := rng.IntN(len(chain))
					if rng.IntN(2) == 0 {
						idx = len(chain) - 1 // the child's wrap-around NSEC (last owner -> child apex)
					}
					rr := dns.RR(chain[idx])
					ck.childExtra[rr] = struct{}{}
					set = append(set, rr)
				}
				// benign by construction: judged against the parent's truth, not as
				// a "mixed set" (the evaluator cannot know the records are foreign)
				return set, ""
			}
			for _, r := range f.NSECChain() {
				src = append(src, r)
			}
		}
		if len(src) == 0 {
			return set, ""
		}
		for k := 1 + rng.IntN(3); k > 0; k-- {
			idx := rng.IntN(len(src))
			if !ck.nsec3 && rng.IntN(2) == 0 {
				idx = len(src) - 1 // the wrap-around NSEC "covers" a lot
			}
			set = append(set, src[idx])
		}
		return set, "zone"
	case "class":
		c := dns.Copy(chain[rng.IntN(len(chain))])
		c.Header().Class = dns.ClassCHAOS
		return append(set, c), "class"
	case "dup":
		return append(set, dns.Copy(set[rng.IntN(len(set))])), ""
	case "params":
		return append(set, zr.n3b[rng.IntN(len(zr.n3b))]), "params"
	case "unusable":
		c := dns.Copy(chain[rng.IntN(len(chain))]).(*dns.NSEC3)
		c.Iterations = 151
		return append(set, c), ""
	}
	return set, ""
}

func (ck *chunk) run() {
	fam := "nsec"
	if ck.nsec3 {
		fam = "nsec3"
	}
	ck.t.add("subsets/"+fam, int64(len(ck.masks)))
	for mi, idx := range ck.masks {
		chain := ck.zr.nsec
		if ck.nsec3 {
			chain = ck.zr.n3
		}
		set := make([]dns.RR, 0, len(idx)+3)
		for _, i := range idx {
			set = append(set, chain[i])
		}
		mix := ""
		ck.childExtra, ck.childOn = nil, false
		if ck.rng.IntN(10) < 3 {
			set, mix = ck.pollute(set)
			if ck.childOn {
				ck.t.add("polluted_subsets/"+fam+"/child-zone", 1)
			}
			if mix != "" {
				ck.t.add("polluted_subsets/"+fam+"/"+mix, 1)
			}
		}
		ck.rng.Shuffle(len(set), func(i, j int) { set[i], set[j] = set[j], set[i] })
		if ck.nsec3 {
			ck.subsetNSEC3(set, mix, (ck.first+mi)%4 == 0)
		} else {
			ck.subsetNSEC(set, mix)
		}
	}
}

func (ck *chunk) subsetNSEC(set []dns.RR, mix string) {
	zr := ck.zr
	// What resolver.authority hands the exact verifiers: the NSEC RRs of the
	// authority section filtered to the validated signer zone. CLASS is bound
	// by RRSIG validation upstream (an RRset of another class has no
	// verifiable signature), so class-polluted records never get this far.
	var exact []dns.RR
	for _, rr := range dnsutil.FilterRRsToZone(set, zr.signer) {
		if _, child := ck.childExtra[rr]; child {
			continue // signed by the child: RRSIG signer validation drops it upstream
		}
		if rr.Header().Class == dns.ClassINET {
			exact = append(exact, rr)
		}
	}
	var prep []dnssec.PreparedNSEC
	prepOK := true
	for _, rr := range set {
		p, err := dnssec.PrepareAggressiveNSEC(rr.(*dns.NSEC))
		if err != nil {
			prepOK = false
			break
		}
		prep = append(prep, p)
	}
	var aset *dnssec.AggressiveNSECSet
	if prepOK {
		aset, _ = dnssec.NewAggressiveNSECSet(prep, zr.signer)
	}
	in := callIn{z: zr.z, signer: zr.signer}
	for _, qi := range zr.Q {
		in.qi, in.ti = qi, 0
		in.mix, in.recs = "", exact
		if len(exact) > 0 {
			ck.observe(eNameErrNSEC, &in)
			if qi.q.Dname == nil {
				ck.observe(eDelegNSEC, &in)
			}
			for ti := range qi.types {
				in.ti = ti
				ck.observe(eNodataNSEC, &in)
			}
		}
		in.recs, in.mix = set, mix
		in.prep, in.set = prep, aset
		if ck.childOn && qi.q.Eff.IsSubOf(ck.childApex) {
			// at or below the child's apex the child's own records speak the truth
			// about the CHILD zone; the parent model has no opinion there
			continue
		}
		if ck.childOn {
			ck.t.add("child_polluted_aggressive_questions", 1)
		}
		for ti := range qi.types {
			in.ti = ti
			ck.observe(eAggNSEC, &in)
			if prepOK {
				ck.observe(eAggNSECPrepared, &in)
			}
			if aset != nil {
				ck.observe(eAggNSECSet, &in)
			}
		}
	}
	if len(exact) > 0 {
		in.mix, in.recs = "", exact
		for i := range zr.wildQ {
			wc := &zr.wildQ[i]
			in.qi, in.ti, in.wc = zr.Q[wc.qi], 0, wc
			in.wildMsg = wildMsg(in.qi.q, wc, exact)
			ck.observe(eWildNSEC, &in)
		}
	}
}

func (ck *chunk) subsetNSEC3(set []dns.RR, mix string, legacy bool) {
	zr := ck.zr
	in := callIn{z: zr.z, signer: zr.signer, recs: set, mix: mix}
	for _, qi := range zr.Q {
		in.qi, in.ti = qi, 0
		ck.observe(eNameErrN3, &in)
		if legacy {
			ck.observe(eNameErrN3Legacy, &in)
		}
		if qi.q.Dname == nil {
			ck.observe(eDelegN3, &in)
			if legacy {
				ck.observe(eDelegN3Legacy, &in)
			}
		}
		for ti := range qi.types {
			in.ti = ti
			ck.observe(eNodataN3, &in)
			ck.observe(eAggN3, &in)
			if legacy {
				ck.observe(eNodataN3Legacy, &in)
			}
		}
	}
	for i := range zr.wildQ {
		wc := &zr.wildQ[i]
		in.qi, in.ti, in.wc = zr.Q[wc.qi], 0, wc
		in.wildMsg = wildMsg(in.qi.q, wc, set)
		ck.observe(eWildN3, &in)
		if legacy {
			ck.observe(eWildN3Legacy, &in)
		}
	}
}

// layerA runs nWorlds generated worlds (P and C of each as the zone under
// test), split into chunks of subsets executed on all cores.
func layerA(r *vlib.Run, nWorlds, nRandom, ulimit int) {
	const chunkSize = 48
	col := &collector{viol: map[string]*found{}}
	jobs := make(chan *chunk, 64)
	var wg sync.WaitGroup
	for w := 0; w < runtime.GOMAXPROCS(0); w++ {
		wg.Add(1)
		go func() {
			defer wg.Done()
			for ck := range jobs {
				ck.run()
				col.merge(r, ck.t)
			}
		}()
	}
	for wi := 0; wi < nWorlds; wi++ {
		rng := r.RandN("layerA", wi)
		ws := genWorld(rng, wi%4 != 3)
		w := buildWorld(ws)
		for pi, primary := range []string{"P", "C"} {
			zr := newZoneRun(ws, w, wi, primary, rng, ulimit)
			t := newTally()
			t.add("zones", 1)
			for _, qi := range zr.Q {
				t.in("qname_shapes_tried", qi.shape+"|"+qi.tA.Kind.String())
				t.in("truth_kinds_tried", qi.tA.Kind.String())
			}
			for fi, nsec3 := range []bool{false, true} {
				fam := "nsec"
				if nsec3 {
					fam = "nsec3"
				}
				masks, exhaustive := zr.masks(rng, nsec3, nRandom)
				if exhaustive {
					t.add("exhaustive_zones/"+fam, 1)
				} else {
					t.add("sampled_zones/"+fam, 1)
				}
				for off := 0; off < len(masks); off += chunkSize {
					end := min(off+chunkSize, len(masks))
					jobs <- &chunk{zr: zr, nsec3: nsec3, first: off, masks: masks[off:end], r: r, t: newTally(),
						rng: r.RandN("layerA-chunk", ((wi*2+pi)*2+fi)<<20|off)}
				}
			}
			col.merge(r, t)
		}
		r.Progress("layer A: world %d/%d queued", wi+1, nWorlds)
	}
	close(jobs)
	wg.Wait()
	col.report(r)
}

// replayA re-executes one recorded Layer A case.
func replayA(r *vlib.Run, c CaseA) {
	w := buildWorld(c.World)
	z := map[string]*Zone{"P": w.P, "C": w.C, "S": w.S}[c.Primary]
	if z == nil {
		r.Fatalf("replay: bad primary %q", c.Primary)
	}
	e := entryIndex(c.Entry)
	if e < 0 {
		r.Fatalf("replay: unknown entry %q", c.Entry)
	}
	in := callIn{z: z, signer: c.Signer, mix: c.Mix}
	for _, s := range c.Records {
		rr, err := dns.NewRR(s)
		if err != nil || rr == nil {
			r.Fatalf("replay: record %q: %v", s, err)
		}
		in.recs = append(in.recs, rr)
	}
	q := QName{N: mustName(c.QName), Eff: mustName(c.EffName)}
	if c.DnameRR != "" {
		rr, err := dns.NewRR(c.DnameRR)
		if err != nil {
			r.Fatalf("replay: dname: %v", err)
		}
		q.Dname = rr.(*dns.DNAME)
	}
	in.qi = mkQinfo(z, q, []uint16{c.QType})
	if e == eWildNSEC || e == eWildN3 || e == eWildN3Legacy {
		wc := mkWildCase(z, q.N, 0, c.WildLabel, c.QType)
		in.wc = &wc
		in.wildMsg = wildMsg(q, in.wc, in.recs)
	}
	if e == eAggNSECPrepared || e == eAggNSECSet {
		for _, rr := range in.recs {
			p, err := dnssec.PrepareAggressiveNSEC(rr.(*dns.NSEC))
			if err != nil {
				r.Fatalf("replay: prepare: %v", err)
			}
			in.prep = append(in.prep, p)
		}
		in.set, _ = dnssec.NewAggressiveNSECSet(in.prep, in.signer)
	}
	out := doCall(e, &in)
	r.Eval(1)
	r.Count("replayed", 1)
	fmt.Printf("replay: %s(%s/%s) -> accepted=%v secure=%v rcode=%d panicked=%v; model: %s/%s\n", c.Entry, q.Eff.P, dns.TypeToString[c.QType],
		out.accepted, out.secure, out.rcode, out.panicked, in.qi.tQ[0].Kind, in.qi.tQ[0].Data)
	if out.panicked != nil {
		r.Violation(vlib.Sig("panic", sigFunc[e]), fmt.Sprint(out.panicked), c)
		return
	}
	if !out.accepted {
		return
	}
	if sig, what, _ := judge(e, &in, out); sig != "" {
		r.Violation(sig, what, c)
	}
}
