// Layer A — evaluator soundness. Every exported NSEC / NSEC3 evaluator of
// middleware/resolver/dnssec is called with subsets (all of them for short
// chains) of a generated zone's genuine denial chain, optionally polluted,
// for every name of the bounded universe; every ACCEPT is judged against the
// reference model. Rejections are never judged.
package main

import (
	"fmt"
	"math/rand/v2"
	"sort"
	"strings"
	"sync"

	"github.com/miekg/dns"
	"github.com/semihalev/sdns/internal/dnsutil"
	"github.com/semihalev/sdns/middleware/resolver/dnssec"
	"github.com/semihalev/sdns/zzverif/vlib"
)

const exhaustiveMax = 10

// entry points
const (
	eNameErrNSEC = iota
	eNodataNSEC
	eDelegNSEC
	eWildNSEC
	eAggNSEC
	eAggNSECPrepared
	eAggNSECSet
	eNameErrN3
	eNodataN3
	eDelegN3
	eWildN3
	eAggN3
	eNameErrN3Legacy
	eNodataN3Legacy
	eDelegN3Legacy
	eWildN3Legacy
	nEntries
)

var entryName = [nEntries]string{
	"VerifyNameErrorNSEC", "VerifyNODATANSEC", "VerifyDelegationNSEC", "VerifyWildcardAnswerForZoneWithWork.NSEC",
	"EvaluateAggressiveNSEC", "EvaluateAggressiveNSECPrepared", "EvaluateAggressiveNSECSet",
	"VerifyNameErrorForZoneWithWork", "VerifyNODATAForZoneWithWork", "VerifyDelegationForZoneWithWork",
	"VerifyWildcardAnswerForZoneWithWork.NSEC3", "EvaluateAggressiveNSEC3",
	"VerifyNameError", "VerifyNODATA", "VerifyDelegation", "VerifyWildcardAnswer.NSEC3",
}

func entryIndex(name string) int {
	for i, n := range entryName {
		if n == name {
			return i
		}
	}
	return -1
}

func isNSEC3Entry(e int) bool { return e >= eNameErrN3 }

// CaseA is the serialisable replay case of one Layer A call.
type CaseA struct {
	Layer     string    `json:"layer"`
	World     WorldSpec `json:"world"`
	Primary   string    `json:"primary"`
	Entry     string    `json:"entry"`
	Signer    string    `json:"signer"`
	Records   []string  `json:"records"`
	Mix       string    `json:"mix,omitempty"`
	QName     string    `json:"qname"`
	QType     uint16    `json:"qtype"`
	DnameRR   string    `json:"dname_rr,omitempty"`
	EffName   string    `json:"eff_name"`
	WildLabel int       `json:"wild_labels,omitempty"`
	Verdict   string    `json:"verdict,omitempty"`
	Truth     string    `json:"truth,omitempty"`
}

// callIn is everything one evaluator call needs.
type callIn struct {
	z       *Zone
	signer  string
	recs    []dns.RR // NSEC or NSEC3 records exactly as handed to the evaluator
	mix     string   // "", "zone", "class", "params": how the unfiltered set was polluted
	q       QName
	qtype   uint16
	msg     *dns.Msg
	wildL   int // RRSIG Labels of the wildcard-answer case
	wildMsg *dns.Msg
	prep    []dnssec.PreparedNSEC
	set     *dnssec.AggressiveNSECSet
}

type callOut struct {
	accepted bool
	secure   bool
	rcode    int
	proof    []dns.RR
	panicked any
}

type nullWork struct{}

func (nullWork) BeginNSEC3Hash() (func(), error) { return nil, nil }

func doCall(e int, in *callIn) (out callOut) {
	defer func() {
		if p := recover(); p != nil {
			out = callOut{panicked: p}
		}
	}()
	var err error
	switch e {
	case eNameErrNSEC:
		err = dnssec.VerifyNameErrorNSEC(in.msg, in.recs)
		out.secure = true
	case eNodataNSEC:
		err = dnssec.VerifyNODATANSEC(in.msg, in.recs)
		out.secure = true
	case eDelegNSEC:
		err = dnssec.VerifyDelegationNSEC(in.q.N.P, in.recs)
	case eWildNSEC, eWildN3:
		out.secure, err = dnssec.VerifyWildcardAnswerForZoneWithWork(in.wildMsg, in.signer, nil)
	case eWildN3Legacy:
		err = dnssec.VerifyWildcardAnswer(in.wildMsg)
		out.secure = false
	case eAggNSEC:
		var r dnssec.AggressiveNegativeResult
		r, err = dnssec.EvaluateAggressiveNSEC(dns.Question{Name: in.q.Eff.P, Qtype: in.qtype, Qclass: dns.ClassINET}, in.signer, in.recs)
		out.rcode, out.proof = r.Rcode, r.Proof
	case eAggNSECPrepared:
		var r dnssec.AggressiveNegativeResult
		r, err = dnssec.EvaluateAggressiveNSECPrepared(dns.Question{Name: in.q.Eff.P, Qtype: in.qtype, Qclass: dns.ClassINET}, in.signer, in.prep)
		out.rcode, out.proof = r.Rcode, r.Proof
	case eAggNSECSet:
		var r dnssec.AggressiveNegativeResult
		r, err = dnssec.EvaluateAggressiveNSECSet(dns.Question{Name: in.q.Eff.P, Qtype: in.qtype, Qclass: dns.ClassINET}, in.set)
		out.rcode, out.proof = r.Rcode, r.Proof
	case eNameErrN3:
		out.secure, err = dnssec.VerifyNameErrorForZoneWithWork(in.msg, in.recs, in.signer, nullWork{})
	case eNodataN3:
		out.secure, err = dnssec.VerifyNODATAForZoneWithWork(in.msg, in.recs, in.signer, nullWork{})
	case eDelegN3:
		err = dnssec.VerifyDelegationForZoneWithWork(in.q.N.P, in.signer, in.recs, nil)
	case eAggN3:
		var r dnssec.AggressiveNegativeResult
		r, err = dnssec.EvaluateAggressiveNSEC3(dns.Question{Name: in.q.Eff.P, Qtype: in.qtype, Qclass: dns.ClassINET}, in.signer, in.recs, nil)
		out.rcode, out.proof = r.Rcode, r.Proof
	case eNameErrN3Legacy:
		err = dnssec.VerifyNameError(in.msg, in.recs)
	case eNodataN3Legacy:
		err = dnssec.VerifyNODATA(in.msg, in.recs)
	case eDelegN3Legacy:
		err = dnssec.VerifyDelegation(in.q.N.P, in.recs)
	}
	out.accepted = err == nil
	return out
}

// judge returns ("", "") when the accepted verdict is consistent with the
// model, else a violation signature and a sentence. tolerated != "" names an
// accepted verdict that is unsound in general but true in this model.
func judge(e int, in *callIn, out callOut) (sig, what, tolerated string) {
	z := in.z
	name := entryName[e]
	fam := "nsec-exact"
	switch {
	case e == eAggNSEC || e == eAggNSECPrepared || e == eAggNSECSet:
		fam = "nsec-aggressive"
	case e == eAggN3:
		fam = "nsec3-aggressive"
	case isNSEC3Entry(e):
		fam = "nsec3-exact"
	}
	bad := func(reason, format string, a ...any) (string, string, string) {
		return vlib.Sig(fam, name, reason), fmt.Sprintf(format, a...), ""
	}
	if in.mix != "" && (fam != "nsec-exact") {
		return bad("mixed-set-accepted-"+in.mix, "%s accepted a record set mixing %s (signer %s, qname %s)", name, in.mix, in.signer, in.q.Eff.P)
	}
	eff := in.q.Eff
	n3 := isNSEC3Entry(e)
	insecure := n3 && !out.secure && (e == eNameErrN3 || e == eNodataN3 || e == eWildN3)
	legacy := e == eNameErrN3Legacy || e == eNodataN3Legacy || e == eWildN3Legacy

	nameErr := func(t Truth) (string, string, string) {
		if t.Kind == KNX {
			return "", "", ""
		}
		if (insecure || legacy) && z.hiddenByOptOut(eff) {
			return "", "", "" // RFC 5155 §6: an Opt-Out proof may deny an unsigned delegation
		}
		reason := map[Kind]string{KExists: "existing-name-denied", KENT: "empty-non-terminal-denied", KWild: "wildcard-covered-name-denied",
			KAtDeleg: "delegation-point-denied", KBelowDeleg: "name-below-delegation-denied", KBelowDNAME: "name-below-dname-denied", KOut: "out-of-zone"}[t.Kind]
		if fam == "nsec-exact" && (t.Kind == KBelowDeleg || t.Kind == KBelowDNAME) && hasOwner(in.recs, t.Cut.Name) {
			reason = "covering-owner-is-ancestor-cut"
		}
		return bad(reason, "%s accepted NXDOMAIN for %s but the model says %s (zone %s)", name, eff.P, t.Kind, z.Apex.P)
	}
	noData := func(t Truth) (string, string, string) {
		if t.NoData() {
			return "", "", ""
		}
		if (insecure || legacy) && (z.hiddenByOptOut(eff) || t.Kind == KNX) {
			return "", "", ""
		}
		switch t.Kind {
		case KAtDeleg:
			if t.Data == DNoData {
				return "", "", "nodata-at-delegation-child-lacks-type"
			}
			return bad("nodata-at-delegation-type-in-child", "%s accepted NODATA for %s/%s from the parent-side denial record of a delegation; the child apex has that type (RFC 6840 §4.1)", name, eff.P, dns.TypeToString[in.qtype])
		case KExists, KWild:
			r := "type-present-denied"
			if t.Data == DCNAME {
				r = "cname-present-denied"
			}
			if t.Kind == KWild {
				r = "wildcard-" + r
			}
			return bad(r, "%s accepted NODATA for %s/%s but the model says %s/%s", name, eff.P, dns.TypeToString[in.qtype], t.Kind, t.Data)
		case KBelowDeleg, KBelowDNAME:
			r := "nodata-below-cut"
			if fam == "nsec-exact" && hasOwner(in.recs, t.Cut.Name) {
				r = "covering-owner-is-ancestor-cut"
			}
			return bad(r, "%s accepted NODATA for %s which lies %s %s", name, eff.P, t.Kind, t.Cut.Name.P)
		case KNX:
			return bad("nodata-for-nonexistent-name", "%s accepted NODATA for %s/%s but the name does not exist and no wildcard matches", name, eff.P, dns.TypeToString[in.qtype])
		}
		return bad("nodata-"+t.Kind.String(), "%s accepted NODATA for %s (%s)", name, eff.P, t.Kind)
	}
	optReliance := func(wild bool) (nc, wc bool) {
		if !z.Spec.OptOut {
			return
		}
		ce, next, exact := z.hashedCE(eff)
		if exact {
			return
		}
		_, nc = z.coverOptOut(next)
		if wild {
			w := ce.Child([]byte{'*'})
			if !z.hashed[w.K] {
				_, wc = z.coverOptOut(w)
			}
		}
		return
	}

	switch e {
	case eNameErrNSEC:
		return nameErr(z.TruthOf(eff, dns.TypeA))
	case eNodataNSEC:
		return noData(z.TruthOf(eff, in.qtype))
	case eNameErrN3, eNameErrN3Legacy:
		if s, w, t := nameErr(z.TruthOf(eff, dns.TypeA)); s != "" {
			return s, w, t
		}
		if e == eNameErrN3 && out.secure {
			if nc, _ := optReliance(false); nc {
				return bad("optout-span-secure", "%s returned secure=true for %s although the next-closer cover has Opt-Out set", name, eff.P)
			}
		}
		return "", "", ""
	case eNodataN3, eNodataN3Legacy:
		t := z.TruthOf(eff, in.qtype)
		if s, w, tol := noData(t); s != "" || tol != "" {
			return s, w, tol
		}
		if e == eNodataN3 && out.secure && t.Kind == KWild {
			if nc, _ := optReliance(false); nc {
				return bad("optout-span-secure", "%s returned secure=true for wildcard NODATA %s although the next-closer cover has Opt-Out set", name, eff.P)
			}
		}
		return "", "", ""
	case eDelegNSEC, eDelegN3, eDelegN3Legacy:
		q := in.q.N
		nd := z.Nodes[q.K]
		if nd != nil && nd.Deleg && !nd.DS {
			return "", "", ""
		}
		if z.InsecureTerritory(q) {
			return "", "", ""
		}
		if n3 && z.Spec.OptOut && !(nd != nil && nd.DS) {
			if _, next, exact := z.hashedCE(q); !exact {
				if cov, oo := z.coverOptOut(next); cov && oo {
					return "", "", "" // RFC 5155 §6 / §8.9 opt-out: unsigned delegation possible here
				}
			}
		}
		reason := "not-a-delegation"
		if nd != nil && nd.DS {
			reason = "ds-exists"
		}
		return bad("insecure-delegation-"+reason, "%s accepted 'insecure delegation / no DS' for %s (%s)", name, q.P, reason)
	case eWildNSEC, eWildN3, eWildN3Legacy:
		nc := in.q.N.Suffix(in.wildL + 1)
		t := z.TruthOf(nc, dns.TypeA)
		exists := t.Kind != KNX && t.Kind != KWild
		if exists && !((insecure || legacy) && z.hiddenByOptOut(nc)) {
			return bad("next-closer-exists-"+t.Kind.String(), "%s accepted a wildcard expansion for %s (RRSIG labels %d) although next closer %s is %s", name, in.q.N.P, in.wildL, nc.P, t.Kind)
		}
		if e == eWildN3 && out.secure && z.Spec.OptOut {
			if cov, oo := z.coverOptOut(nc); cov && oo {
				return bad("optout-span-secure", "%s returned secure=true for %s although the cover of %s has Opt-Out set", name, in.q.N.P, nc.P)
			}
		}
		return "", "", ""
	case eAggNSEC, eAggNSECPrepared, eAggNSECSet, eAggN3:
		for _, p := range out.proof {
			found := false
			for _, r := range in.recs {
				if r == p {
					found = true
				}
			}
			if !found {
				return bad("proof-not-from-input", "%s returned a proof record that was not in its input", name)
			}
		}
		t := z.TruthOf(eff, in.qtype)
		switch out.rcode {
		case dns.RcodeNameError:
			if s, w, tol := nameErr(t); s != "" {
				return s, w, tol
			}
			if e == eAggN3 {
				if nc, wc := optReliance(true); nc || wc {
					return bad("optout-span-synthesis", "%s synthesised NXDOMAIN for %s resting on an Opt-Out span", name, eff.P)
				}
			}
		case dns.RcodeSuccess:
			if s, w, tol := noData(t); s != "" || tol != "" {
				return s, w, tol
			}
			if e == eAggN3 && t.Kind == KWild {
				if nc, _ := optReliance(false); nc {
					return bad("optout-span-synthesis", "%s synthesised wildcard NODATA for %s resting on an Opt-Out span", name, eff.P)
				}
			}
		default:
			return bad("bad-rcode", "%s returned rcode %d", name, out.rcode)
		}
	}
	return "", "", ""
}

func hasOwner(recs []dns.RR, n Name) bool {
	for _, r := range recs {
		if o, err := parseName(r.Header().Name); err == nil && o.Equal(n) {
			return true
		}
	}
	return false
}

// ---------------------------------------------------------------- driver

type tally struct {
	c    map[string]int64
	dist map[string]struct{}
	cls  map[string]map[string]struct{}
}

func newTally() *tally {
	return &tally{c: map[string]int64{}, dist: map[string]struct{}{}, cls: map[string]map[string]struct{}{}}
}
func (t *tally) add(k string, n int64) { t.c[k] += n }
func (t *tally) distinct(k string)     { t.dist[k] = struct{}{} }
func (t *tally) in(class, k string) {
	m := t.cls[class]
	if m == nil {
		m = map[string]struct{}{}
		t.cls[class] = m
	}
	m[k] = struct{}{}
}
func (t *tally) flush(r *vlib.Run) {
	for k, v := range t.c {
		if k == "evals" {
			r.Eval(int(v))
		} else {
			r.Count(k, int(v))
		}
	}
	for k := range t.dist {
		r.Distinct(k)
	}
	for c, m := range t.cls {
		for k := range m {
			r.DistinctIn(c, k)
		}
	}
}

var sigSeen sync.Map

type zoneRun struct {
	r       *vlib.Run
	ws      WorldSpec
	w       *World
	primary string
	z       *Zone
	foreign []*Zone
	rng     *rand.Rand
	t       *tally
	signer  string
	U       []QName
	uTypes  [][]uint16
	uMsgs   [][]*dns.Msg
	uShape  []string
	wildQ   []wildCase
}

type wildCase struct {
	qi    int
	L     int
	rtype uint16
}

func (zr *zoneRun) caseOf(e int, in *callIn, out callOut, truth string) CaseA {
	c := CaseA{Layer: "A", World: zr.ws, Primary: zr.primary, Entry: entryName[e], Signer: in.signer, Mix: in.mix,
		QName: in.q.N.P, QType: in.qtype, EffName: in.q.Eff.P, WildLabel: in.wildL, Truth: truth}
	for _, rr := range in.recs {
		c.Records = append(c.Records, rr.String())
	}
	if in.q.Dname != nil {
		c.DnameRR = in.q.Dname.String()
	}
	c.Verdict = fmt.Sprintf("accepted secure=%v rcode=%d", out.secure, out.rcode)
	return c
}

func (zr *zoneRun) observe(e int, in *callIn) {
	out := doCall(e, in)
	name := entryName[e]
	zr.t.add("calls/"+name, 1)
	if out.panicked != nil {
		sig := vlib.Sig("panic", name)
		zr.r.Violation(sig, fmt.Sprintf("%s panicked: %v", name, out.panicked), zr.caseOf(e, in, out, ""))
		return
	}
	if !out.accepted {
		zr.t.add("reject/"+name, 1)
		return
	}
	zr.t.add("accept/"+name, 1)
	zr.t.add("evals", 1)
	t := zr.z.TruthOf(in.q.Eff, in.qtype)
	if e == eAggNSEC || e == eAggNSECPrepared || e == eAggNSECSet || e == eAggN3 {
		zr.t.add(fmt.Sprintf("accept/%s/rcode%d", name, out.rcode), 1)
	}
	if isNSEC3Entry(e) && !out.secure && (e == eNameErrN3 || e == eNodataN3 || e == eWildN3) {
		zr.t.add("accept_insecure/"+name, 1)
	}
	zr.t.distinct(fmt.Sprintf("%s|%s|%s|r%d|s%v|%s|n%d", name, t.Kind, t.Data, out.rcode, out.secure, shapeOf(in.q.Eff, zr.z.Apex), len(in.recs)))
	zr.t.in("name_shapes", shapeOf(in.q.Eff, zr.z.Apex)+"|"+t.Kind.String())
	sig, what, tol := judge(e, in, out)
	if tol != "" {
		zr.t.add("tolerated/"+name+"/"+tol, 1)
	}
	if sig == "" {
		return
	}
	zr.t.add("contradicted/"+sig, 1)
	var c any
	if _, dup := sigSeen.LoadOrStore(sig, true); !dup {
		c = zr.caseOf(e, in, out, fmt.Sprintf("%s/%s", t.Kind, t.Data))
	}
	zr.r.Violation(sig, what, c)
}

func mkMsg(q QName, qtype uint16) *dns.Msg {
	m := new(dns.Msg)
	m.SetQuestion(q.N.P, qtype)
	m.Response = true
	if q.Dname != nil {
		m.Answer = []dns.RR{q.Dname}
	}
	return m
}

func newZoneRun(r *vlib.Run, ws WorldSpec, w *World, primary string, rng *rand.Rand, ulimit int) *zoneRun {
	zr := &zoneRun{r: r, ws: ws, w: w, primary: primary, rng: rng, t: newTally()}
	switch primary {
	case "P":
		zr.z, zr.foreign = w.P, []*Zone{w.S, w.C}
	case "C":
		zr.z, zr.foreign = w.C, []*Zone{w.P, w.S}
	default:
		zr.z, zr.foreign = w.S, []*Zone{w.P}
	}
	zr.signer = strings.ToLower(zr.z.Apex.P)
	if rng.IntN(3) == 0 {
		zr.signer = zr.z.Apex.P
	}
	zr.U = universe(zr.z, rng, ulimit)
	for i, q := range zr.U {
		ts := qtypesFor(zr.z, q.Eff)
		zr.uTypes = append(zr.uTypes, ts)
		var ms []*dns.Msg
		for _, t := range ts {
			ms = append(ms, mkMsg(q, t))
		}
		zr.uMsgs = append(zr.uMsgs, ms)
		zr.uShape = append(zr.uShape, shapeOf(q.Eff, zr.z.Apex))
		zr.t.in("qname_shapes_tried", zr.uShape[i]+"|"+zr.z.TruthOf(q.Eff, dns.TypeA).Kind.String())
		if q.Dname != nil {
			continue
		}
		// wildcard-answer cases: a genuine wildcard *.ce of the zone with q strictly below ce
		for _, nd := range zr.z.nsecOwners {
			if len(nd.Name.L) == 0 || len(nd.Name.L[0]) != 1 || nd.Name.L[0][0] != '*' || nd.Name.Equal(zr.z.Apex) {
				continue
			}
			ce := nd.Name.Parent()
			if !q.N.IsStrictSubOf(ce) || q.N.Equal(nd.Name) {
				continue
			}
			var rt uint16
			for _, t := range sortedTypes(nd.Types) {
				rt = t
				break
			}
			zr.wildQ = append(zr.wildQ, wildCase{qi: i, L: ce.NumLabels(), rtype: rt})
		}
	}
	return zr
}

func wildMsg(q QName, wc wildCase, ns []dns.RR) *dns.Msg {
	m := new(dns.Msg)
	m.SetQuestion(q.N.P, wc.rtype)
	m.Response = true
	m.Answer = []dns.RR{
		&dns.RFC3597{Hdr: dns.RR_Header{Name: q.N.P, Rrtype: wc.rtype, Class: dns.ClassINET, Ttl: 300}, Rdata: "00"},
		&dns.RRSIG{Hdr: dns.RR_Header{Name: q.N.P, Rrtype: dns.TypeRRSIG, Class: dns.ClassINET, Ttl: 300},
			TypeCovered: wc.rtype, Algorithm: dns.ECDSAP256SHA256, Labels: uint8(wc.L), OrigTtl: 300, SignerName: "invalid."},
	}
	m.Ns = ns
	return m
}

// pollute adds foreign / conflicting records to a subset. Returns the new set
// and the mix kind ("" when the addition is benign).
func (zr *zoneRun) pollute(set []dns.RR, nsec3 bool, chain []dns.RR, chain2 []dns.RR) ([]dns.RR, string) {
	rng := zr.rng
	kinds := []string{"zone", "zone", "class", "dup"}
	if nsec3 {
		kinds = append(kinds, "params", "params", "unusable")
	}
	kind := kinds[rng.IntN(len(kinds))]
	switch kind {
	case "zone":
		f := zr.foreign[rng.IntN(len(zr.foreign))]
		var src []dns.RR
		if nsec3 {
			for _, r := range f.NSEC3Chain() {
				src = append(src, r)
			}
		} else {
			// a child's NSEC records are indistinguishable by name from the parent's
			// own and are excluded by RRSIG signer validation upstream of the
			// evaluators (dnssec.usableSignatureCandidate); see FINDINGS.md "scope".
			if f.Apex.IsStrictSubOf(zr.z.Apex) {
				return set, ""
			}
			for _, r := range f.NSECChain() {
				src = append(src, r)
			}
		}
		if len(src) == 0 {
			return set, ""
		}
		k := 1 + rng.IntN(3)
		for i := 0; i < k; i++ {
			idx := rng.IntN(len(src))
			if !nsec3 && rng.IntN(2) == 0 {
				idx = len(src) - 1 // the wrap-around NSEC covers "everything"
			}
			set = append(set, src[idx])
		}
		return set, "zone"
	case "class":
		c := dns.Copy(chain[rng.IntN(len(chain))])
		c.Header().Class = dns.ClassCHAOS
		return append(set, c), "class"
	case "dup":
		if len(set) == 0 {
			return set, ""
		}
		return append(set, dns.Copy(set[rng.IntN(len(set))])), ""
	case "params":
		if len(chain2) == 0 {
			return set, ""
		}
		return append(set, chain2[rng.IntN(len(chain2))]), "params"
	case "unusable":
		c := dns.Copy(chain[rng.IntN(len(chain))]).(*dns.NSEC3)
		c.Iterations = 151
		return append(set, c), ""
	}
	return set, ""
}

func (zr *zoneRun) masks(n int, nRandom int, proofIdx func(q Name) []int) (masks [][]int, exhaustive bool) {
	if n <= exhaustiveMax {
		for m := 1; m < 1<<n; m++ {
			var idx []int
			for i := 0; i < n; i++ {
				if m&(1<<i) != 0 {
					idx = append(idx, i)
				}
			}
			masks = append(masks, idx)
		}
		return masks, true
	}
	rng := zr.rng
	for k := 0; k < nRandom; k++ {
		var idx []int
		switch d := rng.IntN(20); {
		case d < 7: // small
			for _, i := range rng.Perm(n)[:1+rng.IntN(4)] {
				idx = append(idx, i)
			}
		case d < 10: // all but one
			skip := rng.IntN(n)
			for i := 0; i < n; i++ {
				if i != skip {
					idx = append(idx, i)
				}
			}
		case d < 11: // all
			for i := 0; i < n; i++ {
				idx = append(idx, i)
			}
		case d < 16: // the records an honest proof for some universe name uses (+/- one)
			q := zr.U[rng.IntN(len(zr.U))].Eff
			idx = proofIdx(q)
			if len(idx) > 0 && rng.IntN(3) == 0 {
				idx = idx[1:]
			}
			if rng.IntN(2) == 0 {
				idx = append(idx, rng.IntN(n))
			}
		default: // random density
			p := 1 + rng.IntN(9)
			for i := 0; i < n; i++ {
				if rng.IntN(10) < p {
					idx = append(idx, i)
				}
			}
		}
		sort.Ints(idx)
		idx = uniqInts(idx)
		if len(idx) > 0 {
			masks = append(masks, idx)
		}
	}
	return masks, false
}

func uniqInts(s []int) []int {
	out := s[:0]
	for i, v := range s {
		if i == 0 || v != s[i-1] {
			out = append(out, v)
		}
	}
	return out
}

func (zr *zoneRun) runNSEC(nRandom int) {
	z := zr.z
	chainT := z.NSECChain()
	chain := make([]dns.RR, len(chainT))
	owners := make([]Name, len(chainT))
	nexts := make([]Name, len(chainT))
	for i, r := range chainT {
		chain[i] = r
		owners[i] = mustName(r.Hdr.Name)
		nexts[i] = mustName(r.NextDomain)
	}
	covers := func(i int, q Name) bool {
		o, n := owners[i], nexts[i]
		on := canonCmp(o, n)
		qo, qn := canonCmp(q, o), canonCmp(q, n)
		switch {
		case on == 0:
			return qo != 0
		case on < 0:
			return qo > 0 && qn < 0
		}
		return qo > 0 || qn < 0
	}
	proofIdx := func(q Name) []int {
		var idx []int
		for a := q; a.NumLabels() >= z.Apex.NumLabels(); a = a.Parent() {
			w := a.Child([]byte{'*'})
			for i := range chain {
				if owners[i].Equal(a) || covers(i, a) || owners[i].Equal(w) || covers(i, w) {
					idx = append(idx, i)
				}
			}
			if a.IsRoot() {
				break
			}
		}
		sort.Ints(idx)
		return uniqInts(idx)
	}
	masks, exhaustive := zr.masks(len(chain), nRandom, proofIdx)
	if exhaustive {
		zr.t.add("exhaustive_zones/nsec", 1)
	} else {
		zr.t.add("sampled_zones/nsec", 1)
	}
	zr.t.add("subsets/nsec", int64(len(masks)))
	rng := zr.rng
	for _, idx := range masks {
		set := make([]dns.RR, 0, len(idx)+3)
		for _, i := range idx {
			set = append(set, chain[i])
		}
		mix := ""
		if rng.IntN(10) < 3 {
			set, mix = zr.pollute(set, false, chain, nil)
			if mix != "" {
				zr.t.add("polluted_subsets/nsec/"+mix, 1)
			}
		}
		rng.Shuffle(len(set), func(i, j int) { set[i], set[j] = set[j], set[i] })
		// what resolver.authority hands the exact verifiers: the NSEC RRs of the
		// authority section filtered to the validated signer zone. CLASS is bound
		// by RRSIG validation upstream (an RRset of another class has no
		// verifiable signature), so class-polluted records never get this far.
		var exact []dns.RR
		for _, rr := range dnsutil.FilterRRsToZone(set, zr.signer) {
			if rr.Header().Class == dns.ClassINET {
				exact = append(exact, rr)
			}
		}
		var prep []dnssec.PreparedNSEC
		prepOK := true
		for _, rr := range set {
			p, err := dnssec.PrepareAggressiveNSEC(rr.(*dns.NSEC))
			if err != nil {
				prepOK = false
				break
			}
			prep = append(prep, p)
		}
		var aset *dnssec.AggressiveNSECSet
		if prepOK {
			aset, _ = dnssec.NewAggressiveNSECSet(prep, zr.signer)
		}
		in := callIn{z: z, signer: zr.signer}
		for qi := range zr.U {
			in.q = zr.U[qi]
			in.mix = ""
			in.recs = exact
			in.qtype = dns.TypeA
			in.msg = zr.uMsgs[qi][0]
			if len(exact) > 0 {
				zr.observe(eNameErrNSEC, &in)
				if in.q.Dname == nil {
					zr.observe(eDelegNSEC, &in)
				}
				for ti, t := range zr.uTypes[qi] {
					in.qtype, in.msg = t, zr.uMsgs[qi][ti]
					zr.observe(eNodataNSEC, &in)
				}
			}
			in.recs, in.mix = set, mix
			in.prep, in.set = prep, aset
			for ti, t := range zr.uTypes[qi] {
				in.qtype, in.msg = t, zr.uMsgs[qi][ti]
				zr.observe(eAggNSEC, &in)
				if prepOK {
					zr.observe(eAggNSECPrepared, &in)
				}
				if aset != nil {
					zr.observe(eAggNSECSet, &in)
				}
			}
		}
		if len(exact) > 0 {
			for _, wc := range zr.wildQ {
				in.q, in.qtype, in.wildL, in.mix, in.recs = zr.U[wc.qi], wc.rtype, wc.L, "", exact
				in.wildMsg = wildMsg(in.q, wc, exact)
				zr.observe(eWildNSEC, &in)
			}
			in.wildL, in.wildMsg = 0, nil
		}
	}
}

func (zr *zoneRun) runNSEC3(nRandom int) {
	z := zr.z
	chainT := z.NSEC3Chain()
	chain := make([]dns.RR, len(chainT))
	for i, r := range chainT {
		chain[i] = r
	}
	var chain2 []dns.RR
	for _, r := range z.NSEC3Chain2() {
		chain2 = append(chain2, r)
	}
	proofIdx := func(q Name) []int {
		var idx []int
		for a := q; a.NumLabels() >= z.Apex.NumLabels(); a = a.Parent() {
			for _, n := range []Name{a, a.Child([]byte{'*'})} {
				h := nsec3Hash(n, z.salt, z.Spec.Iter)
				for i := range z.chain3 {
					r := &z.chain3[i]
					if string(r.Hash) == string(h) || hashCovered(r.Hash, z.chain3[r.NextIdx].Hash, h) {
						idx = append(idx, i)
					}
				}
			}
			if a.IsRoot() {
				break
			}
		}
		sort.Ints(idx)
		return uniqInts(idx)
	}
	masks, exhaustive := zr.masks(len(chain), nRandom, proofIdx)
	if exhaustive {
		zr.t.add("exhaustive_zones/nsec3", 1)
	} else {
		zr.t.add("sampled_zones/nsec3", 1)
	}
	zr.t.add("subsets/nsec3", int64(len(masks)))
	rng := zr.rng
	for mi, idx := range masks {
		set := make([]dns.RR, 0, len(idx)+3)
		for _, i := range idx {
			set = append(set, chain[i])
		}
		mix := ""
		if rng.IntN(10) < 3 {
			set, mix = zr.pollute(set, true, chain, chain2)
			if mix != "" {
				zr.t.add("polluted_subsets/nsec3/"+mix, 1)
			}
		}
		rng.Shuffle(len(set), func(i, j int) { set[i], set[j] = set[j], set[i] })
		legacy := mi%4 == 0
		in := callIn{z: z, signer: zr.signer, recs: set, mix: mix}
		for qi := range zr.U {
			in.q = zr.U[qi]
			in.qtype, in.msg = dns.TypeA, zr.uMsgs[qi][0]
			zr.observe(eNameErrN3, &in)
			if legacy {
				zr.observe(eNameErrN3Legacy, &in)
			}
			if in.q.Dname == nil {
				zr.observe(eDelegN3, &in)
				if legacy {
					zr.observe(eDelegN3Legacy, &in)
				}
			}
			for ti, t := range zr.uTypes[qi] {
				in.qtype, in.msg = t, zr.uMsgs[qi][ti]
				zr.observe(eNodataN3, &in)
				zr.observe(eAggN3, &in)
				if legacy {
					zr.observe(eNodataN3Legacy, &in)
				}
			}
		}
		for _, wc := range zr.wildQ {
			in.q, in.qtype, in.wildL = zr.U[wc.qi], wc.rtype, wc.L
			in.wildMsg = wildMsg(in.q, wc, set)
			zr.observe(eWildN3, &in)
			if legacy {
				zr.observe(eWildN3Legacy, &in)
			}
		}
		in.wildL, in.wildMsg = 0, nil
	}
}

// layerA runs nWorlds generated worlds (P and C of each as the zone under
// test) on all cores.
func layerA(r *vlib.Run, nWorlds, nRandom, ulimit int) {
	type job struct{ wi int }
	jobs := make(chan job, nWorlds)
	var wg sync.WaitGroup
	for w := 0; w < 16; w++ {
		wg.Add(1)
		go func() {
			defer wg.Done()
			for j := range jobs {
				rng := r.RandN("layerA", j.wi)
				small := j.wi%4 != 3
				ws := genWorld(rng, small)
				w := buildWorld(ws)
				for _, primary := range []string{"P", "C"} {
					zr := newZoneRun(r, ws, w, primary, rng, ulimit)
					zr.t.add("zones", 1)
					zr.runNSEC(nRandom)
					zr.runNSEC3(nRandom)
					zr.t.flush(r)
				}
				r.Progress("layer A: world %d done", j.wi)
			}
		}()
	}
	for i := 0; i < nWorlds; i++ {
		jobs <- job{i}
	}
	close(jobs)
	wg.Wait()
}

// replayA re-executes one recorded Layer A case.
func replayA(r *vlib.Run, c CaseA) {
	w := buildWorld(c.World)
	z := map[string]*Zone{"P": w.P, "C": w.C, "S": w.S}[c.Primary]
	if z == nil {
		r.Fatalf("replay: bad primary %q", c.Primary)
	}
	e := entryIndex(c.Entry)
	if e < 0 {
		r.Fatalf("replay: unknown entry %q", c.Entry)
	}
	in := callIn{z: z, signer: c.Signer, mix: c.Mix, qtype: c.QType, wildL: c.WildLabel}
	for _, s := range c.Records {
		rr, err := dns.NewRR(s)
		if err != nil || rr == nil {
			r.Fatalf("replay: record %q: %v", s, err)
		}
		in.recs = append(in.recs, rr)
	}
	in.q = QName{N: mustName(c.QName), Eff: mustName(c.EffName)}
	if c.DnameRR != "" {
		rr, err := dns.NewRR(c.DnameRR)
		if err != nil {
			r.Fatalf("replay: dname: %v", err)
		}
		in.q.Dname = rr.(*dns.DNAME)
	}
	in.msg = mkMsg(in.q, c.QType)
	if e == eWildNSEC || e == eWildN3 || e == eWildN3Legacy {
		in.wildMsg = wildMsg(in.q, wildCase{L: c.WildLabel, rtype: c.QType}, in.recs)
	}
	if e == eAggNSECPrepared || e == eAggNSECSet {
		for _, rr := range in.recs {
			p, err := dnssec.PrepareAggressiveNSEC(rr.(*dns.NSEC))
			if err != nil {
				r.Fatalf("replay: prepare: %v", err)
			}
			in.prep = append(in.prep, p)
		}
		in.set, _ = dnssec.NewAggressiveNSECSet(in.prep, in.signer)
	}
	out := doCall(e, &in)
	r.Eval(1)
	r.Count("replayed", 1)
	fmt.Printf("replay: %s -> accepted=%v secure=%v rcode=%d panicked=%v; truth %+v\n", c.Entry, out.accepted, out.secure, out.rcode, out.panicked, z.TruthOf(in.q.Eff, c.QType).Kind)
	if out.panicked != nil {
		r.Violation(vlib.Sig("panic", c.Entry), fmt.Sprint(out.panicked), c)
		return
	}
	if !out.accepted {
		return
	}
	if sig, what, _ := judge(e, &in, out); sig != "" {
		r.Violation(sig, what, c)
	}
}
