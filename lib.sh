# sourced by ./check and ./setup — environment + build-dir generation
VERIF=${VERIF:-$(cd "$(dirname "${BASH_SOURCE[0]}")" && pwd)}
REPO=${VERIF_REPO:-/repo}
export GOFLAGS=-mod=mod GOPROXY=off GONOSUMDB='github.com/anishathalye/*,go.etcd.io/*'
unset GOTOOLCHAIN GOSUMDB 2>/dev/null || true
export VERIF_DIR=$VERIF VERIF_REPO=$REPO
if [ "$REPO" = /repo ]; then B=$VERIF/build; else
  # a scratch worktree (mutant / seeded change): separate build dir, evidence and replays
  B=$VERIF/build/alt/$(echo "$REPO" | tr '/' '_')
  export VERIF_EVIDENCE_DIR=$B/evidence VERIF_REPLAY_DIR=$B/replays
fi

# gen_build: (re)generate build/overlay.json, build/go.mod, build/go.sum from the
# current /repo tree and the files under harness/ and hooks/. Atomic (tmp + mv).
gen_build() {
  mkdir -p "$B/bin" "$B/logs" "$B/race" "$B/tmp"
  local t; t=$(mktemp "$B/tmp/ov.XXXXXX")
  {
    echo '{"Replace": {'
    local first=1 f rel
    while IFS= read -r f; do
      rel=${f#$VERIF/harness/}
      [ $first = 1 ] || echo ','
      first=0
      printf '  "%s/zzverif/%s": "%s"' "$REPO" "$rel" "$f"
    done < <(find "$VERIF/harness" -type f -name '*.go' | sort)
    while IFS= read -r f; do
      rel=${f#$VERIF/hooks/}
      [ $first = 1 ] || echo ','
      first=0
      printf '  "%s/%s": "%s"' "$REPO" "$rel" "$f"
    done < <(find "$VERIF/hooks" -type f -name '*.go' | sort)
    echo
    echo '}}'
  } > "$t"
  mv -f "$t" "$B/overlay.json"
  t=$(mktemp "$B/tmp/mod.XXXXXX")
  { cat "$REPO/go.mod"; echo; echo 'require github.com/anishathalye/porcupine v1.3.0'; } > "$t"
  if ! cmp -s "$t" "$B/go.mod" 2>/dev/null; then mv -f "$t" "$B/go.mod"; else rm -f "$t"; fi
  # go.sum: start from the repo's, keep porcupine lines go already added
  if [ ! -f "$B/go.sum" ] || [ "$REPO/go.sum" -nt "$B/go.sum" ]; then
    t=$(mktemp "$B/tmp/sum.XXXXXX")
    { cat "$REPO/go.sum"; [ -f "$B/go.sum" ] && grep -h 'anishathalye/porcupine' "$B/go.sum"; } | sort -u > "$t"
    mv -f "$t" "$B/go.sum"
  fi
}

# vbuild <pkgdir-under-harness> <out> [extra go build flags...]
vbuild() {
  local pkg=$1 out=$2; shift 2
  ( cd "$REPO" && go build -overlay="$B/overlay.json" -modfile="$B/go.mod" -tags verif "$@" -o "$out" "./zzverif/$pkg/" )
}
