#!/bin/bash
# tools/keep_seed.sh <src dir> <PROPERTY> <name> <demo pkg dir> <needs text>
# copies patch.diff + demos + notes into /verif/seeded/<PROPERTY>-<name>/ and writes meta.json
src=$1; P=$2; name=$3; pkg=$4; needs=$5
dst=/verif/seeded/$P-$name; mkdir -p $dst
cp $src/patch.diff $dst/; cp $src/*_test.go $src/*.go $src/notes.md $dst/ 2>/dev/null
python3 - "$dst" "$P" "$name" "$pkg" "$needs" <<'PY'
import json,sys,os,subprocess
dst,P,name,pkg,needs=sys.argv[1:6]
files=subprocess.run(['grep','-h','^+++ b/',dst+'/patch.diff'],capture_output=True,text=True).stdout.split()
meta={"property":P,"name":name,"breaks":P,"files_touched":[f[2:] for f in files if f.startswith('b/')],
 "demo":{"package_dir":pkg,"files":[f for f in os.listdir(dst) if f.endswith('_test.go')]},
 "needs_to_manifest":needs,
 "confirmed":{"by":"coordinator, scratch worktree via tools/verify_seed.sh","demo_pristine":"pass","demo_patched":"fail","touched_pkg_tests_patched":"pass","full_suite_patched":"pending"},
 "detected_by":[]}
json.dump(meta,open(dst+'/meta.json','w'),indent=1)
PY
echo kept $dst
