#!/bin/bash
# tools/process_seed.sh <seedwork dir> <PROP> <name> <demo pkg dir> <demo file> <run regex> <needs text>
# verify (scratch worktree) -> keep under /verif/seeded/<PROP>-<name>/ -> log
set -u
src=$1; P=$2; name=$3; pkg=$4; demo=$5; run=$6; needs=$7
log=/verif/build/logs/seeds/$P-$name.log; mkdir -p /verif/build/logs/seeds
/verif/tools/verify_seed.sh "$src" "$pkg" "$demo" "$run" > $log 2>&1
pr=$(sed -n '/== pristine demo/,/== build/p' $log | grep -c '^ok')
pa=$(sed -n '/== patched demo/,/== existing/p' $log | grep -c '^FAIL\|^--- FAIL')
ex=$(sed -n '/== existing tests/,$p' $log | grep -c '^FAIL\|^--- FAIL\|panic:')
echo "$P-$name pristine_ok=$pr patched_fail=$pa existing_fail=$ex"
if [ $pr -ge 1 ] && [ $pa -ge 1 ] && [ $ex -eq 0 ]; then
  /verif/tools/keep_seed.sh "$src" "$P" "$name" "$pkg" "$needs" >/dev/null
  python3 - "$P" "$name" "$run" <<'PY'
import json,sys
P,name,run=sys.argv[1:4]
p=f'/verif/seeded/{P}-{name}/meta.json'; m=json.load(open(p)); m['demo']['run_regex']=run
m['confirmed']['repo_head']=__import__('subprocess').run(['git','-C','/repo','rev-parse','--short','HEAD'],capture_output=True,text=True).stdout.strip()
json.dump(m,open(p,'w'),indent=1)
PY
  echo "  KEPT"
else
  echo "  NOT KEPT (see $log)"
fi
