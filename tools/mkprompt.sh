#!/bin/bash
# tools/mkprompt.sh c05 → prints the full builder prompt
id=$1; U=$(echo $id | tr a-z A-Z)
d=/verif/tools/prompts
sed "s/CXX/$U/g; s/cXX/$id/g" $d/common_head.txt; echo; cat $d/$id.txt; sed "s/CXX/$U/g; s/cXX/$id/g" $d/common_tail.txt
