#!/usr/bin/env python3
"""tools/matrix.py — read build/logs/selfcheck/*.log, update seeded/*/meta.json (detected_by) and
mutants result cache tools/selfcheck_results.json, and (re)generate DESIGN.md §9 between the markers
<!-- MATRIX:BEGIN --> and <!-- MATRIX:END -->."""
import json,glob,re,os,sys
root='/verif'
res_p=f'{root}/tools/selfcheck_results.json'
res=json.load(open(res_p)) if os.path.exists(res_p) else {}
for log in sorted(glob.glob(f'{root}/build/logs/selfcheck/*.log'),key=os.path.getmtime):
    prop=os.path.basename(log)[:-4].split('.')[0]
    for l in open(log):
        m=re.match(r'^(CAUGHT|MISSED\((\d+)\)|NOAPPLY)\s+(\S+)(?:\s+\((?:signature:\s*)?(.*)\))?',l)
        if not m: continue
        st,path,sig=m.group(1),m.group(3),(m.group(4) or '').strip()
        rel=os.path.relpath(path,root)
        res[f'{prop}:{rel}']={'property':prop,'patch':rel,'status':'CAUGHT' if st=='CAUGHT' else st,'signature':sig}
json.dump(res,open(res_p,'w'),indent=1,sort_keys=True)
# seeded metas
rows=[]
for d in sorted(glob.glob(f'{root}/seeded/*/')):
    mp=d+'meta.json'
    if not os.path.exists(mp): continue
    m=json.load(open(mp)); P=m['property']; rel=os.path.relpath(d+'patch.diff',root)
    r=res.get(f'{P}:{rel}')
    if not (r and r['status']=='CAUGHT'):
        # caught by another property's check? (run explicitly: ./selfcheck <other> quick <patch>)
        for k,v in res.items():
            if v['patch']==rel and v['status']=='CAUGHT':
                r=dict(v); break
    if r and r['status']=='CAUGHT':
        m['detected_by']=[{'check':f"./check {r['property']} quick",'signature':r['signature']}]
    elif r:
        m['detected_by']=[]; m['missed_by']=f'./check {P} quick ({r["status"]})'
    json.dump(m,open(mp,'w'),indent=1)
    rows.append((P,os.path.basename(d.rstrip('/')),m.get('needs_to_manifest',''),r))
out=['| seeded change | needs, in order to manifest | quick check | catching signature |','|---|---|---|---|']
for P,name,needs,r in rows:
    st='not run yet' if not r else ('**CAUGHT**' if r['status']=='CAUGHT' else '**MISSED**')
    chk=r['property'] if r else P
    out.append(f"| `{name}` | {needs} | `./check {chk} quick`: {st} | {('`'+r['signature']+'`') if r and r['signature'] else ''} |")
# mutants summary per property
mut={}
for k,v in res.items():
    if '/mutants/' in '/'+v['patch'] or v['patch'].startswith('mutants/'):
        a=mut.setdefault(v['property'],[0,0]); a[0]+= v['status']=='CAUGHT'; a[1]+=1
out.append('')
out.append('Author-written mutants (`mutants/<id>/*.patch`, `./selfcheck <id>`): '+', '.join(f'{p} {a[0]}/{a[1]}' for p,a in sorted(mut.items()))+' caught.')
txt='\n'.join(out)
dp=f'{root}/DESIGN.md'; s=open(dp).read()
if '<!-- MATRIX:BEGIN -->' in s:
    s=re.sub(r'<!-- MATRIX:BEGIN -->.*<!-- MATRIX:END -->','<!-- MATRIX:BEGIN -->\n'+txt.replace('\\','\\\\')+'\n<!-- MATRIX:END -->',s,flags=re.S)
    open(dp,'w').write(s)
print(txt)
