#!/usr/bin/env python3
"""tools/baseline_check.py [repo_dir] — run the repo's pinned test suite (guard OFF) and compare with
/root/.vp/BASELINE.json stable_pass. Exit 0 iff every stable_pass test passed."""
import json, subprocess, sys, os
repo = sys.argv[1] if len(sys.argv) > 1 else '/repo'
base = json.load(open('/root/.vp/BASELINE.json'))
want = set(base['stable_pass'])
env = dict(os.environ, GOFLAGS='-mod=mod', GOPROXY='off')
out = '/tmp/baseline_check_%d.json' % os.getpid()
with open(out, 'w') as f:
    subprocess.run(['go', 'test', '-json', '-vet=off', '-count=1', '-timeout', '25m', './...'], cwd=repo, env=env, stdout=f, stderr=subprocess.DEVNULL)
passed, failed = set(), set()
for l in open(out):
    try: e = json.loads(l)
    except Exception: continue
    t = e.get('Test')
    if not t: continue
    k = e['Package'] + '::' + t
    if e['Action'] == 'pass': passed.add(k)
    elif e['Action'] == 'fail': failed.add(k)
missing = sorted(want - passed)
print('stable_pass=%d passed=%d failed=%d missing_from_pass=%d' % (len(want), len(passed), len(failed), len(missing)))
for k in missing[:40]: print('  NOT PASSED:', k, '(FAILED)' if k in failed else '(not run)')
os.remove(out)
sys.exit(1 if missing else 0)
