#!/usr/bin/env python3
"""tools/kf.py fixed <commit> <property> <signature> [...more signatures]  — mark known findings as fixed by a /repo commit
   tools/kf.py list"""
import json,sys
p='/verif/known_findings.json'; k=json.load(open(p))
if sys.argv[1]=='list':
    for e in k['findings']: print(e['property'],e['status'],e.get('commit') or '-',e['signature'])
elif sys.argv[1]=='fixed':
    commit,prop,sigs=sys.argv[2],sys.argv[3],sys.argv[4:]
    for s in sigs:
        hit=[e for e in k['findings'] if e['property']==prop and e['signature']==s]
        if not hit: print('NOT FOUND',prop,s); continue
        for e in hit:
            e['status']='fixed'; e['commit']=commit
            e['fixed_line']=f"fixed: property={prop} {commit} {s}"
    json.dump(k,open(p,'w'),indent=1); print('ok')
