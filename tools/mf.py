#!/usr/bin/env python3
"""tools/mf.py — regenerate MANIFEST.json from tools/checks.json (claimed checks) and properties.jsonl.
A property is claimed only if it is listed in checks.json with "claimed": true; others go to not_applicable
with the given reason."""
import json
props=[json.loads(l) for l in open('/verif/properties.jsonl')]
tbl=json.load(open('/verif/tools/checks.json'))
b=json.load(open('/root/.vp/BASELINE.json'))
m={"version":1,"setup_cmd":"./setup",
 "hooks":{"guard":"verif",
  "enable":"go build -tags verif -overlay=/verif/build/overlay.json -modfile=/verif/build/go.mod ./zzverif/<id>/ (cwd=/repo). The overlay only ADDS files: harness packages under zzverif/ and in-package export files <pkg>/zz_verif_*.go (each '//go:build verif') taken from /verif/hooks; no file of /repo is replaced or edited, so every check compiles /repo's current working tree and the guard-off build is the untouched repository",
  "baseline_off_cmd":b["cmd"],"source_commits":tbl.get("source_commits",[]),"add_only":True},
 "engines":[{"name":"vlib","path":"harness/vlib","serves_properties":[c for c,v in tbl["checks"].items() if v.get("claimed")],"kind_free_text":"runtime-monitoring core: seeded PCG streams, three-valued verdicts, evidence writer, known-findings filter, child-process merge, Go race-detector log scanner"},
  {"name":"stack","path":"harness/stack","serves_properties":[c for c,v in tbl["checks"].items() if v.get("claimed") and "stack" in v.get("uses",[])],"kind_free_text":"real sdns middleware pipeline + server in-process with a scripted stub resolver; decoded, strict-wire and socket entries"},
  {"name":"authsim","path":"harness/authsim","serves_properties":[c for c,v in tbl["checks"].items() if v.get("claimed") and "authsim" in v.get("uses",[])],"kind_free_text":"scripted authoritative DNS universe (zonemodel ground truth, fault/tamper scripts, packet log) driving the full production resolver"}],
 "checks":[],"notes":tbl.get("notes",""),"not_applicable":[]}
for p in props:
    pid=p["id"]; v=tbl["checks"].get(pid)
    if v and v.get("claimed"):
        m["checks"].append({"property_id":pid,"quick_cmd":f"./check {pid} quick","thorough_cmd":f"./check {pid} thorough",
          "evidence_file":f"/verif/evidence/{pid}.json","replay_cmd_template":f"./check {pid} quick --replay {{path}}","engine":"vlib",
          "level_claimed":{"category":v["level"],"text":v["text"],"design_ref":f"DESIGN.md §4 {pid}"},
          "level_note":v["note"],"technique":v["technique"]})
    else:
        m["not_applicable"].append({"property_id":pid,"reason":(v or {}).get("reason","runtime monitor not built yet (work in progress; DESIGN.md §4 describes the planned monitor)")})
json.dump(m,open('/verif/MANIFEST.json','w'),indent=1)
import jsonschema
jsonschema.validate(m,json.load(open('/root/.vp/MANIFEST.schema.json')))
print("MANIFEST ok: claimed",[c["property_id"] for c in m["checks"]])
