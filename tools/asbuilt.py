#!/usr/bin/env python3
"""tools/asbuilt.py — regenerate the 'as built' table of DESIGN.md §4 (between <!-- ASBUILT:BEGIN/END -->)
from evidence/*.json, harness/*/build.conf, tools/selfcheck_results.json and seeded/*/meta.json."""
import json,glob,os,re
root='/verif'
res=json.load(open(f'{root}/tools/selfcheck_results.json')) if os.path.exists(f'{root}/tools/selfcheck_results.json') else {}
rows=['| id | entry binary (variants) | quick: evaluations / distinct non-trivial / wall | author mutants caught | seeded changes caught |','|---|---|---|---|---|']
for i in range(1,21):
    P=f'C{i:02d}'; h=f'{root}/harness/c{i:02d}'
    var='plain'
    if os.path.exists(h+'/build.conf'):
        m=re.search(r'^VARIANTS="([^"]*)"',open(h+'/build.conf').read(),re.M)
        if m: var=m.group(1)
    ev=json.load(open(f'{root}/evidence/{P}.json')) if os.path.exists(f'{root}/evidence/{P}.json') else None
    q='-' if not ev else f"{ev['coverage']['evaluations']:,} / {ev['coverage']['distinct_nontrivial']:,} / {ev['wall_s']} s ({ev['tier']})"
    mu=[v for v in res.values() if v['property']==P and v['patch'].startswith('mutants/')]
    se=[v for v in res.values() if v['property']==P and v['patch'].startswith('seeded/')]
    nseed=len(glob.glob(f'{root}/seeded/{P}-*/'))
    rows.append(f"| {P} | `c{i:02d}` ({var}) | {q} | {sum(v['status']=='CAUGHT' for v in mu)}/{len(mu)} | {sum(v['status']=='CAUGHT' for v in se if os.path.exists(root+'/'+v['patch']))}/{nseed} |")
txt='\n'.join(rows)
p=f'{root}/DESIGN.md'; s=open(p).read()
if '<!-- ASBUILT:BEGIN -->' in s:
    s=re.sub(r'<!-- ASBUILT:BEGIN -->.*<!-- ASBUILT:END -->',lambda m:'<!-- ASBUILT:BEGIN -->\n'+txt+'\n<!-- ASBUILT:END -->',s,flags=re.S)
    open(p,'w').write(s)
print(txt)
