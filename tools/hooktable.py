#!/usr/bin/env python3
"""Regenerate the DESIGN.md §2.3 hook table from /verif/hooks (between the table header and the first blank line after it)."""
import os,re,sys
root='/verif/hooks'
rows=[]
for d,_,fs in os.walk(root):
    for f in sorted(fs):
        if not f.endswith('.go'): continue
        p=os.path.join(d,f); src=open(p).read()
        names=[]
        for m in re.finditer(r'^func\s+(?:\(\s*\w*\s*\*?(\w+)[^)]*\)\s*)?(\w+)\s*[\(\[]',src,re.M):
            recv,name=m.groups()
            names.append((recv+'.' if recv else '')+name)
        rel=os.path.relpath(p,root)
        ex=' '.join(names[:6])+(' …' if len(names)>6 else '')
        rows.append((rel,len(names),ex))
rows.sort()
tab=['| overlay file | funcs | examples |','|---|---|---|']+['| `%s` | %d | %s |'%r for r in rows]
lines=open('/verif/DESIGN.md').read().split('\n')
i=lines.index('| overlay file | funcs | examples |')
j=i
while lines[j].startswith('|'): j+=1
lines[i:j]=tab
open('/verif/DESIGN.md','w').write('\n'.join(lines))
print(len(rows),'hook files',sum(r[1] for r in rows),'functions')
