#!/bin/bash
# tools/verify_seed.sh <dir with patch.diff + demo> <repo-relative pkg dir for demo test> <demo test file> [go test -run regex] [extra pkgs to test...]
# Confirms in a scratch worktree: patch applies & builds; demo FAILS with patch, PASSES without; existing tests of touched pkgs pass with patch.
set -u
d=$1; pkg=$2; demo=$3; run=${4:-.}; shift 4 2>/dev/null || shift $#
export GOFLAGS=-mod=mod GOPROXY=off
wt=$(mktemp -d /tmp/vseed-XXXXXX); rmdir $wt
git -C /repo worktree add -q --detach $wt HEAD || exit 2
trap 'git -C /repo worktree remove --force $wt; git -C /repo worktree prune' EXIT
cd $wt
cp "$d/$demo" "$pkg/zz_seed_demo_test.go"
echo "== pristine demo (must PASS)"; go test -count=1 -run "$run" ./$pkg/ 2>&1 | tail -3
git apply "$d/patch.diff" || { echo "PATCH DOES NOT APPLY"; exit 1; }
echo "== build"; go build ./... 2>&1 | tail -3
echo "== patched demo (must FAIL)"; go test -count=1 -run "$run" ./$pkg/ 2>&1 | tail -6
rm "$pkg/zz_seed_demo_test.go"
touched=$(git diff --name-only | xargs -n1 dirname | sort -u | sed 's|^|./|; s|$|/...|' | tr '\n' ' ')
echo "== existing tests with patch: $touched $*"; go test -count=1 $touched "$@" 2>&1 | tail -15
